(* Lmmt/SoundProg.v — type soundness of whole programs: global initialisation (the function table and its signatures grow
   together), the lets and outputs of dsp, one sample, a run.  An accepted program never answers Stuck, and every output
   row has as many numbers as dsp has outputs. *)
From Coq Require Import List ZArith NArith Bool Lia.
From Mimium Require Import Lmmm.Syntax Lmmm.Ref Lmmx.Syntax Lmmx.Ref.
From Mimium Require Import Lmmt.Types Lmmt.Check Lmmt.Typing Lmmt.SoundBind Lmmt.SoundStep Lmmt.SoundEval.
Import ListNotations.

Section Prog.
  Variable an : annots.
  Hypothesis Hcf : cfg_strict an.

  Ltac envmono := eapply env_ok_mono; [ | | eassumption]; eauto using ext_trans with lmmt.

  Lemma sig_of_ptys : forall params rt, sg_ptys (sig_of an params rt) = map (an_ty an) (map fst params).
  Proof. intros. unfold sg_ptys, sig_of. cbn. rewrite !map_map. reflexivity. Qed.

  Lemma defaults_par_ok : forall G params rt, defaults_ok an G params = true ->
    Forall2 (par_ok an G) params (sg_params (sig_of an params rt)).
  Proof.
    intros G params rt. unfold sig_of, defaults_ok. rewrite (proj2 (proj2 Hcf)). cbn [sg_params orb].
    induction params as [|[x d] ps IH]; intro H; cbn; constructor.
    - cbn in H. apply andb_true_iff in H. destruct H as [H1 _]. split; [|split]; cbn; auto.
      destruct d as [de|]; auto. destruct (tc an G de) as [t|]; try discriminate. apply (proj1 Hcf) in H1. subst. reflexivity.
    - apply IH. cbn in H. apply andb_true_iff in H. tauto.
  Qed.

  (* ---- global initialisation ---- *)
  Lemma xinit_sound : forall fuel gs G r ft sigs w SV SC G',
    tc_globals an gs G = Some G' -> env_ok SV sigs G r -> wok an ft sigs SV SC w ->
    res_ok (fun x => let '(r', ft', w') := x in
              exists sigs' SV' SC', env_ok SV' sigs' G' r' /\ wok an ft' sigs' SV' SC' w')
           (xinit fuel gs r ft w).
  Proof.
    intros fuel. induction gs as [|[name params body|p e] gs IH]; intros G r ft sigs w SV SC G' Htc He Hw; cbn [xinit].
    - cbn in Htc. inversion Htc; subst. cbn. eauto.
    - cbn [tc_globals] in Htc.
      set (Gself := match rlookup name (an_ret an) with
                    | Some rt => (name, NFun (sig_of an params rt)) :: G
                    | None => (name, NHidden) :: G
                    end) in *.
      destruct (tc an (bind_tys (map fst params) (map (an_ty an) (map fst params)) Gself) body) as [rt|] eqn:Eb; try discriminate.
      match type of Htc with (if ?c then _ else _) = _ => destruct c eqn:Ec; try discriminate end.
      apply andb_true_iff in Ec. destruct Ec as [Ec Eret]. apply andb_true_iff in Ec. destruct Ec as [Ec Edef].
      set (sg := sig_of an params rt) in *.
      set (r' := (name, BFun (length ft)) :: r).
      assert (Hlen : length ft = length sigs) by (destruct Hw as (_ & _ & Hf); eapply Forall2_len; eauto).
      assert (Hnth : nth_error (sigs ++ [sg]) (length ft) = Some sg) by (rewrite Hlen, nth_error_app2, Nat.sub_diag; auto).
      assert (He' : env_ok SV (sigs ++ [sg]) G r) by envmono.
      assert (Hself : env_ok SV (sigs ++ [sg]) Gself r').
      { unfold Gself, r'. destruct (rlookup name (an_ret an)) as [rt'|].
        - apply (proj1 Hcf) in Eret. subst rt'. apply env_ok_cons; auto. cbn. eauto.
        - apply env_ok_cons; auto. exact I. }
      eapply (IH ((name, NFun sg) :: G) r' (ft ++ [mkF params body r']) (sigs ++ [sg]) w SV SC G' Htc).
      + unfold r'. apply env_ok_cons; auto. cbn. eauto.
      + apply wok_new_fun; auto. exists Gself. split; [|split]; cbn [fe_env fe_params fe_body].
        * exact Hself.
        * apply defaults_par_ok. exact Edef.
        * unfold sg. rewrite sig_of_ptys. exact Eb.
    - cbn [tc_globals] in Htc.
      destruct (tc an G e) as [t|] eqn:E1; try discriminate.
      destruct (tc_pat p t G) as [G1|] eqn:Ep; try discriminate.
      eapply res_ok_bind; [eapply (xeval_sound an ft sigs Hcf 0%Z fuel); eauto|].
      intros [[v k] w1] (SV1 & SC1 & X1 & Y1 & Hw1 & Hv1).
      assert (He1 : env_ok SV1 sigs G r) by envmono.
      destruct (bind_pat_sound an ft sigs p t G G1 Ep v r w1 SV1 SC1 Hv1 He1 Hw1) as (r' & w2 & SV2 & Eb & X2 & Hw2 & He2).
      rewrite Eb. cbn [rbind]. eapply IH; eauto.
  Qed.

  (* ---- dsp ---- *)
  Section Dsp.
    Variable ft : list fentry.
    Variable sigs : list fsig.
    Variable ev : evaluator.
    Hypothesis Hev : ev_sound an ft sigs ev.

    Lemma xlets_sound : forall lets G r s i w SV SC G',
      tc_lets an lets G = Some G' -> env_ok SV sigs G r -> wok an ft sigs SV SC w ->
      res_ok (fun x => let '(r', _, w') := x in
                exists SV' SC', ext SV SV' /\ ext SC SC' /\ wok an ft sigs SV' SC' w' /\ env_ok SV' sigs G' r')
             (xlets ev r lets s i w).
    Proof.
      induction lets as [|[p e] lets IH]; intros G r s i w SV SC G' Htc He Hw; cbn [xlets].
      - cbn in Htc. inversion Htc; subst. cbn. exists SV, SC. split4; auto with lmmt.
      - cbn [tc_lets] in Htc.
        destruct (tc an G e) as [t|] eqn:E1; try discriminate.
        destruct (tc_pat p t G) as [G1|] eqn:Ep; try discriminate.
        eapply res_ok_bind; [eapply Hev; eauto|].
        intros [[v k] w1] (SV1 & SC1 & X1 & Y1 & Hw1 & Hv1).
        assert (He1 : env_ok SV1 sigs G r) by envmono.
        destruct (bind_pat_sound an ft sigs p t G G1 Ep v r w1 SV1 SC1 Hv1 He1 Hw1) as (r' & w2 & SV2 & Eb & X2 & Hw2 & He2).
        rewrite Eb. cbn [rbind].
        eapply res_ok_bind; [eapply (IH G1 r' s (S i) w2 SV2 SC1); eauto|].
        intros [[r'' ks] w3] (SV3 & SC3 & X3 & Y3 & Hw3 & He3). cbn.
        exists SV3, SC3. split4; auto; repeat (eapply ext_trans; eauto).
    Qed.

    Lemma xouts_sound : forall outs G r s i w SV SC,
      forallb (fun e => is_num (tc an G e)) outs = true -> env_ok SV sigs G r -> wok an ft sigs SV SC w ->
      res_ok (fun x => let '(zs, _, w') := x in
                length zs = length outs /\ exists SV' SC', ext SV SV' /\ ext SC SC' /\ wok an ft sigs SV' SC' w')
             (xouts ev r outs s i w).
    Proof.
      induction outs as [|e outs IH]; intros G r s i w SV SC Htc He Hw; cbn [xouts].
      - cbn. split; auto. exists SV, SC. split; [|split]; auto with lmmt.
      - cbn [forallb] in Htc. apply andb_true_iff in Htc. destruct Htc as [H1 H2].
        destruct (tc an G e) as [[| | | | |]|] eqn:E1; try discriminate.
        eapply res_ok_bind; [eapply Hev; eauto|].
        intros [[v k] w1] (SV1 & SC1 & X1 & Y1 & Hw1 & Hv1).
        apply vtyp_num_inv in Hv1. destruct Hv1 as (z & ->). cbn [as_num rbind].
        eapply res_ok_bind; [eapply (IH G r s (S i) w1 SV1 SC1); eauto; envmono|].
        intros [[zs ks] w2] (Hl & SV2 & SC2 & X2 & Y2 & Hw2). cbn.
        split; [f_equal; exact Hl|]. exists SV2, SC2. split; [|split]; auto; eapply ext_trans; eauto.
    Qed.
  End Dsp.

  Lemma nums_typed : forall SC inputs, Forall2 (vtyp SC) (repeat TNum (length inputs)) (map VNum inputs).
  Proof. intros SC inputs. induction inputs; cbn; constructor; auto. exact I. Qed.

  (* what tc_prog establishes about dsp *)
  Definition dsp_typed (p : xprogram) (Gg : tenv) : Prop :=
    exists G1, tc_lets an (x_lets p) (bind_tys (x_inputs p) (repeat TNum (length (x_inputs p))) Gg) = Some G1 /\
               forallb (fun e => is_num (tc an G1 e)) (x_outs p) = true.

  Definition sample_post (p : xprogram) (ft : list fentry) (sigs : list fsig) (SV SC : list ty) (w' : world) : Prop :=
    exists SV' SC', ext SV SV' /\ ext SC SC' /\ wok an ft sigs SV' SC' w'.

  Lemma xsample_sound : forall fuel p Gg genv ft sigs now inputs s w SV SC,
    dsp_typed p Gg -> env_ok SV sigs Gg genv -> wok an ft sigs SV SC w -> length inputs = length (x_inputs p) ->
    res_ok (fun x => let '(zs, _, w') := x in length zs = length (x_outs p) /\ sample_post p ft sigs SV SC w')
           (xsample fuel p genv ft now inputs s w).
  Proof.
    intros fuel p Gg genv ft sigs now inputs s w SV SC (G1 & Hlets & Houts) He Hw Hlen. unfold xsample.
    assert (Hvs : Forall2 (vtyp SC) (repeat TNum (length (x_inputs p))) (map VNum inputs)) by (rewrite <- Hlen; apply nums_typed).
    destruct (bind_params_sound an ft sigs (x_inputs p) (repeat TNum (length (x_inputs p))) (map VNum inputs) Gg genv w SV SC
                (eq_sym (repeat_length _ _)) Hvs He Hw) as (r0 & w0 & SV0 & Eb & X0 & Hw0 & He0).
    rewrite Eb. cbn [rbind].
    pose proof (xeval_sound an ft sigs Hcf now fuel) as Hev.
    eapply res_ok_bind; [eapply (xlets_sound ft sigs _ Hev); eauto|].
    intros [[r ks1] w1] (SV1 & SC1 & X1 & Y1 & Hw1 & He1).
    eapply res_ok_bind; [eapply (xouts_sound ft sigs _ Hev); eauto|].
    intros [[zs ks2] w2] (Hl & SV2 & SC2 & X2 & Y2 & Hw2). cbn.
    split; auto. exists SV2, SC2. split; [|split]; auto; repeat (eapply ext_trans; eauto).
  Qed.

  Lemma xsamples_sound : forall fuel p Gg genv ft sigs rows t0 s w SV SC,
    dsp_typed p Gg -> env_ok SV sigs Gg genv -> wok an ft sigs SV SC w ->
    Forall (fun row => length row = length (x_inputs p)) rows ->
    res_ok (fun x => let '(os, _, w') := x in
              Forall (fun o => length o = length (x_outs p)) os /\ length os = length rows /\ sample_post p ft sigs SV SC w')
           (xsamples fuel p genv ft t0 rows s w).
  Proof.
    intros fuel p Gg genv ft sigs rows. induction rows as [|row rows IH]; intros t0 s w SV SC Hd He Hw Hrows; cbn [xsamples].
    - cbn. split; [|split]; auto. exists SV, SC. split; [|split]; auto with lmmt.
    - inversion Hrows as [|? ? Hr Hrs]; subst.
      eapply res_ok_bind; [eapply xsample_sound; eauto|].
      intros [[o s1] w1] (Hl & SV1 & SC1 & X1 & Y1 & Hw1).
      eapply res_ok_bind; [eapply (IH (t0 + 1)%Z s1 w1 SV1 SC1); eauto; envmono|].
      intros [[os s2] w2] (Hos & Hlen & SV2 & SC2 & X2 & Y2 & Hw2). cbn.
      split; [constructor; auto|]. split; [f_equal; exact Hlen|].
      exists SV2, SC2. split; [|split]; auto; eapply ext_trans; eauto.
  Qed.

  Lemma wok_w0 : wok an [] [] [] [] w0.
  Proof. split; [|split]; constructor. Qed.

  Lemma word_size_dsp_ret : forall n, word_size (dsp_ret n) = n.
  Proof. intros [|[|n]]; try reflexivity. unfold dsp_ret. apply word_size_nums. Qed.

  Lemma tc_prog_inv : forall p info, tc_prog an p = Some info ->
    tc_globals an (x_globals p) [] = Some (ti_genv info) /\ dsp_typed p (ti_genv info) /\
    ti_inputs info = length (x_inputs p) /\ word_size (ti_dsp_ret info) = length (x_outs p).
  Proof.
    intros p info H. unfold tc_prog in H.
    destruct (tc_globals an (x_globals p) []) as [Gg|] eqn:Eg; try discriminate.
    destruct (tc_lets an (x_lets p) _) as [G1|] eqn:El; try discriminate.
    match type of H with (if ?c then _ else _) = _ => destruct c eqn:Ec; try discriminate end.
    apply andb_true_iff in Ec. destruct Ec as [_ Ec]. rewrite (proj2 (proj2 Hcf)) in Ec. inversion H; subst. cbn.
    split; [reflexivity|]. split; [exists G1; auto|]. split; [reflexivity|apply word_size_dsp_ret].
  Qed.

  (* ---- the run ---- *)
  Theorem xrun_full_sound : forall fuel p info rows,
    tc_prog an p = Some info -> Forall (fun row => length row = ti_inputs info) rows ->
    res_ok (fun x => let '(os, _, _) := x in
              Forall (fun o => length o = word_size (ti_dsp_ret info)) os /\ length os = length rows)
           (xrun_full fuel p rows).
  Proof.
    intros fuel p info rows Htc Hrows. destruct (tc_prog_inv p info Htc) as (Hg & Hd & Hi & Ho).
    unfold xrun_full. rewrite Hi in Hrows. rewrite Ho.
    eapply res_ok_bind; [eapply (xinit_sound fuel (x_globals p) [] [] [] [] w0 [] []); eauto using env_ok_nil, wok_w0|].
    intros [[genv ft] w] (sigs & SV & SC & He & Hw).
    eapply res_ok_impl; [eapply xsamples_sound; eauto|].
    intros [[os s] w'] (H1 & H2 & _). auto.
  Qed.

  Theorem xrun_sound : forall fuel p info rows,
    tc_prog an p = Some info -> Forall (fun row => length row = ti_inputs info) rows ->
    res_ok (fun os => Forall (fun o => length o = word_size (ti_dsp_ret info)) os /\ length os = length rows)
           (xrun fuel p rows).
  Proof.
    intros fuel p info rows Htc Hrows. unfold xrun.
    eapply res_ok_bind; [eapply xrun_full_sound; eauto|].
    intros [[os s] w] H. cbn. exact H.
  Qed.

  Lemma xrun_never_stuck : forall p info fuel rows code,
    tc_prog an p = Some info -> Forall (fun row => length row = ti_inputs info) rows -> xrun fuel p rows <> Stuck code.
  Proof.
    intros p info fuel rows code H1 H2 E. pose proof (xrun_sound fuel p info rows H1 H2) as H. rewrite E in H. exact H.
  Qed.

  Lemma xeval_preservation : forall ft sigs now fuel selfv r e s w G t SV SC,
    tc an G e = Some t -> env_ok SV sigs G r -> wok an ft sigs SV SC w ->
    match xeval fuel ft now selfv r e s w with
    | Ok (v, _, w') => exists SV' SC', ext SV SV' /\ ext SC SC' /\ wok an ft sigs SV' SC' w' /\ vtyp SC' t v
    | OutOfFuel => True
    | Stuck _ => False
    end.
  Proof.
    intros ft sigs now fuel selfv r e s w G t SV SC H1 H2 H3.
    pose proof (xeval_sound an ft sigs Hcf now fuel selfv r e s w G t SV SC H1 H2 H3) as H.
    destruct (xeval fuel ft now selfv r e s w) as [[[v k] w']| |c]; exact H.
  Qed.

  (* every reachable state: after the global initialisation and any number of samples (run with any fuel), running on from
     the world reached — with any fuel, any state tree, any sample counter — is again never stuck *)
  Theorem reachable_sound : forall fuel p info rows1 genv ft wi os s w,
    tc_prog an p = Some info -> Forall (fun row => length row = ti_inputs info) rows1 ->
    xinit fuel (x_globals p) [] [] w0 = Ok (genv, ft, wi) ->
    xsamples fuel p genv ft 0%Z rows1 st0 wi = Ok (os, s, w) ->
    forall fuel' t0 s' rows2, Forall (fun row => length row = ti_inputs info) rows2 ->
    res_ok (fun x => let '(os2, _, _) := x in
              Forall (fun o => length o = word_size (ti_dsp_ret info)) os2 /\ length os2 = length rows2)
           (xsamples fuel' p genv ft t0 rows2 s' w).
  Proof.
    intros fuel p info rows1 genv ft wi os s w Htc Hrows1 Hinit Hrun fuel' t0 s' rows2 Hrows2.
    destruct (tc_prog_inv p info Htc) as (Hg & Hd & Hi & Ho). rewrite Hi in *. rewrite Ho.
    pose proof (xinit_sound fuel (x_globals p) [] [] [] [] w0 [] [] _ Hg (env_ok_nil _ _) wok_w0) as H0.
    rewrite Hinit in H0. cbn in H0. destruct H0 as (sigs & SV & SC & He & Hw).
    pose proof (xsamples_sound fuel p _ genv ft sigs rows1 0%Z st0 wi SV SC Hd He Hw Hrows1) as H1.
    rewrite Hrun in H1. cbn in H1. destruct H1 as (_ & _ & SV1 & SC1 & X1 & Y1 & Hw1).
    eapply res_ok_impl; [eapply (xsamples_sound fuel' p _ genv ft sigs rows2 t0 s' w SV1 SC1); eauto; envmono|].
    intros [[os2 s2] w2] (H1 & H2 & _). auto.
  Qed.
End Prog.

(* ---- THE checker: the strict configuration `mkAnn par ret sums` ---- *)
Theorem types_sound : forall par ret sums p info fuel rows,
  tc_prog (mkAnn par ret sums) p = Some info ->
  Forall (fun row => length row = ti_inputs info) rows ->
  match xrun fuel p rows with
  | Ok outs => Forall (fun o => length o = word_size (ti_dsp_ret info)) outs /\ length outs = length rows
  | OutOfFuel => True
  | Stuck _ => False
  end.
Proof. intros par ret sums p info fuel rows. exact (xrun_sound _ (mkAnn_strict par ret sums) fuel p info rows). Qed.

Theorem types_never_stuck : forall par ret sums p info fuel rows code,
  tc_prog (mkAnn par ret sums) p = Some info -> Forall (fun row => length row = ti_inputs info) rows -> xrun fuel p rows <> Stuck code.
Proof. intros par ret sums. exact (xrun_never_stuck _ (mkAnn_strict par ret sums)). Qed.

Theorem types_sound_reachable : forall par ret sums fuel p info rows1 genv ft wi outs s w,
  tc_prog (mkAnn par ret sums) p = Some info -> Forall (fun row => length row = ti_inputs info) rows1 ->
  xinit fuel (x_globals p) [] [] w0 = Ok (genv, ft, wi) ->
  xsamples fuel p genv ft 0%Z rows1 st0 wi = Ok (outs, s, w) ->
  forall fuel' t0 s' rows2, Forall (fun row => length row = ti_inputs info) rows2 ->
  match xsamples fuel' p genv ft t0 rows2 s' w with
  | Ok (outs2, _, _) => Forall (fun o => length o = word_size (ti_dsp_ret info)) outs2 /\ length outs2 = length rows2
  | OutOfFuel => True
  | Stuck _ => False
  end.
Proof.
  intros par ret sums fuel p info rows1 genv ft wi outs s w H1 H2 H3 H4 fuel' t0 s' rows2 H5.
  pose proof (reachable_sound _ (mkAnn_strict par ret sums) fuel p info rows1 genv ft wi outs s w H1 H2 H3 H4 fuel' t0 s' rows2 H5) as H.
  destruct (xsamples fuel' p genv ft t0 rows2 s' w) as [[[o2 s2] w2]| |c]; exact H.
Qed.

Theorem types_preservation : forall par ret sums ft sigs now fuel selfv r e s w G t SV SC,
  let an := mkAnn par ret sums in
  tc an G e = Some t -> env_ok SV sigs G r -> wok an ft sigs SV SC w ->
  match xeval fuel ft now selfv r e s w with
  | Ok (v, _, w') => exists SV' SC', ext SV SV' /\ ext SC SC' /\ wok an ft sigs SV' SC' w' /\ vtyp SC' t v
  | OutOfFuel => True
  | Stuck _ => False
  end.
Proof. intros par ret sums ft sigs. exact (xeval_preservation _ (mkAnn_strict par ret sums) ft sigs). Qed.

(* the lenient configuration accepts at least what its comparisons are reflexive on; in particular it is NOT strict *)
Lemma lenient_not_strict : ~ cfg_strict (mkLenient [] [] []).
Proof. intros [H _]. specialize (H (TTup [TNum]) (TTup [TUnit]) eq_refl). discriminate. Qed.
