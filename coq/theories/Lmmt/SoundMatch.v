(* Lmmt/SoundMatch.v — the typing lemmas behind the rules for sum types, match and multi-word self:
   reading a feedback cell at a well-formed shape gives a value of the shape's type (whatever the cell holds); a typed pattern
   never gets stuck on a typed value; an exhaustive list of typed patterns has a matching arm; the binders of the arm that
   matched are bound to typed cells. *)
From Coq Require Import List ZArith NArith Bool Lia.
From Mimium Require Import Lmmm.Syntax Lmmm.Ref Lmmx.Syntax Lmmx.Ref Lmmx.World Lmmx.MatchSelf.
From Mimium Require Import Lmmt.Types Lmmt.Check Lmmt.Typing Lmmt.SoundBind.
Import ListNotations.

(* ---- self: dec sh s : ty_of_shape sh for every state subtree s ---- *)
Lemma vtyp_tup_intro : forall SC ts vs, Forall2 (vtyp SC) ts vs -> vtyp SC (TTup ts) (VTup vs).
Proof. intros. apply vtyp_tup. assumption. Qed.

Lemma dec_typed : forall sums SC sh s, shape_ok sums sh = true -> vtyp SC (ty_of_shape sh) (dec sh s).
Proof.
  intros sums SC. induction sh as [|shs IH|fs IH|nm cs IH] using shape_ind'; intros s Hok; cbn [shape_ok] in Hok; cbn [dec ty_of_shape].
  - exact I.
  - apply vtyp_tup. change (Forall2 (vtyp SC) (map ty_of_shape shs) (dec_tup s shs 0)). generalize 0 as i.
    induction IH as [|x l Hx _ IHl]; intros i; cbn [map dec_tup]; constructor.
    + apply Hx. cbn [forallb] in Hok. apply andb_true_iff in Hok. tauto.
    + apply IHl. cbn [forallb] in Hok. apply andb_true_iff in Hok. tauto.
  - apply andb_true_iff in Hok. destruct Hok as [_ Hok].
    apply vtyp_rec. change (Forall2 (fvtyp SC) (map (fun fx => (fst fx, ty_of_shape (snd fx))) fs) (dec_rec s fs 0)). generalize 0 as i.
    induction IH as [|x l Hx _ IHl]; intros i; cbn [map dec_rec]; constructor.
    + split; [reflexivity|]. cbn [snd]. apply Hx. cbn [forallb] in Hok. apply andb_true_iff in Hok. tauto.
    + apply IHl. cbn [forallb] in Hok. apply andb_true_iff in Hok. tauto.
  - apply andb_true_iff in Hok. destruct Hok as [Hok _]. apply andb_true_iff in Hok. destruct Hok as [Hne Hok].
    set (t := Z.to_nat (self_of s)). set (tag := if Nat.ltb t (length cs) then t else 0).
    assert (Htag : tag < length cs).
    { unfold tag. destruct (Nat.ltb_spec t (length cs)); [assumption|]. destruct cs; [discriminate|cbn; lia]. }
    apply vtyp_sum. change (exists o, nth_error (map (fun o => match o with Some x => Some (ty_of_shape x) | None => None end) cs) tag = Some o /\
                                     ptyp SC o (dec_pick s cs tag)).
    clearbody tag. clear t Hne. revert tag Htag. induction IH as [|o l Ho _ IHl]; intros tag Htag; [cbn in Htag; lia|].
    cbn [forallb] in Hok. apply andb_true_iff in Hok. destruct Hok as [Hok1 Hok2].
    destruct tag as [|tag]; cbn [map nth_error dec_pick].
    + destruct o as [x|]; eexists; (split; [reflexivity|]); cbn [ptyp]; [apply Ho; exact Hok1|reflexivity].
    + apply IHl; [exact Hok2|]. cbn [length] in Htag. lia.
Qed.

Ltac split4 := split; [|split; [|split]].

Lemma Forall2_in_l : forall A B (P : A -> B -> Prop) l l' a, Forall2 P l l' -> In a l -> exists b, In b l' /\ P a b.
Proof.
  intros A B P l l' a F. induction F as [|x y l l' Hxy _ IH]; intros Hin; [contradiction|].
  destruct Hin as [<-|Hin]; [exists y; split; [now left|exact Hxy]|].
  destruct (IH Hin) as (b & Hb & Hp). exists b. split; [now right|exact Hp].
Qed.

Section Match.
  Variable an : annots.
  Variable ft : list fentry.
  Variable sigs : list fsig.

  (* ---- a typed pattern on a typed value: the test is defined ---- *)
  Lemma mtest_typed : forall m t G G' SC v,
    tc_mpat m t G = Some G' -> vtyp SC t v -> exists b, mtest m v = Ok b.
  Proof.
    intros m. induction m as [z| |tag p|ms IH] using mpat_ind'; intros t G G' SC v Htc Hv; cbn [tc_mpat] in Htc; cbn [mtest].
    - destruct t; try discriminate. apply vtyp_num_inv in Hv. destruct Hv as (z' & ->). eauto.
    - eauto.
    - destruct t as [| | | | |nm cs]; try discriminate. apply vtyp_sum_inv in Hv. destruct Hv as (tag' & pv & o & -> & _ & _). eauto.
    - destruct t as [| |ts| | |]; try discriminate. apply vtyp_tup_inv in Hv. destruct Hv as (vs & -> & Hvs).
      revert ts vs G Htc Hvs. induction IH as [|m ms Hm _ IHms]; intros ts vs G Htc Hvs.
      + destruct ts; try discriminate. inversion Hvs; subst. eauto.
      + destruct ts as [|t ts]; try discriminate. inversion Hvs as [|? v ? vs' Hv1 Hv2]; subst.
        destruct (tc_mpat m t G) as [G1|] eqn:E1; try discriminate.
        destruct (Hm _ _ _ _ _ E1 Hv1) as ([|] & ->).
        * apply (IHms ts vs' G1 Htc Hv2).
        * eauto.
  Qed.

  (* an irrefutable typed pattern matches *)
  Lemma irrefutable_matches : forall m t G G' SC v,
    irrefutable m = true -> tc_mpat m t G = Some G' -> vtyp SC t v -> mtest m v = Ok true.
  Proof.
    induction m as [z| |tag p|ms IH] using mpat_ind'; intros t G G' SC v Hi Htc Hv; cbn [irrefutable] in Hi; try discriminate.
    - reflexivity.
    - cbn [tc_mpat] in Htc. destruct t as [| |ts| | |]; try discriminate. apply vtyp_tup_inv in Hv. destruct Hv as (vs & -> & Hvs).
      cbn [mtest]. revert ts vs G Htc Hvs Hi. induction IH as [|m ms Hm _ IHms]; intros ts vs G Htc Hvs Hi.
      + destruct ts; try discriminate. inversion Hvs; subst. reflexivity.
      + destruct ts as [|t ts]; try discriminate. inversion Hvs as [|? v ? vs' Hv1 Hv2]; subst.
        destruct (tc_mpat m t G) as [G1|] eqn:E1; try discriminate.
        cbn [forallb] in Hi. apply andb_true_iff in Hi. destruct Hi as [Hi1 Hi2].
        rewrite (Hm _ _ _ _ _ Hi1 E1 Hv1). apply (IHms ts vs' G1 Htc Hv2 Hi2).
  Qed.

  (* the binders of a typed pattern that matched are bound to typed cells *)
  Lemma mbind_sound : forall m t G G', tc_mpat m t G = Some G' ->
    forall v r w SV SC, vtyp SC t v -> mtest m v = Ok true -> env_ok SV sigs G r -> wok an ft sigs SV SC w ->
    exists r' w' SV', mbind m v r w = Ok (r', w') /\ ext SV SV' /\ wok an ft sigs SV' SC w' /\ env_ok SV' sigs G' r'.
  Proof.
    induction m as [z| |tag p|ms IH] using mpat_ind'; intros t G G' Htc v r w SV SC Hv Ht He Hw; cbn [tc_mpat] in Htc.
    - destruct t; try discriminate. inversion Htc; subst. exists r, w, SV. cbn. split4; auto with lmmt.
    - inversion Htc; subst. exists r, w, SV. cbn. split4; auto with lmmt.
    - destruct t as [| | | | |nm cs]; try discriminate.
      apply vtyp_sum_inv in Hv. destruct Hv as (tag' & pv & o & -> & En & Hp).
      cbn [mtest] in Ht. inversion Ht as [Heq]. apply Nat.eqb_eq in Heq. subst tag'. rewrite En in Htc.
      destruct o as [t'|]; destruct p as [q|]; try discriminate.
      + cbn [mbind]. cbn [ptyp] in Hp. eapply bind_pat_sound; eauto.
      + inversion Htc; subst. exists r, w, SV. cbn. split4; auto with lmmt.
      + inversion Htc; subst. exists r, w, SV. cbn. split4; auto with lmmt.
    - destruct t as [| |ts| | |]; try discriminate. apply vtyp_tup_inv in Hv. destruct Hv as (vs & -> & Hvs).
      cbn [mtest] in Ht. cbn [mbind].
      revert ts vs G r w SV Htc Hvs Ht He Hw. induction IH as [|m ms Hm _ IHms]; intros ts vs G r w SV Htc Hvs Ht He Hw.
      + destruct ts; try discriminate. inversion Hvs; subst. inversion Htc; subst. exists r, w, SV. split4; auto with lmmt.
      + destruct ts as [|t ts]; try discriminate. inversion Hvs as [|? v ? vs' Hv1 Hv2]; subst.
        destruct (tc_mpat m t G) as [G1|] eqn:E1; try discriminate.
        destruct (mtest m v) as [[|]| |c] eqn:Em; try discriminate.
        destruct (Hm _ _ _ E1 v r w SV SC Hv1 Em He Hw) as (r1 & w1 & SV1 & Eb & Hx & Hw1 & He1). rewrite Eb.
        destruct (IHms ts vs' G1 r1 w1 SV1 Htc Hv2 Ht He1 Hw1) as (r2 & w2 & SV2 & Eb2 & Hx2 & Hw2 & He2).
        exists r2, w2, SV2. split4; auto. eapply ext_trans; eauto.
  Qed.

  (* the types of the arms, and that every pattern is typed against the scrutinee type *)
  Lemma tc_arms_inv : forall G ts arms tys, tc_arms an G ts arms = Some tys ->
    Forall2 (fun a t => exists G', tc_mpat (fst a) ts G = Some G' /\ tc an G' (snd a) = Some t) arms tys.
  Proof.
    intros G ts. induction arms as [|a arms IH]; intros tys H; cbn [tc_arms] in H.
    - inversion H; subst. constructor.
    - destruct (tc_mpat (fst a) ts G) as [G'|] eqn:E1; try discriminate.
      destruct (tc an G' (snd a)) as [t|] eqn:E2; try discriminate.
      change (match tc_arms an G ts arms with Some tl => Some (t :: tl) | None => None end = Some tys) in H.
      destruct (tc_arms an G ts arms) as [tl|] eqn:E3; try discriminate. inversion H; subst.
      constructor; eauto.
  Qed.

  (* exhaustive typed patterns: the first-match search finds an arm, and the arm it finds matched *)
  Lemma find_arm_typed : forall G ts arms tys SC v,
    tc_arms an G ts arms = Some tys -> exhaustive ts (map fst arms) = true -> vtyp SC ts v ->
    exists i m body, find_arm arms v 0 = Ok (i, m, body) /\ nth_error arms i = Some (m, body) /\ mtest m v = Ok true.
  Proof.
    intros G ts arms tys SC v Htc Hex Hv.
    pose proof (tc_arms_inv _ _ _ _ Htc) as Harms.
    (* some arm matches *)
    assert (Hsome : exists m, In m (map fst arms) /\ mtest m v = Ok true).
    { unfold exhaustive in Hex. apply orb_true_iff in Hex. destruct Hex as [Hex|Hex].
      - apply existsb_exists in Hex. destruct Hex as (m & Hin & Hirr). exists m. split; [exact Hin|].
        apply in_map_iff in Hin. destruct Hin as (a & <- & Hin).
        destruct (Forall2_in_l _ _ _ _ _ _ Harms Hin) as (t & _ & G' & E1 & _).
        eapply irrefutable_matches; eauto.
      - destruct ts as [| | | | |nm cs]; try discriminate.
        apply vtyp_sum_inv in Hv. destruct Hv as (tag & p & o & -> & En & _).
        rewrite forallb_forall in Hex. assert (Hlt : tag < length cs) by (apply nth_error_Some; congruence).
        specialize (Hex tag (proj2 (in_seq _ _ _) (conj (Nat.le_0_l _) Hlt))).
        apply existsb_exists in Hex. destruct Hex as (m & Hin & Hc). exists m. split; [exact Hin|].
        destruct m; cbn in Hc; try discriminate. cbn [mtest]. rewrite Hc. reflexivity. }
    (* the search: every test is defined, so the first true one is found *)
    destruct Hsome as (m0 & Hin0 & Hm0).
    assert (G0 : forall i0, exists i m body, find_arm arms v i0 = Ok (i, m, body) /\ nth_error arms (i - i0) = Some (m, body) /\
                                              mtest m v = Ok true /\ i0 <= i).
    { clear Htc Hex. revert tys Harms Hin0. induction arms as [|[m b] arms IH]; intros tys Harms Hin0 i0; [contradiction|].
      inversion Harms as [|? t ? tl (G' & E1 & E2) Hrest]; subst. cbn [fst snd] in *. cbn [find_arm].
      destruct (mtest_typed m ts G G' SC v E1 Hv) as ([|] & Eb); rewrite Eb.
      - exists i0, m, b. rewrite Nat.sub_diag. repeat split; auto.
      - destruct Hin0 as [Heq|Hin0]; [cbn in Heq; subst m0; congruence|].
        destruct (IH tl Hrest Hin0 (S i0)) as (i & m' & b' & E & En & Et & Hle).
        exists i, m', b'. repeat split; auto; try lia.
        replace (i - i0) with (S (i - S i0)) by lia. exact En. }
    destruct (G0 0) as (i & m & body & E & En & Et & _). rewrite Nat.sub_0_r in En. eauto 7.
  Qed.
End Match.
