(* Lmmt/SoundStep.v — one unfolding of the reference semantics preserves typing: if the evaluator used for the recursive
   calls is sound (typed expression, typed environment, typed world |-> not Stuck, typed value, typed extended world),
   so is `xstep` of it.  Sequences of arguments / fields, calls of instances (rule I) and of named functions (rule D),
   named-argument calls with defaults (rule N), application. *)
From Coq Require Import List ZArith NArith Bool Lia.
From Mimium Require Import Lmmm.Syntax Lmmm.Ref Lmmx.Syntax Lmmx.Ref Lmmt.Types Lmmt.Check Lmmt.Typing Lmmt.SoundBind.
Import ListNotations.

Ltac split4 := split; [|split; [|split]].

Section Step.
  Variable an : annots.
  Variable ft : list fentry.
  Variable sigs : list fsig.
  Hypothesis Hcf : cfg_strict an.

  (* a typed result in a typed world that extends the given typings *)
  Definition extends {A} (SV SC : list ty) (w' : world) (P : list ty -> A -> Prop) (a : A) : Prop :=
    exists SV' SC', ext SV SV' /\ ext SC SC' /\ wok an ft sigs SV' SC' w' /\ P SC' a.

  Definition post (SV SC : list ty) (t : ty) (x : val * stree * world) : Prop :=
    let '(v, _, w') := x in extends SV SC w' (fun SC' v => vtyp SC' t v) v.

  Definition ev_sound (ev : evaluator) : Prop :=
    forall selfv r e s w G t SV SC,
      tc an G e = Some t -> env_ok SV sigs G r -> wok an ft sigs SV SC w ->
      res_ok (post SV SC t) (ev selfv r e s w).

  Lemma ev_bot_sound : ev_sound ev_bot.
  Proof. intros selfv r e s w G t SV SC _ _ _. exact I. Qed.

  (* the state of an instance is not typed: replacing it keeps the world typed *)
  Lemma wok_set_clo_state : forall SV SC w id s, wok an ft sigs SV SC w -> wok an ft sigs SV SC (set_clo_state w id s).
  Proof.
    intros SV SC w id s (Hv & Hc & Hf). unfold set_clo_state. destruct (nth_error (w_clos w) id) as [c|] eqn:E.
    - split; [|split]; cbn [w_vars w_clos]; auto.
      destruct (Forall2_nth_l _ _ _ _ _ _ _ Hc E) as (b & Eb & Hb).
      eapply Forall2_set_nth; eauto.
    - split; auto.
  Qed.

  Lemma par_ok_names : forall G ps sps, Forall2 (par_ok an G) ps sps ->
    length (map fst ps) = length (map (fun p : ident * ty * bool => snd (fst p)) sps).
  Proof. intros G ps sps F. induction F; cbn; auto. Qed.

  Section WithRec.
    Variable now : Z.
    Variable rec : evaluator.
    Hypothesis Hrec : ev_sound rec.

    Lemma eval_list_sound : forall es selfv r s i w G ts SV SC,
      omap (fun x => tc an G x) es = Some ts -> env_ok SV sigs G r -> wok an ft sigs SV SC w ->
      res_ok (fun x => let '(vs, _, w') := x in extends SV SC w' (fun SC' vs => Forall2 (vtyp SC') ts vs) vs)
             (eval_list rec selfv r es s i w).
    Proof.
      induction es as [|e es IH]; intros selfv r s i w G ts SV SC Htc He Hw; cbn [eval_list].
      - cbn in Htc. inversion Htc; subst. cbn. exists SV, SC. split4; auto with lmmt.
      - cbn [omap] in Htc. destruct (tc an G e) as [t|] eqn:E1; try discriminate.
        destruct (omap (fun x => tc an G x) es) as [ts'|] eqn:E2; try discriminate. inversion Htc; subst.
        eapply res_ok_bind; [eapply Hrec; eauto|].
        intros [[v k] w1] (SV1 & SC1 & X1 & Y1 & Hw1 & Hv1).
        eapply res_ok_bind; [eapply (IH selfv r s (S i) w1 G ts' SV1 SC1); eauto; eapply env_ok_mono; eauto with lmmt|].
        intros [[vs ks] w2] (SV2 & SC2 & X2 & Y2 & Hw2 & Hv2). cbn.
        exists SV2, SC2. split4; try (eapply ext_trans; eauto).
        + exact Hw2.
        + constructor; auto. eapply vtyp_mono; eauto.
    Qed.

    Lemma eval_fields_sound : forall fs selfv r s i w G fts SV SC,
      ofields (fun x => tc an G x) fs = Some fts -> env_ok SV sigs G r -> wok an ft sigs SV SC w ->
      res_ok (fun x => let '(fvs, _, w') := x in extends SV SC w' (fun SC' fvs => Forall2 (fvtyp SC') fts fvs) fvs)
             (eval_fields rec selfv r fs s i w).
    Proof.
      induction fs as [|[f e] fs IH]; intros selfv r s i w G fts SV SC Htc He Hw; cbn [eval_fields].
      - cbn in Htc. inversion Htc; subst. cbn. exists SV, SC. split4; auto with lmmt.
      - cbn [ofields] in Htc. destruct (tc an G e) as [t|] eqn:E1; try discriminate.
        destruct (ofields (fun x => tc an G x) fs) as [ts'|] eqn:E2; try discriminate. inversion Htc; subst.
        eapply res_ok_bind; [eapply Hrec; eauto|].
        intros [[v k] w1] (SV1 & SC1 & X1 & Y1 & Hw1 & Hv1).
        eapply res_ok_bind; [eapply (IH selfv r s (S i) w1 G ts' SV1 SC1); eauto; eapply env_ok_mono; eauto with lmmt|].
        intros [[vs ks] w2] (SV2 & SC2 & X2 & Y2 & Hw2 & Hv2). cbn.
        exists SV2, SC2. split4; try (eapply ext_trans; eauto).
        + exact Hw2.
        + constructor; auto. split; auto. eapply vtyp_mono; eauto.
    Qed.

    (* rule I *)
    Lemma call_inst_sound : forall id vs w pts rt SV SC,
      nth_error SC id = Some (TFn pts rt) -> Forall2 (vtyp SC) pts vs -> wok an ft sigs SV SC w ->
      res_ok (fun x => let '(v, w') := x in extends SV SC w' (fun SC' v => vtyp SC' rt v) v) (call_inst rec id vs w).
    Proof.
      intros id vs w pts rt SV SC Hid Hvs Hw. unfold call_inst.
      destruct Hw as (Hv & Hc & Hf).
      destruct (Forall2_nth_r _ _ _ _ _ _ _ Hc Hid) as (c & Ec & pts' & rt' & G & E1 & E2 & E3 & E4).
      rewrite Ec. inversion E1; subst pts' rt'.
      destruct (bind_params_sound an ft sigs (ci_params c) pts vs G (ci_env c) w SV SC E2 Hvs E3 (conj Hv (conj Hc Hf)))
        as (r1 & w1 & SV1 & Eb & X1 & Hw1 & He1).
      rewrite Eb. cbn [rbind].
      eapply res_ok_bind; [eapply Hrec; eauto|].
      intros [[v kb] w2] (SV2 & SC2 & X2 & Y2 & Hw2 & Hv2). cbn.
      exists SV2, SC2. split4; auto.
      - eapply ext_trans; eauto.
      - apply wok_set_clo_state. exact Hw2.
    Qed.

    (* rule D *)
    Lemma call_fun_sound : forall k vs inst w sg SV SC,
      nth_error sigs k = Some sg -> Forall2 (vtyp SC) (sg_ptys sg) vs -> wok an ft sigs SV SC w ->
      res_ok (post SV SC (sg_ret sg)) (call_fun ft rec k vs inst w).
    Proof.
      intros k vs inst w sg SV SC Hk Hvs Hw. unfold call_fun.
      destruct Hw as (Hv & Hc & Hf).
      destruct (Forall2_nth_r _ _ _ _ _ _ _ Hf Hk) as (fe & Ef & G & E1 & E2 & E3).
      rewrite Ef.
      destruct (bind_params_sound an ft sigs (map fst (fe_params fe)) (sg_ptys sg) vs G (fe_env fe) w SV SC
                  (par_ok_names _ _ _ E2) Hvs E1 (conj Hv (conj Hc Hf)))
        as (r1 & w1 & SV1 & Eb & X1 & Hw1 & He1).
      rewrite Eb. cbn [rbind].
      eapply res_ok_bind; [eapply Hrec; eauto|].
      intros [[v kb] w2] (SV2 & SC2 & X2 & Y2 & Hw2 & Hv2). cbn.
      exists SV2, SC2. split4; auto. eapply ext_trans; eauto.
    Qed.

    (* rule N *)
    Lemma fill_defaults_sound : forall fe G ps sps, Forall2 (par_ok an G) ps sps ->
      forall given gts w SV SC,
      env_ok SV sigs G (fe_env fe) -> named_ok (an_teq an) sps gts = true -> Forall2 (fvtyp SC) gts given -> wok an ft sigs SV SC w ->
      res_ok (fun x => let '(vs, w') := x in
                extends SV SC w' (fun SC' vs => Forall2 (vtyp SC') (map (fun p : ident * ty * bool => snd (fst p)) sps) vs) vs)
             (fill_defaults rec fe ps given w).
    Proof.
      intros fe G ps sps F. induction F as [|[x d] [[x' t] b] ps sps [Hx [Hb Hd]] F IH];
        intros given gts w SV SC He Hn Hg Hw; cbn [fill_defaults].
      - cbn. exists SV, SC. split4; auto with lmmt.
      - cbn in Hx, Hb, Hd. subst x'. cbn [named_ok forallb fst snd] in Hn. apply andb_true_iff in Hn. destruct Hn as [Hn1 Hn2].
        cbn [map fst snd].
        destruct (rlookup x gts) as [t'|] eqn:El.
        + apply (proj1 Hcf) in Hn1. subst t'.
          destruct (fvtyps_lookup SC gts given x t Hg El) as (v & Elv & Hv). rewrite Elv.
          eapply res_ok_bind; [eapply (IH given gts w SV SC); eauto|].
          intros [vs w1] (SV1 & SC1 & X1 & Y1 & Hw1 & Hv1). cbn.
          exists SV1, SC1. split4; auto. constructor; auto. eapply vtyp_mono; eauto.
        + rewrite (fvtyps_lookup_none SC gts given x Hg El). subst b. destruct d as [de|]; cbn in Hn1; try discriminate.
          eapply res_ok_bind; [eapply Hrec; eauto|].
          intros [[v k] w1] (SV1 & SC1 & X1 & Y1 & Hw1 & Hv1).
          eapply res_ok_bind; [eapply (IH given gts w1 SV1 SC1); eauto|].
          * eapply env_ok_mono; eauto with lmmt.
          * eapply fvtyps_mono; eauto.
          * intros [vs w2] (SV2 & SC2 & X2 & Y2 & Hw2 & Hv2). cbn.
            exists SV2, SC2. split4; try (eapply ext_trans; eauto).
            -- exact Hw2.
            -- constructor; auto. eapply vtyp_mono; eauto.
    Qed.

    Lemma direct_target_typed : forall SV G r f k t, env_ok SV sigs G r -> tc an G f = Some t -> direct_target r f = Some k ->
      exists sg, nth_error sigs k = Some sg /\ t = sig_ty sg.
    Proof.
      intros SV G r f k t He Htc Hd. destruct f; cbn in Hd; try discriminate.
      cbn in Htc. destruct (tlookup x G) as [g|] eqn:El; try discriminate.
      specialize (He x g El). destruct (xlookup x r) as [[l|k']|]; try discriminate. inversion Hd; subst k'.
      destruct g as [t'|sg|]; try discriminate; cbn in He.
      - destruct He as (l & E & _). discriminate.
      - destruct He as (k' & E & Hn). inversion E; subst. inversion Htc; subst. eauto.
    Qed.

    Lemma apply_x_sound : forall selfv r f args s w G pts rt SV SC,
      tc an G f = Some (TFn pts rt) -> omap (fun x => tc an G x) args = Some pts ->
      env_ok SV sigs G r -> wok an ft sigs SV SC w ->
      res_ok (post SV SC rt) (apply_x ft rec selfv r f args s w).
    Proof.
      intros selfv r f args s w G pts rt SV SC Hf Ha He Hw. unfold apply_x.
      destruct (direct_target r f) as [k|] eqn:Ed.
      - destruct (direct_target_typed SV G r f k _ He Hf Ed) as (sg & Hk & Et).
        unfold sig_ty in Et. inversion Et; subst pts rt.
        eapply res_ok_bind; [eapply eval_list_sound; eauto|].
        intros [[vs ks] w1] (SV1 & SC1 & X1 & Y1 & Hw1 & Hv1).
        eapply res_ok_bind; [eapply (call_fun_sound k vs (kid s (length args)) w1 sg SV1 SC1); eauto|].
        intros [[v ki] w2] (SV2 & SC2 & X2 & Y2 & Hw2 & Hv2). cbn.
        exists SV2, SC2. split4; auto; eapply ext_trans; eauto.
      - eapply res_ok_bind; [eapply Hrec; eauto|].
        intros [[fv kf] w0] (SV0 & SC0 & X0 & Y0 & Hw0 & Hv0).
        apply vtyp_fn_inv in Hv0. destruct Hv0 as (id & -> & Hid).
        eapply res_ok_bind; [eapply (eval_list_sound args selfv r s 0 w0 G pts SV0 SC0); eauto; eapply env_ok_mono; eauto with lmmt|].
        intros [[vs ks] w1] (SV1 & SC1 & X1 & Y1 & Hw1 & Hv1).
        eapply res_ok_bind; [eapply (call_inst_sound id vs w1 pts rt SV1 SC1); eauto; eapply ext_nth; eauto|].
        intros [v w2] (SV2 & SC2 & X2 & Y2 & Hw2 & Hv2). cbn.
        exists SV2, SC2. split4; auto; repeat (eapply ext_trans; eauto).
    Qed.
  End WithRec.
End Step.
