(* Extraction of the executable heap / closure store model and of the monitor `balanced` (property C12)
   (ExtrOcamlBasic + ExtrOcamlString only; N/positive/nat stay inductive). *)
From Coq Require Import List NArith.
From Coq Require Import ExtrOcamlBasic ExtrOcamlString.
From Mimium Require Import Heap.Model.
Extraction "heap_model.ml" mach_new mstep mrun settled balanced balanced_from first_reject live_count live
  hrun hstep sm_new sm_len key_of_raw raw_of_key count_op stale
  drop_closure release_heap_closure release_heap_closures release_open_closures close_upvalues_by_idx
  clone_heap close_heap_closure allocate_heap_closure allocate_closure box_alloc box_clone box_release
  box_load box_store heap_retain_ev heap_release_ev event_of_tuple N.shiftl N.lor no_dangling.
