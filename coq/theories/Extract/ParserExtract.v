(* Extraction of the executable Parser model (ExtrOcamlBasic + ExtrOcamlString only; nat/N stay inductive). *)
From Coq Require Import List NArith.
From Coq Require Import ExtrOcamlBasic ExtrOcamlString.
From Mimium Require Import Tables.LexerTables Tables.TokenKinds Parser.Model.
Extraction "parser_model.ml" parse parse_with parse_fuel kind_name all_kinds syntax_name.
