(* Extraction of the executable Lmmm model (ExtrOcamlBasic + ExtrOcamlString only). *)
From Coq Require Import List ZArith NArith.
From Coq Require Import ExtrOcamlBasic ExtrOcamlString.
From Mimium Require Import StateTree.Model Lmmm.Syntax Lmmm.Ref Lmmm.Compile Lmmm.Machine Lmmm.Wf Lmmm.HotSwap.
Extraction "lmmm_model.ml" wf_prog compile published_skeleton swap_run mach_run ref_run st0 m0 size plan apply_plan.
