(* Extraction of the executable Lmmx type checker together with the reference semantics it is sound for
   (ExtrOcamlBasic + ExtrOcamlString only). *)
From Coq Require Import List ZArith NArith.
From Coq Require Import ExtrOcamlBasic ExtrOcamlString.
From Mimium Require Import Lmmm.Syntax Lmmm.Ref Lmmx.Syntax Lmmx.Ref Lmmt.Types Lmmt.Check.
Extraction "lmmt_model.ml" tc_prog mkAnn mkLenient word_size xrun.
