(* Extraction of the executable formatter model (ExtrOcamlBasic + ExtrOcamlString only; nat stays inductive). *)
From Coq Require Import List String.
From Coq Require Import ExtrOcamlBasic ExtrOcamlString.
From Mimium Require Import Fmt.Model.
Extraction "fmt_model.ml" doc_of is_rendering dwords cst_words safe_breaks in_fragment same_doc comments_in keeps_breaks doc_flags src_observed.
