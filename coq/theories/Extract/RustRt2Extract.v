(* Extraction of the executable model of the generated-Rust runtime (RustRt2/Model.v, RustRt2/Ops.v; property C18)
   and of the array contract it is compared with (ExtrOcamlBasic + ExtrOcamlString only; N/Z/positive/nat stay inductive). *)
From Coq Require Import List ZArith NArith.
From Coq Require Import ExtrOcamlBasic ExtrOcamlString.
From Mimium Require Import Prims.Float Prims.Spec Prims.Impl Prims.Pre RustRt.Model RustRt2.Model RustRt2.Ops.
Extraction "rtpl_model.ml" spec_init sres_fault ires_fault tabs0 resolve
  encode_function encode_closure encode_memory decode_function decode_closure decode_memory
  ms_new ms_alloc ms_get_element ms_load ms_store
  ta_array_new ta_array_get ta_array_set bi_len bi_split_head bi_split_tail bi_prepend bi_append
  cs_alloc cs_get load_upvalue store_upvalue mkCtx state_mem ss_new
  xspec_step tpl_step xtabs_after rt_pre ires_words ires_unit ires_handle.
