(* Extraction of the verified static checker for the state layer of MIR (Mirst/Model.v; property C05, also C03/C01/C18)
   (ExtrOcamlBasic + ExtrOcamlString only; nat, N and positive stay inductive). *)
From Coq Require Import List NArith.
From Coq Require Import ExtrOcamlBasic ExtrOcamlString.
From Mimium Require Import StateTree.Model Mirst.Model Mirst.Follow.
Extraction "mirst_model.ml" check_rprog check_prog check_prog_strict check_fn first_rejected erase run_fn run size accepts_trace follow.
