(* Extraction of the executable Lexer model (ExtrOcamlBasic + ExtrOcamlString only;
   N/positive/nat stay inductive). *)
From Coq Require Import List NArith.
From Coq Require Import ExtrOcamlBasic ExtrOcamlString.
From Mimium Require Import Tables.LexerTables Lexer.Model Lexer.PreLemmas.
Extraction "lex_model.ml" tokenize preparse lex_and_preparse split_projection_float_tokens kind_name kind_code all_kinds blen dropped is_trivia.
