(* Extraction of the executable models of the runtime primitives (Prims/Spec.v, Prims/Vm.v, Prims/Wasm.v; property C01)
   (ExtrOcamlBasic + ExtrOcamlString only; N/Z/positive/nat stay inductive). *)
From Coq Require Import List ZArith NArith.
From Coq Require Import ExtrOcamlBasic ExtrOcamlString.
From Mimium Require Import Prims.Float Prims.StateOps Prims.Spec Prims.Impl Prims.Vm Prims.Wasm Prims.Pre Prims.Usersum.
Extraction "prims_model.ml" spec_init spec_step sres_fault vm_init vm_step wasm_init wasm_step tabs0 tabs_after
  ires_fault resolve vm_prim_array_get vm_prim_array_set st_words vm_pre wasm_pre vm_usersum_clone vm_usersum_release wasm_usersum_clone wasm_usersum_release ty_size f64_to_i64 f64_to_u64 f64_of_N f64_time.
