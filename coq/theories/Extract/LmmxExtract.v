(* Extraction of the executable Lmmx reference semantics (ExtrOcamlBasic + ExtrOcamlString only). *)
From Coq Require Import List ZArith NArith.
From Coq Require Import ExtrOcamlBasic ExtrOcamlString.
From Mimium Require Import Lmmm.Syntax Lmmm.Ref Lmmx.Syntax Lmmx.Ref.
Extraction "lmmx_model.ml" xrun xrun_full xinit_instances.
