(* Extraction of the executable model of the type unifier (Typing/Model.v; properties C04 / C03)
   (ExtrOcamlBasic + ExtrOcamlString only; nat stays inductive). *)
From Coq Require Import List Arith.
From Coq Require Import ExtrOcamlBasic ExtrOcamlString.
From Mimium Require Import Typing.Model.
Extraction "typing_model.ml" unify unify_old unify_types unify_types_args substitute_type resolve get_root occur_check
  occur_check_old set_parent set_level parent level unify_fuel fuel_bound size store_msize.
