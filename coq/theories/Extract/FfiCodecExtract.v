(* Extraction of the executable FfiCodec model (ExtrOcamlBasic + ExtrOcamlString only;
   N/positive/nat stay inductive, string = char list). *)
From Coq Require Import List NArith.
From Coq Require Import ExtrOcamlBasic ExtrOcamlString.
From Mimium Require Import FfiCodec.Model.
Extraction "ffi_model.ml" serialize_value deserialize_value serialize_macro_args deserialize_macro_args
  to_ffi of_ffi encode decode_ffi encode_args decode_args venc vdecode encode_type decode_type enc_key dec_key
  utf8_valid tables_agree.
