(* Extraction of the executable interner model (ExtrOcamlBasic + ExtrOcamlString only). *)
From Coq Require Import List String.
From Coq Require Import ExtrOcamlBasic ExtrOcamlString.
From Mimium Require Import Interner.Model.
Extraction "interner_model.ml" empty_glob intern resolve store load replay init step run_solo size observe run_sched count
  sort_by_key max_fold erun einit.
