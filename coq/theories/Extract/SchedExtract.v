(* Extraction of the executable scheduler model (ExtrOcamlBasic + ExtrOcamlString only;
   N/Z/positive/nat stay inductive). *)
From Coq Require Import List NArith ZArith.
From Coq Require Import ExtrOcamlBasic ExtrOcamlString.
From Mimium Require Import Sched.Model Sched.WasmAlloc.
Extraction "sched_model.ml" run_vm run_wasm table_behaviour table_dsp sel_first sel_last trunc_time to_task
  a_run fresh_behaviour fresh_dsp fresh_init.
