(* Extraction of the executable model of the bytecode VM and of the bytecode verifier (Bvm/Model.v, Bvm/XModel.v, Bvm/Verify.v;
   property C03, serves C01/C02) (ExtrOcamlBasic + ExtrOcamlString only; N / Z / positive stay inductive). *)
From Coq Require Import List ZArith NArith.
From Coq Require Import ExtrOcamlBasic ExtrOcamlString.
From Mimium Require Import Bvm.Model Bvm.Verify Bvm.XModel Bvm.XVerify.
Extraction "bvm_model.ml" decode run exec_main exec_dsp mach0 run_session verify verify_fn infer check_fn first_bad term_ok costs fuel_dsp fuel_main
  xdecode xrun xexec_main xexec_dsp xmach0 x_ncls x_nheap
  xverify xfirst_bad closure_free.
