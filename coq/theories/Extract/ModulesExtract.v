(* Extraction of the executable module-resolution model (ExtrOcamlBasic + ExtrOcamlString only). *)
From Coq Require Import List NArith String.
From Coq Require Import ExtrOcamlBasic ExtrOcamlString.
From Mimium Require Import Modules.Model.
Extraction "modules_model.ml" flatten convert_program known_names expr_from_stmts unbound run_dsp probe_ref.
