(* Extraction of the executable StateTree model (ExtrOcamlBasic + ExtrOcamlString only;
   N/positive/nat stay inductive). *)
From Coq Require Import List NArith.
From Coq Require Import ExtrOcamlBasic ExtrOcamlString.
From Mimium Require Import StateTree.Model.
Extraction "st_model.ml" size skel_eqb nodes_match path_to_address subtree take_diff plan apply_plan lcs_by_score.
