(* Extraction of the executable Staging model (ExtrOcamlBasic + ExtrOcamlString only;
   nat/N/Z/positive/spec_float stay inductive). *)
From Coq Require Import List String ZArith.
From Coq Require Import ExtrOcamlBasic ExtrOcamlString.
From Mimium Require Import Tables.Combinators Staging.Model.
Extraction "staging_model.ml" translate translate_code ev rebuild expand norm0 norm1 convert_macroexpand
  rn0 rn1 swap_name names0 names1 registered emitted site_ok unregistered_sites is_extern prim desugar_name scope0.
