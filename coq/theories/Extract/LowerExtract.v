(* Extraction of the executable model of lower.rs (Lower/Model*.v; properties C04 / C16 / C14)
   (ExtrOcamlBasic + ExtrOcamlString only; nat / N / Z stay inductive). *)
From Coq Require Import List NArith ZArith.
From Coq Require Import ExtrOcamlBasic ExtrOcamlString.
From Mimium Require Import Tables.LexerTables Tables.TokenKinds Parser.Model Lower.Ast Lower.Model Lower.ModelTypes
  Lower.ModelExpr Lower.ModelStmt.
Extraction "lower_model.ml" lower lower_with lower_fuel tsize kind_name all_kinds syntax_name
  is_expr_kind is_pattern_kind is_type_kind binop_of_kind all_syntax_kinds.
