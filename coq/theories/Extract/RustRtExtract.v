(* Extraction of the template's state primitives (RustRt/Model.v) and of the cursor machine's primitives
   (RustRt/Agree.v m_run over Lmmm/Machine.v) for the direct test against the real template code
   (ExtrOcamlBasic + ExtrOcamlString only). *)
From Coq Require Import List ZArith NArith.
From Coq Require Import ExtrOcamlBasic ExtrOcamlString.
From Mimium Require Import Lmmm.Machine RustRt.Model RustRt.Agree.
Extraction "rustrt_model.ml" ss_run ss_new m_run ss_of.
