(* Sched/Model.v — executable model of the mimium scheduler plugin (property C11).
   Definitions only.  Literal transcription of
     crates/lib/plugins/mimium-scheduler/src/scheduler.rs      (native VM side: mpsc channel + worker)
     crates/lib/plugins/mimium-scheduler/src/wasm_handle.rs    (WASM side: shared heap)
     crates/lib/plugins/mimium-audiodriver/src/driver.rs       VmDspRuntime::run_dsp
     crates/lib/mimium-lang/src/runtime/wasm/engine.rs         WasmDspRuntime::run_dsp
   Abstractions (see DESIGN.md C11):
   - a closure handle is an opaque number [clo]; what running it does to the scheduler is an abstract
     [behaviour]: (handle, now) |-> the list of `_mimium_schedule_at(time, closure)` calls it makes, in order;
   - `BinaryHeap<Reverse<Task>>` with `Ord` on `when` only is a list plus a [selector] that decides which
     of the tasks with minimal `when` is on top (theorems quantify over every selector);
   - the mpsc channel is a FIFO list, drained by the (single) audio thread at the start of a tick. *)
From Coq Require Import List NArith ZArith Bool.
Import ListNotations.
Local Open Scope N_scope.

(* ---------------------------------------------------------------------- *)
(* scheduler.rs: struct Task { when: Time, closure: ClosureHandle }        *)
Record task := mkTask { when : N; clo : N }.

(* The f64 time argument of `_mimium_schedule_at`.  The generated programs only use dyadic times with
   two fractional bits, so a finite time is q/4; NaN is kept because `as u64` maps it to 0. *)
Inductive ftime := FNaN | FQuarter (q : Z).

Definition U64_MAX : N := 18446744073709551615.

(* scheduler.rs schedule_at: `handle.get_arg_f64(0) as u64`; wasm_handle.rs: `args[0] as u64`
   (Rust float->int `as`: NaN -> 0, negative -> 0, too large -> u64::MAX, otherwise truncation). *)
Definition trunc_time (f : ftime) : N :=
  match f with
  | FNaN => 0
  | FQuarter q => if (q <? 0)%Z then 0 else N.min (Z.to_N (q / 4)) U64_MAX
  end.

(* one call `_mimium_schedule_at(time, closure)` *)
Definition request := (ftime * N)%type.
Definition to_task (r : request) : task := mkTask (trunc_time (fst r)) (snd r).

(* what executing closure [c] at sample [now] asks the scheduler to do *)
Definition behaviour := N -> N -> list request.
(* what dsp asks the scheduler to do at sample [now] *)
Definition dsp_behaviour := N -> list request.

Inductive result (A : Type) := Done (a : A) | Panic | OutOfFuel.
Arguments Done {A} a.
Arguments Panic {A}.
Arguments OutOfFuel {A}.

Definition bind {A B} (r : result A) (f : A -> result B) : result B :=
  match r with Done a => f a | Panic => Panic | OutOfFuel => OutOfFuel end.

(* ---------------------------------------------------------------------- *)
(* BinaryHeap<Reverse<Task>>; impl Ord for Task { cmp = self.when.cmp(&other.when) }                   *)
Definition heap := list task.
Definition selector := heap -> nat.

Fixpoint min_of (d : N) (h : heap) : N :=
  match h with [] => d | x :: r => min_of (N.min d (when x)) r end.

Definition minimum (h : heap) : option N :=
  match h with [] => None | x :: r => Some (min_of (when x) r) end.

Definition count_when (m : N) (h : heap) : nat := length (filter (fun x => when x =? m) h).

(* remove the k-th task whose `when` is m *)
Fixpoint take_kth (m : N) (k : nat) (h : heap) : option (task * heap) :=
  match h with
  | [] => None
  | x :: r =>
      if when x =? m then
        match k with
        | O => Some (x, r)
        | S k' => match take_kth m k' r with Some (y, r') => Some (y, x :: r') | None => None end
        end
      else match take_kth m k r with Some (y, r') => Some (y, x :: r') | None => None end
  end.

(* BinaryHeap::peek + BinaryHeap::pop: some task with minimal `when`; which one among equals is the
   selector's choice *)
Definition heap_pop (sel : selector) (h : heap) : option (task * heap) :=
  match minimum h with
  | None => None
  | Some m => take_kth m (Nat.modulo (sel h) (count_when m h)) h
  end.

(* BinaryHeap::push *)
Definition heap_push (h : heap) (x : task) : heap := h ++ [x].

(* ---------------------------------------------------------------------- *)
(* Native VM side: scheduler.rs                                             *)

(* SchedulerAudioWorker { cur_time, tasks, receiver } ; the sender half only appends to [v_chan] *)
Record vm_worker := mkVm { v_cur : N; v_heap : heap; v_chan : list task }.

(* SimpleScheduler::default: cur_time: Time(0), tasks: BinaryHeap::new(), fresh channel *)
Definition vm_init : vm_worker := mkVm 0 [] [].

(* SimpleScheduler::schedule_at + schedule_at_inner: `when = arg as u64; sender.send(Task{when,closure})`
   — no check here *)
Definition schedule_at_vm (w : vm_worker) (r : request) : vm_worker :=
  mkVm (v_cur w) (v_heap w) (v_chan w ++ [to_task r]).

(* SchedulerAudioWorker::pop_task(now): peek; `Some(task) if when <= now` => pop *)
Definition pop_task (sel : selector) (now : N) (h : heap) : option (task * heap) :=
  match heap_pop sel h with
  | Some (x, h') => if when x <=? now then Some (x, h') else None
  | None => None
  end.

(* on_sample, first loop: `while let Ok(task) = receiver.try_recv() { if task.when <= self.cur_time { panic! } tasks.push(task) }` *)
Fixpoint drain_channel (cur : N) (ch : list task) (h : heap) : result heap :=
  match ch with
  | [] => Done h
  | x :: r => if when x <=? cur then Panic else drain_channel cur r (heap_push h x)
  end.

(* on_sample, second loop: `while let Some(closure) = self.pop_task(time) { handle.execute_closure(closure) }`.
   A running closure reaches the scheduler only through schedule_at, i.e. the channel; the heap is not
   touched, so the loop runs at most |heap| times: that is the fuel. *)
Fixpoint run_ready_vm (sel : selector) (beh : behaviour) (fuel : nat) (time : N)
         (w : vm_worker) (log : list task) : result (vm_worker * list task) :=
  match pop_task sel time (v_heap w) with
  | None => Done (w, log)
  | Some (x, h') =>
      match fuel with
      | O => OutOfFuel
      | S f =>
          let w' := fold_left schedule_at_vm (beh (clo x) time) (mkVm (v_cur w) h' (v_chan w)) in
          run_ready_vm sel beh f time w' (log ++ [x])
      end
  end.

(* SchedulerAudioWorker::on_sample(time): drain, set_cur_time(time), run ready tasks.
   Result: new worker and the closures executed, in execution order. *)
Definition on_sample_vm (sel : selector) (beh : behaviour) (time : N) (w : vm_worker)
  : result (vm_worker * list task) :=
  bind (drain_channel (v_cur w) (v_chan w) (v_heap w)) (fun h =>
    run_ready_vm sel beh (length h) time (mkVm time h []) []).

(* VmDspRuntime::run_dsp(time): every plugin worker's on_sample(time), THEN dsp (which may call schedule_at) *)
Definition run_dsp_vm (sel : selector) (beh : behaviour) (dspb : dsp_behaviour) (time : N) (w : vm_worker)
  : result (vm_worker * list task) :=
  bind (on_sample_vm sel beh time w) (fun '(w', ex) =>
    Done (fold_left schedule_at_vm (dspb time) w', ex)).

(* ctx.run_main(): global scope makes the [init] calls; then LocalBufferDriver::play: run_dsp(Time(0)), run_dsp(Time(1)), ...
   Result after T samples: worker state and, per sample, the closures executed at the start of that sample. *)
Fixpoint run_vm (sel : selector) (beh : behaviour) (dspb : dsp_behaviour) (init : list request) (T : nat)
  : result (vm_worker * list (list task)) :=
  match T with
  | O => Done (fold_left schedule_at_vm init vm_init, [])
  | S T' =>
      bind (run_vm sel beh dspb init T') (fun '(w, execs) =>
        bind (run_dsp_vm sel beh dspb (N.of_nat T') w) (fun '(w', ex) => Done (w', execs ++ [ex])))
  end.

(* ---------------------------------------------------------------------- *)
(* WASM side: wasm_handle.rs                                                *)

(* SharedState { tasks, current_time } (Default: empty, 0) *)
Record wasm_sched := mkWs { w_cur : N; w_heap : heap }.
Definition wasm_init : wasm_sched := mkWs 0 [].

(* the `_mimium_schedule_at` trampoline closure of into_wasm_plugin_fn_map:
   `let when = args[0] as u64; if when <= s.current_time { panic! } s.tasks.push(..)` *)
Definition schedule_at_wasm (s : wasm_sched) (r : request) : result wasm_sched :=
  let x := to_task r in
  if when x <=? w_cur s then Panic else Done (mkWs (w_cur s) (heap_push (w_heap s) x)).

Fixpoint schedule_all_wasm (s : wasm_sched) (rs : list request) : result wasm_sched :=
  match rs with
  | [] => Done s
  | r :: rest => bind (schedule_at_wasm s r) (fun s' => schedule_all_wasm s' rest)
  end.

(* drain_due_tasks: `while let Some(task) = tasks.peek() { if task.when <= now { ready.push(tasks.pop()) } else { break } }` *)
Fixpoint drain_due (sel : selector) (fuel : nat) (now : N) (h : heap) (ready : list task)
  : result (list task * heap) :=
  match pop_task sel now h with
  | None => Done (ready, h)
  | Some (x, h') =>
      match fuel with
      | O => OutOfFuel
      | S f => drain_due sel f now h' (ready ++ [x])
      end
  end.

(* on_sample: `for closure_addr in self.drain_due_tasks() { engine.execute_function("_mimium_exec_closure_void", ..) }`
   — the ready list is fixed before the first closure runs; a running closure pushes straight into the heap *)
Fixpoint exec_ready_wasm (beh : behaviour) (time : N) (ready : list task) (s : wasm_sched) : result wasm_sched :=
  match ready with
  | [] => Done s
  | x :: rest => bind (schedule_all_wasm s (beh (clo x) time)) (fun s' => exec_ready_wasm beh time rest s')
  end.

(* WasmSchedulerHandle::on_sample(time): set_current_time(time.0); drain; execute *)
Definition on_sample_wasm (sel : selector) (beh : behaviour) (time : N) (s : wasm_sched)
  : result (wasm_sched * list task) :=
  bind (drain_due sel (length (w_heap s)) time (w_heap s) []) (fun '(ready, h) =>
    bind (exec_ready_wasm beh time ready (mkWs time h)) (fun s' => Done (s', ready))).

(* WasmDspRuntime::run_dsp(time): workers' on_sample(time), THEN execute_dsp *)
Definition run_dsp_wasm (sel : selector) (beh : behaviour) (dspb : dsp_behaviour) (time : N) (s : wasm_sched)
  : result (wasm_sched * list task) :=
  bind (on_sample_wasm sel beh time s) (fun '(s', ex) =>
    bind (schedule_all_wasm s' (dspb time)) (fun s'' => Done (s'', ex))).

(* run_source_with_scheduler_wasm: run_main(), then `for t in 0..times { run_dsp(Time(t)) }` *)
Fixpoint run_wasm (sel : selector) (beh : behaviour) (dspb : dsp_behaviour) (init : list request) (T : nat)
  : result (wasm_sched * list (list task)) :=
  match T with
  | O => bind (schedule_all_wasm wasm_init init) (fun s => Done (s, []))
  | S T' =>
      bind (run_wasm sel beh dspb init T') (fun '(s, execs) =>
        bind (run_dsp_wasm sel beh dspb (N.of_nat T') s) (fun '(s', ex) => Done (s', execs ++ [ex])))
  end.

(* ---------------------------------------------------------------------- *)
(* Table-driven behaviours for the correspondence check (the driver builds these from the abstract
   description of a generated program): closure [c] run at [now] schedules, for each rule (dq, c'),
   closure c' at time now + dq/4.                                            *)
Definition rule := (Z * N)%type.

Definition apply_rules (now : N) (rs : list rule) : list request :=
  map (fun r : rule => (FQuarter (4 * Z.of_N now + fst r)%Z, snd r)) rs.

Fixpoint lookup {A} (k : N) (tbl : list (N * A)) (d : A) : A :=
  match tbl with [] => d | (k', v) :: r => if k =? k' then v else lookup k r d end.

Definition table_behaviour (tbl : list (N * list rule)) : behaviour :=
  fun c now => apply_rules now (lookup c tbl []).

Definition table_dsp (tbl : list (N * list rule)) : dsp_behaviour :=
  fun now => apply_rules now (lookup now tbl []).

(* the selector used by the extracted model: first of the minimal tasks *)
Definition sel_first : selector := fun _ => O.
(* another one, to let the check see that the prediction does not depend on it *)
Definition sel_last : selector := fun h => pred (length h).
