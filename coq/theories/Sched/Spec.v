(* Sched/Spec.v — specification vocabulary of property C11 (no proofs).
   These are the notions the theorems of Props/C11.v are stated with. *)
From Coq Require Import List NArith ZArith Bool Permutation.
From Mimium Require Import Sched.Model.
Import ListNotations.
Local Open Scope N_scope.

(* ---- the premise of the property: "scheduled ... at times later than the current sample" ----
   a call made while the current sample is [now] asks for a sample index (time truncated) > now *)
Definition later_than (now : N) (r : request) : Prop := now < when (to_task r).

(* (only samples before the horizon [H] matter: the theorems about T samples use H = T) *)
Definition respects_future (H : N) (beh : behaviour) : Prop :=
  forall c now r, now < H -> In r (beh c now) -> later_than now r.
Definition dsp_respects_future (H : N) (dspb : dsp_behaviour) : Prop :=
  forall now r, now < H -> In r (dspb now) -> later_than now r.
(* global scope runs before sample 0; both runtimes start with current time 0 *)
Definition init_respects_future (init : list request) : Prop :=
  forall r, In r init -> later_than 0 r.

(* ---- everything that was ever scheduled, given what was executed ---- *)
(* tasks scheduled by the closures [ex] executed at sample [t] *)
Definition spawned (beh : behaviour) (t : N) (ex : list task) : list task :=
  flat_map (fun x => map to_task (beh (clo x) t)) ex.

(* tasks scheduled during samples t, t+1, ... when [execs] are the per-sample execution lists *)
Fixpoint sched_ticks (beh : behaviour) (dspb : dsp_behaviour) (t : nat) (execs : list (list task)) : list task :=
  match execs with
  | [] => []
  | ex :: rest =>
      spawned beh (N.of_nat t) ex ++ map to_task (dspb (N.of_nat t)) ++ sched_ticks beh dspb (S t) rest
  end.

(* all tasks scheduled from global scope, by executed tasks and by dsp during samples 0 .. |execs|-1 *)
Definition scheduled_by (beh : behaviour) (dspb : dsp_behaviour) (init : list request)
           (execs : list (list task)) : list task :=
  map to_task init ++ sched_ticks beh dspb 0 execs.

(* ---- the ideal schedule, as a relation between the sample count, the pending multiset and the
        per-sample execution lists (each up to permutation) ---- *)
Inductive trace_ok (beh : behaviour) (dspb : dsp_behaviour) (init : list request)
  : nat -> list task -> list (list task) -> Prop :=
| trace_0 : forall P, Permutation P (map to_task init) -> trace_ok beh dspb init 0 P []
| trace_S : forall T P0 execs ex P,
    trace_ok beh dspb init T P0 execs ->
    Permutation ex (filter (fun x => when x =? N.of_nat T) P0) ->
    Permutation P (filter (fun x => N.of_nat T <? when x) P0
                   ++ spawned beh (N.of_nat T) ex ++ map to_task (dspb (N.of_nat T))) ->
    trace_ok beh dspb init (S T) P (execs ++ [ex]).
