(* Sched/AllocLemmas.v — finding F13: with the bump pointer rewound (the code), the WASM runtime runs the
   wrong closure; with closures retained it runs what Sched/Model.v (and hence C11_exactly_once_wasm) says. *)
From Coq Require Import List NArith ZArith Bool.
From Mimium Require Import Sched.Model Sched.Spec Sched.Lemmas Sched.WasmAlloc.
Import ListNotations.
Local Open Scope N_scope.

(* fn t0(){ c0 = c0+1.0  t0@(now+2.0) }   fn t1(){ c0 = c0+4.0  t1@(now+3.0) }   t0@1.0   t1@2.0 *)
Definition f13_rules : list (N * list rule) := [(0, [(8%Z, 0)]); (1, [(12%Z, 1)])].
Definition f13_init : list (Z * N) := [(4%Z, 0); (8%Z, 1)].
Definition f13_samples : nat := 10.

(* functions run per sample: *)
Definition f13_code_runs : list (list N) := [[]; [0]; [1]; [1]; []; [1]; [1]; []; [1]; [1]].
Definition f13_ideal_runs : list (list N) := [[]; [0]; [1]; [0]; []; [1; 0]; []; [0]; [1]; [0]].

Lemma f13_witness :
  Forall (fun e : N * list rule => rules_delay_ok (snd e)) f13_rules
  /\ init_respects_future (map (fun r : Z * N => (FQuarter (fst r), snd r)) f13_init)
  /\ (exists s, a_run true sel_first (fresh_behaviour f13_rules) (fresh_dsp []) [] 0 (fresh_init f13_init) f13_samples
                = Done (s, f13_code_runs))
  /\ (exists s, a_run false sel_first (fresh_behaviour f13_rules) (fresh_dsp []) [] 0 (fresh_init f13_init) f13_samples
                = Done (s, f13_ideal_runs))
  /\ (exists w ex, run_wasm sel_first (table_behaviour f13_rules) (table_dsp [])
                     (map (fun r : Z * N => (FQuarter (fst r), snd r)) f13_init) f13_samples = Done (w, ex)
                   /\ map (map clo) ex = f13_ideal_runs)
  /\ f13_code_runs <> f13_ideal_runs.
Proof.
  split; [|split; [|split; [|split; [|split]]]].
  - repeat constructor; cbn; discriminate.
  - intros r Hr. cbn in Hr. destruct Hr as [<-|[<-|[]]]; vm_compute; reflexivity.
  - eexists. vm_compute. reflexivity.
  - eexists. vm_compute. reflexivity.
  - eexists. eexists. split; vm_compute; reflexivity.
  - discriminate.
Qed.

Lemma f13_refuted :
  exists (rules : list (N * list rule)) (init : list (Z * N)) (T : nat) (code_runs ideal_runs : list (list N)),
    Forall (fun e : N * list rule => rules_delay_ok (snd e)) rules
    /\ init_respects_future (map (fun r : Z * N => (FQuarter (fst r), snd r)) init)
    /\ (exists s, a_run true sel_first (fresh_behaviour rules) (fresh_dsp []) [] 0 (fresh_init init) T
                  = Done (s, code_runs))
    /\ (exists s, a_run false sel_first (fresh_behaviour rules) (fresh_dsp []) [] 0 (fresh_init init) T
                  = Done (s, ideal_runs))
    /\ (exists w ex, run_wasm sel_first (table_behaviour rules) (table_dsp [])
                       (map (fun r : Z * N => (FQuarter (fst r), snd r)) init) T = Done (w, ex)
                     /\ map (map clo) ex = ideal_runs)
    /\ code_runs <> ideal_runs.
Proof.
  exists f13_rules, f13_init, f13_samples, f13_code_runs, f13_ideal_runs. exact f13_witness.
Qed.
