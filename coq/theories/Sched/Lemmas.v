(* Sched/Lemmas.v — proofs about the scheduler model (property C11). *)
From Coq Require Import List NArith ZArith Bool Lia Permutation Arith.
From Mimium Require Import Sched.Model Sched.Spec.
Import ListNotations.
Local Open Scope N_scope.

(* ====================================================================== *)
(* list / permutation helpers                                             *)

Lemma Permutation_filter {A} (f : A -> bool) (l l' : list A) :
  Permutation l l' -> Permutation (filter f l) (filter f l').
Proof.
  induction 1 as [|x l l' HP IH|x y l|l l' l'' HP1 IH1 HP2 IH2]; cbn [filter].
  - constructor.
  - destruct (f x); [constructor|]; exact IH.
  - destruct (f x), (f y); try apply Permutation_refl. apply perm_swap.
  - eapply Permutation_trans; eassumption.
Qed.

Lemma Permutation_flat_map {A B} (f : A -> list B) (l l' : list A) :
  Permutation l l' -> Permutation (flat_map f l) (flat_map f l').
Proof.
  induction 1 as [|x l l' HP IH|x y l|l l' l'' HP1 IH1 HP2 IH2]; cbn [flat_map].
  - constructor.
  - apply Permutation_app_head; exact IH.
  - rewrite !app_assoc. apply Permutation_app_tail, Permutation_app_comm.
  - eapply Permutation_trans; eassumption.
Qed.

Lemma filter_all {A} (f : A -> bool) (l : list A) :
  Forall (fun x => f x = true) l -> filter f l = l.
Proof.
  induction 1 as [|x l Hx HF IH]; cbn [filter]; [reflexivity|]. rewrite Hx, IH. reflexivity.
Qed.

Lemma filter_none {A} (f : A -> bool) (l : list A) :
  Forall (fun x => f x = false) l -> filter f l = [].
Proof.
  induction 1 as [|x l Hx HF IH]; cbn [filter]; [reflexivity|]. rewrite Hx, IH. reflexivity.
Qed.

Lemma filter_filter {A} (f g : A -> bool) (l : list A) :
  filter f (filter g l) = filter (fun x => f x && g x) l.
Proof.
  induction l as [|x l IH]; cbn [filter]; [reflexivity|].
  destruct (g x) eqn:Hg; cbn [filter]; rewrite ?IH.
  - rewrite andb_true_r. reflexivity.
  - rewrite andb_false_r. reflexivity.
Qed.

Lemma filter_ext_Forall {A} (f g : A -> bool) (l : list A) :
  Forall (fun x => f x = g x) l -> filter f l = filter g l.
Proof.
  induction 1 as [|x l Hx HF IH]; cbn [filter]; [reflexivity|]. rewrite Hx, IH. reflexivity.
Qed.

(* a list split into a part satisfying f and a part falsifying f is the filter partition *)
Lemma perm_split_filter {A} (f : A -> bool) (l a b : list A) :
  Permutation l (a ++ b) ->
  Forall (fun x => f x = true) a -> Forall (fun x => f x = false) b ->
  Permutation a (filter f l) /\ Permutation b (filter (fun x => negb (f x)) l).
Proof.
  intros HP Ha Hb. split.
  - rewrite (Permutation_filter f _ _ HP), filter_app, (filter_all f a Ha), (filter_none f b Hb), app_nil_r.
    apply Permutation_refl.
  - rewrite (Permutation_filter (fun x => negb (f x)) _ _ HP), filter_app.
    rewrite (filter_none (fun x => negb (f x)) a), (filter_all (fun x => negb (f x)) b).
    + apply Permutation_refl.
    + eapply Forall_impl; [|exact Hb]. cbn beta. intros x Hx. rewrite Hx. reflexivity.
    + eapply Forall_impl; [|exact Ha]. cbn beta. intros x Hx. rewrite Hx. reflexivity.
Qed.

Lemma Forall_perm {A} (P : A -> Prop) (l l' : list A) :
  Permutation l l' -> Forall P l -> Forall P l'.
Proof. intros HP HF. rewrite <- HP. exact HF. Qed.

Lemma Forall_filter {A} (P : A -> Prop) (f : A -> bool) (l : list A) :
  Forall P l -> Forall P (filter f l).
Proof.
  intros HF. apply Forall_forall. intros x Hx. apply filter_In in Hx.
  rewrite Forall_forall in HF. apply HF, Hx.
Qed.

Lemma Forall_filter_true {A} (f : A -> bool) (l : list A) :
  Forall (fun x => f x = true) (filter f l).
Proof. apply Forall_forall. intros x Hx. apply filter_In in Hx. apply Hx. Qed.

(* ====================================================================== *)
(* the heap: BinaryHeap with Ord on `when` only                            *)

Lemma min_of_le_d d h : min_of d h <= d.
Proof.
  revert d. induction h as [|x r IH]; intro d; cbn [min_of]; [lia|].
  specialize (IH (N.min d (when x))). lia.
Qed.

Lemma min_of_le_all d h : Forall (fun x => min_of d h <= when x) h.
Proof.
  revert d. induction h as [|x r IH]; intro d; cbn [min_of]; constructor.
  - pose proof (min_of_le_d (N.min d (when x)) r). lia.
  - apply IH.
Qed.

Lemma min_of_attained d h : min_of d h = d \/ exists x, In x h /\ when x = min_of d h.
Proof.
  revert d. induction h as [|x r IH]; intro d; cbn [min_of]; [left; reflexivity|].
  destruct (IH (N.min d (when x))) as [He|[y [Hy He]]].
  - rewrite He. destruct (N.min_spec d (when x)) as [[_ Hm]|[_ Hm]]; rewrite Hm.
    + left; reflexivity.
    + right. exists x. split; [left; reflexivity|reflexivity].
  - right. exists y. split; [right; exact Hy|exact He].
Qed.

Lemma minimum_spec h m :
  minimum h = Some m ->
  Forall (fun x => m <= when x) h /\ exists x, In x h /\ when x = m.
Proof.
  destruct h as [|x r]; cbn [minimum]; [discriminate|].
  intro H; injection H as <-. split.
  - constructor; [apply min_of_le_d|apply min_of_le_all].
  - destruct (min_of_attained (when x) r) as [He|[y [Hy He]]].
    + exists x. split; [left; reflexivity|symmetry; exact He].
    + exists y. split; [right; exact Hy|exact He].
Qed.

Lemma take_kth_some m k h x r :
  take_kth m k h = Some (x, r) -> when x = m /\ Permutation h (x :: r).
Proof.
  revert k x r. induction h as [|y h IH]; intros k x r; cbn [take_kth]; [discriminate|].
  destruct (when y =? m) eqn:Hy.
  - destruct k as [|k'].
    + intro H; injection H as <- <-. split; [apply N.eqb_eq; exact Hy|apply Permutation_refl].
    + destruct (take_kth m k' h) as [[z r']|] eqn:Hk; [|discriminate].
      intro H; injection H as <- <-. destruct (IH _ _ _ Hk) as [Hw HP]. split; [exact Hw|].
      rewrite HP. apply perm_swap.
  - destruct (take_kth m k h) as [[z r']|] eqn:Hk; [|discriminate].
    intro H; injection H as <- <-. destruct (IH _ _ _ Hk) as [Hw HP]. split; [exact Hw|].
    rewrite HP. apply perm_swap.
Qed.

Lemma take_kth_defined m k h :
  (k < count_when m h)%nat -> exists x r, take_kth m k h = Some (x, r).
Proof.
  unfold count_when. revert k. induction h as [|y h IH]; intro k; cbn [take_kth filter length]; [lia|].
  destruct (when y =? m) eqn:Hy; cbn [length].
  - destruct k as [|k']; [eauto|]. intro Hk.
    destruct (IH k') as [x [r Hx]]; [lia|]. rewrite Hx. eauto.
  - intro Hk. destruct (IH k Hk) as [x [r Hx]]. rewrite Hx. eauto.
Qed.

Lemma count_when_pos m h x : In x h -> when x = m -> (0 < count_when m h)%nat.
Proof.
  intros Hin Hw. unfold count_when.
  assert (Hf : In x (filter (fun y => when y =? m) h)).
  { apply filter_In. split; [exact Hin|apply N.eqb_eq; exact Hw]. }
  destruct (filter (fun y => when y =? m) h); [destruct Hf|cbn [length]; lia].
Qed.

(* peek/pop returns a task of minimal `when`, leaves the rest; fails only on the empty heap *)
Lemma heap_pop_some sel h x r :
  heap_pop sel h = Some (x, r) ->
  Permutation h (x :: r) /\ Forall (fun y => when x <= when y) h.
Proof.
  unfold heap_pop. destruct (minimum h) as [m|] eqn:Hm; [|discriminate].
  intro Hk. destruct (take_kth_some _ _ _ _ _ Hk) as [Hw HP].
  destruct (minimum_spec _ _ Hm) as [Hall _]. split; [exact HP|]. rewrite Hw. exact Hall.
Qed.

Lemma heap_pop_none sel h : heap_pop sel h = None -> h = [].
Proof.
  unfold heap_pop. destruct (minimum h) as [m|] eqn:Hm.
  - destruct (minimum_spec _ _ Hm) as [_ [x [Hin Hw]]].
    pose proof (count_when_pos m h x Hin Hw) as Hc.
    destruct (take_kth_defined m (Nat.modulo (sel h) (count_when m h)) h) as [y [r Hy]].
    + apply Nat.mod_upper_bound. lia.
    + rewrite Hy. discriminate.
  - destruct h; [reflexivity|discriminate].
Qed.

Lemma pop_task_some sel now h x r :
  pop_task sel now h = Some (x, r) -> Permutation h (x :: r) /\ when x <= now.
Proof.
  unfold pop_task. destruct (heap_pop sel h) as [[y r']|] eqn:Hp; [|discriminate].
  destruct (when y <=? now) eqn:Hle; [|discriminate].
  intro H; injection H as <- <-. split; [apply (heap_pop_some _ _ _ _ Hp)|apply N.leb_le; exact Hle].
Qed.

Lemma pop_task_none sel now h :
  pop_task sel now h = None -> Forall (fun y => now < when y) h.
Proof.
  unfold pop_task. destruct (heap_pop sel h) as [[y r']|] eqn:Hp.
  - destruct (when y <=? now) eqn:Hle; [discriminate|]. intros _.
    apply N.leb_gt in Hle. destruct (heap_pop_some _ _ _ _ Hp) as [_ Hall].
    eapply Forall_impl; [|exact Hall]. cbn beta. intros z Hz. lia.
  - intros _. rewrite (heap_pop_none _ _ Hp). constructor.
Qed.
