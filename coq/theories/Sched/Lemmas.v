(* Sched/Lemmas.v — proofs about the scheduler model (property C11). *)
From Coq Require Import List NArith ZArith Bool Lia Permutation Arith.
From Mimium Require Import Sched.Model Sched.Spec.
Import ListNotations.
Local Open Scope N_scope.

(* ====================================================================== *)
(* list / permutation helpers                                             *)

Lemma Permutation_filter {A} (f : A -> bool) (l l' : list A) :
  Permutation l l' -> Permutation (filter f l) (filter f l').
Proof.
  induction 1 as [|x l l' HP IH|x y l|l l' l'' HP1 IH1 HP2 IH2]; cbn [filter].
  - constructor.
  - destruct (f x); [constructor|]; exact IH.
  - destruct (f x), (f y); try apply Permutation_refl. apply perm_swap.
  - eapply Permutation_trans; eassumption.
Qed.

Lemma Permutation_flat_map {A B} (f : A -> list B) (l l' : list A) :
  Permutation l l' -> Permutation (flat_map f l) (flat_map f l').
Proof.
  induction 1 as [|x l l' HP IH|x y l|l l' l'' HP1 IH1 HP2 IH2]; cbn [flat_map].
  - constructor.
  - apply Permutation_app_head; exact IH.
  - rewrite !app_assoc. apply Permutation_app_tail, Permutation_app_comm.
  - eapply Permutation_trans; eassumption.
Qed.

Lemma filter_all {A} (f : A -> bool) (l : list A) :
  Forall (fun x => f x = true) l -> filter f l = l.
Proof.
  induction 1 as [|x l Hx HF IH]; cbn [filter]; [reflexivity|]. rewrite Hx, IH. reflexivity.
Qed.

Lemma filter_none {A} (f : A -> bool) (l : list A) :
  Forall (fun x => f x = false) l -> filter f l = [].
Proof.
  induction 1 as [|x l Hx HF IH]; cbn [filter]; [reflexivity|]. rewrite Hx, IH. reflexivity.
Qed.

Lemma filter_filter {A} (f g : A -> bool) (l : list A) :
  filter f (filter g l) = filter (fun x => f x && g x) l.
Proof.
  induction l as [|x l IH]; cbn [filter]; [reflexivity|].
  destruct (g x) eqn:Hg; cbn [filter]; rewrite ?IH.
  - rewrite andb_true_r. reflexivity.
  - rewrite andb_false_r. reflexivity.
Qed.

Lemma filter_ext_Forall {A} (f g : A -> bool) (l : list A) :
  Forall (fun x => f x = g x) l -> filter f l = filter g l.
Proof.
  induction 1 as [|x l Hx HF IH]; cbn [filter]; [reflexivity|]. rewrite Hx, IH. reflexivity.
Qed.

(* a list split into a part satisfying f and a part falsifying f is the filter partition *)
Lemma perm_split_filter {A} (f : A -> bool) (l a b : list A) :
  Permutation l (a ++ b) ->
  Forall (fun x => f x = true) a -> Forall (fun x => f x = false) b ->
  Permutation a (filter f l) /\ Permutation b (filter (fun x => negb (f x)) l).
Proof.
  intros HP Ha Hb. split.
  - rewrite (Permutation_filter f _ _ HP), filter_app, (filter_all f a Ha), (filter_none f b Hb), app_nil_r.
    apply Permutation_refl.
  - rewrite (Permutation_filter (fun x => negb (f x)) _ _ HP), filter_app.
    rewrite (filter_none (fun x => negb (f x)) a), (filter_all (fun x => negb (f x)) b).
    + apply Permutation_refl.
    + eapply Forall_impl; [|exact Hb]. cbn beta. intros x Hx. rewrite Hx. reflexivity.
    + eapply Forall_impl; [|exact Ha]. cbn beta. intros x Hx. rewrite Hx. reflexivity.
Qed.

Lemma Forall_perm {A} (P : A -> Prop) (l l' : list A) :
  Permutation l l' -> Forall P l -> Forall P l'.
Proof. intros HP HF. rewrite <- HP. exact HF. Qed.

Lemma Forall_filter {A} (P : A -> Prop) (f : A -> bool) (l : list A) :
  Forall P l -> Forall P (filter f l).
Proof.
  intros HF. apply Forall_forall. intros x Hx. apply filter_In in Hx.
  rewrite Forall_forall in HF. apply HF, Hx.
Qed.

Lemma Forall_filter_true {A} (f : A -> bool) (l : list A) :
  Forall (fun x => f x = true) (filter f l).
Proof. apply Forall_forall. intros x Hx. apply filter_In in Hx. apply Hx. Qed.

(* ====================================================================== *)
(* the heap: BinaryHeap with Ord on `when` only                            *)

Lemma min_of_le_d d h : min_of d h <= d.
Proof.
  revert d. induction h as [|x r IH]; intro d; cbn [min_of]; [lia|].
  specialize (IH (N.min d (when x))). lia.
Qed.

Lemma min_of_le_all d h : Forall (fun x => min_of d h <= when x) h.
Proof.
  revert d. induction h as [|x r IH]; intro d; cbn [min_of]; constructor.
  - pose proof (min_of_le_d (N.min d (when x)) r). lia.
  - apply IH.
Qed.

Lemma min_of_attained d h : min_of d h = d \/ exists x, In x h /\ when x = min_of d h.
Proof.
  revert d. induction h as [|x r IH]; intro d; cbn [min_of]; [left; reflexivity|].
  destruct (IH (N.min d (when x))) as [He|[y [Hy He]]].
  - rewrite He. destruct (N.min_spec d (when x)) as [[_ Hm]|[_ Hm]]; rewrite Hm.
    + left; reflexivity.
    + right. exists x. split; [left; reflexivity|reflexivity].
  - right. exists y. split; [right; exact Hy|exact He].
Qed.

Lemma minimum_spec h m :
  minimum h = Some m ->
  Forall (fun x => m <= when x) h /\ exists x, In x h /\ when x = m.
Proof.
  destruct h as [|x r]; cbn [minimum]; [discriminate|].
  intro H; injection H as <-. split.
  - constructor; [apply min_of_le_d|apply min_of_le_all].
  - destruct (min_of_attained (when x) r) as [He|[y [Hy He]]].
    + exists x. split; [left; reflexivity|symmetry; exact He].
    + exists y. split; [right; exact Hy|exact He].
Qed.

Lemma take_kth_some m k h x r :
  take_kth m k h = Some (x, r) -> when x = m /\ Permutation h (x :: r).
Proof.
  revert k x r. induction h as [|y h IH]; intros k x r; cbn [take_kth]; [discriminate|].
  destruct (when y =? m) eqn:Hy.
  - destruct k as [|k'].
    + intro H; injection H as <- <-. split; [apply N.eqb_eq; exact Hy|apply Permutation_refl].
    + destruct (take_kth m k' h) as [[z r']|] eqn:Hk; [|discriminate].
      intro H; injection H as <- <-. destruct (IH _ _ _ Hk) as [Hw HP]. split; [exact Hw|].
      rewrite HP. apply perm_swap.
  - destruct (take_kth m k h) as [[z r']|] eqn:Hk; [|discriminate].
    intro H; injection H as <- <-. destruct (IH _ _ _ Hk) as [Hw HP]. split; [exact Hw|].
    rewrite HP. apply perm_swap.
Qed.

Lemma take_kth_defined m k h :
  (k < count_when m h)%nat -> exists x r, take_kth m k h = Some (x, r).
Proof.
  unfold count_when. revert k. induction h as [|y h IH]; intro k; cbn [take_kth filter length]; [lia|].
  destruct (when y =? m) eqn:Hy; cbn [length].
  - destruct k as [|k']; [eauto|]. intro Hk.
    destruct (IH k') as [x [r Hx]]; [lia|]. rewrite Hx. eauto.
  - intro Hk. destruct (IH k Hk) as [x [r Hx]]. rewrite Hx. eauto.
Qed.

Lemma count_when_pos m h x : In x h -> when x = m -> (0 < count_when m h)%nat.
Proof.
  intros Hin Hw. unfold count_when.
  assert (Hf : In x (filter (fun y => when y =? m) h)).
  { apply filter_In. split; [exact Hin|apply N.eqb_eq; exact Hw]. }
  destruct (filter (fun y => when y =? m) h); [destruct Hf|cbn [length]; lia].
Qed.

(* peek/pop returns a task of minimal `when`, leaves the rest; fails only on the empty heap *)
Lemma heap_pop_some sel h x r :
  heap_pop sel h = Some (x, r) ->
  Permutation h (x :: r) /\ Forall (fun y => when x <= when y) h.
Proof.
  unfold heap_pop. destruct (minimum h) as [m|] eqn:Hm; [|discriminate].
  intro Hk. destruct (take_kth_some _ _ _ _ _ Hk) as [Hw HP].
  destruct (minimum_spec _ _ Hm) as [Hall _]. split; [exact HP|]. rewrite Hw. exact Hall.
Qed.

Lemma heap_pop_none sel h : heap_pop sel h = None -> h = [].
Proof.
  unfold heap_pop. destruct (minimum h) as [m|] eqn:Hm.
  - destruct (minimum_spec _ _ Hm) as [_ [x [Hin Hw]]].
    pose proof (count_when_pos m h x Hin Hw) as Hc.
    destruct (take_kth_defined m (Nat.modulo (sel h) (count_when m h)) h) as [y [r Hy]].
    + apply Nat.mod_upper_bound. lia.
    + rewrite Hy. discriminate.
  - destruct h; [reflexivity|discriminate].
Qed.

Lemma pop_task_some sel now h x r :
  pop_task sel now h = Some (x, r) -> Permutation h (x :: r) /\ when x <= now.
Proof.
  unfold pop_task. destruct (heap_pop sel h) as [[y r']|] eqn:Hp; [|discriminate].
  destruct (when y <=? now) eqn:Hle; [|discriminate].
  intro H; injection H as <- <-. split; [apply (heap_pop_some _ _ _ _ Hp)|apply N.leb_le; exact Hle].
Qed.

Lemma pop_task_none sel now h :
  pop_task sel now h = None -> Forall (fun y => now < when y) h.
Proof.
  unfold pop_task. destruct (heap_pop sel h) as [[y r']|] eqn:Hp.
  - destruct (when y <=? now) eqn:Hle; [discriminate|]. intros _.
    apply N.leb_gt in Hle. destruct (heap_pop_some _ _ _ _ Hp) as [_ Hall].
    eapply Forall_impl; [|exact Hall]. cbn beta. intros z Hz. lia.
  - intros _. rewrite (heap_pop_none _ _ Hp). constructor.
Qed.

(* ====================================================================== *)
(* VM worker                                                              *)

Lemma fold_schedule_vm rs w :
  fold_left schedule_at_vm rs w = mkVm (v_cur w) (v_heap w) (v_chan w ++ map to_task rs).
Proof.
  revert w. induction rs as [|r rs IH]; intro w; cbn [fold_left map].
  - rewrite app_nil_r. destruct w as [wc wh wch]; reflexivity.
  - rewrite IH. unfold schedule_at_vm. cbn [v_cur v_heap v_chan]. rewrite <- app_assoc. reflexivity.
Qed.

Lemma drain_channel_ok cur ch h :
  Forall (fun x => cur < when x) ch -> drain_channel cur ch h = Done (h ++ ch).
Proof.
  revert h. induction ch as [|x r IH]; intros h HF; cbn [drain_channel].
  - rewrite app_nil_r. reflexivity.
  - inversion HF as [|? ? Hx Hr]; subst.
    destruct (when x <=? cur) eqn:Hle; [apply N.leb_le in Hle; lia|].
    rewrite (IH _ Hr). unfold heap_push. rewrite <- app_assoc. reflexivity.
Qed.

(* what the code does when the premise is violated: a task in the channel that is not in the future of the
   worker's (previous) current time makes the next on_sample panic *)
Lemma drain_channel_panics cur ch h x :
  In x ch -> when x <= cur -> drain_channel cur ch h = Panic.
Proof.
  revert h. induction ch as [|y r IH]; intros h Hin Hle; [destruct Hin|].
  cbn [drain_channel]. destruct (when y <=? cur) eqn:Hy; [reflexivity|].
  destruct Hin as [->|Hin]; [apply N.leb_gt in Hy; lia|]. apply IH; assumption.
Qed.

Lemma spawned_app beh t a b : spawned beh t (a ++ b) = spawned beh t a ++ spawned beh t b.
Proof. unfold spawned. apply flat_map_app. Qed.

Lemma spawned_cons beh t x ex :
  spawned beh t (x :: ex) = map to_task (beh (clo x) t) ++ spawned beh t ex.
Proof. reflexivity. Qed.

Lemma spawned_perm beh t a b : Permutation a b -> Permutation (spawned beh t a) (spawned beh t b).
Proof. apply Permutation_flat_map. Qed.

(* the second loop of on_sample: executes exactly the tasks with when <= time (in some order), leaves the
   others, and everything the executed closures schedule lands in the channel *)
Lemma run_ready_vm_spec sel beh time :
  forall fuel w log, (length (v_heap w) <= fuel)%nat ->
  exists h' ex,
    run_ready_vm sel beh fuel time w log
      = Done (mkVm (v_cur w) h' (v_chan w ++ spawned beh time ex), log ++ ex)
    /\ Permutation (v_heap w) (ex ++ h')
    /\ Forall (fun x => when x <= time) ex
    /\ Forall (fun x => time < when x) h'.
Proof.
  induction fuel as [|f IH]; intros w log Hlen.
  - destruct (v_heap w) as [|y hh] eqn:Hh; [|cbn [length] in Hlen; lia].
    exists [], []. cbn [run_ready_vm]. rewrite Hh. cbn.
    rewrite !app_nil_r. destruct w as [wc wh wch]; cbn in *; subst.
    split; [reflexivity|split; [constructor|split; constructor]].
  - cbn [run_ready_vm]. destruct (pop_task sel time (v_heap w)) as [[x h1]|] eqn:Hp.
    + destruct (pop_task_some _ _ _ _ _ Hp) as [HP Hle].
      rewrite fold_schedule_vm. cbn [v_cur v_heap v_chan].
      set (w1 := mkVm (v_cur w) h1 (v_chan w ++ map to_task (beh (clo x) time))).
      assert (Hl1 : (length (v_heap w1) <= f)%nat).
      { cbn [w1 v_heap]. apply Permutation_length in HP. cbn [length] in HP. lia. }
      destruct (IH w1 (log ++ [x]) Hl1) as [h' [ex [Hrun [HP1 [Hex Hh']]]]].
      exists h', (x :: ex). rewrite Hrun. cbn [w1 v_cur v_heap v_chan] in *.
      rewrite spawned_cons, <- !app_assoc. cbn [app]. split; [reflexivity|split; [|split]].
      * rewrite HP. cbn [app]. constructor. exact HP1.
      * constructor; assumption.
      * exact Hh'.
    + exists (v_heap w), []. cbn [spawned flat_map app]. rewrite !app_nil_r.
      destruct w as [wc wh wch]; cbn [v_cur v_heap v_chan] in *. split; [reflexivity|split; [|split]].
      * apply Permutation_refl.
      * constructor.
      * apply (pop_task_none _ _ _ Hp).
Qed.

(* ====================================================================== *)
(* WASM handle                                                             *)

Lemma schedule_all_wasm_ok s rs :
  Forall (later_than (w_cur s)) rs ->
  schedule_all_wasm s rs = Done (mkWs (w_cur s) (w_heap s ++ map to_task rs)).
Proof.
  revert s. induction rs as [|r rs IH]; intros s HF; cbn [schedule_all_wasm map].
  - rewrite app_nil_r. destruct s as [sc sh]; reflexivity.
  - inversion HF as [|? ? Hr Hrs]; subst. unfold schedule_at_wasm.
    unfold later_than in Hr.
    destruct (when (to_task r) <=? w_cur s) eqn:Hle; [apply N.leb_le in Hle; lia|].
    cbn [bind]. rewrite IH; cbn [w_cur w_heap]; [|exact Hrs].
    unfold heap_push. rewrite <- app_assoc. reflexivity.
Qed.

(* what the code does when the premise is violated: the schedule call itself panics *)
Lemma schedule_at_wasm_panics s r :
  when (to_task r) <= w_cur s -> schedule_at_wasm s r = Panic.
Proof.
  intro Hle. unfold schedule_at_wasm. apply N.leb_le in Hle. rewrite Hle. reflexivity.
Qed.

Lemma drain_due_spec sel now :
  forall fuel h ready, (length h <= fuel)%nat ->
  exists ex h',
    drain_due sel fuel now h ready = Done (ready ++ ex, h')
    /\ Permutation h (ex ++ h')
    /\ Forall (fun x => when x <= now) ex
    /\ Forall (fun x => now < when x) h'.
Proof.
  induction fuel as [|f IH]; intros h ready Hlen.
  - destruct h as [|y hh]; [|cbn [length] in Hlen; lia].
    exists [], []. cbn. rewrite app_nil_r. split; [reflexivity|split; [constructor|split; constructor]].
  - cbn [drain_due]. destruct (pop_task sel now h) as [[x h1]|] eqn:Hp.
    + destruct (pop_task_some _ _ _ _ _ Hp) as [HP Hle].
      assert (Hl1 : (length h1 <= f)%nat).
      { apply Permutation_length in HP. cbn [length] in HP. lia. }
      destruct (IH h1 (ready ++ [x]) Hl1) as [ex [h' [Hrun [HP1 [Hex Hh']]]]].
      exists (x :: ex), h'. rewrite Hrun, <- app_assoc. cbn [app]. split; [reflexivity|split; [|split]].
      * rewrite HP. constructor. exact HP1.
      * constructor; assumption.
      * exact Hh'.
    + exists [], h. rewrite app_nil_r. cbn [app]. split; [reflexivity|split; [|split]].
      * apply Permutation_refl.
      * constructor.
      * apply (pop_task_none _ _ _ Hp).
Qed.

Lemma exec_ready_wasm_ok H beh time ready :
  respects_future H beh -> time < H ->
  forall s, w_cur s = time ->
  exec_ready_wasm beh time ready s = Done (mkWs time (w_heap s ++ spawned beh time ready)).
Proof.
  intros Hb HtH. induction ready as [|x rest IH]; intros s Hc; cbn [exec_ready_wasm].
  - cbn [spawned flat_map]. rewrite app_nil_r. destruct s as [sc sh]; cbn in *; subst; reflexivity.
  - rewrite schedule_all_wasm_ok.
    + cbn [bind]. rewrite IH; cbn [w_cur w_heap]; [|exact Hc].
      rewrite spawned_cons, <- app_assoc. reflexivity.
    + apply Forall_forall. intros r Hr. rewrite Hc. apply (Hb _ _ _ HtH Hr).
Qed.

(* ====================================================================== *)
(* the ideal schedule: consequences of the premise                         *)

Section Trace.
  Variable beh : behaviour.
  Variable dspb : dsp_behaviour.
  Variable init : list request.
  Variable H : N.
  Hypothesis Hbeh : respects_future H beh.
  Hypothesis Hdsp : dsp_respects_future H dspb.
  Hypothesis Hinit : init_respects_future init.

  Lemma spawned_future t ex : t < H -> Forall (fun x => t < when x) (spawned beh t ex).
  Proof.
    intro HtH.
    apply Forall_forall. intros x Hx. unfold spawned in Hx.
    apply in_flat_map in Hx. destruct Hx as [y [_ Hx]]. apply in_map_iff in Hx.
    destruct Hx as [r [<- Hr]]. apply (Hbeh _ _ _ HtH Hr).
  Qed.

  Lemma dsp_future t : t < H -> Forall (fun x => t < when x) (map to_task (dspb t)).
  Proof.
    intro HtH. apply Forall_forall. intros x Hx. apply in_map_iff in Hx.
    destruct Hx as [r [<- Hr]]. apply (Hdsp _ _ HtH Hr).
  Qed.

  Lemma init_future : Forall (fun x => 0 < when x) (map to_task init).
  Proof.
    apply Forall_forall. intros x Hx. apply in_map_iff in Hx.
    destruct Hx as [r [<- Hr]]. apply (Hinit _ Hr).
  Qed.

  (* every pending task lies in the future: when >= T, and > 0 *)
  Lemma trace_pending_future T P execs :
    trace_ok beh dspb init T P execs -> N.of_nat T <= H ->
    Forall (fun x => N.of_nat T <= when x /\ 0 < when x) P.
  Proof.
    induction 1 as [P HP|T P0 execs ex P Htr IH Hex HP]; intro HTH.
    - eapply Forall_perm; [apply Permutation_sym; exact HP|].
      eapply Forall_impl; [|exact init_future]. cbn beta. intros x Hx. lia.
    - eapply Forall_perm; [apply Permutation_sym; exact HP|].
      apply Forall_app. split; [|apply Forall_app; split].
      + apply Forall_forall. intros x Hx. apply filter_In in Hx. destruct Hx as [Hx Hlt].
        apply N.ltb_lt in Hlt. assert (HTH' : N.of_nat T <= H) by lia. specialize (IH HTH').
        rewrite Forall_forall in IH. specialize (IH x Hx). lia.
      + assert (HtH : N.of_nat T < H) by lia.
        eapply Forall_impl; [|exact (spawned_future (N.of_nat T) ex HtH)]. cbn beta. intros x Hx. lia.
      + assert (HtH : N.of_nat T < H) by lia.
        eapply Forall_impl; [|exact (dsp_future (N.of_nat T) HtH)]. cbn beta. intros x Hx. lia.
  Qed.

  Lemma trace_length T P execs : trace_ok beh dspb init T P execs -> length execs = T.
  Proof.
    induction 1 as [P HP|T P0 execs ex P Htr IH Hex HP]; [reflexivity|].
    rewrite app_length, IH. cbn [length]. lia.
  Qed.

  Lemma sched_ticks_snoc t execs ex :
    sched_ticks beh dspb t (execs ++ [ex])
    = sched_ticks beh dspb t execs
      ++ spawned beh (N.of_nat (t + length execs)) ex ++ map to_task (dspb (N.of_nat (t + length execs))).
  Proof.
    revert t. induction execs as [|e execs IH]; intro t; cbn [sched_ticks app length].
    - rewrite Nat.add_0_r, !app_nil_r. reflexivity.
    - rewrite IH. replace (S t + length execs)%nat with (t + S (length execs))%nat by lia.
      rewrite <- !app_assoc. reflexivity.
  Qed.

  (* the multiset form of the property: what ran in sample t is exactly what was scheduled for t;
     what is pending is exactly what was scheduled for T and later *)
  Lemma trace_exactly_once T P execs :
    trace_ok beh dspb init T P execs -> N.of_nat T <= H ->
    (forall t, (t < T)%nat ->
       Permutation (nth t execs []) (filter (fun x => when x =? N.of_nat t) (scheduled_by beh dspb init execs)))
    /\ Permutation P (filter (fun x => N.of_nat T <=? when x) (scheduled_by beh dspb init execs)).
  Proof.
    induction 1 as [P HP|T P0 execs ex P Htr IH Hex HP]; intro HTH.
    - split; [intros t Ht; lia|].
      unfold scheduled_by. cbn [sched_ticks]. rewrite app_nil_r, filter_all; [exact HP|].
      apply Forall_forall. intros x _. apply N.leb_le. cbn. lia.
    - assert (HTH' : N.of_nat T <= H) by lia. assert (HtH : N.of_nat T < H) by lia.
      destruct (IH HTH') as [IHex IHP].
      pose proof (trace_length _ _ _ Htr) as Hlen.
      set (Sold := scheduled_by beh dspb init execs) in *.
      set (new := spawned beh (N.of_nat T) ex ++ map to_task (dspb (N.of_nat T))).
      assert (HS : scheduled_by beh dspb init (execs ++ [ex]) = Sold ++ new).
      { unfold Sold, new, scheduled_by. rewrite sched_ticks_snoc, Hlen. cbn [Nat.add].
        rewrite <- ?app_assoc. reflexivity. }
      assert (Hnew : Forall (fun x => N.of_nat T < when x) new).
      { apply Forall_app. split; [apply spawned_future|apply dsp_future]; exact HtH. }
      rewrite HS. split.
      + intros t Ht. rewrite filter_app.
        rewrite (filter_none _ new).
        2:{ eapply Forall_impl; [|exact Hnew]. cbn beta. intros x Hx. apply N.eqb_neq. lia. }
        rewrite app_nil_r.
        destruct (Nat.eq_dec t T) as [->|Hne].
        * rewrite app_nth2, Hlen, Nat.sub_diag by lia. cbn [nth].
          rewrite Hex. rewrite (Permutation_filter _ _ _ IHP), filter_filter.
          erewrite filter_ext_Forall; [apply Permutation_refl|].
          apply Forall_forall. intros x _. cbn beta.
          destruct (when x =? N.of_nat T) eqn:He; [|reflexivity].
          apply N.eqb_eq in He. cbn [andb]. apply N.leb_le. lia.
        * rewrite app_nth1 by lia. apply IHex. lia.
      + rewrite HP. rewrite filter_app. fold new.
        rewrite (filter_all _ new).
        2:{ eapply Forall_impl; [|exact Hnew]. cbn beta. intros x Hx. apply N.leb_le. lia. }
        apply Permutation_app_tail.
        rewrite (Permutation_filter _ _ _ IHP), filter_filter.
        erewrite filter_ext_Forall; [apply Permutation_refl|].
        apply Forall_forall. intros x _. cbn beta.
        destruct (N.of_nat T <? when x) eqn:Hlt.
        * apply N.ltb_lt in Hlt. cbn [andb].
          transitivity true; [apply N.leb_le; lia|symmetry; apply N.leb_le; lia].
        * apply N.ltb_ge in Hlt. cbn [andb]. symmetry. apply N.leb_gt. lia.
  Qed.
End Trace.

(* two runs following the ideal schedule execute the same multiset in every sample (no premise needed) *)
Lemma trace_unique beh dspb init T :
  forall P execs P' execs',
  trace_ok beh dspb init T P execs -> trace_ok beh dspb init T P' execs' ->
  Permutation P P' /\ Forall2 (@Permutation task) execs execs'.
Proof.
  induction T as [|T IH]; intros P execs P' execs' H1 H2.
  - inversion H1 as [? HP1|]; subst. inversion H2 as [? HP2|]; subst.
    split; [rewrite HP1, HP2; apply Permutation_refl|constructor].
  - inversion H1 as [|? P0 ex0 ex ? Htr Hex HP]; subst.
    inversion H2 as [|? P0' ex0' ex' ? Htr' Hex' HP']; subst.
    destruct (IH _ _ _ _ Htr Htr') as [HP0 HF].
    assert (Hee : Permutation ex ex').
    { rewrite Hex, Hex'. apply Permutation_filter. exact HP0. }
    split.
    + rewrite HP, HP'. apply Permutation_app; [apply Permutation_filter; exact HP0|].
      apply Permutation_app_tail. apply spawned_perm. exact Hee.
    + apply Forall2_app; [exact HF|]. constructor; [exact Hee|constructor].
Qed.

(* ====================================================================== *)
(* the two machines follow the ideal schedule                              *)

Section Runs.
  Variable beh : behaviour.
  Variable dspb : dsp_behaviour.
  Variable init : list request.
  Variable H : N.
  Hypothesis Hbeh : respects_future H beh.
  Hypothesis Hdsp : dsp_respects_future H dspb.
  Hypothesis Hinit : init_respects_future init.

  (* one VmDspRuntime::run_dsp on a worker whose pending tasks follow the ideal schedule *)
  Lemma vm_tick sel T w execs :
    trace_ok beh dspb init T (v_chan w ++ v_heap w) execs ->
    v_cur w = N.pred (N.of_nat T) -> N.of_nat T < H ->
    exists w' ex,
      run_dsp_vm sel beh dspb (N.of_nat T) w = Done (w', ex)
      /\ trace_ok beh dspb init (S T) (v_chan w' ++ v_heap w') (execs ++ [ex])
      /\ v_cur w' = N.of_nat T.
  Proof.
    intros Htr Hcur HtH.
    assert (HTH : N.of_nat T <= H) by lia.
    pose proof (trace_pending_future beh dspb init H Hbeh Hdsp Hinit _ _ _ Htr HTH) as HF.
    assert (HFc : Forall (fun x => v_cur w < when x) (v_chan w)).
    { apply Forall_app in HF. destruct HF as [HFc _].
      eapply Forall_impl; [|exact HFc]. cbn beta. intros x Hx. rewrite Hcur. lia. }
    unfold run_dsp_vm, on_sample_vm. rewrite (drain_channel_ok _ _ _ HFc). cbn [bind].
    destruct (run_ready_vm_spec sel beh (N.of_nat T) (length (v_heap w ++ v_chan w))
                (mkVm (N.of_nat T) (v_heap w ++ v_chan w) []) [] (le_n _))
      as [h' [ex [Hrun [HP [Hex Hh']]]]].
    rewrite Hrun. cbn [bind v_cur v_heap v_chan app] in *. rewrite fold_schedule_vm.
    cbn [v_cur v_heap v_chan].
    eexists; exists ex. split; [reflexivity|]. cbn [v_cur v_heap v_chan]. split; [|reflexivity].
    destruct (perm_split_filter (fun x => when x <=? N.of_nat T) _ _ _ HP) as [Hpe Hph].
    { eapply Forall_impl; [|exact Hex]. cbn beta. intros x Hx. apply N.leb_le. exact Hx. }
    { eapply Forall_impl; [|exact Hh']. cbn beta. intros x Hx. apply N.leb_gt. exact Hx. }
    assert (Hcomm : Permutation (v_heap w ++ v_chan w) (v_chan w ++ v_heap w))
      by apply Permutation_app_comm.
    apply (trace_S beh dspb init T (v_chan w ++ v_heap w) execs ex); [exact Htr| |].
    - rewrite Hpe. rewrite (Permutation_filter _ _ _ Hcomm).
      erewrite filter_ext_Forall; [apply Permutation_refl|].
      eapply Forall_impl; [|exact HF]. cbn beta. intros x [Hx _].
      destruct (when x =? N.of_nat T) eqn:He.
      + apply N.eqb_eq in He. apply N.leb_le. lia.
      + apply N.eqb_neq in He. apply N.leb_gt. lia.
    - rewrite Permutation_app_comm.
      apply Permutation_app.
      + rewrite Hph. rewrite (Permutation_filter _ _ _ Hcomm).
        erewrite filter_ext_Forall; [apply Permutation_refl|].
        apply Forall_forall. intros x _. cbn beta. rewrite N.ltb_antisym. reflexivity.
      + apply Permutation_refl.
  Qed.

  (* one WasmDspRuntime::run_dsp on a handle whose heap follows the ideal schedule *)
  Lemma wasm_tick sel T s execs :
    trace_ok beh dspb init T (w_heap s) execs ->
    w_cur s = N.pred (N.of_nat T) -> N.of_nat T < H ->
    exists s' ex,
      run_dsp_wasm sel beh dspb (N.of_nat T) s = Done (s', ex)
      /\ trace_ok beh dspb init (S T) (w_heap s') (execs ++ [ex])
      /\ w_cur s' = N.of_nat T.
  Proof.
    intros Htr Hcur HtH.
    assert (HTH : N.of_nat T <= H) by lia.
    pose proof (trace_pending_future beh dspb init H Hbeh Hdsp Hinit _ _ _ Htr HTH) as HF.
    unfold run_dsp_wasm, on_sample_wasm.
    destruct (drain_due_spec sel (N.of_nat T) (length (w_heap s)) (w_heap s) [] (le_n _))
      as [ex [h' [Hrun [HP [Hex Hh']]]]].
    rewrite Hrun. cbn [bind app].
    rewrite (exec_ready_wasm_ok H beh (N.of_nat T) ex Hbeh HtH (mkWs (N.of_nat T) h') eq_refl).
    cbn [bind w_heap]. rewrite schedule_all_wasm_ok.
    2:{ cbn [w_cur]. apply Forall_forall. intros r Hr. apply (Hdsp _ _ HtH Hr). }
    cbn [bind w_cur w_heap].
    eexists; exists ex. split; [reflexivity|]. cbn [w_cur w_heap]. split; [|reflexivity].
    destruct (perm_split_filter (fun x => when x <=? N.of_nat T) _ _ _ HP) as [Hpe Hph].
    { eapply Forall_impl; [|exact Hex]. cbn beta. intros x Hx. apply N.leb_le. exact Hx. }
    { eapply Forall_impl; [|exact Hh']. cbn beta. intros x Hx. apply N.leb_gt. exact Hx. }
    apply (trace_S beh dspb init T (w_heap s) execs ex); [exact Htr| |].
    - rewrite Hpe.
      erewrite filter_ext_Forall; [apply Permutation_refl|].
      eapply Forall_impl; [|exact HF]. cbn beta. intros x [Hx _].
      destruct (when x =? N.of_nat T) eqn:He.
      + apply N.eqb_eq in He. apply N.leb_le. lia.
      + apply N.eqb_neq in He. apply N.leb_gt. lia.
    - rewrite <- app_assoc. apply Permutation_app; [|apply Permutation_refl].
      rewrite Hph.
      erewrite filter_ext_Forall; [apply Permutation_refl|].
      apply Forall_forall. intros x _. cbn beta. rewrite N.ltb_antisym. reflexivity.
  Qed.

  Lemma run_vm_trace sel T :
    N.of_nat T <= H ->
    exists w execs,
      run_vm sel beh dspb init T = Done (w, execs)
      /\ trace_ok beh dspb init T (v_chan w ++ v_heap w) execs
      /\ v_cur w = N.pred (N.of_nat T).
  Proof.
    induction T as [|T IH]; intro HTH.
    - cbn [run_vm]. rewrite fold_schedule_vm. cbn [vm_init v_cur v_heap v_chan app].
      eexists; eexists. split; [reflexivity|]. cbn [v_cur v_heap v_chan]. split; [|reflexivity].
      constructor. rewrite app_nil_r. apply Permutation_refl.
    - assert (HtH : N.of_nat T < H) by lia.
      destruct IH as [w [execs [Hrun [Htr Hcur]]]]; [lia|].
      destruct (vm_tick sel T w execs Htr Hcur HtH) as [w' [ex [Hstep [Htr' Hcur']]]].
      cbn [run_vm]. rewrite Hrun. cbn [bind]. rewrite Hstep. cbn [bind].
      exists w', (execs ++ [ex]). split; [reflexivity|]. split; [exact Htr'|]. rewrite Hcur'. lia.
  Qed.

  Lemma run_wasm_trace sel T :
    N.of_nat T <= H ->
    exists s execs,
      run_wasm sel beh dspb init T = Done (s, execs)
      /\ trace_ok beh dspb init T (w_heap s) execs
      /\ w_cur s = N.pred (N.of_nat T).
  Proof.
    induction T as [|T IH]; intro HTH.
    - cbn [run_wasm]. rewrite schedule_all_wasm_ok.
      2:{ cbn [wasm_init w_cur]. apply Forall_forall. intros r Hr. apply (Hinit _ Hr). }
      cbn [bind wasm_init w_cur w_heap app].
      eexists; eexists. split; [reflexivity|]. cbn [w_cur w_heap]. split; [|reflexivity].
      constructor. apply Permutation_refl.
    - assert (HtH : N.of_nat T < H) by lia.
      destruct IH as [s [execs [Hrun [Htr Hcur]]]]; [lia|].
      destruct (wasm_tick sel T s execs Htr Hcur HtH) as [s' [ex [Hstep [Htr' Hcur']]]].
      cbn [run_wasm]. rewrite Hrun. cbn [bind]. rewrite Hstep. cbn [bind].
      exists s', (execs ++ [ex]). split; [reflexivity|]. split; [exact Htr'|]. rewrite Hcur'. lia.
  Qed.
End Runs.

(* ====================================================================== *)
(* statements used by Props/C11.v                                          *)

Lemma vm_exactly_once :
  forall (sel : selector) (beh : behaviour) (dspb : dsp_behaviour) (init : list request) (T : nat),
  respects_future (N.of_nat T) beh -> dsp_respects_future (N.of_nat T) dspb -> init_respects_future init ->
  exists w execs,
    run_vm sel beh dspb init T = Done (w, execs)
    /\ length execs = T
    /\ (forall t, (t < T)%nat ->
          Permutation (nth t execs [])
            (filter (fun x => when x =? N.of_nat t) (scheduled_by beh dspb init execs)))
    /\ Permutation (v_chan w ++ v_heap w)
         (filter (fun x => N.of_nat T <=? when x) (scheduled_by beh dspb init execs))
    /\ Forall (fun x => v_cur w < when x) (v_chan w ++ v_heap w).
Proof.
  intros sel beh dspb init T Hb Hd Hi.
  destruct (run_vm_trace beh dspb init _ Hb Hd Hi sel T (N.le_refl _)) as [w [execs [Hrun [Htr Hcur]]]].
  exists w, execs. split; [exact Hrun|]. split; [exact (trace_length _ _ _ _ _ _ Htr)|].
  destruct (trace_exactly_once beh dspb init _ Hb Hd _ _ _ Htr (N.le_refl _)) as [H1 H2].
  split; [exact H1|]. split; [exact H2|].
  pose proof (trace_pending_future beh dspb init _ Hb Hd Hi _ _ _ Htr (N.le_refl _)) as HF.
  eapply Forall_impl; [|exact HF]. cbn beta. intros x Hx. rewrite Hcur. lia.
Qed.

Lemma wasm_exactly_once :
  forall (sel : selector) (beh : behaviour) (dspb : dsp_behaviour) (init : list request) (T : nat),
  respects_future (N.of_nat T) beh -> dsp_respects_future (N.of_nat T) dspb -> init_respects_future init ->
  exists s execs,
    run_wasm sel beh dspb init T = Done (s, execs)
    /\ length execs = T
    /\ (forall t, (t < T)%nat ->
          Permutation (nth t execs [])
            (filter (fun x => when x =? N.of_nat t) (scheduled_by beh dspb init execs)))
    /\ Permutation (w_heap s)
         (filter (fun x => N.of_nat T <=? when x) (scheduled_by beh dspb init execs))
    /\ Forall (fun x => w_cur s < when x) (w_heap s).
Proof.
  intros sel beh dspb init T Hb Hd Hi.
  destruct (run_wasm_trace beh dspb init _ Hb Hd Hi sel T (N.le_refl _)) as [s [execs [Hrun [Htr Hcur]]]].
  exists s, execs. split; [exact Hrun|]. split; [exact (trace_length _ _ _ _ _ _ Htr)|].
  destruct (trace_exactly_once beh dspb init _ Hb Hd _ _ _ Htr (N.le_refl _)) as [H1 H2].
  split; [exact H1|]. split; [exact H2|].
  pose proof (trace_pending_future beh dspb init _ Hb Hd Hi _ _ _ Htr (N.le_refl _)) as HF.
  eapply Forall_impl; [|exact HF]. cbn beta. intros x Hx. rewrite Hcur. lia.
Qed.

Lemma backends_agree :
  forall (selv selw : selector) (beh : behaviour) (dspb : dsp_behaviour) (init : list request) (T : nat),
  respects_future (N.of_nat T) beh -> dsp_respects_future (N.of_nat T) dspb -> init_respects_future init ->
  exists w ev s ew,
    run_vm selv beh dspb init T = Done (w, ev)
    /\ run_wasm selw beh dspb init T = Done (s, ew)
    /\ Forall2 (@Permutation task) ev ew
    /\ Permutation (v_chan w ++ v_heap w) (w_heap s).
Proof.
  intros selv selw beh dspb init T Hb Hd Hi.
  destruct (run_vm_trace beh dspb init _ Hb Hd Hi selv T (N.le_refl _)) as [w [ev [Hrv [Htv _]]]].
  destruct (run_wasm_trace beh dspb init _ Hb Hd Hi selw T (N.le_refl _)) as [s [ew [Hrw [Htw _]]]].
  exists w, ev, s, ew. split; [exact Hrv|]. split; [exact Hrw|].
  destruct (trace_unique _ _ _ _ _ _ _ _ Htv Htw) as [HP HF]. split; assumption.
Qed.

(* the order in which BinaryHeap hands out equal-time tasks does not matter *)
Lemma vm_selector_irrelevant :
  forall (sel1 sel2 : selector) (beh : behaviour) (dspb : dsp_behaviour) (init : list request) (T : nat),
  respects_future (N.of_nat T) beh -> dsp_respects_future (N.of_nat T) dspb -> init_respects_future init ->
  exists w1 e1 w2 e2,
    run_vm sel1 beh dspb init T = Done (w1, e1)
    /\ run_vm sel2 beh dspb init T = Done (w2, e2)
    /\ Forall2 (@Permutation task) e1 e2.
Proof.
  intros sel1 sel2 beh dspb init T Hb Hd Hi.
  destruct (run_vm_trace beh dspb init _ Hb Hd Hi sel1 T (N.le_refl _)) as [w1 [e1 [Hr1 [Ht1 _]]]].
  destruct (run_vm_trace beh dspb init _ Hb Hd Hi sel2 T (N.le_refl _)) as [w2 [e2 [Hr2 [Ht2 _]]]].
  exists w1, e1, w2, e2. split; [exact Hr1|]. split; [exact Hr2|].
  apply (trace_unique _ _ _ _ _ _ _ _ Ht1 Ht2).
Qed.

(* ---- premise violated: what the code does ---- *)
Lemma vm_not_future_panics_at_next_sample :
  forall sel beh time w x,
  In x (v_chan w) -> when x <= v_cur w -> on_sample_vm sel beh time w = Panic.
Proof.
  intros sel beh time w x Hin Hle. unfold on_sample_vm.
  rewrite (drain_channel_panics _ _ _ x Hin Hle). reflexivity.
Qed.

Lemma vm_schedule_never_panics :
  forall w r, exists w', schedule_at_vm w r = w' /\ v_chan w' = v_chan w ++ [to_task r].
Proof. intros w r. eexists. split; reflexivity. Qed.

(* ---- the table-driven behaviours used by the correspondence check satisfy the premise whenever every
        rule asks for at least one whole sample of delay (dq >= 4 quarter samples) ---- *)
Lemma trunc_quarter_future now dq :
  now < U64_MAX -> (4 <= dq)%Z -> now < trunc_time (FQuarter (4 * Z.of_N now + dq)).
Proof.
  intros Hnow Hdq. unfold trunc_time.
  destruct (4 * Z.of_N now + dq <? 0)%Z eqn:Hneg; [apply Z.ltb_lt in Hneg; lia|].
  assert (Hdiv : (Z.of_N now + 1 <= (4 * Z.of_N now + dq) / 4)%Z).
  { apply Z.div_le_lower_bound; lia. }
  apply N.min_glb_lt; [|exact Hnow]. lia.
Qed.

Definition rules_delay_ok (rs : list rule) : Prop := Forall (fun r : rule => (4 <= fst r)%Z) rs.

Lemma apply_rules_future now rs r :
  now < U64_MAX -> rules_delay_ok rs -> In r (apply_rules now rs) -> later_than now r.
Proof.
  intros Hnow Hok Hin. unfold apply_rules in Hin. apply in_map_iff in Hin.
  destruct Hin as [[dq c] [<- Hin]]. unfold rules_delay_ok in Hok. rewrite Forall_forall in Hok.
  specialize (Hok _ Hin). cbn [fst snd] in *. unfold later_than, to_task. cbn [when fst].
  apply trunc_quarter_future; assumption.
Qed.

Lemma lookup_ok {A} (P : A -> Prop) k tbl d :
  P d -> Forall (fun e : N * A => P (snd e)) tbl -> P (lookup k tbl d).
Proof.
  intros Hd HF. induction HF as [|[k' v] tbl Hv HF IH]; cbn [lookup]; [exact Hd|].
  destruct (k =? k'); [exact Hv|exact IH].
Qed.

Lemma table_behaviour_respects H tbl :
  H <= U64_MAX -> Forall (fun e : N * list rule => rules_delay_ok (snd e)) tbl ->
  respects_future H (table_behaviour tbl).
Proof.
  intros HH HF c now r Hnow Hin. unfold table_behaviour in Hin.
  eapply apply_rules_future; [lia| |exact Hin].
  apply (lookup_ok rules_delay_ok); [constructor|exact HF].
Qed.

Lemma table_dsp_respects H tbl :
  H <= U64_MAX -> Forall (fun e : N * list rule => rules_delay_ok (snd e)) tbl ->
  dsp_respects_future H (table_dsp tbl).
Proof.
  intros HH HF now r Hnow Hin. unfold table_dsp in Hin.
  eapply apply_rules_future; [lia| |exact Hin].
  apply (lookup_ok rules_delay_ok); [constructor|exact HF].
Qed.
