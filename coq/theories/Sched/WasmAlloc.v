(* Sched/WasmAlloc.v — the WASM scheduler handle together with where scheduled closures live
   (finding F13 of property C11).  Executable definitions only.

   In Sched/Model.v a closure handle is an opaque number that keeps meaning the same closure for ever.
   On the WASM backend the handle is the address of a closure cell in linear memory, and a closure VALUE
   that is created while a sample is processed (a top-level function used as a value, a lambda) is
   allocated at the bump pointer `__alloc_ptr` (compiler/wasmgen.rs emit_runtime_alloc).  Three places
   rewind that pointer:
     - `_mimium_exec_closure_void` (wasmgen.rs generate_exec_closure_trampoline): saves `__alloc_ptr`
       before calling the scheduled closure and restores it afterwards;
     - the `dsp` entry function (wasmgen.rs, is_entry): saves at entry, restores before return;
     - WasmDspRuntime::run_dsp (runtime/wasm/engine.rs): get_alloc_ptr before the workers, set_alloc_ptr
       after dsp.
   `_mimium_global` (global scope) keeps its allocations.
   The flag [restore] switches the rewinding on (the code) or off (closures retained until executed). *)
From Coq Require Import List NArith ZArith Bool.
From Mimium Require Import Sched.Model.
Import ListNotations.
Local Open Scope N_scope.

(* the closure argument of a `_mimium_schedule_at` call *)
Inductive cref :=
| Persistent (h : N)   (* an existing cell (closure made at global scope), by address *)
| Fresh (code : N).    (* a closure value made on the spot: a new cell holding function [code] *)

Definition arequest := (ftime * cref)%type.
(* what the function [code] does when it runs at [now]; what dsp does at [now] *)
Definition abehaviour := N -> N -> list arequest.
Definition adsp_behaviour := N -> list arequest.

(* linear memory restricted to closure cells (all of one size: address unit = one cell) *)
Record amem := mkMem { cells : list (N * N); alloc_ptr : N }.

Definition read_cell (m : amem) (addr : N) : option N :=
  match find (fun e : N * N => fst e =? addr) (cells m) with Some e => Some (snd e) | None => None end.

(* emit_runtime_alloc + store of the function index: the newest write shadows older ones *)
Definition alloc_cell (m : amem) (code : N) : amem * N :=
  (mkMem ((alloc_ptr m, code) :: cells m) (alloc_ptr m + 1), alloc_ptr m).

Record astate := mkA { a_sched : wasm_sched; a_mem : amem }.

(* one `_mimium_schedule_at(time, closure)` call: evaluate the closure argument (allocating if it is a new
   value), then the host trampoline of wasm_handle.rs *)
Definition a_schedule (s : astate) (r : arequest) : result astate :=
  let '(m, h) := match snd r with
                 | Persistent h => (a_mem s, h)
                 | Fresh code => alloc_cell (a_mem s) code
                 end in
  bind (schedule_at_wasm (a_sched s) (fst r, h)) (fun sc => Done (mkA sc m)).

Fixpoint a_schedule_all (s : astate) (rs : list arequest) : result astate :=
  match rs with
  | [] => Done s
  | r :: rest => bind (a_schedule s r) (fun s' => a_schedule_all s' rest)
  end.

Definition rewind (restore : bool) (saved : N) (s : astate) : astate :=
  if restore then mkA (a_sched s) (mkMem (cells (a_mem s)) saved) else s.

(* _mimium_exec_closure_void(addr): save __alloc_ptr; call_indirect mem[addr]; restore __alloc_ptr.
   Returns the function that actually ran. *)
Definition a_exec (restore : bool) (beh : abehaviour) (time : N) (s : astate) (x : task)
  : result (astate * N) :=
  match read_cell (a_mem s) (clo x) with
  | None => Panic
  | Some code =>
      let saved := alloc_ptr (a_mem s) in
      bind (a_schedule_all s (beh code time)) (fun s' => Done (rewind restore saved s', code))
  end.

Fixpoint a_exec_ready (restore : bool) (beh : abehaviour) (time : N) (ready : list task) (s : astate)
         (ran : list N) : result (astate * list N) :=
  match ready with
  | [] => Done (s, ran)
  | x :: rest =>
      bind (a_exec restore beh time s x) (fun '(s', code) =>
        a_exec_ready restore beh time rest s' (ran ++ [code]))
  end.

(* WasmDspRuntime::run_dsp(time): [save]; scheduler worker on_sample (set time, drain, execute); dsp
   (entry function: save, body, restore); [restore] *)
Definition a_run_dsp (restore : bool) (sel : selector) (beh : abehaviour) (dspb : adsp_behaviour)
           (time : N) (s : astate) : result (astate * list N) :=
  let saved := alloc_ptr (a_mem s) in
  bind (drain_due sel (length (w_heap (a_sched s))) time (w_heap (a_sched s)) []) (fun '(ready, h) =>
    bind (a_exec_ready restore beh time ready (mkA (mkWs time h) (a_mem s)) []) (fun '(s1, ran) =>
      bind (a_schedule_all s1 (dspb time)) (fun s2 => Done (rewind restore saved s2, ran)))).

(* global scope ([preloaded] = cells of closures made there, first free address [base]; the calls [init]
   allocate without rewinding), then samples 0..T-1.  Result: per sample, the functions that ran. *)
Fixpoint a_run (restore : bool) (sel : selector) (beh : abehaviour) (dspb : adsp_behaviour)
         (preloaded : list (N * N)) (base : N) (init : list arequest) (T : nat)
  : result (astate * list (list N)) :=
  match T with
  | O => bind (a_schedule_all (mkA wasm_init (mkMem preloaded base)) init) (fun s => Done (s, []))
  | S T' =>
      bind (a_run restore sel beh dspb preloaded base init T') (fun '(s, execs) =>
        bind (a_run_dsp restore sel beh dspb (N.of_nat T') s) (fun '(s', ran) => Done (s', execs ++ [ran])))
  end.

(* table-driven programs in which every closure argument is a top-level function used as a value *)
Definition fresh_rules (now : N) (rs : list rule) : list arequest :=
  map (fun r : rule => (FQuarter (4 * Z.of_N now + fst r)%Z, Fresh (snd r))) rs.
Definition fresh_behaviour (tbl : list (N * list rule)) : abehaviour :=
  fun code now => fresh_rules now (lookup code tbl []).
Definition fresh_dsp (tbl : list (N * list rule)) : adsp_behaviour :=
  fun now => fresh_rules now (lookup now tbl []).
Definition fresh_init (init : list (Z * N)) : list arequest :=
  map (fun r : Z * N => (FQuarter (fst r), Fresh (snd r))) init.
