(* Props/C05.v — property theorems only; each closed by `exact <lemma>` (proofs in Lmmm/{Layout,LayoutProg}.v).

   C05 (state layout exactness): for every well-formed program (stateful constructs inside `if` arms
   included, since the repair of finding F2) the compiler's state-offset bookkeeping (pending next_state_offset /
   push_sum, mirrored by Lmmm/Compile.v) and the cursor machine (Lmmm/Machine.v, mirroring vm.rs) agree
   with the published state skeleton: every dsp call returns the cursor to the origin, the storage has
   exactly the size of the skeleton, and every state access (GetState / SetState / Mem / Delay) hits
   exactly one leaf cell of the skeleton, of the right kind, at the flat offset the skeleton assigns to it.

   event_ok, rows_ok live in Lmmm/Spec.v. *)
From Coq Require Import List ZArith NArith Bool.
From Mimium Require Import StateTree.Model Lmmm.Syntax Lmmm.Ref Lmmm.Compile Lmmm.Machine Lmmm.Wf
  Lmmm.Spec Lmmm.LayoutProg Lmmm.Examples.
Import ListNotations.

(* every wf program compiles *)
Theorem C05_wf_compiles : forall p, wf_prog p = true -> exists cp, compile p = Some cp.
Proof. exact wf_compiles. Qed.

(* layout exactness + cursor home + no fault, for ONE dsp call from ANY state whose cursor is home *)
Theorem C05_layout_exact : forall p cp now inputs m,
  compile p = Some cp -> wf_prog p = true -> m_pos m = 0%N -> length inputs = length (p_inputs p) ->
  exists outs m',
    mach_step VmD p cp now inputs m = Some (outs, m') /\
    length outs = length (p_outs p) /\
    m_pos m' = 0%N /\                                                         (* cursor back at the origin *)
    length (m_words m') = N.to_nat (size (published_skeleton cp)) /\          (* storage sized from the layout *)
    Forall (event_ok (published_skeleton cp)) (m_trace m').                   (* every access hits its cell *)
Proof. exact layout_exact. Qed.

(* hence for every run length (induction over samples) *)
Theorem C05_run_layout_exact : forall p cp t0 rows,
  compile p = Some cp -> wf_prog p = true -> rows_ok p rows ->
  Forall (fun r => exists o w tr, r = Some (o, w, 0%N, tr) /\
                   length w = N.to_nat (size (published_skeleton cp)) /\
                   Forall (event_ok (published_skeleton cp)) tr)
         (mach_run VmD p cp t0 rows m0).
Proof. exact run_layout_exact. Qed.

(* the former witness of finding F2 (stateful calls in both arms of an `if`; the unrepaired compiler made
   the VM cursor underflow) is now inside the fragment and behaves:
   fn cnt(i){self+i} fn dsp(){ if (cnt(1)) cnt(10) else cnt(100) } — each call site owns its own cell *)
Example C05_f2_witness_wf : wf_prog f2_prog = true.
Proof. exact f2_prog_wf. Qed.
Example C05_f2_witness_compiles : compile f2_prog = Some (compiled f2_prog).
Proof. exact f2_prog_compiles. Qed.
Example C05_f2_witness_skeleton :
  published_skeleton (compiled f2_prog) = FnCall [FnCall [Feed 1%N]; FnCall [Feed 1%N]; FnCall [Feed 1%N]].
Proof. exact f2_prog_skeleton. Qed.
Example C05_f2_witness_runs :
  outs_of (mach_run VmD f2_prog (compiled f2_prog) 0 [[]; []; []] m0) = [Some [10]; Some [20]; Some [30]]%Z /\
  option_map fst (ref_run f2_prog 0 [[]; []; []] st0) = Some [[10]; [20]; [30]]%Z.
Proof. exact f2_prog_runs. Qed.

(* the hypotheses are satisfiable on a non-trivial program:
   fn f1(x){ self + x }  fn f2(y){ mem(y) + delay(3, y, 2) }  fn dsp(){ (f2(f1(1)) + now, samplerate) } *)
Example C05_ex_wf : wf_prog ex_prog = true.
Proof. exact ex_prog_wf. Qed.
Example C05_ex_compiles : compile ex_prog = Some (compiled ex_prog).
Proof. exact ex_prog_compiles. Qed.
Example C05_ex_skeleton :
  published_skeleton (compiled ex_prog) = FnCall [FnCall [Feed 1%N]; FnCall [Mem 1%N; Delay 3%N]].
Proof. exact ex_prog_skeleton. Qed.
Example C05_ex_run :
  outs_of (mach_run VmD ex_prog (compiled ex_prog) 0 [[]; []; []; []] m0)
  = [Some [0; 48000]; Some [2; 48000]; Some [5; 48000]; Some [8; 48000]]%Z.
Proof. exact ex_prog_run. Qed.
