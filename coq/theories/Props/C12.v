(* Props/C12.v — long-running programs do not accumulate closures or heap objects; no use after release.
   Property theorems only; each is closed by `exact <lemma>` (model in Heap/Model.v, proofs in Heap/SlotMap.v,
   Heap/Lemmas.v, Heap/Monitor.v, Heap/Closure.v, witnesses in Heap/Witness.v, Heap/WitnessFixed.v).

   Reading guide.  A [store] is a slotmap-1.0.7 `SlotMap<DefaultKey, _>` of reference-counted objects
   (`Machine.heap`: HeapObject{refcount,data}; `Machine.closures`: Closure{refcount,is_closed}); a [key] is
   (index, version) and a lookup succeeds only when the slot's version equals the key's, so a stale key never aliases.
   [hrun sm_new ops] runs heap.rs operations (alloc, heap_retain, heap_release = decrement and free at 0, load,
   store; on any key whatsoever, live, stale or wild) and returns the store and the log of (operation, what the code
   did); [incs k lg] / [decs k lg] count the allocations+retains / releases of key k that took effect.
   An [event] is one record of hook H2: (store, kind, key, refcount after).  [mrun mach_new tr] replays a trace on
   the model of the two stores; [balanced tr] is the executable monitor: every event is accepted by [mstep] and no
   object is left at count 0 without being freed.  [touches e]: e dereferences its key (retain, release, free, use,
   close).  [count_key w o k tr] / [count_op w o tr]: number of events of kind o on key k / on any key of store w. *)
From Coq Require Import List NArith.
From Mimium Require Import Heap.Model Heap.SlotMap Heap.Lemmas Heap.Monitor Heap.Closure Heap.Witness Heap.WitnessFixed.
Import ListNotations.
Local Open Scope N_scope.

(* After ANY sequence of heap.rs operations from the empty store: an object is present iff its count of effective
   allocations + retains exceeds its effective releases; a present object's refcount IS that difference; releases
   never exceed increments (no double release takes effect); and no key is ever handed out twice, so a freed key
   (same index AND version) is never returned again by alloc. *)
Theorem C12_heap_inv :
  forall (ops : list hop) (s : store) (lg : list (hop * hres)),
  hrun sm_new ops = (s, lg) ->
  (forall k, (exists o, sm_get s k = Some o) <-> decs k lg < incs k lg)
  /\ (forall k o, sm_get s k = Some o -> orc o = incs k lg - decs k lg)
  /\ (forall k, decs k lg <= incs k lg)
  /\ NoDup (alloc_keys lg).
Proof. exact heap_inv. Qed.

(* The monitor is sound.  If [balanced tr = true] for an event trace of the two stores then
   (1) every dereferencing event refers to an object that is live at that moment, was never freed before, and
       (unless it is the free itself) still has a positive count: no load/store/call/retain/release/close touches a
       freed key and a release never exceeds the references;
   (1') every lookup that is allowed to miss (the VM tries a register value as a key: `probe`) is on a key that
       has never been freed: a dangling handle is never even looked up;
   (2) at every prefix, releases of a key <= its allocation + retains, and a key is allocated at most once;
   (3) at the end the live objects are exactly the keys with a positive count, and for each store
       live objects + free events = alloc events. *)
Theorem C12_no_uaf_balanced :
  forall tr, balanced tr = true ->
  (forall tr1 e tr2, tr = tr1 ++ e :: tr2 -> touches e = true ->
     exists m1, mrun mach_new tr1 = Some m1
       /\ live m1 (e_store e) (e_key e) = true
       /\ count_key (e_store e) EFree (e_key e) tr1 = 0
       /\ (e_op e <> EFree ->
           count_key (e_store e) ERelease (e_key e) tr1
           < count_key (e_store e) EAlloc (e_key e) tr1 + count_key (e_store e) ERetain (e_key e) tr1))
  /\ (forall tr1 e tr2, tr = tr1 ++ e :: tr2 -> e_op e = EProbe ->
        count_key (e_store e) EFree (e_key e) tr1 = 0)
  /\ (forall tr1 tr2 w k, tr = tr1 ++ tr2 ->
        count_key w ERelease k tr1 <= count_key w EAlloc k tr1 + count_key w ERetain k tr1
        /\ count_key w EAlloc k tr1 <= 1)
  /\ exists m, mrun mach_new tr = Some m
       /\ (forall w k, live m w k = true <->
             count_key w ERelease k tr < count_key w EAlloc k tr + count_key w ERetain k tr)
       /\ (forall w, live_count m w + count_op w EFree tr = count_op w EAlloc tr).
Proof. exact no_uaf_balanced. Qed.

(* Steady state, model level: for a balanced trace of the shape prefix ++ p1 ++ ... ++ pk in which every period
   frees as many objects as it allocates (per store), the number of live objects after every period equals the
   number after the prefix ("the same after sample N and after sample 2N").
   PARTIAL: nothing here says that the traces of compiled programs have net-zero periods — on the current tree
   they do not (C12_steady_state_refuted below, KNOWN_FINDINGS F22..F24). *)
Theorem C12_steady_state_partial :
  forall (prefix : list event) (periods : list (list event)),
  balanced (prefix ++ concat periods) = true ->
  (forall p w, In p periods -> count_op w EAlloc p = count_op w EFree p) ->
  forall i w, exists m0 mi,
    mrun mach_new prefix = Some m0
    /\ mrun mach_new (prefix ++ concat (firstn i periods)) = Some mi
    /\ live_count mi w = live_count m0 w.
Proof. exact steady_state. Qed.

(* The closure layer of vm.rs is covered by the same monitor: for drop_closure (recursive release of the captured
   closures, removal at count 0), release_heap_closure(s), release_open_closures, close_upvalues_by_idx,
   CloseHeapClosure, CloneHeap, BoxClone and BoxRelease, from ANY machine state and for ANY contents of the upvalue
   cells [up]: whenever the operation completes and the monitor accepts the H2 events it emitted, the monitor ends in
   exactly the state the operation produced.  (checks/C12.py compares these emitted events, one by one, with the
   events of the real VM at every operation mark of its log.) *)
Theorem C12_closure_ops_replay :
  forall (fuel : nat) (up : upvalue_oracle) (m : mach),
  (forall id m' evs m'', drop_closure fuel up m id = Ok (m', evs) -> mrun m evs = Some m'' -> m'' = m')
  /\ (forall hk m' evs m'', release_heap_closure fuel up m hk = Ok (m', evs) -> mrun m evs = Some m'' -> m'' = m')
  /\ (forall hs m' evs m'', release_heap_closures fuel up m hs = Ok (m', evs) -> mrun m evs = Some m'' -> m'' = m')
  /\ (forall cs m' evs m'', release_open_closures fuel up m cs = Ok (m', evs) -> mrun m evs = Some m'' -> m'' = m')
  /\ (forall c m' evs m'', close_upvalues_by_idx up m c = Ok (m', evs) -> mrun m evs = Some m'' -> m'' = m')
  /\ (forall raw m' evs m'', close_heap_closure up m raw = Ok (m', evs) -> mrun m evs = Some m'' -> m'' = m')
  /\ (forall raw m' evs m'', clone_heap m raw = (m', evs) -> mrun m evs = Some m'' -> m'' = m')
  /\ (forall raw m' evs m'', box_clone m raw = (m', evs) -> mrun m evs = Some m'' -> m'' = m')
  /\ (forall raw m' evs m'', box_release m raw = (m', evs) -> mrun m evs = Some m'' -> m'' = m').
Proof. exact closure_ops_replay. Qed.

(* REFUTED on the current tree: being balanced (no use after release) does not bound the live objects of compiled
   programs.  [witness_trace] is the real VM's H2 log of
     fn ap(f:(float)->float, y:float){ f(y) }  fn nm(z:float){ z*2.0 }  fn dsp(){ ap(nm, 2.0) }
   (global initialisation + 3 samples, checked against the real VM on every run; known finding F22: a function used as a
   value is wrapped in a closure, cloned for the call and never released): it is accepted by the monitor, its three
   periods perform the same operations, and the numbers of live closures and of live heap objects are 1, 2, 3 after
   them. *)
Theorem C12_steady_state_refuted :
  exists (prefix p1 p2 p3 : list event),
    balanced (prefix ++ p1 ++ p2 ++ p3) = true
    /\ map shape p1 = map shape p2 /\ map shape p2 = map shape p3
    /\ (exists m, mrun mach_new (prefix ++ p1) = Some m /\ live_count m SC = 1 /\ live_count m SH = 1)
    /\ (exists m, mrun mach_new (prefix ++ p1 ++ p2) = Some m /\ live_count m SC = 2 /\ live_count m SH = 2)
    /\ (exists m, mrun mach_new (prefix ++ p1 ++ p2 ++ p3) = Some m /\ live_count m SC = 3 /\ live_count m SH = 3).
Proof. exact steady_state_refuted. Qed.

(* The former witness of the use-after-release finding F25 (temporary closures sharing an upvalue cell with an
   escaping closure; fixed in vm.rs drop_closure): [former_uaf_trace] is the real VM's H2 log of that program on the
   current tree (checked against the real VM on every run, which must not panic); every event of it is decoded and
   the monitor accepts it, so by C12_no_uaf_balanced no handle of it is dereferenced or looked up after its release. *)
Example C12_former_uaf_witness_accepted :
  length former_uaf_trace = length former_uaf_trace_raw /\ balanced former_uaf_trace = true.
Proof. exact former_uaf_trace_accepted. Qed.

(* the hypotheses are satisfiable *)
Example C12_balanced_example :
  balanced [mkEv SH EAlloc (mkKey 1 1) (Some 1); mkEv SH ERetain (mkKey 1 1) (Some 2);
            mkEv SH EUse (mkKey 1 1) (Some 2); mkEv SH ERelease (mkKey 1 1) (Some 1);
            mkEv SH ERelease (mkKey 1 1) (Some 0); mkEv SH EFree (mkKey 1 1) (Some 0);
            mkEv SH EAlloc (mkKey 1 3) (Some 1)] = true.
Proof. vm_compute. reflexivity. Qed.

(* ... and the monitor rejects a use after release, a double release, a free of a referenced object and the lookup
   of a dangling handle *)
Example C12_monitor_rejects :
  balanced [mkEv SH EAlloc (mkKey 1 1) (Some 1); mkEv SH ERelease (mkKey 1 1) (Some 0);
            mkEv SH EFree (mkKey 1 1) (Some 0); mkEv SH EUse (mkKey 1 1) None] = false
  /\ balanced [mkEv SC EAlloc (mkKey 1 1) (Some 1); mkEv SC ERelease (mkKey 1 1) (Some 0);
               mkEv SC ERelease (mkKey 1 1) None] = false
  /\ balanced [mkEv SH EAlloc (mkKey 1 1) (Some 1); mkEv SH ERetain (mkKey 1 1) (Some 2);
               mkEv SH ERelease (mkKey 1 1) (Some 1); mkEv SH EFree (mkKey 1 1) (Some 0)] = false
  /\ balanced [mkEv SH EAlloc (mkKey 1 1) (Some 1); mkEv SH ERelease (mkKey 1 1) (Some 0);
               mkEv SH EFree (mkKey 1 1) (Some 0); mkEv SH EProbe (mkKey 1 1) None] = false.
Proof. vm_compute. repeat split; reflexivity. Qed.
