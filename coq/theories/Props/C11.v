(* Props/C11.v — scheduled tasks run exactly once at exactly their sample time.
   Property theorems only; each is closed by `exact <lemma>` (proofs in Sched/Lemmas.v, model in
   Sched/Model.v, specification vocabulary in Sched/Spec.v).

   Reading guide.  [run_vm sel beh dspb init T] is the native-VM machine (mpsc channel + worker heap)
   driven for samples 0..T-1 after global scope made the `_mimium_schedule_at` calls [init];
   [run_wasm ...] is the WASM machine (shared heap with the guard in the schedule call).  Both return
   the final scheduler state and, per sample, the list of tasks executed at the START of that sample
   (in run_dsp, the plugin workers' on_sample runs before dsp).  [beh c now] are the schedule calls that
   closure c makes when it runs at sample now, [dspb now] those of dsp.  [sel] decides which of several
   equal-time tasks BinaryHeap hands out first.  [scheduled_by beh dspb init execs] is the multiset of ALL
   tasks ever scheduled: from global scope, by every executed task, by dsp of every sample.
   The premise "times later than the current sample" is [respects_future] etc.: the truncated time
   (`as u64`) of every call is > the sample during which the call is made (0 for global scope). *)
From Coq Require Import List NArith ZArith Permutation.
From Mimium Require Import Sched.Model Sched.Spec Sched.Lemmas Sched.WasmAlloc Sched.AllocLemmas.
Import ListNotations.
Local Open Scope N_scope.

(* Native VM: no panic; in every sample t < T the executed tasks are, as a multiset, exactly the scheduled
   tasks whose time is t (so each scheduled task instance with time < T ran exactly once, in its own
   sample, before that sample's dsp: never earlier, later, twice or not at all); what is still pending is
   exactly what was scheduled for T or later, and all of it lies strictly after the worker's current time.
   No bound on the number of tasks or on the length of rescheduling chains. *)
Theorem C11_exactly_once :
  forall (sel : selector) (beh : behaviour) (dspb : dsp_behaviour) (init : list request) (T : nat),
  respects_future (N.of_nat T) beh -> dsp_respects_future (N.of_nat T) dspb -> init_respects_future init ->
  exists w execs,
    run_vm sel beh dspb init T = Done (w, execs)
    /\ length execs = T
    /\ (forall t, (t < T)%nat ->
          Permutation (nth t execs [])
            (filter (fun x => when x =? N.of_nat t) (scheduled_by beh dspb init execs)))
    /\ Permutation (v_chan w ++ v_heap w)
         (filter (fun x => N.of_nat T <=? when x) (scheduled_by beh dspb init execs))
    /\ Forall (fun x => v_cur w < when x) (v_chan w ++ v_heap w).
Proof. exact vm_exactly_once. Qed.

(* The same for the WASM scheduler handle. *)
Theorem C11_exactly_once_wasm :
  forall (sel : selector) (beh : behaviour) (dspb : dsp_behaviour) (init : list request) (T : nat),
  respects_future (N.of_nat T) beh -> dsp_respects_future (N.of_nat T) dspb -> init_respects_future init ->
  exists s execs,
    run_wasm sel beh dspb init T = Done (s, execs)
    /\ length execs = T
    /\ (forall t, (t < T)%nat ->
          Permutation (nth t execs [])
            (filter (fun x => when x =? N.of_nat t) (scheduled_by beh dspb init execs)))
    /\ Permutation (w_heap s)
         (filter (fun x => N.of_nat T <=? when x) (scheduled_by beh dspb init execs))
    /\ Forall (fun x => w_cur s < when x) (w_heap s).
Proof. exact wasm_exactly_once. Qed.

(* The two machines execute the same multiset of tasks in every sample and keep the same pending
   multiset, whatever order their heaps give to equal-time tasks. *)
Theorem C11_backends_agree :
  forall (selv selw : selector) (beh : behaviour) (dspb : dsp_behaviour) (init : list request) (T : nat),
  respects_future (N.of_nat T) beh -> dsp_respects_future (N.of_nat T) dspb -> init_respects_future init ->
  exists w ev s ew,
    run_vm selv beh dspb init T = Done (w, ev)
    /\ run_wasm selw beh dspb init T = Done (s, ew)
    /\ Forall2 (@Permutation task) ev ew
    /\ Permutation (v_chan w ++ v_heap w) (w_heap s).
Proof. exact backends_agree. Qed.

(* The unspecified order among equal-time tasks never changes what runs in a sample. *)
Theorem C11_equal_time_order_irrelevant :
  forall (sel1 sel2 : selector) (beh : behaviour) (dspb : dsp_behaviour) (init : list request) (T : nat),
  respects_future (N.of_nat T) beh -> dsp_respects_future (N.of_nat T) dspb -> init_respects_future init ->
  exists w1 e1 w2 e2,
    run_vm sel1 beh dspb init T = Done (w1, e1)
    /\ run_vm sel2 beh dspb init T = Done (w2, e2)
    /\ Forall2 (@Permutation task) e1 e2.
Proof. exact vm_selector_irrelevant. Qed.

(* ---- outside the premise (a call whose truncated time is not after the current sample) ---- *)

(* VM: the call itself always succeeds (it only appends to the channel) ... *)
Theorem C11_vm_schedule_call_never_panics :
  forall w r, exists w', schedule_at_vm w r = w' /\ v_chan w' = v_chan w ++ [to_task r].
Proof. exact vm_schedule_never_panics. Qed.

(* ... and the worker panics when it next drains the channel, i.e. at the start of the following sample. *)
Theorem C11_vm_not_future_panics_at_next_sample :
  forall sel beh time w x,
  In x (v_chan w) -> when x <= v_cur w -> on_sample_vm sel beh time w = Panic.
Proof. exact vm_not_future_panics_at_next_sample. Qed.

(* WASM: the call panics at once. *)
Theorem C11_wasm_not_future_panics_in_call :
  forall s r, when (to_task r) <= w_cur s -> schedule_at_wasm s r = Panic.
Proof. exact schedule_at_wasm_panics. Qed.

(* ---- finding F13: the WASM theorem above is about handles that keep denoting the same closure.  The real
   WASM backend stores a closure created during a sample at a bump pointer that is rewound afterwards
   (Sched/WasmAlloc.v: [a_run true] = the code, [a_run false] = closures retained).  Witness:
     fn t0(){ c0=c0+1.0  t0@(now+2.0) }  fn t1(){ c0=c0+4.0  t1@(now+3.0) }  t0@1.0  t1@2.0
   respects the premise; with closures retained the functions run exactly as Sched/Model.v's WASM machine
   says (t0 at 1,3,5,7,9; t1 at 2,5,8); the code runs t1 at sample 3 where t0 is due and never runs t0 again.
   (checks/C11.py replays this witness on the real runtimes.) ---- *)
Theorem C11_wasm_tick_allocated_closure_refuted :
  exists (rules : list (N * list rule)) (init : list (Z * N)) (T : nat) (code_runs ideal_runs : list (list N)),
    Forall (fun e : N * list rule => rules_delay_ok (snd e)) rules
    /\ init_respects_future (map (fun r : Z * N => (FQuarter (fst r), snd r)) init)
    /\ (exists s, a_run true sel_first (fresh_behaviour rules) (fresh_dsp []) [] 0 (fresh_init init) T
                  = Done (s, code_runs))
    /\ (exists s, a_run false sel_first (fresh_behaviour rules) (fresh_dsp []) [] 0 (fresh_init init) T
                  = Done (s, ideal_runs))
    /\ (exists w ex, run_wasm sel_first (table_behaviour rules) (table_dsp [])
                       (map (fun r : Z * N => (FQuarter (fst r), snd r)) init) T = Done (w, ex)
                     /\ map (map clo) ex = ideal_runs)
    /\ code_runs <> ideal_runs.
Proof. exact f13_refuted. Qed.

(* ---- the premise is satisfiable; the table-driven behaviours of the correspondence check satisfy it ---- *)

Theorem C11_table_behaviours_respect_future :
  forall (H : N) (tbl dtbl : list (N * list rule)),
  H <= U64_MAX ->
  Forall (fun e : N * list rule => rules_delay_ok (snd e)) tbl ->
  Forall (fun e : N * list rule => rules_delay_ok (snd e)) dtbl ->
  respects_future H (table_behaviour tbl) /\ dsp_respects_future H (table_dsp dtbl).
Proof.
  intros H tbl dtbl HH Ht Hd. split.
  - exact (table_behaviour_respects H tbl HH Ht).
  - exact (table_dsp_respects H dtbl HH Hd).
Qed.

(* two chains (periods 2 and 3 samples) started from global scope at sample 1, plus dsp scheduling
   closure 1 again at sample 4 for 4+2.75 -> sample 6 *)
Example C11_example_run :
  exists w,
    run_vm sel_first (table_behaviour [(0, [(8%Z, 0)]); (1, [(12%Z, 1)])]) (table_dsp [(4, [(11%Z, 1)])])
           [(FQuarter 4, 0); (FQuarter 4, 1)] 8
    = Done (w, [ []; [mkTask 1 0; mkTask 1 1]; []; [mkTask 3 0]; [mkTask 4 1]; [mkTask 5 0];
                 [mkTask 6 1]; [mkTask 7 1; mkTask 7 0] ]).
Proof. eexists. vm_compute. reflexivity. Qed.

(* time truncation is Rust's `as u64`: 2.75 -> 2, negative -> 0, NaN -> 0, huge -> u64::MAX *)
Example C11_example_truncation :
  trunc_time (FQuarter 11) = 2 /\ trunc_time (FQuarter (-5)) = 0 /\ trunc_time FNaN = 0
  /\ trunc_time (FQuarter (4 * 36893488147419103232)) = U64_MAX.
Proof. vm_compute. repeat split; reflexivity. Qed.

(* outside the premise the two runtimes notice at different moments: dsp of sample 2 asks for sample 2;
   WASM panics inside that dsp, the VM finishes sample 2 and panics at the start of sample 3 *)
Example C11_example_violation_noticed_later_on_vm :
  let dspb := table_dsp [(2, [(0%Z, 7)])] in
  (exists w, run_vm sel_first (table_behaviour []) dspb [] 3 = Done (w, [[]; []; []]))
  /\ run_vm sel_first (table_behaviour []) dspb [] 4 = Panic
  /\ run_wasm sel_first (table_behaviour []) dspb [] 3 = Panic.
Proof. vm_compute. split; [eexists; reflexivity|split; reflexivity]. Qed.
