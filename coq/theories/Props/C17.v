(* Props/C17.v — module privacy and name resolution: property theorems only, each closed by `exact <lemma>`.

   Vocabulary (Modules/Spec.v): fn_decls prog = the functions the module tree declares (module path d_mod, name,
   pub flag, body); private_fn prog M n = n is a non-pub function member of module M <> []; inside M P = module path
   P is M or a descendant of M; subexpr_at e q = the sub-expression at position q; chain_stmts e' = the statements of
   the converted let-chain; convert_program = program.rs flattening followed by convert_qualified_names; its second
   component is the list of PrivateMemberAccess errors (empty = the pass accepts the program).
   Restrictions: unique_fns (no two functions with the same mangled name), mod_lets_apart (the name of a `let`
   written inside a module is bound nowhere else in the program: not by a second module `let`, a top-level `let` or
   function, a `let`/`letrec` inside a body — what is left of finding F17b; a program without module `let`s,
   no_mod_let, satisfies it), pub_use_safe (no `use` re-exports or overwrites a private member, finding F9), src_prog
   (binders are plain identifiers, qualified paths have >= 2 segments — true of parsed source).
   Since the repair of convert_expr's Let arm (the module context of a `let` no longer leaks into the statements
   that follow it) programs WITH module `let`s are covered: the restriction was no_mod_let before. *)
From Coq Require Import List String Bool Arith NArith.
From Mimium Require Import Modules.Model Modules.Spec Modules.Resolve Modules.Program Modules.NoPubUse Modules.Mangle Modules.Witness.
Import ListNotations.

(* No route to a private member: if the resolution pass accepts the program, then every reference (bare or
   qualified, whatever it goes through: relative lookup, `use` alias, multi-import, wildcard, re-export) written in
   the body of a declared function is rewritten to a symbol that is not a private function member of a module M,
   unless the referencing function itself lives inside M. *)
Theorem C17_no_private_route : forall builtins prog e',
    unique_fns prog = true -> mod_lets_apart prog = true -> pub_use_safe prog = true -> src_prog prog = true ->
    convert_program builtins prog = (e', []) ->
    forall d, In d (fn_decls prog) ->
    exists body',
      In (SLetRec (d_path d) (ELam (map (fun p => [p]) (d_params d)) body')) (chain_stmts e')
      /\ forall q r, subexpr_at (d_body d) q = Some r -> is_ref r ->
           exists s, subexpr_at body' q = Some (EVar s)
                     /\ forall M n, s = M ++ [n] -> private_fn prog M n -> inside M (d_mod d).
Proof. exact no_private_route_fn. Qed.

(* the same for the initialiser of a `let` statement written in module P (P = [] at top level): it is resolved in
   the context of ITS OWN module, whatever module `let`s precede it *)
Theorem C17_no_private_route_let : forall builtins prog e',
    unique_fns prog = true -> mod_lets_apart prog = true -> pub_use_safe prog = true -> src_prog prog = true ->
    convert_program builtins prog = (e', []) ->
    forall P n b, In (P, n, b) (let_decls prog) ->
    exists body',
      In (SLet [[n]] body') (chain_stmts e')
      /\ forall q r, subexpr_at b q = Some r -> is_ref r ->
           exists s, subexpr_at body' q = Some (EVar s) /\ forall M m, s = M ++ [m] -> private_fn prog M m -> inside M P.
Proof. exact no_private_route_let. Qed.

(* in particular a reference in the initialiser of a TOP-LEVEL `let` never reaches a private member, also when it
   follows a module-level `let` (the repaired half of finding F17b: C17_let_context_refuted stated the opposite) *)
Theorem C17_no_private_route_top_let : forall builtins prog e',
    unique_fns prog = true -> mod_lets_apart prog = true -> pub_use_safe prog = true -> src_prog prog = true ->
    convert_program builtins prog = (e', []) ->
    forall n b, In ([], n, b) (let_decls prog) ->
    exists body',
      In (SLet [[n]] body') (chain_stmts e')
      /\ forall q r, subexpr_at b q = Some r -> is_ref r ->
           exists s, subexpr_at body' q = Some (EVar s) /\ forall M m, s = M ++ [m] -> ~ private_fn prog M m.
Proof. exact no_private_route_top_let. Qed.

(* the repaired Let arm seen from the program, for ALL programs (no restriction): statement k of the flattened
   program is converted starting from the empty module context whatever precedes it — a function under its own entry
   of module_context_map, a `let` under the entry of its own pattern, no entry = the top level — and lands at index
   k of the converted chain *)
Theorem C17_statement_context : forall builtins prog e' errs k st,
    convert_program builtins prog = (e', errs) ->
    nth_error (stmts_items [] prog) k = Some st ->
    exists locals sub' errs',
      incl errs' errs /\
      match st with
      | SLetRec f x =>
          convert_expr (mi_of prog) (known_of builtins prog)
                       (match assoc f (module_context_map (mi_of prog)) with Some c => c | None => [] end)
                       ([f] :: locals) x = (sub', errs')
          /\ nth_error (chain_stmts e') k = Some (SLetRec f sub')
      | SLet pat x =>
          convert_expr (mi_of prog) (known_of builtins prog)
                       (match find_pattern_module_context (mi_of prog) pat with Some c => c | None => [] end)
                       locals x = (sub', errs')
          /\ nth_error (chain_stmts e') k = Some (SLet pat sub')
      end.
Proof. exact statement_context. Qed.

(* a program without any `let` inside a module satisfies mod_lets_apart *)
Theorem C17_no_mod_let_is_apart : forall prog, no_mod_let prog = true -> mod_lets_apart prog = true.
Proof. exact no_mod_let_apart. Qed.

(* the core fact, for an arbitrary position: whatever the current module context cmc and scope stack are, a bare
   name or qualified path that convert_var / convert_qualified_var resolve without pushing an error to a private
   member of M is being resolved inside M *)
Theorem C17_no_private_route_any_context : forall prog known cmc locals r s M n,
    unique_fns prog = true -> pub_use_safe prog = true ->
    match r with
    | EVar x => List.length x = 1 /\ convert_var (mi_of prog) known cmc locals x = (s, [])
    | EQVar p => 2 <= List.length p /\ convert_qualified_var (mi_of prog) known cmc p = (s, [])
    | _ => False
    end ->
    s = M ++ [n] -> private_fn prog M n -> inside M cmc.
Proof. exact ref_private_inside. Qed.

(* a program without any `pub use` satisfies pub_use_safe *)
Theorem C17_no_pub_use_is_safe : forall prog, no_pub_use prog = true -> pub_use_safe prog = true.
Proof. exact no_pub_use_safe. Qed.

(* Unique denotation: a qualified path written in a function of module P is rewritten to (the alias-chain image
   of) the symbol its path denotes — the declared function of that absolute path if there is one, else the declared
   function of that path relative to the current module, else the path itself (left for the type checker to
   report) — where the current module is P, or none below a local `letrec`. *)
Theorem C17_unique : forall builtins prog e' errs,
    mod_lets_apart prog = true -> src_prog prog = true -> (forall b, In b builtins -> List.length b = 1) ->
    convert_program builtins prog = (e', errs) ->
    forall d, In d (fn_decls prog) ->
    exists body',
      In (SLetRec (d_path d) (ELam (map (fun p => [p]) (d_params d)) body')) (chain_stmts e')
      /\ forall q segs, subexpr_at (d_body d) q = Some (EQVar segs) ->
           exists cmc t,
             (cmc = d_mod d \/ cmc = [])
             /\ denoted (fun x => exists d', In d' (fn_decls prog) /\ d_path d' = x) cmc segs t
             /\ subexpr_at body' q = Some (EVar (resolve_alias_chain (mi_of prog) t)).
Proof. exact unique_fn. Qed.

(* the mangled name determines the path: `a$b$c` is injective on '$'-free identifiers *)
Theorem C17_mangle_injective : forall p q,
    Forall dollar_free p -> Forall dollar_free q -> p <> [] -> q <> [] -> mangle p = mangle q -> p = q.
Proof. exact mangle_inj. Qed.

(* Local bindings shadow: a bare name in the scope of a `let` / `letrec` / lambda binder of that name, or of a
   parameter of the function, is never rewritten (whatever aliases and wildcard imports exist). *)
Theorem C17_local_shadows : forall builtins prog e' errs,
    mod_lets_apart prog = true -> src_prog prog = true ->
    convert_program builtins prog = (e', errs) ->
    forall d, In d (fn_decls prog) ->
    exists body',
      In (SLetRec (d_path d) (ELam (map (fun p => [p]) (d_params d)) body')) (chain_stmts e')
      /\ forall q x, subexpr_at (d_body d) q = Some (EVar x) ->
                     In x (binders_at (d_body d) q) \/ In x (map (fun p => [p]) (d_params d)) ->
                     subexpr_at body' q = Some (EVar x).
Proof. exact local_shadows_fn. Qed.

Theorem C17_local_shadows_any_context : forall mi known cmc locals name,
    is_locally_bound locals name = true -> convert_var mi known cmc locals name = (name, []).
Proof. exact convert_var_local. Qed.

(* the fuel of the model's alias-chain loop is never exhausted (more fuel, same answer) *)
Theorem C17_alias_chain_fuel : forall mi s extra,
    alias_chain_go (S (List.length (use_alias_map mi)) + extra) (use_alias_map mi) [] s = resolve_alias_chain mi s.
Proof. exact alias_chain_fuel. Qed.

(* ---- refuted routes (each restriction above is necessary) --------------------------------------------------------- *)
Local Open Scope string_scope.

(* F8: a `let` member of module m is reachable by its bare name from a top-level function *)
Theorem C17_let_member_refuted :
  exists prog e',
    unique_fns prog = true /\ pub_use_safe prog = true /\ src_prog prog = true
    /\ convert_program [] prog = (e', [])
    /\ In (["m"], "secret", EConst 42) (let_decls prog)
    /\ In (SLetRec ["dsp"] (ELam [] (EVar ["secret"]))) (chain_stmts e')
    /\ unbound [] e' = [] /\ run_dsp 10 e' = Some (VNum 42).
Proof. exact f8_refuted. Qed.

(* F9: `pub use m::hidden` inside m makes the private function m::hidden reachable from the top level *)
Theorem C17_pub_use_refuted :
  exists prog e',
    unique_fns prog = true /\ no_mod_let prog = true /\ src_prog prog = true
    /\ convert_program [] prog = (e', [])
    /\ private_fn prog ["m"] "hidden"
    /\ In (SLetRec ["dsp"] (ELam [] (EApp (EVar ["m"; "hidden"]) []))) (chain_stmts e')
    /\ ~ inside ["m"] []
    /\ unbound [] e' = [] /\ run_dsp 10 e' = Some (VNum 7).
Proof. exact f9_refuted. Qed.

(* F9, re-export from another module: `mod api { pub use o::p }` makes the private o::p reachable as api::p *)
Theorem C17_reexport_refuted :
  exists prog e',
    unique_fns prog = true /\ no_mod_let prog = true /\ src_prog prog = true
    /\ convert_program [] prog = (e', [])
    /\ private_fn prog ["o"] "p"
    /\ In (SLetRec ["dsp"] (ELam [] (EApp (EVar ["o"; "p"]) []))) (chain_stmts e')
    /\ ~ inside ["o"] []
    /\ unbound [] e' = [] /\ run_dsp 10 e' = Some (VNum 7).
Proof. exact f9b_refuted. Qed.

(* F17a: a non-pub nested module does not protect its members (all four restrictions hold) *)
Theorem C17_private_module_refuted :
  exists prog e',
    unique_fns prog = true /\ no_mod_let prog = true /\ pub_use_safe prog = true /\ src_prog prog = true
    /\ convert_program [] prog = (e', [])
    /\ In (["outer"; "inner"], false) (mod_decls prog)
    /\ In (SLetRec ["dsp"] (ELam [] (EApp (EVar ["outer"; "inner"; "secret"]) []))) (chain_stmts e')
    /\ ~ inside ["outer"] []
    /\ unbound [] e' = [] /\ run_dsp 10 e' = Some (VNum 5).
Proof. exact f17a_refuted. Qed.

(* F17b, what is left: module `let`s are keyed by their BARE name in module_context_map, so a top-level `let` that
   shares its name with a module `let` is resolved inside that module (mod_lets_apart is necessary) ... *)
Theorem C17_let_name_context_refuted :
  exists prog e',
    unique_fns prog = true /\ pub_use_safe prog = true /\ src_prog prog = true /\ mod_lets_apart prog = false
    /\ convert_program [] prog = (e', [])
    /\ private_fn prog ["m"] "hidden"
    /\ In ([], "a", EApp (EVar ["hidden"]) []) (let_decls prog)
    /\ In (SLet [["a"]] (EApp (EVar ["m"; "hidden"]) [])) (chain_stmts e')
    /\ unbound [] e' = [] /\ run_dsp 10 e' = Some (VNum 7).
Proof. exact f17b_let_refuted. Qed.

(* ... and so is the body of a top-level function of that name *)
Theorem C17_fn_name_context_refuted :
  exists prog e',
    unique_fns prog = true /\ pub_use_safe prog = true /\ src_prog prog = true /\ mod_lets_apart prog = false
    /\ convert_program [] prog = (e', [])
    /\ private_fn prog ["m"] "hidden"
    /\ In (mkDecl [] "a" false [] (EApp (EVar ["hidden"]) [])) (fn_decls prog)
    /\ In (SLetRec ["a"] (ELam [] (EApp (EVar ["m"; "hidden"]) []))) (chain_stmts e')
    /\ unbound [] e' = [] /\ run_dsp 10 e' = Some (VNum 7).
Proof. exact f17b_fn_refuted. Qed.

(* ---- the hypotheses are satisfiable ------------------------------------------------------------------------------- *)
(* the former witness of F17b (mod m { fn hidden(){7.0} let a = 1.0 } let b = hidden() fn dsp(){ b }) satisfies the four
   restrictions although it has a module `let`; `hidden` is left unresolved and the program is rejected *)
Example C17_let_context_repaired :
  unique_fns prog_f17b = true /\ mod_lets_apart prog_f17b = true /\ pub_use_safe prog_f17b = true /\ src_prog prog_f17b = true
  /\ no_mod_let prog_f17b = false
  /\ private_fn prog_f17b ["m"] "hidden"
  /\ In ([], "b", EApp (EVar ["hidden"]) []) (let_decls prog_f17b)
  /\ exists e', convert_program [] prog_f17b = (e', [])
                /\ In (SLet [["b"]] (EApp (EVar ["hidden"]) [])) (chain_stmts e')
                /\ unbound [] e' = [["hidden"]].
Proof. exact f17b_repaired. Qed.

Example C17_hypotheses_satisfiable :
  unique_fns prog_ok = true /\ mod_lets_apart prog_ok = true /\ pub_use_safe prog_ok = true /\ src_prog prog_ok = true
  /\ no_pub_use prog_ok = true
  /\ private_fn prog_ok ["m"] "h"
  /\ (exists e', convert_program [] prog_ok = (e', []) /\ unbound [] e' = [] /\ run_dsp 20 e' = Some (VNum 7)).
Proof. exact ok_satisfiable. Qed.

Example C17_private_access_rejected :
  unique_fns prog_rejected = true /\ mod_lets_apart prog_rejected = true /\ pub_use_safe prog_rejected = true
  /\ snd (convert_program [] prog_rejected) = [mkErr ["m"] "h"].
Proof. exact rejected_example. Qed.
