(* Props/C17.v — property theorems only. Each is closed by `exact <lemma>`. *)
From Coq Require Import List String Bool.
From Mimium Require Import Modules.Model.
Import ListNotations.
