(* Props/C01.v — property theorems only; each closed by `exact <lemma>` (proofs in Lmmm/Agree.v).

   C01 (VM / WASM agreement on the core): the two cursor disciplines of the state storage
   (VM: fixed storage + plain u64 cursor arithmetic; WASM: saturating cursor + storage grown on demand)
   compute the same outputs, the same flat state words, the same cursor and the same access trace for
   every well-formed program, every start time and every run length.  In general (any program, wf or
   not) the WASM discipline computes the same as the VM discipline whenever the latter does not fault;
   they can differ only where the VM discipline faults (out-of-range access / cursor underflow), which
   happens only outside the wf fragment. *)
From Coq Require Import List ZArith NArith Bool.
From Mimium Require Import StateTree.Model Lmmm.Syntax Lmmm.Ref Lmmm.Compile Lmmm.Machine Lmmm.Wf
  Lmmm.Spec Lmmm.Agree Lmmm.Examples.
Import ListNotations.

Theorem C01_core_agree : forall p cp t0 rows,
  compile p = Some cp -> wf_prog p = true -> rows_ok p rows ->
  mach_run WasmD p cp t0 rows (mkM (repeat 0%Z (N.to_nat (size (published_skeleton cp)))) 0%N [])
  = mach_run VmD p cp t0 rows m0.
Proof. exact core_agree. Qed.

(* whenever the VM discipline does not fault, the WASM discipline computes the same *)
Theorem C01_agree_unless_fault : forall p cp t0 rows w,
  compile p = Some cp -> length w = N.to_nat (size (published_skeleton cp)) ->
  ~ In None (mach_run VmD p cp t0 rows (mkM w 0%N [])) ->
  mach_run WasmD p cp t0 rows (mkM w 0%N []) = mach_run VmD p cp t0 rows (mkM w 0%N []).
Proof. exact agree_unless_fault. Qed.

(* outside wf the disciplines can differ (a redefined function name: a call site compiled as stateless
   runs a stateful body without storage — the VM faults, WASM grows the storage and plays) *)
Theorem C01_differ_outside_wf : exists p cp,
  compile p = Some cp /\ wf_prog p = false /\
  In None (mach_run VmD p cp 0%Z [[]] m0) /\ ~ In None (mach_run WasmD p cp 0%Z [[]] m0).
Proof. exact disciplines_differ_outside_wf. Qed.

(* satisfiability of the hypotheses *)
Example C01_ex_wf : wf_prog ex_prog2 = true.
Proof. exact ex_prog2_wf. Qed.
Example C01_ex_compiles : compile ex_prog2 = Some (compiled ex_prog2).
Proof. exact ex_prog2_compiles. Qed.
Example C01_ex_rows : rows_ok ex_prog2 [[1]; [2]; [3]]%Z.
Proof. exact ex_prog2_rows. Qed.
