(* Props/C03.v — property theorems only; each closed by `exact <lemma>` (proofs in Lmmm/LayoutProg.v).

   C03 (safety of accepted programs): accepted (wf) programs never fault on either cursor discipline
   (VM: fixed storage, plain arithmetic; WASM: saturating, grow on demand), every state access is inside
   the storage, and every dsp call yields exactly the declared number of output words.  Corollary of C05.
   init_state d cp = m0 for the VM, the zero-filled storage of the skeleton size for WASM (Lmmm/Spec.v). *)
From Coq Require Import List ZArith NArith Bool.
From Mimium Require Import StateTree.Model Lmmm.Syntax Lmmm.Ref Lmmm.Compile Lmmm.Machine Lmmm.Wf
  Lmmm.Spec Lmmm.LayoutProg Lmmm.Examples.
Import ListNotations.

Theorem C03_safety : forall p cp t0 rows d,
  compile p = Some cp -> wf_prog p = true -> rows_ok p rows ->
  Forall (fun r => exists o w pos tr, r = Some (o, w, pos, tr) /\ length o = length (p_outs p) /\
                   Forall (fun ev => let '(k,ps,sz) := ev in (k < 3)%N -> (ps + sz <= N.of_nat (length w))%N) tr)
         (mach_run d p cp t0 rows
            (match d with
             | VmD => m0
             | WasmD => mkM (repeat 0%Z (N.to_nat (size (published_skeleton cp)))) 0%N []
             end)).
Proof. exact safety. Qed.

Example C03_ex_wf : wf_prog ex_prog2 = true.
Proof. exact ex_prog2_wf. Qed.
Example C03_ex_compiles : compile ex_prog2 = Some (compiled ex_prog2).
Proof. exact ex_prog2_compiles. Qed.
