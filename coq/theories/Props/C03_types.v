(* Props/C03_types.v — the type-system part of C03: property theorems only, each closed by `exact <lemma>`
   (definitions in Lmmt/{Types,Check,Typing}.v, proofs in Lmmt/{SoundBind,SoundStep,SoundMatch,SoundEval,SoundProg,Examples}.v).

   C03: "Every program the type checker accepts compiles on both backends and executes ... without panicking ... dsp yields
   exactly the number of output words its type declares.  A program that cannot be executed safely is rejected with a
   diagnostic instead."

   `tc_prog (mkAnn par ret sums) p` (Lmmt/Check.v) is an executable, syntax-directed type checker for the core language WITH closures
   (Lmmx/Syntax.v: numbers, tuples, records, let patterns, lambdas capturing mutable cells by reference, higher-order
   functions, function names as values, pipes, default / named arguments, assignment, self / mem / delay, declared sum types
   with constructor application and `match` (literal / `_` / constructor / tuple patterns), `self` of any first-order data
   type); `par` / `ret` are the parameter / return-type annotations the program text carries, `sums` its sum type declarations (`mkAnn` = the strict configuration: types are compared by
   equality; the lenient configuration `mkLenient` exists only for the comparison harness: its only theorem is that it is an upper bound).  The reference semantics `xrun fuel p rows` (Lmmx/Ref.v, the semantics
   the real backends are compared with by checks/lmmx_part.py, C02) answers `Ok outputs`, `OutOfFuel`, or `Stuck code`
   (unbound variable, operand that is not a number, projection of a non-tuple, missing field, call of a non-function, arity
   mismatch, pattern mismatch, assignment to a non-variable, missing default, dangling reference, NO ARM of a match applies).

   TYPE SOUNDNESS — for the whole language, no construct excluded: an accepted program never answers Stuck, and every
   output row has exactly word_size(return type of dsp) numbers.  The real type checker (compiler/typing.rs) is compared
   with `tc_prog` on generated programs and their type-changing mutants by checks/lmmt_part.py. *)
From Coq Require Import List ZArith NArith Bool.
From Mimium Require Import Lmmm.Syntax Lmmm.Ref Lmmx.Syntax Lmmx.Ref Lmmx.Examples.
From Mimium Require Import Lmmt.Types Lmmt.Check Lmmt.Typing Lmmt.SoundStep Lmmt.SoundMatch Lmmt.SoundEval Lmmt.SoundProg Lmmt.Lenient Lmmt.Examples.
Import ListNotations.

(* Accepted programs do not get stuck: for every fuel and all input rows of the declared arity the run is a defined
   result or OutOfFuel — never a Stuck (dynamic type error) value; a defined result has one output row per input row and
   every row has exactly the number of words of dsp's return type. *)
Theorem C03_types_sound : forall par ret sums p info fuel rows,
  tc_prog (mkAnn par ret sums) p = Some info ->
  Forall (fun row => length row = ti_inputs info) rows ->
  match xrun fuel p rows with
  | Ok outs => Forall (fun o => length o = word_size (ti_dsp_ret info)) outs /\ length outs = length rows
  | OutOfFuel => True
  | Stuck _ => False
  end.
Proof. exact types_sound. Qed.

Theorem C03_types_never_stuck : forall par ret sums p info fuel rows code,
  tc_prog (mkAnn par ret sums) p = Some info -> Forall (fun row => length row = ti_inputs info) rows -> xrun fuel p rows <> Stuck code.
Proof. exact types_never_stuck. Qed.

(* ... from every reachable state: after the global initialisation and any number of samples, running on from the world
   that was reached — with any other fuel, any state tree, any sample counter, any further inputs — is never stuck. *)
Theorem C03_types_sound_reachable : forall par ret sums fuel p info rows1 genv ft wi outs s w,
  tc_prog (mkAnn par ret sums) p = Some info -> Forall (fun row => length row = ti_inputs info) rows1 ->
  xinit fuel (x_globals p) [] [] w0 = Ok (genv, ft, wi) ->
  xsamples fuel p genv ft 0%Z rows1 st0 wi = Ok (outs, s, w) ->
  forall fuel' t0 s' rows2, Forall (fun row => length row = ti_inputs info) rows2 ->
  match xsamples fuel' p genv ft t0 rows2 s' w with
  | Ok (outs2, _, _) => Forall (fun o => length o = word_size (ti_dsp_ret info)) outs2 /\ length outs2 = length rows2
  | OutOfFuel => True
  | Stuck _ => False
  end.
Proof. exact types_sound_reachable. Qed.

(* The invariant behind it (preservation + progress in one statement, Lmmt/Typing.v): values are typed against a typing SC
   of the closure instances, the variable cells against a store typing SV, every instance's captured environment and body
   against SV and the function signatures (`wok`); evaluating an expression of type t in a typed environment and world
   is not stuck, yields a value of type t and a typed world whose typings EXTEND the old ones — for every fuel. *)
Theorem C03_types_preservation : forall par ret sums ft sigs now fuel selfv r e s w G t SV SC,
  let an := mkAnn par ret sums in
  tc an G e = Some t -> env_ok SV sigs G r -> wok an ft sigs SV SC w ->
  match xeval fuel ft now selfv r e s w with
  | Ok (v, _, w') => exists SV' SC', ext SV SV' /\ ext SC SC' /\ wok an ft sigs SV' SC' w' /\ vtyp SC' t v
  | OutOfFuel => True
  | Stuck _ => False
  end.
Proof. exact types_preservation. Qed.

(* SUM TYPES, MATCH, MULTI-WORD SELF are part of the language the theorems above speak about (`sums` = the declared sum
   types: name |-> payload type per constructor; `type rec` is outside).  The facts behind the three new rules:
   (1) a match the checker accepts finds an arm: every pattern is typed against the scrutinee type (so its test is defined on
       every value of that type) and the patterns are exhaustive (an irrefutable arm, or one arm per constructor of the sum
       type), hence the first-match search of the reference semantics returns an arm, and that arm matched; *)
Theorem C03_types_match_finds_arm : forall an G ts arms tys SC v,
  tc_arms an G ts arms = Some tys -> exhaustive ts (map fst arms) = true -> vtyp SC ts v ->
  exists i m body, find_arm arms v 0 = Ok (i, m, body) /\ nth_error arms i = Some (m, body) /\ mtest m v = Ok true.
Proof. exact find_arm_typed. Qed.

(* (2) whatever a feedback cell holds, `self` read at a well-formed shape is a value of the shape's type (a sum type has at
       least one constructor and is declared with exactly these payloads); *)
Theorem C03_types_self_read_typed : forall sums SC sh s,
  shape_ok sums sh = true -> vtyp SC (ty_of_shape sh) (Lmmx.Syntax.dec sh s).
Proof. exact dec_typed. Qed.

(* (3) a value of a sum type occupies the tag word plus room for the widest payload (mir.rs word_size). *)
Theorem C03_types_word_size_sum : forall nm cs,
  word_size (TSum nm cs) = S (list_max (map (fun o => match o with Some t => word_size t | None => 0 end) cs)).
Proof. exact word_size_sum. Qed.

(* boolean type equality decides equality *)
Theorem C03_types_eqb : forall a b, ty_eqb a b = true <-> a = b.
Proof. exact (fun a b => conj (ty_eqb_eq a b) (fun E => eq_ind a (fun b => ty_eqb a b = true) (ty_eqb_refl a) b E)). Qed.

(* The comparison harness also runs the checker in its LENIENT configuration `mkLenient` (Lmmt/Check.v: tuples of equal
   length, argument lists of equal width, records and function types compare as equal; operators, delay, spread calls, dsp
   outputs and default values are not checked; a match on a tuple needs no `_` arm; a constructor written without its payload
   is a function value) as an upper bound of what the real type checker lets through.  It accepts
   everything the checker accepts, with the same answer — and it is, of course, NOT sound. *)
Theorem C03_types_lenient_upper_bound : forall par ret sums p info,
  tc_prog (mkAnn par ret sums) p = Some info -> tc_prog (mkLenient par ret sums) p = Some info.
Proof. exact tc_prog_extends. Qed.

Example C03_types_lenient_is_unsound :
  tc_prog an0 bad_operand = None /\ ret_of (mkLenient [] [] []) bad_operand = Some TNum /\ xrun 20 bad_operand [[]] = Stuck E_NOTNUM.
Proof. exact bad_operand_lenient. Qed.

(* The lenient configuration FOLLOWS THE REPAIRS of typing.rs: the patterns of a match are checked against the scrutinee type by
   the same function in both configurations (finding T8), the arms must have one type (T6), a match on a number needs a `_` arm
   (T7 on numbers), a constructor without its payload is no sum value a pattern could meet (T9 as a scrutinee): the witnesses of
   the repaired findings are rejected in the lenient configuration too, so a regression of typing.rs leaves the sandwich
   "strict <= real <= lenient" and is reported by checks/lmmt_part.py ... *)
Example C03_types_lenient_rejects_T6_match_arms : tc_prog (mkLenient [] [] []) bad_match_arms = None.
Proof. exact lenient_rejects_T6_match_arms. Qed.
Example C03_types_lenient_rejects_T7_match_on_number : tc_prog (mkLenient [] [] []) bad_match_nonexhaustive = None.
Proof. exact lenient_rejects_T7_number. Qed.
Example C03_types_lenient_rejects_T8_patterns :
  tc_prog len_T bad_pattern_type = None /\ tc_prog len_T bad_pat_ctor_on_number = None /\ tc_prog len0 bad_pat_tuple_on_number = None /\
  tc_prog len0 bad_pat_tuple_longer = None /\ tc_prog len_T bad_pat_binder_no_payload = None /\ tc_prog len_T bad_pat_payload_tuple = None.
Proof. exact lenient_rejects_T8_patterns. Qed.
Example C03_types_lenient_rejects_T9_scrutinee : tc_prog len_T bad_ctor_arity = None.
Proof. exact lenient_rejects_T9_scrutinee. Qed.
(* ... while what typing.rs still lets through stays inside the upper bound (and outside the checker: the first program is stuck) *)
Example C03_types_lenient_accepts_T7_match_on_tuple :
  tc_prog an0 res_match_tuple_nonexhaustive = None /\ ret_of len0 res_match_tuple_nonexhaustive = Some TNum /\
  xrun 20 res_match_tuple_nonexhaustive [[]; []; []] = Stuck E_NOMATCH.
Proof. exact lenient_accepts_T7_tuple. Qed.
Example C03_types_lenient_accepts_T9_constructor_as_function :
  tc_prog an_T res_ctor_as_function = None /\ ret_of len_T res_ctor_as_function = Some TNum /\
  tc_prog (mkAnn [(2%N, TFn [TNum] ty_T)] [] sums_T) res_ctor_passed_as_function = None /\
  ret_of (mkLenient [(2%N, TFn [TNum] ty_T)] [] sums_T) res_ctor_passed_as_function = Some TNum.
Proof. exact lenient_accepts_T9_function_value. Qed.

(* ---- the hypotheses are satisfiable: closure programs are accepted (and run: Props/C02_ext.v) ---- *)
Example C03_types_ex_counter : ret_of an0 ex_counter = Some TNum /\ xrun 20 ex_counter rows4 = Ok [[1]; [2]; [3]; [4]]%Z.
Proof. exact (conj ex_counter_typed ex_counter_run). Qed.
Example C03_types_ex_two_counters : ret_of an0 ex_two_counters = Some TNum.
Proof. exact ex_two_counters_typed. Qed.
Example C03_types_ex_hof_stateful :
  ret_of (mkAnn [(3%N, TFn [] TNum)] [] []) ex_hof_stateful = Some TNum /\ ret_of an0 ex_hof_stateful = None.
Proof. exact (conj ex_hof_stateful_typed ex_hof_stateful_needs_annotation). Qed.
Example C03_types_ex_nested_assign : ret_of an0 ex_nested_assign = Some TNum.
Proof. exact ex_nested_assign_typed. Qed.
Example C03_types_ex_shared_after_passing : ret_of (mkAnn [(8%N, TFn [] TNum)] [] []) ex_shared_after_passing = Some TNum.
Proof. exact ex_shared_after_passing_typed. Qed.
Example C03_types_ex_defaults_pipe : ret_of an0 ex_defaults_pipe = Some (TTup [TNum; TNum; TNum]).
Proof. exact ex_defaults_pipe_typed. Qed.
Example C03_types_ex_records : ret_of an0 ex_records = Some TNum /\ xrun 20 ex_records [[]] = Ok [[4]]%Z.
Proof. exact (conj ex_records_typed ex_records_run). Qed.
Example C03_types_ex_recursion :
  ret_of (mkAnn [] [(1%N, TNum)] []) ex_rec = Some TNum /\ ret_of an0 ex_rec = None /\
  xrun 20 ex_rec [[]] = Ok [[3]]%Z /\ xrun 5 ex_rec [[]] = OutOfFuel.
Proof. exact (conj ex_rec_typed (conj ex_rec_needs_return_type ex_rec_run)). Qed.

(* ---- the checker is not vacuous: ill-typed programs are rejected, and they DO get stuck ---- *)
Example C03_types_rejects_call_of_number : tc_prog an0 bad_call_number = None /\ xrun 20 bad_call_number [[]] = Stuck E_NOTFUN.
Proof. exact bad_call_number_rejected. Qed.
Example C03_types_rejects_wrong_arity : tc_prog an0 bad_arity = None /\ xrun 20 bad_arity [[]] = Stuck E_ARITY.
Proof. exact bad_arity_rejected. Qed.
Example C03_types_rejects_if_arms : tc_prog an0 bad_if_arms = None /\ xrun 20 bad_if_arms [[]] = Stuck E_NOTTUP.
Proof. exact bad_if_arms_rejected. Qed.
Example C03_types_rejects_assignment : tc_prog an0 bad_assign = None /\ xrun 20 bad_assign [[]] = Stuck E_NOTNUM.
Proof. exact bad_assign_rejected. Qed.
Example C03_types_rejects_missing_field : tc_prog an0 bad_field = None /\ xrun 20 bad_field [[]] = Stuck E_NOTREC.
Proof. exact bad_field_rejected. Qed.
Example C03_types_rejects_assignment_to_function : tc_prog an0 bad_assign_fun = None /\ xrun 20 bad_assign_fun [[]] = Stuck E_ASSIGN.
Proof. exact bad_assign_fun_rejected. Qed.
Example C03_types_rejects_missing_argument : tc_prog an0 bad_named = None /\ xrun 20 bad_named [[]] = Stuck E_NODEFAULT.
Proof. exact bad_named_rejected. Qed.
(* conservative, as every decidable checker must be: rejected although this run is defined *)
Example C03_types_conservative : tc_prog an0 bad_but_runs = None /\ xrun 20 bad_but_runs [[]] = Ok [[1]]%Z.
Proof. exact bad_but_runs_rejected. Qed.

(* ---- sum types, match, multi-word self: accepted programs (they run: Props/C02_ext.v) and rejected ones that DO get stuck ---- *)
Example C03_types_ex_sum_self :
  ret_of an_T ex_sum_self = Some TNum /\ xrun 20 ex_sum_self rows4 = Ok [[1]; [2]; [4]; [1000]]%Z /\ word_size ty_T = 3.
Proof. exact (conj ex_sum_self_typed (conj ex_sum_self_run word_size_T)). Qed.
Example C03_types_ex_tuple_self : ret_of an0 ex_tuple_self = Some TNum.
Proof. exact ex_tuple_self_typed. Qed.
Example C03_types_ex_match_arm_state : ret_of an0 ex_match_arm_state = Some TNum.
Proof. exact ex_match_arm_state_typed. Qed.
(* typing.rs accepted this one until the repair of finding T7 (no exhaustiveness check on numbers; now `Match expression is not
   exhaustive. Missing patterns: _`); the lenient configuration follows the repair *)
Example C03_types_rejects_nonexhaustive_match :
  tc_prog an0 bad_match_nonexhaustive = None /\ tc_prog (mkLenient [] [] []) bad_match_nonexhaustive = None /\
  xrun 20 bad_match_nonexhaustive [[]; []] = Stuck E_NOMATCH.
Proof. exact bad_match_nonexhaustive_rejected. Qed.
Example C03_types_rejects_missing_constructor :
  tc_prog an_T bad_match_missing_ctor = None /\ xrun 20 bad_match_missing_ctor [[]] = Stuck E_NOMATCH.
Proof. exact bad_match_missing_ctor_rejected. Qed.
Example C03_types_rejects_payload_type : tc_prog an_T bad_payload_type = None /\ xrun 20 bad_payload_type [[]] = Stuck E_NOTNUM.
Proof. exact bad_payload_type_rejected. Qed.
Example C03_types_rejects_constructor_arity : tc_prog an_T bad_ctor_arity = None /\ xrun 20 bad_ctor_arity [[]] = Stuck E_NOTNUM.
Proof. exact bad_ctor_arity_rejected. Qed.
Example C03_types_rejects_pattern_type :
  tc_prog an_T bad_pattern_type = None /\ tc_prog (mkLenient [] [] sums_T) bad_pattern_type = None /\
  xrun 20 bad_pattern_type [[]] = Stuck E_PAT.
Proof. exact bad_pattern_type_rejected. Qed.
Example C03_types_rejects_match_arms : tc_prog an0 bad_match_arms = None /\ xrun 20 bad_match_arms [[]; []] = Stuck E_NOTNUM.
Proof. exact bad_match_arms_rejected. Qed.
Example C03_types_rejects_self_shape : tc_prog an0 bad_self_shape = None.
Proof. exact bad_self_shape_rejected. Qed.
