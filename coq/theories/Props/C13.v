(* Props/C13.v — property theorems only. Each is closed by `exact <lemma>`.

   C13: tokens (and the pre-parser's trivia maps) are lossless over the source text.
   Also the lexer / pre-parser part of C04 (totality).

   Objects (Lexer/Model.v, a literal transcription of tokenizer.rs / token.rs / preparser.rs):
     Ch      one source character: code point + the answers of the character-class predicates the
             grammar asks (is_newline, is_ident_start, is_ident_continue, is_digit, is_ascii_digit).
             The answers are arbitrary inputs: every theorem below holds for ANY classification.
     Input   = list Ch;  blen s = number of UTF-8 bytes of s (sum of char::len_utf8).
     Token   = (tk_kind, tk_start, tk_len) with byte offsets; tk_end t = tk_start t + tk_len t;
             tk_text s t = &s[tk_start .. tk_end].
     tokenize s = TokOk tokens | TokOutOfFuel  (the scanner loop runs with fuel |s|+1).
     preparse tokens = (pp_token_indices, pp_leading, pp_trailing).                                  *)
From Coq Require Import List NArith.
From Mimium Require Import Tables.LexerTables Lexer.Model Lexer.Lemmas Lexer.PreLemmas.
Import ListNotations.
Local Open Scope N_scope.

(* ---------------------------------------------------------------------------------------------- *)
(* C13_tiling.  For every input the tokens tile the text:                                          *)
(*   - the list ends with the Eof token (start = |s| in bytes, length 0), no other token is Eof    *)
(*     and every other token is non-empty;                                                         *)
(*   - contiguous: the first token starts at 0 and every token starts where the previous one ends  *)
(*     (so, with the Eof clause, the tokens cover the text exactly);                               *)
(*   - every start and end offset is a character boundary (a sum of len_utf8 of a prefix);         *)
(*   - in order and non-overlapping: i < j  ->  end_i <= start_j;                                  *)
(*   - concatenating the token texts reproduces the input.                                         *)
(* ---------------------------------------------------------------------------------------------- *)
Theorem C13_tiling : forall s : Input,
  exists toks : list Token,
    tokenize s = TokOk toks /\
    exists body : list Token,
      toks = body ++ [mkTok KEof (blen s) 0] /\
      contiguous 0 toks /\
      Forall (fun t => 0 < tk_len t /\ tk_kind t <> KEof) body /\
      Forall (fun t => (exists k, tk_start t = blen (firstn k s)) /\ (exists k, tk_end t = blen (firstn k s))) toks /\
      (forall i j, (i < j < length toks)%nat ->
         tk_end (nth i toks (mkTok KEof 0 0)) <= tk_start (nth j toks (mkTok KEof 0 0))) /\
      concat (map (tk_text s) toks) = s.
Proof. exact tokenize_tiling. Qed.

(* `contiguous pos toks`: Fixpoint, tk_start of the head = pos and the tail is contiguous from tk_end of the head *)
Example C13_contiguous_unfolds : forall pos t r,
  contiguous pos (t :: r) <-> tk_start t = pos /\ contiguous (tk_end t) r.
Proof. intros. reflexivity. Qed.

(* C13_split_preserves_tiling.  Re-splitting `Float` tokens that directly follow a `.`
   (split_projection_float_tokens, "a.0.1") maps ANY token list that tiles the text (same clauses as
   in C13_tiling; `tiling s toks` is literally the `exists body, ...` of C13_tiling) to one that tiles it. *)
Theorem C13_split_preserves_tiling : forall (s : Input) (body : list Token),
  tiling s (body ++ [mkTok KEof (blen s) 0]) ->
  tiling s (split_projection_float_tokens body s ++ [mkTok KEof (blen s) 0]).
Proof. exact split_preserves_tiling_clauses. Qed.

Example C13_tiling_is_the_clause_list : forall s toks,
  tiling s toks <->
  exists body : list Token,
      toks = body ++ [mkTok KEof (blen s) 0] /\
      contiguous 0 toks /\
      Forall (fun t => 0 < tk_len t /\ tk_kind t <> KEof) body /\
      Forall (fun t => (exists k, tk_start t = blen (firstn k s)) /\ (exists k, tk_end t = blen (firstn k s))) toks /\
      (forall i j, (i < j < length toks)%nat ->
         tk_end (nth i toks (mkTok KEof 0 0)) <= tk_start (nth j toks (mkTok KEof 0 0))) /\
      concat (map (tk_text s) toks) = s.
Proof. intros. reflexivity. Qed.

(* the re-split really happens: "a.0.1" (a . Float"0.1") becomes a . 0 . 1 *)
Example C13_split_example :
  let d := fun c => mkCh c false false true true true in
  let s := [mkCh 97 false true true false false; mkCh 46 false false false false false; d 48;
            mkCh 46 false false false false false; d 49] in
  tokenize s = TokOk [mkTok KIdent 0 1; mkTok KDot 1 1; mkTok KInt 2 1; mkTok KDot 3 1; mkTok KInt 4 1; mkTok KEof 5 0].
Proof. vm_compute. reflexivity. Qed.

(* ---------------------------------------------------------------------------------------------- *)
(* Trivia maps.  For ANY token list (not only the tokenizer's output):                             *)
(*   attachments i pp  = number of occurrences of token index i in the values of the leading map   *)
(*                       plus the number of occurrences in the values of the trailing map.         *)
(*   is_syntax t       = t is neither trivia (LineBreak/Whitespace/comments) nor Eof.              *)
(*   dropped toks j    = no syntax token precedes j, and scanning forward from j (j included) a    *)
(*                       LineBreak or the end of the list comes before the first syntax token      *)
(*                       (C13_dropped_in_words).  This is the F5 situation: `pending_trivia.clear()`*)
(*                       at a LineBreak while no token has been seen, and the final                *)
(*                       `if let Some(last_idx)` when the text has no syntax token at all.         *)
(* C13_trivia_once: a trivia token is attached exactly once, unless it is dropped (then: never).   *)
(* ---------------------------------------------------------------------------------------------- *)
Theorem C13_trivia_once : forall (toks : list Token) (j : nat),
  (j < length toks)%nat -> is_trivia (nth j toks (mkTok KEof 0 0)) = true ->
  attachments (N.of_nat j) (preparse toks) = if dropped toks j then 0%nat else 1%nat.
Proof. exact preparse_trivia_once. Qed.

Theorem C13_dropped_in_words : forall (toks : list Token) (j : nat), (j <= length toks)%nat ->
  (dropped toks j = true <->
   (forall i, (i < j)%nat -> is_syntax (nth i toks (mkTok KEof 0 0)) = false) /\
   ((exists b, (j <= b < length toks)%nat /\ is_linebreak (nth b toks (mkTok KEof 0 0)) = true /\
               forall i, (j <= i < b)%nat -> is_syntax (nth i toks (mkTok KEof 0 0)) = false)
    \/ (forall i, (j <= i < length toks)%nat -> is_syntax (nth i toks (mkTok KEof 0 0)) = false))).
Proof. exact dropped_spec. Qed.

(* nothing else is ever stored in the maps: an index that is not a trivia token of the list occurs nowhere *)
Theorem C13_only_trivia_attached : forall (toks : list Token) (j : nat),
  (length toks <= j)%nat \/ is_trivia (nth j toks (mkTok KEof 0 0)) = false ->
  attachments (N.of_nat j) (preparse toks) = 0%nat.
Proof. exact preparse_only_trivia. Qed.

(* ... and "attached" means attached to a NEIGHBOUR.  syn_before toks v = number of syntax tokens strictly
   before token index v.  Trivia stored as leading trivia of syntax token #k (key k indexes token_indices)
   has exactly k syntax tokens before it, i.e. it lies between syntax tokens #k-1 and #k; trivia stored as
   trailing trivia of #k has exactly k+1, i.e. it lies between #k and #k+1.  (#k exists: C04_preparse_total.) *)
Theorem C13_trivia_neighbour : forall (toks : list Token) (k : N) (vs : list N) (v : N), In v vs ->
  (In (k, vs) (pp_leading (preparse toks)) -> syn_before toks v = k) /\
  (In (k, vs) (pp_trailing (preparse toks)) -> syn_before toks v = k + 1).
Proof. exact preparse_neighbour. Qed.

Example C13_syn_before_unfolds : forall toks v,
  syn_before toks v = N.of_nat (length (filter is_syntax (firstn (N.to_nat v) toks))).
Proof. intros. reflexivity. Qed.

(* token_indices lists exactly the syntax tokens, in source order (what the CST parser consumes) *)
Theorem C13_token_indices : forall toks : list Token,
  pp_token_indices (preparse toks) = syn_idx 0 toks.
Proof. exact preparse_token_indices. Qed.

Example C13_syn_idx_unfolds : forall i t r,
  syn_idx i (t :: r) = if is_syntax t then i :: syn_idx (N.succ i) r else syn_idx (N.succ i) r.
Proof. intros. reflexivity. Qed.

(* F5 — the property's trivia clause is refuted by the faithful model: for the text "// c\nfn"
   (tokens: SingleLineComment, LineBreak, Function, Eof) the comment (index 0) and the line break
   (index 1) are attached to nothing. *)
Theorem C13_leading_trivia_refuted :
  exists (s : Input) (toks : list Token),
    tokenize s = TokOk toks /\
    toks = [mkTok KSingleLineComment 0 4; mkTok KLineBreak 4 1; mkTok KFunction 5 2; mkTok KEof 7 0] /\
    attachments 0 (preparse toks) = 0%nat /\ attachments 1 (preparse toks) = 0%nat.
Proof. exact leading_trivia_refuted. Qed.

(* ---------------------------------------------------------------------------------------------- *)
(* C04 (lexer / pre-parser part): totality                                                         *)
(* ---------------------------------------------------------------------------------------------- *)

(* the scanner consumes at least one character per token: with any fuel > |s| the loop ends with
   Some(tokens) — neither out of fuel nor the `then_ignore(end())` failure that would make tokenize
   return only [Eof] *)
Theorem C04_lex_total : forall (s : Input) (fuel : nat), (length s < fuel)%nat ->
  exists toks, lex_loop fuel the_tables (mkCur 0 s) = LexOk toks.
Proof. exact lex_loop_total. Qed.

Theorem C04_tokenize_total : forall s : Input, tokenize s <> TokOutOfFuel.
Proof. exact tokenize_total. Qed.

(* preparse is a structural recursion (no fuel); what it returns can be used without bounds failures:
   every stored token index is < |tokens| and every map key is < |token_indices| *)
Theorem C04_preparse_total : forall (toks : list Token) (x : N),
  (In x (pp_token_indices (preparse toks)) \/
   In x (map_values (pp_leading (preparse toks))) \/ In x (map_values (pp_trailing (preparse toks))) ->
   x < N.of_nat (length toks)) /\
  (In x (map_keys (pp_leading (preparse toks))) \/ In x (map_keys (pp_trailing (preparse toks))) ->
   x < N.of_nat (length (pp_token_indices (preparse toks)))).
Proof. exact preparse_total. Qed.
