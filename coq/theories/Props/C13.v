(* Props/C13.v — property theorems only. Each is closed by `exact <lemma>`. *)
From Coq Require Import List NArith.
From Mimium Require Import Tables.LexerTables Lexer.Model.
Import ListNotations.
Local Open Scope N_scope.

(* the model runs: "1.5" is one Float token followed by Eof *)
Example C13_model_runs :
  tokenize [mkCh 49 false false true true true; mkCh 46 false false false false false; mkCh 53 false false true true true]
  = TokOk [mkTok KFloat 0 3; mkTok KEof 3 0].
Proof. vm_compute. reflexivity. Qed.
