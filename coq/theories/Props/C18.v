(* Props/C18.v — property theorems only; each closed by `exact <lemma>` (proofs in RustRt/Agree.v).

   C18 (generated Rust behaves like the VM) is a PARTIAL result: rustgen.rs itself is not modelled. What is proved here is
   the part of the generated program that is fixed text: the state primitives of the runtime scaffold
   (compiler/mimium_placeholder.rs.template, `impl StateStorage`: push_pos pop_pos get_state set_state mem delay),
   transcribed in RustRt/Model.v (the ss_ definitions) and pinned to the template's current text by translators/rustrt_template.py,
   compute exactly what the primitives of the cursor machine Lmmm/Machine.v compute (do_push do_pop get1 set1 mem1 delay1 —
   the model of vm.rs that C02/C05 tie to the real VM, and whose grow-on-demand discipline models the WASM host).
   Everything else of C18 (MIR -> Rust lowering) is compared by running (checks/C18.py), not proved.

   sop     : one primitive operation (push o | pop o | get | set v | mem v | delay n x t)
   ss_step : the operation on the template's StateStorage;  m_step d : the same operation on the cursor machine
   ss_of m : the machine state seen as a StateStorage (words and cursor; the access trace is dropped)
   fits    : cursor + touched words <= 2^64-1 (usize arithmetic does not saturate). *)
From Coq Require Import List ZArith NArith Bool.
From Mimium Require Import Tables.RustrtTemplate Lmmm.Machine RustRt.Model RustRt.Agree.
Import ListNotations.

(* one primitive: wherever the VM's (fixed-size, non-saturating) access is defined, the template returns the same word and
   leaves the same words and cursor *)
Theorem C18_template_prim_agrees_vm : forall op m r m',
  fits op m -> m_step VmD op m = Some (r, m') -> ss_step op (ss_of m) = Some (r, ss_of m').
Proof. exact step_agree_vm. Qed.

(* any sequence of primitives (the machine run checks `fits` before every step) *)
Theorem C18_template_prims_agree : forall ops m rs m',
  m_run VmD ops m = Some (rs, m') -> ss_run ops (ss_of m) = (rs, ss_of m').
Proof. exact run_agree_vm. Qed.

(* the template's own discipline (saturating cursor, storage grown on demand) is the machine's grow-on-demand
   discipline: defined on every state, equal results (ring buffers of length 0 excepted: the template grows the
   storage by the two header words there, the WASM host does not) *)
Theorem C18_template_prim_agrees_grow : forall op m,
  fits op m -> nonzero_delay op ->
  exists r m', m_step WasmD op m = Some (r, m') /\ ss_step op (ss_of m) = Some (r, ss_of m').
Proof. exact step_agree_wasm. Qed.

(* the ring-buffer layout numbers parsed from the template are the ones the machine (and the state-tree layout) use *)
Theorem C18_template_delay_layout :
  TPL_DELAY_HEADER = 2%N /\ TPL_READ_SLOT = 0%N /\ TPL_WRITE_SLOT = 1%N /\ TPL_DATA_START = 2%N.
Proof. exact (conj eq_refl (conj eq_refl (conj eq_refl eq_refl))). Qed.

(* the hypotheses are satisfiable: feed cell, mem cell and a 3-sample ring buffer driven through both *)
Example C18_ex_machine_run : option_map fst (m_run VmD ex_ops ex_m) = Some [0; 0; 0; 0; 0; 7; 0; 0; 9]%Z.
Proof. exact ex_run_vm. Qed.
Example C18_ex_template_run :
  fst (ss_run ex_ops (ss_of ex_m)) = [0; 0; 0; 0; 0; 7; 0; 0; 9]%Z /\
  ss_raw (snd (ss_run ex_ops (ss_of ex_m))) = [9; 5; 0; 2; 7; 8; 0]%Z.
Proof. exact ex_run_tpl. Qed.
