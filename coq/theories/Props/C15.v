(* Props/C15.v — compilation is deterministic: property theorems only, each closed by `exact <lemma>`.

   SCOPE (narrow, see DESIGN.md C15): the theorems cover (1) the process-global interner and arenas of interner.rs
   (Interner/Model.v: `intern` = ToSymbol::to_symbol / get_or_intern, `resolve` = Symbol::as_str, `store`/`load` =
   store_expr|store_type / get_expr|get_type), for ALL histories of the process; (2) the two order-insensitive idioms by
   which the compiler consumes a hash map's iteration order (sort on unique keys, running maximum); (3) a finite audit:
   every HashMap/HashSet iteration site that translators/hash_iter_sites.py finds in the CURRENT source is classified in
   Interner/SiteClasses.v.  That the rest of the compiler uses symbols only through intern/equality/resolve, and that the
   classification reasons are right, is NOT proved: checks/C15.py searches for differences instead (repeated compilation,
   different histories, fresh processes).

   Vocabulary: a history `h : list hop` is any sequence of earlier intern/store operations of the process; `replay h` is
   the storage it leaves.  A symbol program (`prog` with `symbolic p = true`) interns computed strings, resolves symbols,
   stores/loads arena values, compares symbols for equality, branches on that and prints strings/booleans; `observe h p` is
   everything it prints when run to completion in a process with history h. *)
From Coq Require Import List String Bool Arith Permutation.
From Mimium Require Import Interner.Model Interner.Lemmas Interner.Conc Interner.Sort Interner.SiteClasses Interner.Sites.
From Mimium Require Import Tables.HashIterSites.
Import ListNotations.

(* resolve (intern h x) = x, for every history h *)
Theorem C15_resolve_intern : forall (h : list hop) (x : string),
    resolve (fst (intern (replay h) x)) (snd (intern (replay h) x)) = Some x.
Proof. exact intern_resolve_hist. Qed.

(* ... and it keeps resolving to x whatever is interned or stored later (append-only storage) *)
Theorem C15_resolve_stable : forall (h later : list hop) (x : string),
    resolve (fold_left hop_apply later (fst (intern (replay h) x))) (snd (intern (replay h) x)) = Some x.
Proof. exact resolve_stable_hops. Qed.

(* intern h x = intern h y  <->  x = y : two symbols obtained one after the other in any process are equal exactly when
   their strings are *)
Theorem C15_intern_injective : forall (h : list hop) (x y : string),
    snd (intern (replay h) x) = snd (intern (fst (intern (replay h) x)) y) <-> x = y.
Proof. exact intern_injective_hist. Qed.

(* the id of a string never changes once handed out *)
Theorem C15_intern_stable : forall (h later : list hop) (x : string),
    snd (intern (fold_left hop_apply later (fst (intern (replay h) x))) x) = snd (intern (replay h) x).
Proof. exact intern_stable_hops. Qed.

(* history independence: a symbol program prints the same strings and booleans in every process, whatever was compiled
   (interned, stored) before *)
Theorem C15_history_independent : forall (h1 h2 : list hop) (p : prog),
    symbolic p = true -> observe h1 p = observe h2 p.
Proof. exact history_independent. Qed.

(* ... also step by step (same outputs and same remaining code after any number of steps) *)
Theorem C15_history_independent_steps : forall (h1 h2 : list hop) (p : prog) (n : nat),
    symbolic p = true ->
    outs (snd (run_solo (replay h1) (init p) n)) = outs (snd (run_solo (replay h2) (init p) n))
    /\ code (snd (run_solo (replay h1) (init p) n)) = code (snd (run_solo (replay h2) (init p) n)).
Proof. exact history_independent_steps. Qed.

(* the restriction to symbol programs is necessary: printing the numeric id (mir/print.rs prints `label.0` of an
   argument, finding F22) or comparing ids with < (derive(Ord) on Symbol: BTreeMap<Symbol,_> iteration) depends on the
   history *)
Theorem C15_raw_id_refuted : exists (h1 h2 : list hop) (p : prog), observe h1 p <> observe h2 p.
Proof. exact raw_id_refuted. Qed.

Theorem C15_id_order_refuted : exists (h1 h2 : list hop) (p : prog),
    (forall v k, p <> EmitRaw v k) /\ observe h1 p <> observe h2 p.
Proof. exact id_order_refuted. Qed.

(* sort_by_key on pairwise different keys (wasmgen.rs build_name_section): the output is a function of the multiset *)
Theorem C15_sorted_canonical : forall (A : Type) (l l' : list (nat * A)),
    NoDup (map fst l) -> Permutation l l' -> sort_by_key l = sort_by_key l'.
Proof. exact sorted_canonical_any. Qed.

(* ... and the hypothesis is necessary: the sort is stable, equal keys keep the incoming (hash) order *)
Theorem C15_sorted_dup_keys_refuted : exists l l' : list (nat * string), Permutation l l' /\ sort_by_key l <> sort_by_key l'.
Proof. exact sort_dup_keys_order_dependent. Qed.

(* a running maximum (wasmgen.rs compute_max_register_indices, bytecodegen.rs VRegister::add_newvalue) *)
Theorem C15_max_fold_perm : forall l l' : list nat, Permutation l l' -> max_fold l = max_fold l'.
Proof. exact max_fold_perm. Qed.

(* the audit: every hash-container iteration site of the current source has a classification entry *)
Theorem C15_sites_classified : forallb (classified site_classes) hash_iter_sites = true.
Proof. exact sites_classified. Qed.

(* ... and the only sites classified as reaching an artefact are the constructor registrations of finding F20 *)
Theorem C15_observable_sites_known :
    forallb (observable_only_in "InferContext::register_type_declarations"%string) hash_iter_sites = true.
Proof. exact observable_sites_known. Qed.

(* the second audit: Symbol derives Ord from the interner index, so a container kept SORTED by Symbol (sort, binary_search,
   BTreeMap<Symbol,_>, BTreeSet<Symbol>) is ordered by which name the process interned first -- history dependent exactly as
   C15_id_order_refuted says.  Every sort / sorted / binary_search / partition_point / cmp call and every walk of a
   BTreeMap/BTreeSet keyed by Symbol in the current source is classified, and none of them is keyed by Symbol. *)
Theorem C15_symbol_order_sites_classified : forallb (classified order_classes) symbol_order_sites = true.
Proof. exact symbol_order_sites_classified. Qed.

Theorem C15_no_symbol_order_site : forallb not_symbol_order symbol_order_sites = true.
Proof. exact no_symbol_order_site. Qed.

(* the hypotheses are satisfiable / the definitions compute *)
Example C15_example_symbolic :
  observe [HIntern "zzz"; HStore "t"; HIntern "m$f"]%string
          (Intern (Lit "m") (Intern (Lit "f") (Resolve 0 (Resolve 1 (Intern (Cat (Reg 0) (Cat (Lit "$") (Reg 1)))
             (Resolve 2 (Emit (Reg 2) (EmitEq 0 2 Done))))))))%string
  = [OStr "m$f"; OBool false]%string.
Proof. vm_compute. reflexivity. Qed.

Example C15_example_sort : sort_by_key [(2, "b"); (0, "dsp"); (1, "a")]%string = [(0, "dsp"); (1, "a"); (2, "b")]%string.
Proof. vm_compute. reflexivity. Qed.
