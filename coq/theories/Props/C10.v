(* Props/C10.v — property theorems only; each closed by `exact <lemma>` (proofs in Staging/).

   C10: "A variable bound inside quoted code never captures, and is never captured by, a variable of the same name
   in code spliced into it or in the code surrounding the expansion: consistently renaming a binder inside a macro
   body does not change the meaning of any program that uses the macro."

   The property is REFUTED (finding F7) by the witness of C10_hygiene_refuted; what does hold is the restricted
   C10_hygiene_fresh: expansion commutes with renaming whenever the renamed names occur neither in the spliced code
   values nor in the use site / expansion context.

   Vocabulary: rn0 rn p renames (by the function rn) every name of every quotation of the stage-0 code p --
   variables and all binders (let patterns, lambda parameters, letrec, feed, match variables); rn1 rn c does the
   same to a piece of code; names0 / env_names list the quoted names of a program / of the code values of an
   environment; `fixes rn l`: rn is the identity on the names of l. *)
From Coq Require Import List String ZArith Bool.
From Coq Require Import Floats.SpecFloat.
From Mimium Require Import Tables.Combinators Staging.Model Staging.Ind Staging.NF Staging.Eval
  Staging.Main Staging.Hygiene Staging.HygieneMain.
Import ListNotations.
Local Open Scope string_scope.

(* fn addy(x){ `{ let y = 1.0; $x + y } } used as addy!(`y) under let y = 100.0 : the quoted binder y captures the
   spliced y (2.0); with the binder renamed to the fresh name z the program computes 101.0 *)
Theorem C10_hygiene_refuted :
  exists (e_y e_z : expr),
    addy_macro "z" = rn0 (swap_name "y" "z") (addy_macro "y") /\
    ~ In "z" (names0 (addy_program "y")) /\
    expand 4 0 (addy_program "y") = Ok e_y /\
    expand 4 0 (addy_program "z") = Ok e_z /\
    ev 4 [] e_y = Ok (VNum f_2) /\
    ev 4 [] e_z = Ok (VNum f_101).
Proof. exact hygiene_refuted. Qed.

(* a macro definition M bound to m and used in U; the names of M's quotations are renamed by rn.  If neither the
   use site / context U nor the code values of the environment mention a renamed name, then the implementation
   (translate, then the stage-0 machine) expands the renamed program to the renamed expansion. *)
Theorem C10_hygiene_fresh : forall (rn : string -> string) (n k : nat) (m : string) (t : ty) (M U : expr) (r : env) (c : expr),
  let P := ELet (PSingle m) t M (Some U) in
  fixes rn (names0 U) ->
  fixes rn (env_names r) ->
  nf0 P -> nf0 (rn0 rn P) -> src0 P -> data_env r ->
  ev n r P = Ok (VCode c) ->
  ev n r (fst (translate P k)) = Ok (VCode c) /\
  ev n r (fst (translate (ELet (PSingle m) t (rn0 rn M) (Some U)) k)) = Ok (VCode (rn1 rn c)).
Proof. exact hygiene_fresh. Qed.

(* the general form: expansion commutes with any renaming of the quoted names of a whole program *)
Theorem C10_expansion_commutes_with_renaming : forall (rn : string -> string) (n k : nat) (p : expr) (r : env) (c : expr),
  nf0 p -> nf0 (rn0 rn p) -> src0 p -> data_env r ->
  fixes rn (env_names r) ->
  ev n r p = Ok (VCode c) ->
  ev n r (fst (translate p k)) = Ok (VCode c) /\
  ev n r (fst (translate (rn0 rn p) k)) = Ok (VCode (rn1 rn c)).
Proof. exact hygiene_commutes. Qed.

(* renaming leaves alone whatever does not mention the renamed names *)
Theorem C10_rename_absent : forall (rn : string -> string) (e : expr),
  (fixes rn (names0 e) -> rn0 rn e = e) /\ (fixes rn (names1 e) -> rn1 rn e = e).
Proof. exact rn_absent. Qed.

(* the hypotheses of C10_hygiene_fresh are satisfiable: the same macro with a binder (t) that the use site does not
   mention, renamed to z *)
Example C10_example_fresh :
  let rn := swap_name "t" "z" in
  let P := addy_program "t" in
  fixes rn (names0 addy_use) /\ nf0 P /\ nf0 (rn0 rn P) /\ src0 P /\
  exists c, ev 4 [] P = Ok (VCode c) /\ ev 4 [] c = Ok (VNum f_101) /\ ev 4 [] (rn1 rn c) = Ok (VNum f_101).
Proof.
  cbn zeta. split.
  - intros x Hx. cbn in Hx. destruct Hx as [<-|[<-|[]]]; reflexivity.
  - split; [cbn; repeat split; reflexivity|]. split; [cbn; repeat split; reflexivity|].
    split; [cbn; repeat split; reflexivity|].
    eexists. split; [vm_compute; reflexivity|]. split; vm_compute; reflexivity.
Qed.
