(* Props/C20.v — property theorems only. Each is closed by `exact <lemma>`.

   C20: "Every macro argument or result that can be represented across the dynamic-plugin boundary (numbers, strings, arrays,
   tuples, records, tagged unions, code) and every type decodes to something equal to what was encoded. Values that cannot cross
   the boundary are refused with an error rather than silently altered."
   All theorems quantify over ALL values / types / byte suffixes (no depth or width bound). The second sentence is refuted for
   Value::ErrorV (finding F10, C20_errorv_refuted) and proved for everything else (C20_refusal, C20_only_errorv_altered).
   Keys (ExprNodeId / TypeNodeId) and, in the Type / Value serde, Symbol ids are session-local numbers: "equal" is equality of
   the key / id, which denotes the same expression / type / name only inside one interner session (the host shares its interner
   with the plugin through set_external_session_globals); the text of symbols inside FfiValue is carried as real UTF-8 bytes.

   Vocabulary (FfiCodec/Model.v): `value str` = interpreter::Value with symbols read as their text, `ffi_value` = FfiValue,
   to_ffi = Value::to_ffi_value, of_ffi = FfiValue::to_value, encode/decode_ffi = bincode 1.3 on FfiValue,
   serialize_value/deserialize_value/serialize_macro_args/deserialize_macro_args as in runtime/ffi_serde.rs,
   encode_type/decode_type = bincode on types::Type via types/serde_impl.rs, venc/vdecode = bincode on Value via
   interpreter/serde_impl.rs (symbols as usize ids), enc_key/dec_key = slot-map keys (ExprNodeId, TypeNodeId).
   Numbers are 64-bit patterns, strings are byte lists. `representable v` = built from Unit/Number/String/Array/Tuple/Record/
   TaggedUnion/Code only (`crossable`) and within the bounds every Rust value satisfies (`value_ok str_ok`: u64 numbers/tags/lengths,
   strings are well-formed UTF-8 byte strings, keys have u32 fields and an odd version, null key = (MAX,1)). *)
From Coq Require Import String NArith List Bool.
From Mimium Require Import Tables.FfiTables FfiCodec.Model FfiCodec.Wire FfiCodec.Lemmas FfiCodec.TypeSerde FfiCodec.ValueSerde
  FfiCodec.Utf8 FfiCodec.Fuel.
Import ListNotations.
Local Open Scope list_scope.
Local Open Scope N_scope.

(* every representable value, of any depth and width, comes back equal; whatever bytes follow the encoding are left untouched *)
Theorem C20_value_roundtrip : forall v : value str, representable v = true ->
  exists f, to_ffi v = Ok f /\ serialize_value v = Ok (encode f) /\ of_ffi f = v /\
            forall rest, decode_ffi (encode f ++ rest) = Some (f, rest) /\ deserialize_value (encode f ++ rest) = Some v.
Proof. exact value_roundtrip. Qed.

(* the wire format alone: every well-formed FfiValue (ErrorV included) survives bincode *)
Theorem C20_ffi_roundtrip : forall f rest, ffi_ok f = true -> decode_ffi (encode f ++ rest) = Some (f, rest).
Proof. exact decode_ffi_encode. Qed.

(* macro arguments: a vector of (value, TypeNodeId) *)
Theorem C20_args_roundtrip : forall args : list (value str * key),
  len_ok args = true -> forallb arg_representable args = true ->
  exists l, serialize_macro_args args = Ok (encode_args l) /\
            forall rest, decode_args (encode_args l ++ rest) = Some (l, rest) /\
                         deserialize_macro_args (encode_args l ++ rest) = Some args.
Proof. exact args_roundtrip. Qed.

(* refusal: Err exactly when a Closure / Fixpoint / ExternalFn / Store / ConstructorFn occurs on the traversed part of the value,
   and the error is that of the first one in traversal order *)
Theorem C20_refusal : forall (v : value str) e, to_ffi v = Err e <-> first_refused v = Some e.
Proof. exact to_ffi_err_iff. Qed.

Theorem C20_refusal_variants : forall (e : key) (names : list str) (s : str) (x : value str) (tag : N) (t : key),
  to_ffi (VClosure e names) = Err ErrClosure /\ to_ffi (VFixpoint s e) = Err ErrFixpoint /\
  to_ffi (VExternalFn s) = Err ErrExternalFn /\ to_ffi (VStore x) = Err ErrStore /\
  to_ffi (VConstructorFn tag s t) = Err ErrConstructorFn.
Proof. exact refusal_variants. Qed.

Theorem C20_args_refusal : forall args : list (value str * key),
  match first_some arg_refused args with
  | Some e => serialize_macro_args args = Err e
  | None => exists bs, serialize_macro_args args = Ok bs
  end.
Proof. exact args_refusal. Qed.

(* F10: Value::ErrorV is neither preserved nor refused *)
Theorem C20_errorv_refuted : exists (v : value str) (bs : list N),
  value_ok str_ok v = true /\ serialize_value v = Ok bs /\ deserialize_value bs = Some VUnit /\ v <> VUnit.
Proof. exact errorv_refuted. Qed.

(* ... and that is the only alteration: whatever is accepted comes back with its ErrorV nodes replaced by Unit, nothing else changed *)
Theorem C20_only_errorv_altered : forall (v : value str) bs, value_ok str_ok v = true -> serialize_value v = Ok bs ->
  (forall rest, deserialize_value (bs ++ rest) = Some (squash_errorv v)) /\ (squash_errorv v = v <-> has_errorv v = false).
Proof. exact only_errorv_altered. Qed.

(* every serialisable Type decodes to itself; Intermediate and TypeScheme are refused *)
Theorem C20_type_roundtrip : forall t, ty_ok t = true -> ty_serialisable t = true ->
  exists bs, encode_type t = Some bs /\ forall rest, decode_type (bs ++ rest) = Some (t, rest).
Proof. exact decode_type_encode. Qed.

Theorem C20_type_refusal : forall t, encode_type t = None <-> ty_serialisable t = false.
Proof. exact encode_type_none_iff. Qed.

(* slot-map keys (TypeNodeId / ExprNodeId on their own, as the plugin loader sends them) *)
Theorem C20_key_roundtrip : forall k, key_ok k = true -> forall rest, dec_key (enc_key k ++ rest) = Some (k, rest).
Proof. exact rt_key. Qed.

(* the hand-written serde of interpreter::Value: round trip for everything it accepts, refusal of Closure / ExternalFn / Store *)
Theorem C20_value_serde_roundtrip : forall v : value N, vserialisable v = true -> value_ok id_ok v = true ->
  exists bs, venc v = Some bs /\ forall rest, vdecode (bs ++ rest) = Some (v, rest).
Proof. exact vdecode_venc. Qed.

Theorem C20_value_serde_refusal : forall v : value N, vserialisable v = false -> venc v = None.
Proof. exact venc_refuses. Qed.

(* "well-formed UTF-8" is the Unicode definition: the acceptor used by dec_string (and required of every string by `str_ok`) accepts
   exactly the encodings of sequences of scalar values U+0000..U+D7FF, U+E000..U+10FFFF — in particular every non-ASCII Rust string *)
Theorem C20_utf8_spec : forall s, utf8_valid s = true <-> exists cs, forallb scalar cs = true /\ s = utf8_of cs.
Proof. exact utf8_valid_iff. Qed.

(* the decoders' fuel only bounds nesting depth and never runs out before the bytes do: a None of decode_ffi / vdecode is a rejection *)
Theorem C20_decode_fuel_irrelevant : forall fuel bs, (length bs < fuel)%nat ->
  decode fuel bs = decode_ffi bs /\ vdec fuel bs = vdecode bs.
Proof. exact fuel_irrelevant. Qed.

(* the tables generated from the current Rust source: for FfiValue/PType (derived) every constructor has exactly one index;
   for Value/Type (hand-written) the index the writer passes for a variant is the position of that variant in the reader's
   `Field` enum, the reader's arm builds that variant, Field = VARIANTS, every declared variant is written or refused (17 + 14 + 16
   + 9 + 4 table rows, all checked); the heads of the match arms of to_ffi_value / to_value are those of the model *)
Theorem C20_tables_agree : tables_agree = true.
Proof. exact tables_agree_true. Qed.

(* the hypotheses are satisfiable: a nested value with empty aggregates, a non-ASCII string, a NaN with payload, -0, a null key *)
Example C20_ex_representable :
  representable (VArray [VNumber 9221120237041090851; VNumber 9223372036854775808; VString [104; 195; 169; 240; 159; 142; 181];
                         VRecord [([], VTuple []); ([227; 129; 130], VTaggedUnion 18446744073709551615 (VArray []))];
                         VCode (Key 4294967295 1)]) = true.
Proof. vm_compute. reflexivity. Qed.
Example C20_ex_type_ok :
  ty_ok (TUserSum 7 [(1, None); (2, Some (Key 3 1))]) = true /\ ty_serialisable (TUserSum 7 [(1, None); (2, Some (Key 3 1))]) = true.
Proof. vm_compute. split; reflexivity. Qed.
Example C20_ex_value_serde_ok :
  vserialisable (VTuple [VFixpoint 3 (Key 1 1); VConstructorFn 2 5 (Key 2 1); VErrorV (Key 1 1)]) = true /\
  value_ok id_ok (VTuple [VFixpoint 3 (Key 1 1); VConstructorFn 2 5 (Key 2 1); VErrorV (Key 1 1)]) = true.
Proof. vm_compute. split; reflexivity. Qed.
