(* Props/C20.v — property theorems only. Each is closed by `exact <lemma>`. *)
From Coq Require Import String NArith List Bool.
From Mimium Require Import Tables.FfiTables FfiCodec.Model FfiCodec.Lemmas.
Import ListNotations.
Local Open Scope list_scope.
Local Open Scope N_scope.

Theorem C20_tables_agree : tables_agree = true.
Proof. exact tables_agree_true. Qed.
