(* Props/C07.v — property theorems only; each closed by `exact <lemma>` (proofs in Lmmm/{Voices,VoicesSwap,VoicesEdit}.v).

   C07 (voices survive a live edit).  A "voice" is an output expression e of dsp that depends on the dsp
   inputs only (`closed_voice`); `voice_range p j = Some (off, sz)` is the range of flat state words the
   compiler assigns to output j.  Locality: a voice reads and writes only the words of its own range, and
   its output stream is the reference stream of the voice alone (`voice_ref_run`) started from the state
   tree those words denote.  Hence, when the running program p1 is hot-swapped (HotSwap.hot_swap, the
   StateTree migration plan) for an edited program p2 with the same function definitions:
     * a voice whose words are carried by the plan from its old range onto its new range
       (`voice_carried`: one patch covers the new range and reads it from the old range — what C08_same_shape /
       C08_survivors establish for inserted/deleted sibling voices) continues on its new channel exactly as
       it would have continued in the old program;
     * a voice into whose range no patch writes (`voice_unwritten`, C08_zero_elsewhere) starts from fresh
       (zero) state;
     * an edit that does not compile changes nothing.
   NOTE (see C07_ex_swap_run): which old voice a patch reads from is decided by the shape-based LCS of the
   state-tree diff; among identically shaped siblings the carried state may go to a different voice (in the
   example the state of the unchanged voice cnt(1) is handed to the inserted voice cnt(5)).  That is why the
   theorem is stated for the voice the plan actually carries.
   All definitions used here live in Lmmm/Spec.v and the model files Lmmm/HotSwap.v, StateTree/Model.v. *)
From Coq Require Import List ZArith NArith Bool.
From Mimium Require Import StateTree.Model Lmmm.Syntax Lmmm.Ref Lmmm.Compile Lmmm.Machine Lmmm.Wf
  Lmmm.HotSwap Lmmm.Spec Lmmm.Swap Lmmm.Voices Lmmm.VoicesSwap Lmmm.VoicesEdit Lmmm.Examples.
Import ListNotations.

(* a carried voice continues: channel j of the new program after the swap = channel i of the old program had
   it kept running (same inputs, `now` keeps counting from any t1) *)
Theorem C07_untouched_voice_continues : forall d p1 cp1 p2 cp2 i j e off1 off2 sz t0 rows1 m1 t1 rows2,
  compile p1 = Some cp1 -> wf_prog p1 = true -> compile p2 = Some cp2 -> wf_prog p2 = true ->
  p_funs p2 = p_funs p1 -> p_inputs p2 = p_inputs p1 ->
  nth_error (p_outs p1) i = Some e -> nth_error (p_outs p2) j = Some e ->
  closed_voice p1 e = true -> closed_voice p2 e = true ->
  voice_range p1 i = Some (off1, sz) -> voice_range p2 j = Some (off2, sz) ->
  rows_ok p1 rows1 -> final_state d p1 cp1 t0 rows1 (init_state d cp1) = Some m1 ->
  voice_carried (published_skeleton cp1) (published_skeleton cp2) off1 off2 sz ->
  rows_ok p1 rows2 ->
  exists m2, hot_swap cp1 cp2 m1 = Some m2 /\
    map (chan j) (outs_of (mach_run d p2 cp2 t1 rows2 m2))
    = map (chan i) (outs_of (mach_run d p1 cp1 t1 rows2 m1)).
Proof. exact untouched_voice_continues. Qed.

(* a voice no patch writes to starts fresh: its channel is the reference stream of the voice from the empty tree *)
Theorem C07_new_voice_fresh : forall d p1 cp1 p2 cp2 j e off2 sz t0 rows1 m1 t1 rows2,
  compile p1 = Some cp1 -> wf_prog p1 = true -> compile p2 = Some cp2 -> wf_prog p2 = true ->
  nth_error (p_outs p2) j = Some e -> closed_voice p2 e = true -> voice_range p2 j = Some (off2, sz) ->
  rows_ok p1 rows1 -> final_state d p1 cp1 t0 rows1 (init_state d cp1) = Some m1 ->
  voice_unwritten (published_skeleton cp1) (published_skeleton cp2) off2 sz ->
  rows_ok p2 rows2 ->
  exists m2 vs sv',
    hot_swap cp1 cp2 m1 = Some m2 /\
    voice_ref_run (p_funs p2) (p_inputs p2) e t1 rows2 st0 = Some (vs, sv') /\
    map (chan j) (outs_of (mach_run d p2 cp2 t1 rows2 m2)) = map Some vs.
Proof. exact new_voice_fresh. Qed.

(* the frame/locality fact behind both: from ANY machine state whose cursor is home, channel j depends only
   on the words of the voice's own range — the migrated storage may hold anything elsewhere *)
Theorem C07_voice_local : forall d p1 cp1 p2 cp2 i j e off1 off2 sz t0 rows1 m1 m2 t1 rows2,
  compile p1 = Some cp1 -> wf_prog p1 = true -> compile p2 = Some cp2 -> wf_prog p2 = true ->
  p_funs p2 = p_funs p1 -> p_inputs p2 = p_inputs p1 ->
  nth_error (p_outs p1) i = Some e -> nth_error (p_outs p2) j = Some e ->
  closed_voice p1 e = true -> closed_voice p2 e = true ->
  voice_range p1 i = Some (off1, sz) -> voice_range p2 j = Some (off2, sz) ->
  rows_ok p1 rows1 -> final_state d p1 cp1 t0 rows1 (init_state d cp1) = Some m1 ->
  home d cp2 m2 ->
  words_eq_on (m_words m1) off1 (m_words m2) off2 sz ->
  rows_ok p1 rows2 ->
  map (chan j) (outs_of (mach_run d p2 cp2 t1 rows2 m2))
  = map (chan i) (outs_of (mach_run d p1 cp1 t1 rows2 m1)).
Proof. exact voice_continues. Qed.

(* a swap that does not happen leaves program and state unchanged *)
Theorem C07_failed_edit_noop : forall p_new cur, compile p_new = None -> try_swap p_new cur = cur.
Proof. exact failed_edit_noop. Qed.

(* ---- insert / delete edits of voice programs, via C08_survivors_whole ----
   `voice_prog p`: dsp has no lets and every output is a closed voice publishing exactly one skeleton child
   (`voice_skel p j`), so the children of the published skeleton are the voices' skeletons in order;
   `sublist l1 l2`: l1 is l2 with elements deleted; `continues ... i j` (Spec.v): after hot_swap, channel j of
   the new program = channel i of the old program had it kept running. *)

(* voices deleted: every remaining voice whose skeleton has cells is carried (voice_carried) from SOME old voice i
   with the identical skeleton; if that old voice is the same expression, the channel continues *)
Theorem C07_voices_delete : forall d p1 cp1 p2 cp2 j e c t0 rows1 m1 t1 rows2,
  compile p1 = Some cp1 -> wf_prog p1 = true -> compile p2 = Some cp2 -> wf_prog p2 = true ->
  voice_prog p1 = true -> voice_prog p2 = true ->
  p_funs p2 = p_funs p1 -> p_inputs p2 = p_inputs p1 ->
  sublist (p_outs p2) (p_outs p1) ->
  nth_error (p_outs p2) j = Some e -> voice_skel p2 j = Some c -> (0 < count_cells c)%N ->
  rows_ok p1 rows1 -> final_state d p1 cp1 t0 rows1 (init_state d cp1) = Some m1 -> rows_ok p1 rows2 ->
  exists i off1 off2,
    voice_skel p1 i = Some c /\ voice_range p1 i = Some (off1, size c) /\ voice_range p2 j = Some (off2, size c) /\
    voice_carried (published_skeleton cp1) (published_skeleton cp2) off1 off2 (size c) /\
    (nth_error (p_outs p1) i = Some e -> continues d p1 cp1 p2 cp2 m1 t1 rows2 i j).
Proof. exact voices_delete. Qed.

(* voices inserted: every old voice whose skeleton has cells is carried to SOME new voice j with the identical
   skeleton; if that new voice is the same expression, the channel continues *)
Theorem C07_voices_insert : forall d p1 cp1 p2 cp2 i e c t0 rows1 m1 t1 rows2,
  compile p1 = Some cp1 -> wf_prog p1 = true -> compile p2 = Some cp2 -> wf_prog p2 = true ->
  voice_prog p1 = true -> voice_prog p2 = true ->
  p_funs p2 = p_funs p1 -> p_inputs p2 = p_inputs p1 ->
  sublist (p_outs p1) (p_outs p2) ->
  nth_error (p_outs p1) i = Some e -> voice_skel p1 i = Some c -> (0 < count_cells c)%N ->
  rows_ok p1 rows1 -> final_state d p1 cp1 t0 rows1 (init_state d cp1) = Some m1 -> rows_ok p1 rows2 ->
  exists j off1 off2,
    voice_skel p2 j = Some c /\ voice_range p1 i = Some (off1, size c) /\ voice_range p2 j = Some (off2, size c) /\
    voice_carried (published_skeleton cp1) (published_skeleton cp2) off1 off2 (size c) /\
    (nth_error (p_outs p2) j = Some e -> continues d p1 cp1 p2 cp2 m1 t1 rows2 i j).
Proof. exact voices_insert. Qed.

(* when the voices' skeletons are pairwise distinct, the voice is carried from / to its own original:
   "untouched call sites continue" for insert/delete edits (identically shaped voices may exchange state,
   which is what the property's "up to exchange among identically shaped siblings" allows; see C07_ex_swap_run) *)
Theorem C07_untouched_voices_continue_delete : forall d p1 cp1 p2 cp2 j e c t0 rows1 m1 t1 rows2,
  compile p1 = Some cp1 -> wf_prog p1 = true -> compile p2 = Some cp2 -> wf_prog p2 = true ->
  voice_prog p1 = true -> voice_prog p2 = true ->
  p_funs p2 = p_funs p1 -> p_inputs p2 = p_inputs p1 ->
  sublist (p_outs p2) (p_outs p1) -> NoDup (voice_skels p1) ->
  nth_error (p_outs p2) j = Some e -> voice_skel p2 j = Some c -> (0 < count_cells c)%N ->
  rows_ok p1 rows1 -> final_state d p1 cp1 t0 rows1 (init_state d cp1) = Some m1 -> rows_ok p1 rows2 ->
  exists i, nth_error (p_outs p1) i = Some e /\ continues d p1 cp1 p2 cp2 m1 t1 rows2 i j.
Proof. exact voices_delete_distinct. Qed.

Theorem C07_untouched_voices_continue_insert : forall d p1 cp1 p2 cp2 i e c t0 rows1 m1 t1 rows2,
  compile p1 = Some cp1 -> wf_prog p1 = true -> compile p2 = Some cp2 -> wf_prog p2 = true ->
  voice_prog p1 = true -> voice_prog p2 = true ->
  p_funs p2 = p_funs p1 -> p_inputs p2 = p_inputs p1 ->
  sublist (p_outs p1) (p_outs p2) -> NoDup (voice_skels p2) ->
  nth_error (p_outs p1) i = Some e -> voice_skel p1 i = Some c -> (0 < count_cells c)%N ->
  rows_ok p1 rows1 -> final_state d p1 cp1 t0 rows1 (init_state d cp1) = Some m1 -> rows_ok p1 rows2 ->
  exists j, nth_error (p_outs p2) j = Some e /\ continues d p1 cp1 p2 cp2 m1 t1 rows2 i j.
Proof. exact voices_insert_distinct. Qed.

(* satisfiability: v_old = (cnt(1), f2(3)) has pairwise distinct skeletons; v_del deletes cnt(1); v_new inserts cnt(5) *)
Example C07_ex_voice_progs :
  voice_prog v_old = true /\ voice_prog v_new = true /\ voice_prog v_del = true /\
  wf_prog v_del = true /\ compile v_del = Some (compiled v_del) /\
  voice_skels v_old = [[FnCall [Feed 1%N]]; [FnCall [Mem 1%N; Delay 3%N]]] /\
  voice_skel v_del 0 = Some (FnCall [Mem 1%N; Delay 3%N]).
Proof. exact v_voice_progs. Qed.
Example C07_ex_sublists : sublist (p_outs v_del) (p_outs v_old) /\ sublist (p_outs v_old) (p_outs v_new).
Proof. exact v_sublists. Qed.
Example C07_ex_distinct : NoDup (voice_skels v_old).
Proof. exact v_old_distinct. Qed.
(* deleting cnt(1): f2(3) moves from channel 1 to channel 0 and continues 6,6,6 (old channel 1: 0,3,6,6,6,6) *)
Example C07_ex_delete_run :
  option_map (fun r => map (chan 0) (outs_of r))
             (swap_run VmD v_old (compiled v_old) v_del (compiled v_del) [[];[];[]] [[];[];[]])
  = Some [Some 6; Some 6; Some 6]%Z.
Proof. exact v_delete_run. Qed.

(* ---- a concrete edit: old = (cnt(1), f2(3)), new = (cnt(1), cnt(5), f2(3)) ---- *)
Example C07_ex_programs :
  wf_prog v_old = true /\ wf_prog v_new = true /\
  compile v_old = Some (compiled v_old) /\ compile v_new = Some (compiled v_new).
Proof. exact v_progs_ok. Qed.
Example C07_ex_plan :
  plan (published_skeleton (compiled v_old)) (published_skeleton (compiled v_new))
  = Some (8%N, [mkPatch 0 1 1; mkPatch 1 2 6]).
Proof. exact v_plan. Qed.
Example C07_ex_ranges :
  voice_range v_old 1 = Some (1, 6)%N /\ voice_range v_new 2 = Some (2, 6)%N /\ voice_range v_new 0 = Some (0, 1)%N /\
  closed_voice v_old (ECall 2%N [ELit 3]) = true /\ closed_voice v_new (ECall 2%N [ELit 3]) = true /\
  closed_voice v_new (ECall 1%N [ELit 1]) = true.
Proof. exact v_ranges. Qed.
(* f2(3) is carried from old channel 1 to new channel 2; nothing is written to the range of new channel 0 *)
Example C07_ex_carried :
  voice_carried (published_skeleton (compiled v_old)) (published_skeleton (compiled v_new)) 1 2 6.
Proof. exact v_carried. Qed.
Example C07_ex_unwritten :
  voice_unwritten (published_skeleton (compiled v_old)) (published_skeleton (compiled v_new)) 0 1.
Proof. exact v_unwritten. Qed.
(* the runs: f2(3) continues (6,6,6); the state of the old cnt(1) (=3) went to the inserted cnt(5) (8,13,18)
   and the textually unchanged cnt(1) restarts (1,2,3) instead of continuing (4,5,6) *)
Example C07_ex_swap_run :
  map (chan 1) (outs_of (mach_run VmD v_old (compiled v_old) 0 [[];[];[];[];[];[]] m0))
    = [Some 0; Some 3; Some 6; Some 6; Some 6; Some 6]%Z /\
  map (chan 0) (outs_of (mach_run VmD v_old (compiled v_old) 0 [[];[];[];[];[];[]] m0))
    = [Some 1; Some 2; Some 3; Some 4; Some 5; Some 6]%Z /\
  option_map (fun r => (map (chan 0) (outs_of r), map (chan 1) (outs_of r), map (chan 2) (outs_of r)))
             (swap_run VmD v_old (compiled v_old) v_new (compiled v_new) [[];[];[]] [[];[];[]])
    = Some ([Some 1; Some 2; Some 3], [Some 8; Some 13; Some 18], [Some 6; Some 6; Some 6])%Z.
Proof. exact v_swap_run. Qed.

(* ---- MIXED edits of voice programs (voices removed AND added in one swap, e.g. removed at one position and another added at a different
   position), via C08_survivors_mixed_unambiguous ----
   `aligned l1 l2 same del ins` (Lmmm/VoicesMixed.v): l1 and l2 are interleavings of `same` (the untouched elements, same relative order)
   with the removed elements `del` resp. the added elements `ins`;  `skels_of p es`: the skeleton children published by the voices es;
   `share a n` (StateTree/Indep.v): the state layouts a and n have an identical sub-layout with cells at equal depth.
   Hypothesis: the added voices share no state cell with any old voice (otherwise a chain of partial matches may beat the identical pair of
   an untouched voice: finding C08/F29, C08_survivors_mixed_refuted). *)
From Mimium Require Import StateTree.Indep Lmmm.VoicesMixed.

(* every voice of the new program whose skeleton has cells and is the skeleton of some old voice is carried from SOME old voice with that
   skeleton; if that old voice is the same expression, the channel continues *)
Theorem C07_voices_mixed : forall d p1 cp1 p2 cp2 same del ins j e c t0 rows1 m1 t1 rows2,
  compile p1 = Some cp1 -> wf_prog p1 = true -> compile p2 = Some cp2 -> wf_prog p2 = true ->
  voice_prog p1 = true -> voice_prog p2 = true ->
  p_funs p2 = p_funs p1 -> p_inputs p2 = p_inputs p1 ->
  aligned (p_outs p1) (p_outs p2) same del ins ->
  (forall a n, In a (skels_of p1 (p_outs p1)) -> In n (skels_of p1 ins) -> share a n = false) ->
  nth_error (p_outs p2) j = Some e -> voice_skel p2 j = Some c -> (0 < count_cells c)%N -> In c (skels_of p1 (p_outs p1)) ->
  rows_ok p1 rows1 -> final_state d p1 cp1 t0 rows1 (init_state d cp1) = Some m1 -> rows_ok p1 rows2 ->
  exists i off1 off2,
    voice_skel p1 i = Some c /\ voice_range p1 i = Some (off1, size c) /\ voice_range p2 j = Some (off2, size c) /\
    voice_carried (published_skeleton cp1) (published_skeleton cp2) off1 off2 (size c) /\
    (nth_error (p_outs p1) i = Some e -> continues d p1 cp1 p2 cp2 m1 t1 rows2 i j).
Proof. exact voices_mixed. Qed.

(* "untouched call sites continue" for mixed edits: with pairwise distinct old skeletons, every voice of the new program whose skeleton is
   the skeleton of an old voice IS that old voice and continues from its own pre-swap state *)
Theorem C07_untouched_voices_continue_mixed : forall d p1 cp1 p2 cp2 same del ins j e c t0 rows1 m1 t1 rows2,
  compile p1 = Some cp1 -> wf_prog p1 = true -> compile p2 = Some cp2 -> wf_prog p2 = true ->
  voice_prog p1 = true -> voice_prog p2 = true ->
  p_funs p2 = p_funs p1 -> p_inputs p2 = p_inputs p1 ->
  aligned (p_outs p1) (p_outs p2) same del ins ->
  (forall a n, In a (skels_of p1 (p_outs p1)) -> In n (skels_of p1 ins) -> share a n = false) ->
  NoDup (voice_skels p1) ->
  nth_error (p_outs p2) j = Some e -> voice_skel p2 j = Some c -> (0 < count_cells c)%N -> In c (skels_of p1 (p_outs p1)) ->
  rows_ok p1 rows1 -> final_state d p1 cp1 t0 rows1 (init_state d cp1) = Some m1 -> rows_ok p1 rows2 ->
  exists i, nth_error (p_outs p1) i = Some e /\ continues d p1 cp1 p2 cp2 m1 t1 rows2 i j.
Proof. exact voices_mixed_distinct. Qed.

(* satisfiability: w_old = (a(1), b(2)), w_new = (b(2), c(3)) with a = {self, mem, delay 1}, b = {self, mem}, c = {delay 7} *)
Example C07_ex_mixed_progs :
  voice_prog w_old = true /\ voice_prog w_new = true /\ wf_prog w_old = true /\ wf_prog w_new = true /\
  compile w_old = Some (compiled w_old) /\ compile w_new = Some (compiled w_new) /\
  voice_skels w_old = [[FnCall [Feed 1%N; Mem 1%N; Delay 1%N]]; [FnCall [Feed 1%N; Mem 1%N]]] /\
  voice_skels w_new = [[FnCall [Feed 1%N; Mem 1%N]]; [FnCall [Delay 7%N]]].
Proof. exact w_progs. Qed.
Example C07_ex_mixed_aligned :
  aligned (p_outs w_old) (p_outs w_new) [ECall 2%N [ELit 2]] [ECall 1%N [ELit 1]] [ECall 3%N [ELit 3]].
Proof. exact w_aligned. Qed.
Example C07_ex_mixed_fresh :
  forall a n, In a (skels_of w_old (p_outs w_old)) -> In n (skels_of w_old [ECall 3%N [ELit 3]]) -> share a n = false.
Proof. exact w_fresh. Qed.
Example C07_ex_mixed_is_old : In (FnCall [Feed 1%N; Mem 1%N]) (skels_of w_old (p_outs w_old)).
Proof. exact w_is_old. Qed.
Example C07_ex_mixed_distinct : NoDup (voice_skels w_old).
Proof. exact w_old_distinct. Qed.
(* b(2) (old channel 1: 0,2,4,6,8,10) continues on new channel 0 with 6,8,10; the added voice c starts from zero state *)
Example C07_ex_mixed_run :
  plan (published_skeleton (compiled w_old)) (published_skeleton (compiled w_new)) = Some (11%N, [mkPatch 5 0 2]) /\
  map (chan 1) (outs_of (mach_run VmD w_old (compiled w_old) 0 [[];[];[];[];[];[]] m0))
    = [Some 0; Some 2; Some 4; Some 6; Some 8; Some 10]%Z /\
  option_map (fun r => (map (chan 0) (outs_of r), map (chan 1) (outs_of r)))
             (swap_run VmD w_old (compiled w_old) w_new (compiled w_new) [[];[];[]] [[];[];[]])
    = Some ([Some 6; Some 8; Some 10], [Some 0; Some 3; Some 3])%Z.
Proof. exact w_swap_run. Qed.
