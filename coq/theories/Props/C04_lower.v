(* Props/C04_lower.v — property theorems only. Each is closed by `exact <lemma>`.

   C04: front end total on arbitrary text — the LOWERING part (compiler/parser/lower.rs: green tree -> ast::Program).
   (Tokenizer / preparser: Props/C13.v; CST parser: Props/C04.v; type unifier: Props/C04_typing.v.)

   Objects (Lower/Ast.v, Lower/Model.v, ModelTypes.v, ModelExpr.v, ModelStmt.v: a transcription of EVERY function of lower.rs
   and of stmt_from_expr_top / into_then_expr of ast/statement.rs; no construct is left out):
     tree       the parser model's green tree (Parser/Model.v): TTok i (token leaf, i = index into the token table) | TNode kind children
     toks       the token table  nat -> option tokinfo  (`self.tokens.get(i)`): kind (after the parser's rewrites), start, length, text
     lower_with fuel toks root : res program
                Lowerer::lower_program run with explicit FUEL: the fuel decreases at every (recursive) call of lower_expr,
                lower_expr_sequence, lower_statement, lower_type, lower_pattern, lower_match_pattern, lower_tuple_pattern, so it
                bounds the recursion depth of the Rust code;  Ok p | OutOfFuel | Panic why, where Panic stands for every
                index / slice / unwrap of lower.rs that could panic (expr_children[0], children[next], lowered[..len-1],
                path.segments[0], type_nodes[0], patterns.pop().unwrap(), ...).
     tsize t    number of nodes and leaves of t;   lower toks root = lower_with (2 * tsize root) toks root.
     program    list of (statement, span); expressions, types, patterns carry their Location (span + path bit), see Ast.v. *)
From Coq Require Import String List NArith Arith.
From Mimium Require Import Tables.LexerTables Tables.TokenKinds.
From Mimium Require Parser.Model Parser.Bridge.
From Mimium Require Import Lower.Ast Lower.Model Lower.ModelTypes Lower.ModelExpr Lower.ModelStmt.
From Mimium Require Lower.Facts Lower.TotalStmt Lower.Points Lower.PointsStmt Lower.Boundary.
From Mimium Require Lexer.Model Lexer.Lemmas.
Import ListNotations.
Module P := Parser.Model.

(* ---------------------------------------------------------------------------------------------- *)
(* C04_lower_total.  For EVERY tree (not only those the parser produces) and EVERY token table,     *)
(* fuel 2 * tsize root (or more) is never exhausted and no index / unwrap of lower.rs panics:        *)
(* the lowering answers with a Program.  The bound is linear in the size of the tree.               *)
(* ---------------------------------------------------------------------------------------------- *)
Theorem C04_lower_total : forall (toks : nat -> option tokinfo) (root : P.tree) (fuel : nat),
  2 * tsize root <= fuel -> exists p : program, lower_with fuel toks root = Ok p.
Proof. exact TotalStmt.lower_total. Qed.

Theorem C04_lower_no_panic_no_fuel : forall (toks : nat -> option tokinfo) (root : P.tree) (fuel : nat),
  2 * tsize root <= fuel ->
  (forall why, lower_with fuel toks root <> Panic why) /\ lower_with fuel toks root <> OutOfFuel.
Proof. exact (fun toks root fuel H => Facts.fine_not_panic _ _ (TotalStmt.lower_with_fine toks root fuel H)). Qed.

(* composition with the parser theorems (Props/C04.v): whatever the token list, the parser answers with a tree and the
   lowering of that tree answers with a Program, for every token table *)
Theorem C04_parse_then_lower_total : forall (ts : list P.tok) (toks : nat -> option tokinfo),
  exists root errors rewrites p, P.parse ts = P.POk root errors rewrites /\ lower toks root = Ok p.
Proof.
  exact (fun ts toks =>
    match Bridge.parse_total ts with
    | ex_intro _ root (ex_intro _ es (ex_intro _ ms H)) =>
        match TotalStmt.lower_total_default toks root with
        | ex_intro _ p Hp => ex_intro _ root (ex_intro _ es (ex_intro _ ms (ex_intro _ p (conj H Hp))))
        end
    end).
Qed.

(* the bound is not vacuous: with fuel 3 the lowering of `(1)` (Program > Statement > ParenExpr > IntLiteral) runs out *)
Example C04_lower_small_fuel_runs_out :
  let root := P.TNode SProgram [P.TNode SStatement [P.TNode SParenExpr [P.TTok 0; P.TNode SIntLiteral [P.TTok 1]; P.TTok 2]]] in
  let toks := fun i => nth_error [mkTok KParenBegin 0 1 "("; mkTok KInt 1 1 "1"; mkTok KParenEnd 2 1 ")"] i in
  lower_with 3 toks root = OutOfFuel /\
  lower toks root = Ok [(PGlobalStatement (StmSingle (Ex (NLiteral (LFloat "1")) (mkLoc (mkSpan 1 2) true))), mkSpan 0 3)].
Proof. vm_compute. split; reflexivity. Qed.

(* ---------------------------------------------------------------------------------------------- *)
(* C04_lower_errors_in_range.  Every position the lowering writes into the AST comes from a token:  *)
(* Points.program_pts P p says that BOTH ENDS OF EVERY SPAN occurring in p satisfy P -- the          *)
(* Location of every expression (Expr::Error placeholders included) and of every type, operator     *)
(* spans, the Location of a parameter list, statement spans, also inside module bodies.             *)
(* For every tree, table and fuel: each such position is 0 (Location::default(), 0..0 fallbacks) or  *)
(* the start or the end of a token of the table (node_span, merge_spans and macro_expand_span only  *)
(* combine token boundaries).                                                                       *)
(* ---------------------------------------------------------------------------------------------- *)
Theorem C04_lower_errors_in_range : forall (toks : nat -> option tokinfo) (root : P.tree) (fuel : nat) (p : program),
  lower_with fuel toks root = Ok p ->
  Points.program_pts (fun x : N => x = 0%N \/ exists i tk, toks i = Some tk /\ (x = t_start tk \/ x = t_end tk)) p.
Proof. exact Boundary.lower_spans_are_token_boundaries. Qed.

(* the general form: any predicate on byte offsets that holds of 0 and of the start and end of every token *)
Theorem C04_lower_spans_from_tokens : forall (Q : N -> Prop) (toks : nat -> option tokinfo) (root : P.tree) (fuel : nat) (p : program),
  Q 0%N -> (forall i tk, toks i = Some tk -> Q (t_start tk) /\ Q (t_end tk)) ->
  lower_with fuel toks root = Ok p -> Points.program_pts Q p.
Proof. exact PointsStmt.lower_points. Qed.

(* hence no span reaches beyond the end of the last token (= the length of the text for the tokenizer's tokens) *)
Theorem C04_lower_spans_in_text : forall (toks : nat -> option tokinfo) (root : P.tree) (fuel : nat) (p : program) (hi : N),
  (forall i tk, toks i = Some tk -> (t_end tk <= hi)%N) ->
  lower_with fuel toks root = Ok p -> Points.program_pts (fun x => (x <= hi)%N) p.
Proof. exact Boundary.lower_spans_below. Qed.

(* composition with the tokenizer theorem C13_tiling (Props/C13.v): when the table carries the positions of tokens that tile
   the text s, every span end of the AST is a character boundary of s (what str::is_char_boundary tests) *)
Theorem C04_lower_spans_on_char_boundaries :
  forall (s : Lexer.Model.Input) (ltoks : list Lexer.Model.Token) (toks : nat -> option tokinfo) (root : P.tree) (fuel : nat) (p : program),
  Lemmas.tiling s ltoks ->
  (forall i tk, toks i = Some tk ->
     exists t, nth_error ltoks i = Some t /\ t_start tk = Lexer.Model.tk_start t /\ t_len tk = Lexer.Model.tk_len t) ->
  lower_with fuel toks root = Ok p -> Points.program_pts (Lemmas.char_boundary s) p.
Proof. exact Boundary.lower_spans_on_char_boundaries. Qed.

(* what program_pts says on an example: `1 +` lowers to BinOp(1, +, Error) whose Error has the default Location 0..0 *)
Example C04_lower_error_location_example :
  let root := P.TNode SProgram [P.TNode SStatement [P.TNode SBinaryExpr [P.TNode SIntLiteral [P.TTok 0]; P.TTok 1]]] in
  let toks := fun i => nth_error [mkTok KInt 4 1 "1"; mkTok KOpSum 6 1 "+"] i in
  lower toks root =
    Ok [(PGlobalStatement (StmSingle (Ex (NBinOp (Ex NError (mkLoc (mkSpan 0 0) false)) OSum (mkSpan 6 7)
                                                 (Ex (NLiteral (LFloat "1")) (mkLoc (mkSpan 4 5) true)))
                                          (mkLoc (mkSpan 0 5) true))), mkSpan 4 7)].
Proof. vm_compute. reflexivity. Qed.
