(* Props/C16_layout.v — property theorems only. Each is closed by `exact <lemma>` (witness theorems by vm_compute).

   C16 (layout part): adding redundant parentheses, changing whitespace / comments, line breaks inside brackets — what the
   LOWERING (lower.rs) and the CST parser model contribute.  (Renaming: Props/C16.v.)

   Objects: Lower/Model*.v (see Props/C04_lower.v) and
     lw toks f            the lowering functions tied with fuel f;  k_expr (lw toks f) node = lower_expr with that fuel
     paren a e b          the green node  ParenExpr [ token a ; e ; token b ]  the parser builds for `( e )`
     ptok                 one syntax (non-trivia) token: p_tok = what the parser sees (kind, line-break bits of its trivia,
                          adjacency), p_text, p_start, p_len
     front l              parse_cst followed by Lowerer::lower_program on the token list l (Lower/Front.v)
     front_nospan l       the same on `map strip l` (start = length = 0 everywhere): the AST up to its Locations. *)
From Coq Require Import String List NArith Arith.
From Mimium Require Import Tables.LexerTables Tables.TokenKinds.
From Mimium Require Parser.Model.
From Mimium Require Import Lower.Ast Lower.Model Lower.ModelTypes Lower.ModelExpr Lower.ModelStmt Lower.Front.
From Mimium Require Lower.Parens Lower.Mono.
Import ListNotations.

(* ---------------------------------------------------------------------------------------------- *)
(* C16_parens_transparent.  A parenthesised expression node lowers to EXACTLY what its content      *)
(* lowers to: same expression, same Locations (lower.rs never builds Expr::Paren; the span of the   *)
(* parentheses is dropped).  With the fuel of C04_lower_total both are values, the same one.        *)
(* ---------------------------------------------------------------------------------------------- *)
Theorem C16_parens_transparent : forall (toks : nat -> option tokinfo) (f a : nat) (e : P.tree) (b : nat),
  is_expr_node e = true -> 2 * tsize (Parens.paren a e b) <= f ->
  exists r : expr, k_expr (lw toks f) (Parens.paren a e b) = Ok r /\ k_expr (lw toks f) e = Ok r.
Proof. exact Parens.paren_transparent. Qed.

(* fuel-explicit form: whatever the content lowers to with fuel f, the parenthesised node lowers to with fuel f + 2, and
   whatever the parenthesised node lowers to, the content lowers to with the same fuel *)
Theorem C16_parens_transparent_fuel : forall (toks : nat -> option tokinfo) (f a b : nat) (e : P.tree) (r : expr),
  is_expr_node e = true ->
  (k_expr (lw toks f) e = Ok r -> k_expr (lw toks (f + 2)) (Parens.paren a e b) = Ok r) /\
  (k_expr (lw toks f) (Parens.paren a e b) = Ok r -> k_expr (lw toks f) e = Ok r).
Proof.
  exact (fun toks f a b e r He =>
    conj (fun H => Parens.paren_of_content toks f (f + 2) a e b r He H (le_n _))
         (fun H => Parens.content_of_paren toks f a e b r He H)).
Qed.

(* for every knot (every fuel): the parenthesised node is lowered by lower_expr_sequence on its content alone *)
Theorem C16_paren_is_sequence_of_content : forall (toks : nat -> option tokinfo) (K : knot) (a : nat) (e : P.tree) (b : nat),
  is_expr_node e = true -> lower_expr toks K (Parens.paren a e b) = k_seq K [e].
Proof. exact Parens.lower_paren_any_knot. Qed.

Example C16_parens_example :
  let toks := fun i => nth_error [mkTok KParenBegin 0 1 "("; mkTok KIdent 1 1 "x"; mkTok KParenEnd 2 1 ")"] i in
  k_expr (lw toks 6) (Parens.paren 0 (P.TNode SIdentifier [P.TTok 1]) 2) = Ok (Ex (NVar "x") (mkLoc (mkSpan 1 2) true)).
Proof. vm_compute. reflexivity. Qed.

(* the lowering is monotone in the fuel: a value obtained with some fuel is obtained with any larger fuel *)
Theorem C16_lower_fuel_monotone : forall (toks : nat -> option tokinfo) (root : P.tree) (f f' : nat) (p : program),
  f <= f' -> lower_with f toks root = Ok p -> lower_with f' toks root = Ok p.
Proof. exact Mono.lower_with_mono. Qed.

(* ---------------------------------------------------------------------------------------------- *)
(* C16_trivia_invisible.  Parser and lowering are functions of the syntax tokens' kinds, line-break  *)
(* bits, adjacency bits and texts: two token lists that agree on these (whatever whitespace and      *)
(* comments produced them, wherever the tokens start) give the same AST up to Locations; and the    *)
(* composition always answers.  (That `front_nospan` is the real AST with its spans erased is        *)
(* checked by checks/lower_part.py; that the real parser sees exactly these bits by checks/C04.py.)  *)
(* ---------------------------------------------------------------------------------------------- *)
Theorem C16_trivia_invisible : forall l1 l2 : list ptok,
  map strip l1 = map strip l2 -> front_nospan l1 = front_nospan l2.
Proof. exact front_nospan_view. Qed.

Theorem C16_front_total : forall l : list ptok, exists p : program, front l = Ok p.
Proof. exact front_total. Qed.

Example C16_strip_unfolds : forall t, strip t = mkPt (p_tok t) (p_text t) 0 0.
Proof. intros. reflexivity. Qed.

(* ---------------------------------------------------------------------------------------------- *)
(* C16_newline_inside_brackets_refuted.  A line break INSIDE parentheses is not invisible: directly   *)
(* before a postfix `(` (likewise `[` and `.`) it ends the expression (parse_postfix_expr breaks at  *)
(* has_trailing_linebreak whatever the bracket depth).  `(g(1.0))` parses without errors,            *)
(* `(g <newline> (1.0))` with errors, and the ASTs differ.  The two token lists differ in ONE bit.   *)
(* ---------------------------------------------------------------------------------------------- *)
Definition nl_witness (lb : bool) : list ptok :=
  let t k lbb s := mkPt (P.mkPTok k lbb false false) s 0 0 in
  [t KParenBegin false "("; t KIdent false "g"; t KParenBegin lb "("; t KFloat false "1.0"; t KParenEnd false ")";
   t KParenEnd false ")"].

Theorem C16_newline_inside_brackets_refuted :
  (exists r m, P.parse (map p_tok (nl_witness false)) = P.POk r [] m) /\
  (exists r e es m, P.parse (map p_tok (nl_witness true)) = P.POk r (e :: es) m) /\
  front_nospan (nl_witness false) <> front_nospan (nl_witness true).
Proof.
  split; [vm_compute; repeat eexists|]. split; [vm_compute; repeat eexists|]. vm_compute. discriminate.
Qed.
