(* Props/C02_ext.v — the closure / higher-order part of C02: property theorems only, each closed by `exact <lemma>`
   (definitions in Lmmx/{Syntax,Ref}.v, proofs in Lmmx/{Mono,Conserv,ConservProg,Theorems,Examples}.v).

   The REST of the core language of C02 (closures that read and assign captured variables, higher-order functions,
   function names as values, pipes, default arguments, tuple / record construction and destructuring, assignment) gets a
   reference semantics `xrun fuel p rows` (Lmmx/Ref.v; the rules V I D S O N are stated in its header): call by value over
   a store of variable cells captured by reference, a store of closure instances each owning a state tree, and Lmmm's
   per-call-site state tree for direct calls.  The real compiler is compared with the extracted `xrun` on both backends by
   checks/lmmx_part.py.  The theorems say that this specification
     * EXTENDS the proved first-order reference semantics (so C02_preservation's right-hand side is the same semantics),
     * is a function of the program alone once it is defined (more fuel never changes a result),
     * gives every textual site its own state (frame property of the state tree),
     * satisfies the sugar equations for pipes and named-argument calls,
     * takes the first matching arm of a `match` and leaves the other arms' state alone,
     * makes `self` — of any first-order data type — the previous return value of the site, the zero value first. *)
From Coq Require Import List ZArith NArith Bool.
From Mimium Require Import StateTree.Model Lmmm.Syntax Lmmm.Ref Lmmm.Compile Lmmm.Machine Lmmm.Wf Lmmm.Spec Lmmm.Examples.
From Mimium Require Import Lmmx.Syntax Lmmx.Ref Lmmx.Mono Lmmx.Conserv Lmmx.ConservProg Lmmx.Theorems Lmmx.World Lmmx.MatchSelf Lmmx.Examples.
Import ListNotations.

(* Conservativity: for every well-formed first-order program p (Lmmm.Syntax.program) on which the proved reference
   semantics is defined, the extended reference semantics run on the embedding of p (variables and function names moved
   into one name space, ECall |-> application of the function name, let |-> let with a variable pattern), with any
   sufficiently large fuel, yields the SAME output stream and the SAME final state tree. *)
Theorem C02_ext_conservative : forall p rows outs s',
  wf_prog p = true -> ref_run p 0%Z rows st0 = Some (outs, s') ->
  exists n0, forall n, n0 <= n -> exists w, xrun_full n (embed_prog p) rows = Ok (outs, s', w).
Proof. exact conservative_wf. Qed.

(* the hypothesis actually used: pairwise distinct function names *)
Theorem C02_ext_conservative_nodup : forall p, NoDup (map f_name (p_funs p)) ->
  forall rows outs s', ref_run p 0%Z rows st0 = Some (outs, s') ->
  exists n0, forall n, n0 <= n -> xrun n (embed_prog p) rows = Ok outs.
Proof. exact conservative. Qed.

(* with C02_preservation: the compiled cursor machine of the first-order fragment produces the stream defined by the
   EXTENDED reference semantics *)
Theorem C02_ext_preservation_first_order : forall p cp rows,
  compile p = Some cp -> wf_prog p = true -> rows_ok p rows ->
  exists outs n0,
    (forall n, n0 <= n -> xrun n (embed_prog p) rows = Ok outs) /\
    outs_of (mach_run VmD p cp 0%Z rows m0) = map Some outs.
Proof. exact preservation_ext. Qed.

(* Fuel: a defined result is never changed by more fuel, for expressions and for whole programs; hence two defined runs
   agree whatever their fuel (the semantics is a partial FUNCTION of program and inputs) *)
Theorem C02_ext_fuel_monotone : forall n m p rows outs, n <= m ->
  xrun n p rows = Ok outs -> xrun m p rows = Ok outs.
Proof. exact xrun_mono. Qed.

Theorem C02_ext_fuel_monotone_expr : forall ft now n m, n <= m ->
  forall sv r e s w x, xeval n ft now sv r e s w = Ok x -> xeval m ft now sv r e s w = Ok x.
Proof. exact xeval_mono. Qed.

Theorem C02_ext_deterministic : forall n m p rows o1 o2,
  xrun n p rows = Ok o1 -> xrun m p rows = Ok o2 -> o1 = o2.
Proof. exact xrun_deterministic. Qed.

(* "Every textual call site owns its own state": evaluating the construct at position p of the whole state tree S
   (a) depends on S only through the subtree at p, and (b) leaves the subtree at every position q that is apart from p
   (neither below nor above it) untouched. *)
Theorem C02_ext_site_state_local : forall n ft now sv r e S p w v S' w',
  xeval_at n ft now sv r e S p w = Ok (v, S', w') ->
  (forall S2, sub S2 p = sub S p ->
     exists S2', xeval_at n ft now sv r e S2 p w = Ok (v, S2', w') /\ sub S2' p = sub S' p) /\
  (forall q, apart p q -> sub S' q = sub S q).
Proof. exact site_state_local. Qed.

(* the arm of an `if` that is not taken keeps its state *)
Theorem C02_ext_if_untaken_arm_keeps_state : forall n ft now sv r c t e s w v s' w',
  xeval (S n) ft now sv r (XIf c t e) s w = Ok (v, s', w') ->
  kid s' 1 = kid s 1 \/ kid s' 2 = kid s 2.
Proof. exact if_untaken_arm_keeps_state. Qed.

(* a |> f  is  f(a)  (value, state and world, every fuel) *)
Theorem C02_ext_pipe_sugar : forall n ft now sv r a f s w,
  xeval n ft now sv r (XPipe a f) s w = xeval n ft now sv r (XApp f [a]) s w.
Proof. exact pipe_sugar. Qed.

(* a named-argument call that names every parameter of f, in order, is the positional call f(args) *)
Theorem C02_ext_named_call_all_given : forall n ft now sv r f k fe args s w,
  xlookup f r = Some (BFun k) -> nth_error ft k = Some fe ->
  NoDup (map fst (fe_params fe)) -> length args = length (fe_params fe) ->
  xeval n ft now sv r (XCallNamed f (combine (map fst (fe_params fe)) args)) s w =
  xeval n ft now sv r (XApp (XVar f) args) s w.
Proof. exact named_call_all_given. Qed.

(* Closure facts.  A lambda expression creates a NEW instance that captures the environment itself — the variable cells, by
   reference — starts from zero state, and touches no cell. *)
Theorem C02_ext_lambda_captures_by_reference : forall n ft now sv r ps body s w,
  xeval (S n) ft now sv r (XLam ps body) s w =
  Ok (VClo (length (w_clos w)), st0, mkW (w_vars w) (w_clos w ++ [mkC ps body r st0])).
Proof. exact lam_creates_instance. Qed.

(* Instances are stable: whatever is evaluated, no variable cell disappears, and every existing instance keeps its id, its
   code and its captured environment (only its state may change). *)
Theorem C02_ext_instances_stable : forall n ft now sv r e s w v s' w',
  xeval n ft now sv r e s w = Ok (v, s', w') ->
  length (w_vars w) <= length (w_vars w') /\
  forall id c, nth_error (w_clos w) id = Some c ->
    exists c', nth_error (w_clos w') id = Some c' /\
               ci_params c' = ci_params c /\ ci_body c' = ci_body c /\ ci_env c' = ci_env c.
Proof. exact xeval_wext. Qed.

(* Call by value: parameters are FRESH cells appended to the store; no existing cell or instance changes, so a callee that
   assigns its parameter is invisible to the caller. *)
Theorem C02_ext_parameters_are_fresh_cells : forall ps vs r w r' w',
  bind_params_x ps vs r w = Ok (r', w') ->
  w_clos w' = w_clos w /\ exists l, w_vars w' = w_vars w ++ l.
Proof. exact bind_params_x_fresh. Qed.

(* ---- sum types, match, multi-word self (rules M and S of Lmmx/Ref.v) ----
   MATCH: `match e { m1 => e1, .. }` evaluates e and takes the FIRST arm whose pattern matches (no earlier arm matches); the
   payload binders of that arm are bound, its body runs on the arm's own state subtree (child 1 + i of the match node) and
   leaves its new state there; every arm that is not taken keeps its state subtree (like the arms of `if`). *)
Theorem C02_ext_match_first_arm : forall n ft now sv r sc arms s w v s' w',
  xeval (S n) ft now sv r (XMatch sc arms) s w = Ok (v, s', w') ->
  exists vs k0 w1 i m body r' w2 kb,
    xeval n ft now sv r sc (kid s 0) w = Ok (vs, k0, w1) /\
    nth_error arms i = Some (m, body) /\ mtest m vs = Ok true /\
    (forall j mj bj, j < i -> nth_error arms j = Some (mj, bj) -> mtest mj vs = Ok false) /\
    mbind m vs r w1 = Ok (r', w2) /\
    xeval n ft now sv r' body (kid s (S i)) w2 = Ok (v, kb, w') /\
    kid s' 0 = k0 /\ kid s' (S i) = kb /\
    (forall j, j < length arms -> j <> i -> kid s' (S j) = kid s (S j)).
Proof. exact match_first_arm. Qed.

(* SELF (a feedback value of any first-order data type: numbers, tuples, records, sum values — several machine words).
   "`self` is the function's previous return value at that site": if a call at a site (rule D: the state node `inst` of the
   textual call site) returned v1, then the NEXT call at that site runs the function body with the feedback cell holding
   (the encoding of) v1, and `self`, read at the shape of v1, evaluates to v1. *)
Theorem C02_ext_self_is_previous_value : forall n ft now k fe vs1 vs2 inst w v1 inst1 w1 sh,
  nth_error ft k = Some fe ->
  call_fun ft (xeval n ft now) k vs1 inst w = Ok (v1, inst1, w1) ->
  has_shape sh v1 ->
  call_fun ft (xeval n ft now) k vs2 inst1 w1 =
    (do (r, w2) <- bind_params_x (map fst (fe_params fe)) vs2 (fe_env fe) w1;
     do (v, kb, w3) <- xeval n ft now (enc v1) r (fe_body fe) (kid inst1 0) w2;
     Ok (v, self_node v kb, w3)) /\
  (forall m r s w0, xeval (S m) ft now (enc v1) r (XSelfS sh) s w0 = Ok (v1, st0, w0)).
Proof. exact self_is_previous_value. Qed.

(* ... zero value first: at the first call of a site (never-touched state st0) `self` is the all-zero value of the shape: 0,
   tuples / records of zero values, the FIRST constructor of a sum type with a zero payload *)
Theorem C02_ext_self_is_zero_first : forall n ft now k fe vs w sh,
  nth_error ft k = Some fe ->
  call_fun ft (xeval n ft now) k vs st0 w =
    (do (r, w1) <- bind_params_x (map fst (fe_params fe)) vs (fe_env fe) w;
     do (v, kb, w2) <- xeval n ft now st0 r (fe_body fe) st0 w1;
     Ok (v, self_node v kb, w2)) /\
  (forall m r s w0, xeval (S m) ft now st0 r (XSelfS sh) s w0 = Ok (zero_val sh, st0, w0)).
Proof. exact self_is_zero_first. Qed.

(* the same for a closure instance (rule I): a call of instance id runs its body with the feedback cell of the instance's
   state and stores the returned value there *)
Theorem C02_ext_instance_feedback : forall rec id vs w v w' c,
  nth_error (w_clos w) id = Some c ->
  call_inst rec id vs w = Ok (v, w') ->
  exists r w1 kb w2, bind_params_x (ci_params c) vs (ci_env c) w = Ok (r, w1) /\
    rec (self_part (ci_state c)) r (ci_body c) (kid (ci_state c) 0) w1 = Ok (v, kb, w2) /\
    w' = set_clo_state w2 id (self_node v kb).
Proof. exact call_inst_feedback. Qed.

(* the cell after a call is the encoding of the returned value; reading an encoded value back at its shape is the identity;
   the number-valued `self` of the first-order fragment is the shape SNum *)
Theorem C02_ext_feedback_cell_holds_value :
  (forall ft rec k vs inst w v inst' w', call_fun ft rec k vs inst w = Ok (v, inst', w') -> self_part inst' = enc v) /\
  (forall sh v, has_shape sh v -> dec sh (enc v) = v) /\
  (forall sh, dec sh st0 = zero_val sh) /\
  (forall n ft now sv r s w, xeval (S n) ft now sv r XSelf s w = xeval (S n) ft now sv r (XSelfS SNum) s w).
Proof. exact (conj call_fun_feedback (conj dec_enc (conj dec_st0 xself_is_selfs_num))). Qed.

(* concrete closure programs (the corpus cases of the same names run on the real backends) *)
Example C02_ext_ex_counter : xrun 20 ex_counter rows4 = Ok [[1]; [2]; [3]; [4]]%Z.
Proof. exact ex_counter_run. Qed.
Example C02_ext_ex_two_counters : xrun 20 ex_two_counters rows4 = Ok [[101]; [202]; [303]; [404]]%Z.
Proof. exact ex_two_counters_run. Qed.
Example C02_ext_ex_hof_stateful : xrun 20 ex_hof_stateful rows4 = Ok [[303]; [707]; [1111]; [1515]]%Z.
Proof. exact ex_hof_stateful_run. Qed.
Example C02_ext_ex_instance_per_sample : xrun 20 ex_instance_per_sample rows4 = Ok [[1]; [1]; [1]; [1]]%Z.
Proof. exact ex_instance_per_sample_run. Qed.
Example C02_ext_ex_nested_assign : xrun 20 ex_nested_assign [[]] = Ok [[11]]%Z.
Proof. exact ex_nested_assign_run. Qed.
Example C02_ext_ex_shared_after_passing : xrun 20 ex_shared_after_passing [[]] = Ok [[1122]]%Z.
Proof. exact ex_shared_after_passing_run. Qed.
Example C02_ext_ex_defaults_pipe : xrun 20 ex_defaults_pipe [[]] = Ok [[17; 25; 103]]%Z.
Proof. exact ex_defaults_pipe_run. Qed.
Example C02_ext_ex_embedding :
  xrun 30 (embed_prog ex_prog2) [[1]; [2]; [3]; [4]]%Z = Ok [[0; 1]; [1; 5]; [4; 12]; [9; 20]]%Z /\
  option_map fst (ref_run ex_prog2 0 [[1]; [2]; [3]; [4]]%Z st0) = Some [[0; 1]; [1; 5]; [4; 12]; [9; 20]]%Z.
Proof. exact ex_embed_prog2_run. Qed.
Example C02_ext_ex_out_of_fuel : xrun 2 ex_counter rows4 = OutOfFuel.
Proof. exact ex_counter_fuel. Qed.
Example C02_ext_ex_sum_self : xrun 20 ex_sum_self rows4 = Ok [[1]; [2]; [4]; [1000]]%Z.
Proof. exact ex_sum_self_run. Qed.
Example C02_ext_ex_tuple_self : xrun 20 ex_tuple_self rows4 = Ok [[100]; [201]; [303]; [406]]%Z.
Proof. exact ex_tuple_self_run. Qed.
Example C02_ext_ex_match_arm_state :
  xrun 20 ex_match_arm_state [[]; []; []; []; []; []] = Ok [[1]; [200]; [10]; [2]; [200]; [20]]%Z.
Proof. exact ex_match_arm_state_run. Qed.
Example C02_ext_ex_match_wild_first : xrun 20 ex_match_wild_first [[]; []; []] = Ok [[30]; [30]; [30]]%Z.
Proof. exact ex_match_wild_first_run. Qed.
Example C02_ext_ex_no_arm_is_stuck : xrun 20 (mkXProg [] [] [] [XMatch XNow [(MLit 0, XLit 10)]]) [[]; []] = Stuck E_NOMATCH.
Proof. exact ex_no_arm_stuck. Qed.
Example C02_ext_ex_dec_enc :
  Lmmx.Syntax.dec sh_T (Lmmx.Syntax.enc (VCon 0 (VTup [VNum 5; VNum 6]))) = VCon 0 (VTup [VNum 5; VNum 6]) /\
  has_shape sh_T (VCon 0 (VTup [VNum 5; VNum 6])) /\ Lmmx.Syntax.dec sh_T st0 = VCon 0 (VTup [VNum 0; VNum 0]).
Proof. exact ex_dec_enc. Qed.
