(* Props/C09.v — property theorems only (proofs in Staging/). *)
From Coq Require Import List String Bool.
From Mimium Require Import Tables.Combinators Staging.Model Staging.Arity.
Import ListNotations.
Local Open Scope string_scope.

(* every combinator call translate_staging.rs emits (make_apply* call sites, extracted from the source) names a
   combinator that codegen_combinators.rs registers with exactly that number of arguments -- except `code_match`
   as long as it is not registered at all (F13) *)
Theorem C09_arity_agree : forallb site_agrees emitted = true.
Proof. exact arity_agree. Qed.
