(* Props/C09.v — property theorems only; each closed by `exact <lemma>` (proofs in Staging/).

   C09: "For every stage-1 expression, quoting it, passing it through macro-stage computation (splicing,
   let-binding of code, function application, numeric recursion that builds code) and expanding it yields a
   program whose output equals that of the hand-written expansion; in particular quote-then-splice of any
   expression is the identity on its meaning, and `f!(args)` equals splicing `f(args)`.  Numbers computed at
   the macro stage and lifted appear in the generated code with their exact value."

   Vocabulary (Staging/Model.v, Staging/NF.v):
     translate / translate_code   translate_staging.rs, with the desugar counter k threaded
     ev n r e                     the stage-0 machine (fuel n bounds nested closure calls only); on `EBracket q` it is
                                  the reference reading `rebuild n r q`: q itself with every escape replaced by the
                                  code its stage-0 expression evaluates to
     norm0 / norm1                the normal form the encoding imposes on quoted code: parentheses dropped; missing
                                  else / let body / then filled with unit; let annotations dropped; `_`, record and
                                  nested tuple let-patterns flattened (fresh __dtN temporaries); qualified names
                                  mangled; nested quote -> block; lambda return type filled with `unknown`
     nf0 / nf1, tr0 / tr1         "is in that normal form" / "contains only translatable nodes" (no match: F27)
     tr_val / tr_env              values with closure bodies translated; the identity on code values and numbers
   All theorems quantify over ALL expressions, nestings, environments, counters and fuel. *)
From Coq Require Import List String ZArith Bool.
From Coq Require Import Floats.SpecFloat.
From Mimium Require Import Tables.Combinators Staging.Model Staging.Ind Staging.NF Staging.Eval
  Staging.Arity Staging.Main.
Import ListNotations.
Local Open Scope string_scope.

(* T: every combinator call translate_staging.rs emits (make_apply* call sites, extracted from the source) names a
   combinator that codegen_combinators.rs registers with exactly that number of arguments -- except `code_match`
   as long as it is not registered at all (finding F27) *)
Theorem C09_arity_agree : forallb site_agrees emitted = true.
Proof. exact arity_agree. Qed.

(* every registered combinator has its implementation in the model *)
Theorem C09_registered_implemented : forallb implemented registered = true.
Proof. exact registered_implemented. Qed.

(* quote-then-splice: for every translatable quoted expression e (any form, any nesting, any escapes) and every
   environment r of the macro stage, running the translation of e on the stage-0 machine yields exactly the
   reference reading of the normal form of e *)
Theorem C09_quote_splice_id : forall (n k : nat) (e : expr) (r : env) (c : expr),
  tr1 e -> good_env r ->
  rebuild n r (fst (norm1 e k)) = Ok c ->
  ev n (tr_env r) (fst (translate_code e k)) = Ok (VCode c).
Proof. exact quote_splice. Qed.

(* ... on an expression already in normal form: the reference reading of e itself (no normalisation), and the
   desugar counter is left alone *)
Theorem C09_quote_splice_id_nf : forall (n k : nat) (e : expr) (r : env) (c : expr),
  nf1 e -> good_env r ->
  rebuild n r e = Ok c ->
  translate_code e k = (fst (translate_code e k), k) /\
  ev n (tr_env r) (fst (translate_code e k)) = Ok (VCode c).
Proof. exact quote_splice_nf. Qed.

(* ... and when e has no escapes the generated code is e itself: quote-then-splice is the identity *)
Theorem C09_quote_identity : forall (n k : nat) (e : expr) (r : env),
  nf1 e -> escape_free e -> good_env r ->
  ev n (tr_env r) (fst (translate_code e k)) = Ok (VCode e).
Proof. exact quote_identity. Qed.

(* in particular every float literal of quoted code arrives in the generated code with exactly its value *)
Theorem C09_literal_exact : forall (n k : nat) (q : num) (r : env),
  good_env r ->
  ev n (tr_env r) (fst (translate_code (ELit (LFloat q)) k)) = Ok (VCode (ELit (LFloat q))).
Proof. exact (fun n k q r G => quote_identity n k (ELit (LFloat q)) r I I G). Qed.

(* whole staged programs (let-bound code, functions returning code, recursion building code ...): whenever the
   reference semantics of the normalised program yields v, the translated program yields v on the stage-0 machine
   (closures: with translated bodies; code values and numbers: identical) *)
Theorem C09_expand_agrees : forall (n k : nat) (p : expr) (r : env) (v : value),
  tr0 p -> good_env r ->
  ev n r (fst (norm0 p k)) = Ok v ->
  ev n (tr_env r) (fst (translate p k)) = Ok (tr_val v).
Proof. exact expand_agrees. Qed.

(* the normal form is a normal form, and normalising is the identity on normal forms *)
Theorem C09_norm_is_normal : forall (e : expr) (k : nat), tr1 e -> nf1 (fst (norm1 e k)).
Proof. exact (fun e k T => proj2 (Staging.NormNF.norm_nf e) T k). Qed.

Theorem C09_norm_idempotent : forall (e : expr) (k : nat), nf1 e -> norm1 e k = (e, k).
Proof. exact (fun e k N => proj2 (norm_id e) N k). Qed.

(* `f!(args)` is the splice of `f(args)` *)
Theorem C09_macroexpand_is_splice : forall (f : expr) (args : list expr),
  convert_macroexpand (EMacroExpand f args)
  = EEscape (EApply (convert_macroexpand f) (map convert_macroexpand args)).
Proof. exact macroexpand_is_splice. Qed.

(* lift: a number q computed at the macro stage (by any stage-0 expression s) appears as the literal q *)
Theorem C09_lift_exact : forall (n : nat) (r : env) (s : expr) (q : num) (name : string),
  In name ["lift_f"; "lift"; "code_lift_f"; "code_lit_f"] ->
  lookup r name = None ->
  ev n r s = Ok (VNum q) ->
  ev n r (EApply (EVar name) [s]) = Ok (VCode (ELit (LFloat q))).
Proof. exact lift_exact. Qed.

(* REFUTED part (finding F27): while `code_match` is not registered, no quoted `match` can be expanded *)
Theorem C09_match_unexpandable :
  registered_fn registered "code_match" = None ->
  forall (n : nat) (r : env) (s : expr) (arms : list (mpat * expr)) (k : nat),
    lookup r "code_match" = None ->
    ev n r (fst (translate_code (EMatch s arms) k)) = Err (Unbound "code_match") /\
    scope0 [] (fst (translate_code (EMatch s arms) k)) = Some (Unbound "code_match").
Proof. exact match_unexpandable. Qed.

(* REFUTED part (finding F28): the record pattern of a quoted `let {a = x, b = y} = r` is replaced by its first field
   name: the generated code is `let a = r` and x, y are no longer bound *)
Theorem C09_record_pattern_refuted :
  let p := PRecord [("a", PSingle "x"); ("b", PSingle "y")] in
  let e := ELet p ty_unknown (EVar "r") (Some (EVar "x")) in
  pat_binders p = ["x"; "y"] /\
  expand 1 0 (EBracket e) = Ok (ELet (PSingle "a") ty_unknown (EVar "r") (Some (EVar "x"))).
Proof. exact record_pattern_lost. Qed.

(* the hypotheses are satisfiable: a quotation in normal form without escapes, and one with an escape *)
Example C09_example_identity :
  let e := ELet (PSingle "t") ty_unknown (EApply (EVar "add") [EVar "x"; ELit (LFloat float_one)])
             (Some (EIf (EVar "t") (ELambda [("p", ty_numeric, None)] (Some ty_unknown) (EVar "p")) (Some (ETuple [])))) in
  nf1 e /\ escape_free e /\ expand 1 0 (EBracket e) = Ok e.
Proof. cbn [nf1 nf_pat escape_free AllP OptP is_some snd]. repeat split; try reflexivity. Qed.

Example C09_example_splice :
  let p := ELet (PSingle "c") ty_unknown (EBracket (EVar "x"))
             (Some (EBracket (EApply (EVar "f") [EEscape (EVar "c"); EEscape (EVar "c")]))) in
  tr0 p /\ expand 1 0 p = Ok (EApply (EVar "f") [EVar "x"; EVar "x"]).
Proof. split; [cbn; repeat split; reflexivity | vm_compute; reflexivity]. Qed.
