(* Props/C19.v — concurrent compilations do not interfere: property theorems only, each closed by `exact <lemma>`.

   SCOPE (narrow, see DESIGN.md C19): K threads share the SessionGlobals of interner.rs.  Every access goes through
   `with_session_globals`, i.e. holds the one Mutex for its whole duration: the atomic steps of Interner/Model.v `step`
   (trusted: std::sync::Mutex, the Rust memory model).  A schedule is the order in which the threads win the mutex.  The
   theorem covers threads that are symbol programs (symbols used through intern/equality/resolve, arena keys through
   store/load).  Everything else a compilation does is thread-local by construction of the compiler (InferContext, Context,
   generators are per compilation) -- that is NOT proved here; checks/C19.py runs K real compile+run jobs concurrently and
   compares each with its solo result. *)
From Coq Require Import List String Bool Arith.
From Mimium Require Import Interner.Model Interner.Lemmas Interner.Conc Interner.EnvVar.
Import ListNotations.

(* For EVERY history of the process, EVERY set of threads and EVERY schedule: the outputs thread i has produced, the
   code it still has to run and its local strings are exactly those of thread i running ALONE for as many steps as the
   schedule gave it. *)
Theorem C19_interleaving_invisible :
  forall (h : list hop) (ths : list prog) (sched : list nat) (i : nat) (p : prog) (st : tstate),
    forallb symbolic ths = true ->
    nth_error ths i = Some p ->
    nth_error (snd (run_sched (replay h) (map init ths) sched)) i = Some st ->
    let solo := snd (run_solo (replay h) (init p) (count i sched)) in
    outs st = outs solo /\ code st = code solo /\ regs st = regs solo.
Proof. exact interleaving_invisible. Qed.

(* A thread that got enough steps to finish has printed exactly what it prints alone in a fresh process. *)
Theorem C19_interleaving_complete :
  forall (h : list hop) (ths : list prog) (sched : list nat) (i : nat) (p : prog) (st : tstate),
    forallb symbolic ths = true ->
    nth_error ths i = Some p ->
    nth_error (snd (run_sched (replay h) (map init ths) sched)) i = Some st ->
    size p <= count i sched ->
    code st = Done /\ outs st = observe [] p.
Proof. exact interleaving_complete. Qed.

(* The atomicity of get_or_intern is necessary: with the lookup and the insertion in two critical sections, two threads
   interning "x" make thread B see its own two symbols for "x" as different (alone it sees them equal). *)
Theorem C19_split_intern_refuted : split_race_B_sees = false /\ solo_B_sees = true.
Proof. exact split_intern_contaminates. Qed.

(* The process environment variable MIMIUM_CURRENT_MACRO_FILE (mirgen.rs MacroFileEnvGuard; read by mimium-symphonia's
   Sampler macro) is NOT interleaving-safe: alone, the macro of a compilation sees the compilation's own file ... *)
Theorem C19_envvar_solo : forall path : string,
    erun None [einit path] [0; 0; 0; 0] = (None, [mkE path None [Some path] []]).
Proof. exact env_solo_ok. Qed.

(* ... but there is a schedule of two compilations in which A's macro reads B's file, B's macro reads no file at all, and
   the variable stays set to A's file after both have finished (finding F11, scoped to Sampler macros). *)
Theorem C19_envvar_race :
  exists sched : list nat,
    let final := erun None [einit "a/a.mmm"%string; einit "b/b.mmm"%string] sched in
    seen_of final 0 = [Some "b/b.mmm"%string] /\ seen_of final 1 = [None] /\ fst final = Some "a/a.mmm"%string
    /\ (forall i t, nth_error (snd final) i = Some t -> e_code t = []).
Proof. exact env_race_exists. Qed.

Example C19_example_two_threads :
  let ths := [Intern (Lit "x") (Resolve 0 (Emit (Reg 0) Done)); Intern (Lit "y") (Intern (Lit "x") (EmitEq 0 1 Done))]%string in
  map outs (snd (run_sched empty_glob (map init ths) [1; 0; 1; 0; 1; 0])) = [[OStr "x"]; [OBool false]]%string.
Proof. vm_compute. reflexivity. Qed.
