(* Props/C05_mir.v — C05 ("compile-time state layout matches run-time state accesses") for WHOLE programs of the real
   compiler, by translation validation of the MIR (also serves C03 / C01 / C18: closures, match, tuples, records, arrays,
   higher-order calls, the shipped sources — everything the first-order Lmmm fragment of Props/C05.v leaves out).

   Model: Mirst/Model.v.  The real compiler's Mir is dumped one line per instruction (harness/lang/src/bin/mir_dump.rs)
   as an `rprog`; `erase` keeps the events that touch the state storage:
       EPush n / EPop n (PushStateOffset / PopStateOffset), EGet w (GetState), ERetFeed w (ReturnFeed), EDelay len, EMem,
       ECall idx (Call of global function idx: runs on the same storage at the current cursor),
       EOther (CallCls / CallIndirect / external function: the closure's own storage), EBranch arms merge (JmpIf, Switch),
       EReturn, EBad (what the code generators cannot lower).
   `run fuel p f evs cur oracle` interprets the events the way bytecodegen.rs lays the blocks out and vm.rs executes them;
   every branch choice comes from the oracle, so "for all oracles" = "on every execution path".  Its outcome is Fault
   (cursor below zero, missing block or function, EBad, a callee that does not return), Stop tr (fuel exhausted after the
   accesses tr) or Fin cur tr _ ret.  `run_fn fuel p f entry oracle` is one call of f entered with the cursor at `entry`.
   `check_prog` is the static checker; it looks at every function, every block, every arm once and executes nothing.

   Vocabulary (Mirst/Spec.v): `cells_at entry sk` is the flat layout skeleton sk publishes from word `entry` on (offset,
   kind, size of every Feed / Mem / Delay cell in depth-first order; a Delay of length n has DELAY_ADDITIONAL_OFFSET + n
   words, Tables/StateTreeConsts.v regenerated from tree.rs); `hits a c`: access a starts at cell c's first word, moves
   exactly its size and is of a kind the cell admits; `access_ok entry sk a := exists c in cells_at entry sk, hits a c`. *)
From Coq Require Import List NArith Bool.
From Mimium Require Import StateTree.Model Mirst.Model Mirst.Spec Mirst.Cells Mirst.Sound Mirst.Sep Mirst.SepSound Mirst.Examples.
Import ListNotations.
Local Open Scope N_scope.

(* SOUNDNESS.  If the checker accepts a program then for EVERY function of it, every entry cursor, every oracle (= every
   path through every arm, of the function and of everything it calls) and every amount of fuel:
     the run does not fault (no cursor underflow, no missing block, nothing un-lowerable on any path);
     every state access — also those of a run cut short by the fuel — touches exactly one cell of the function's
     published skeleton laid out from the entry cursor: right offset, right kind, right size;
     the call returns, and it returns with the cursor back at its entry value. *)
Theorem C05_mir_sound : forall p, check_prog p = true ->
    forall idx f, nth_error p idx = Some f ->
    forall fuel entry oracle,
      match run_fn fuel p f entry oracle with
      | Fault => False
      | Stop tr => Forall (access_ok entry (f_skel f)) tr
      | Fin cur tr _ ret => ret = true /\ cur = entry /\ Forall (access_ok entry (f_skel f)) tr
      end.
Proof. exact check_sound. Qed.

(* ... hence everything stays inside a storage sized from the skeleton (vm.rs: global storage and every closure's
   storage are resized to state_skeleton.total_size()) *)
Theorem C05_mir_in_bounds : forall p, check_prog p = true ->
    forall idx f, nth_error p idx = Some f ->
    forall fuel entry oracle a,
      match run_fn fuel p f entry oracle with
      | Fault => False
      | Stop tr | Fin _ tr _ _ => In a tr -> entry <= a_pos a /\ a_pos a + a_size a <= entry + size (f_skel f)
      end.
Proof. exact check_sound_bounds. Qed.

Theorem C05_mir_cell_in_bounds : forall entry sk a,
    access_ok entry sk a -> entry <= a_pos a /\ a_pos a + a_size a <= entry + size sk.
Proof. exact access_ok_bounds. Qed.

(* the same for the dump itself *)
Theorem C05_mir_sound_dump : forall rp, check_rprog rp = true ->
    forall idx f, nth_error (erase rp) idx = Some f ->
    forall fuel entry oracle,
      match run_fn fuel (erase rp) f entry oracle with
      | Fault => False
      | Stop tr => Forall (access_ok entry (f_skel f)) tr
      | Fin cur tr _ ret => ret = true /\ cur = entry /\ Forall (access_ok entry (f_skel f)) tr
      end.
Proof. intros rp H. exact (check_sound (erase rp) H). Qed.

(* EVERY CALL SITE OWNS ITS CELLS.  `check_prog_strict` is `check_prog` without its one concession (a call may run on
   cells its caller publishes without owning a child: what a recursive call of a stateful function does).  If it accepts,
   then during one call — on every path, through every callee, at every depth — no two accesses touch a common word, except
   the one GetState and the one SetState of a Feed cell:
     disjoint a b   := a ends before b starts or b ends before a starts;
     feed_pair a b  := same first word, same size, one is the GetState and the other the SetState;
     separated tr   := every two accesses of tr are disjoint or a feed_pair. *)
Theorem C05_mir_strict_separated : forall p, check_prog_strict p = true ->
    forall idx f, nth_error p idx = Some f ->
    forall fuel entry oracle,
      match run_fn fuel p f entry oracle with
      | Fault => False
      | Stop tr | Fin _ tr _ _ => separated tr
      end.
Proof. exact strict_separated. Qed.

(* ... and everything C05_mir_sound states holds for it as well *)
Theorem C05_mir_strict_sound : forall p, check_prog_strict p = true ->
    forall idx f fuel entry oracle, nth_error p idx = Some f ->
      match run_fn fuel p f entry oracle with
      | Fault => False
      | Stop tr => Forall (access_ok entry (f_skel f)) tr
      | Fin cur tr _ ret => ret = true /\ cur = entry /\ Forall (access_ok entry (f_skel f)) tr
      end.
Proof. exact strict_fn_lenient. Qed.

(* the concession is needed and is exactly about sharing: the real compiler's MIR of
     fn cnt(x){ self + x }  fn r(n){ if (n > 0.0) { r(n - 1.0) + cnt(1.0) } else { 0.0 } }  fn dsp(){ r(2.0) }
   satisfies C05 (accepted) but every recursion depth runs cnt on the same Feed cell (not strict; the run shows it) *)
Theorem C05_mir_recursion_shares_cells :
  check_rprog prog_rec = true /\ check_prog_strict (erase prog_rec) = false /\
  run_fn 9 (erase prog_rec) (dsp_of prog_rec) 0 [0%nat; 0%nat; 1%nat] =
  Fin 0 [ {| a_kind := KGet; a_pos := 0; a_size := 1 |}; {| a_kind := KSet; a_pos := 0; a_size := 1 |};
          {| a_kind := KGet; a_pos := 0; a_size := 1 |}; {| a_kind := KSet; a_pos := 0; a_size := 1 |} ] [] true.
Proof. exact (conj prog_rec_accepted (conj prog_rec_not_strict prog_rec_shares)). Qed.

Example C05_mir_strict_accepts_if : check_prog_strict (erase prog_if) = true.
Proof. exact prog_if_strict. Qed.

Example C05_mir_strict_accepts_match : check_prog_strict (erase prog_match) = true.
Proof. exact prog_match_strict. Qed.

(* NON-VACUITY: dumps of the real compiler for a program with an `if` whose arms hold nested stateful calls, mem and
   delay, and for a `match` with a stateful arm, are accepted; the two paths of the `if` really touch different cells *)
Example C05_mir_accepts_if : check_rprog prog_if = true.
Proof. exact prog_if_accepted. Qed.

Example C05_mir_accepts_match : check_rprog prog_match = true.
Proof. exact prog_match_accepted. Qed.

Example C05_mir_if_then_path :
  run_fn 5 (erase prog_if) (dsp_of prog_if) 100 [0%nat] =
  Fin 100 [ {| a_kind := KGet; a_pos := 100; a_size := 1 |}; {| a_kind := KSet; a_pos := 100; a_size := 1 |};
            {| a_kind := KMem; a_pos := 101; a_size := 1 |}; {| a_kind := KDelay; a_pos := 102; a_size := 6 |};
            {| a_kind := KGet; a_pos := 108; a_size := 1 |}; {| a_kind := KSet; a_pos := 108; a_size := 1 |} ] [] true.
Proof. exact prog_if_then_path. Qed.

Example C05_mir_if_else_path :
  run_fn 5 (erase prog_if) (dsp_of prog_if) 100 [1%nat] =
  Fin 100 [ {| a_kind := KGet; a_pos := 100; a_size := 1 |}; {| a_kind := KSet; a_pos := 100; a_size := 1 |};
            {| a_kind := KGet; a_pos := 109; a_size := 1 |}; {| a_kind := KSet; a_pos := 109; a_size := 1 |} ] [] true.
Proof. exact prog_if_else_path. Qed.

(* THE CHECKER REJECTS WHAT WAS BROKEN: the MIR the compiler produced for the same two sources before the fixes f1b50e4
   (F2, `if`) and 2eb1a04 (F27, `match`) is rejected — and rightly: the interpreter faults on it (the cursor runs below
   zero; the VM panicked with `attempt to subtract with overflow` or corrupted its heap).  For the old `match` lowering
   only the default arm faults: a sampled run through the first arm sees nothing, the checker sees every arm. *)
Theorem C05_mir_old_if_refuted :
  check_rprog prog_if_old = false /\
  run_fn 5 (erase prog_if_old) (dsp_of prog_if_old) 0 [0%nat] = Fault /\
  run_fn 5 (erase prog_if_old) (dsp_of prog_if_old) 0 [1%nat] = Fault.
Proof. exact (conj prog_if_old_rejected prog_if_old_faults). Qed.

Theorem C05_mir_old_match_refuted :
  check_rprog prog_match_old = false /\
  run_fn 5 (erase prog_match_old) (fe_of prog_match_old) 0 [1%nat] = Fault /\
  exists tr, run_fn 5 (erase prog_match_old) (fe_of prog_match_old) 0 [0%nat] = Fin 0 tr [] true.
Proof. exact (conj prog_match_old_rejected (conj prog_match_old_faults prog_match_old_first_arm_fine)). Qed.

(* A GENUINE DEFECT OF THE CURRENT COMPILER found by the checker (finding F64, reproduced on the real VM by the check):
     fn f(x){ self }   fn dsp(){ let t = f((1.0, 2.0))  1.0 }
   the instance of f at (number, number) publishes a ONE-word Feed cell but reads and writes TWO words: the checker rejects
   the real MIR, and the interpreter shows the access leaving dsp's one-word storage (vm.rs: slice::from_raw_parts_mut past
   the end of the Vec).  A sampled run sees neither a panic nor a cursor that is not home. *)
Theorem C05_mir_generic_self_refuted :
  check_rprog prog_generic_self = false /\
  size (f_skel (dsp2_of prog_generic_self)) = 1 /\
  run_fn 5 (erase prog_generic_self) (dsp2_of prog_generic_self) 0 [] =
  Fin 0 [ {| a_kind := KGet; a_pos := 0; a_size := 2 |}; {| a_kind := KSet; a_pos := 0; a_size := 2 |} ] [] true.
Proof. exact (conj prog_generic_self_rejected prog_generic_self_out_of_bounds). Qed.
