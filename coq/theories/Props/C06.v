(* Props/C06.v — property theorems only; each closed by `exact <lemma>` (proofs in Lmmm/Swap.v).

   C06 (hot swap of an unchanged program is the identity): when the program that is swapped in has the
   same state skeleton, the migration plan is None (the state words are cloned into a fresh machine with
   cursor 0 — `swap_same`), and the output stream continues exactly as if no swap had happened: running
   n samples, swapping, running m more equals running n+m samples uninterrupted (`now` keeps counting),
   for any number of consecutive swaps, on both cursor disciplines.
   hot_swap, final_state, swap_run are the model definitions of Lmmm/HotSwap.v; swap_same, run_segments,
   init_state live in Lmmm/Spec.v. *)
From Coq Require Import List ZArith NArith Bool.
From Mimium Require Import StateTree.Model Lmmm.Syntax Lmmm.Ref Lmmm.Compile Lmmm.Machine Lmmm.Wf
  Lmmm.HotSwap Lmmm.Spec Lmmm.Swap Lmmm.Examples.
Import ListNotations.

(* hot-swapping the same program: plan = None => state words are cloned *)
Theorem C06_plan_none : forall cp, plan (published_skeleton cp) (published_skeleton cp) = None.
Proof. exact plan_none. Qed.

(* hence HotSwap.hot_swap onto a program with the same skeleton clones the words (cursor 0, empty trace) *)
Theorem C06_swap_same_clones : forall cp m, hot_swap cp cp m = Some (mkM (m_words m) 0%N []).
Proof. exact hot_swap_same. Qed.

(* running n samples, swapping, running m more = running n+m uninterrupted (now continues) *)
Theorem C06_swap_identity : forall p cp rows1 rows2 m1,
  compile p = Some cp -> wf_prog p = true -> rows_ok p rows1 -> rows_ok p rows2 ->
  final_state VmD p cp 0%Z rows1 m0 = Some m1 ->
  hot_swap cp cp m1 = Some (mkM (m_words m1) 0%N []) /\
  outs_of (mach_run VmD p cp 0%Z (rows1 ++ rows2) m0)
  = outs_of (mach_run VmD p cp 0%Z rows1 m0) ++
    outs_of (mach_run VmD p cp (Z.of_nat (length rows1)) rows2 (mkM (m_words m1) 0%N [])).
Proof. exact swap_identity. Qed.

(* the same with HotSwap.swap_run (run rows1, hot-swap, run rows2), for the complete observation *)
Theorem C06_swap_run_identity : forall p cp rows1 rows2,
  compile p = Some cp -> wf_prog p = true -> rows_ok p rows1 ->
  exists r, swap_run VmD p cp p cp rows1 rows2 = Some r /\
    mach_run VmD p cp 0%Z (rows1 ++ rows2) m0 = mach_run VmD p cp 0%Z rows1 m0 ++ r.
Proof. exact swap_run_identity. Qed.

(* the same for the complete observation (outputs, state words, cursor, access trace), for both
   disciplines and any start time *)
Theorem C06_swap_identity_full : forall d p cp t0 rows1 rows2 m1,
  compile p = Some cp -> wf_prog p = true -> rows_ok p rows1 ->
  final_state d p cp t0 rows1 (init_state d cp) = Some m1 ->
  mach_run d p cp t0 (rows1 ++ rows2) (init_state d cp)
  = mach_run d p cp t0 rows1 (init_state d cp) ++
    mach_run d p cp (t0 + Z.of_nat (length rows1))%Z rows2 (swap_same m1).
Proof. exact swap_identity_full. Qed.

(* k consecutive swaps (run_segments hot-swaps the unchanged program between the segments): never faults
   and produces the outputs of the uninterrupted run over the concatenated input rows *)
Theorem C06_swaps_identity : forall d p cp (segs : list (list (list Z))),
  compile p = Some cp -> wf_prog p = true -> Forall (rows_ok p) segs ->
  run_segments d p cp 0%Z segs (init_state d cp)
  = Some (outs_of (mach_run d p cp 0%Z (concat segs) (init_state d cp))).
Proof. exact swaps_identity. Qed.

(* satisfiability / a concrete instance: 4 samples as 2 + 1 + 1 with two swaps *)
Example C06_ex_wf : wf_prog ex_prog = true.
Proof. exact ex_prog_wf. Qed.
Example C06_ex_compiles : compile ex_prog = Some (compiled ex_prog).
Proof. exact ex_prog_compiles. Qed.
Example C06_ex_final_state :
  option_map m_words (final_state VmD ex_prog (compiled ex_prog) 0%Z [[]; []] m0)
  = Some [2; 2; 2; 2; 1; 2; 0]%Z.
Proof. exact ex_prog_final_state. Qed.
Example C06_ex_segments :
  run_segments VmD ex_prog (compiled ex_prog) 0%Z [[[]; []]; [[]]; [[]]] (init_state VmD (compiled ex_prog))
  = Some [Some [0; 48000]; Some [2; 48000]; Some [5; 48000]; Some [8; 48000]]%Z.
Proof. exact ex_prog_segments. Qed.
