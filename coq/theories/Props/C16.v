(* Props/C16.v — property theorems only; each closed by `exact <lemma>`
   (proofs in Lmmm/{RenameRef,RenameWf,RenameMach}.v; definitions in Lmmm/Rename.v).

   C16 (alpha-invariance of meaning): consistently renaming the identifiers of a program — variables
   (parameters, let binders, dsp inputs) by rv and function names by rf, both injective — changes neither
   the meaning given by the reference semantics (same output stream AND same final state tree) nor what
   the compiled program does on the cursor machine (the renamed program is accepted iff the original is,
   compiles to the same published state skeleton, and produces the same outputs).
   Injectivity is only needed on the identifiers that occur in the program (`inj_on (prog_vars p) rv`,
   `inj_on (prog_fnames p) rf`); a non-injective renaming can change the meaning (C16_ex_non_injective). *)
From Coq Require Import List ZArith NArith Bool.
From Mimium Require Import StateTree.Model Lmmm.Syntax Lmmm.Ref Lmmm.Compile Lmmm.Machine Lmmm.Wf
  Lmmm.Spec Lmmm.Examples Lmmm.Rename Lmmm.RenameRef Lmmm.RenameWf Lmmm.RenameMach Lmmm.RenameExamples.
Import ListNotations.

(* specification level: outputs and state tree, every program (wf or not), every run length *)
Theorem C16_alpha_ref : forall rv rf p rows, injective rv -> injective rf ->
  ref_run (rename_prog rv rf p) 0%Z rows st0 = ref_run p 0%Z rows st0.
Proof. exact alpha_ref. Qed.

(* the renamed program is in the accepted fragment iff the original is *)
Theorem C16_alpha_wf : forall rv rf, injective rv -> injective rf ->
  forall p, wf_prog (rename_prog rv rf p) = wf_prog p.
Proof. exact wf_prog_rename. Qed.

(* machine level *)
Theorem C16_alpha_machine : forall rv rf p cp rows, injective rv -> injective rf ->
  wf_prog p = true -> compile p = Some cp -> rows_ok p rows ->
  exists cp', compile (rename_prog rv rf p) = Some cp' /\
    published_skeleton cp' = published_skeleton cp /\
    outs_of (mach_run VmD (rename_prog rv rf p) cp' 0%Z rows m0) = outs_of (mach_run VmD p cp 0%Z rows m0).
Proof. exact alpha_machine. Qed.

(* injectivity on the identifiers occurring in p suffices *)
Theorem C16_alpha_ref_on : forall rv rf p rows, inj_on (prog_vars p) rv -> inj_on (prog_fnames p) rf ->
  ref_run (rename_prog rv rf p) 0%Z rows st0 = ref_run p 0%Z rows st0.
Proof. exact alpha_ref_on. Qed.

Theorem C16_alpha_machine_on : forall rv rf p cp rows, inj_on (prog_vars p) rv -> inj_on (prog_fnames p) rf ->
  wf_prog p = true -> compile p = Some cp -> rows_ok p rows ->
  exists cp', compile (rename_prog rv rf p) = Some cp' /\
    published_skeleton cp' = published_skeleton cp /\
    outs_of (mach_run VmD (rename_prog rv rf p) cp' 0%Z rows m0) = outs_of (mach_run VmD p cp 0%Z rows m0).
Proof. exact alpha_machine_on. Qed.

(* a concrete renaming of the standard example: x |-> x + 100, f |-> 2 f + 7 *)
Example C16_ex_injective : injective ex_rv /\ injective ex_rf.
Proof. exact (conj ex_rv_injective ex_rf_injective). Qed.
Example C16_ex_renamed :
  rename_prog ex_rv ex_rf ex_prog2 =
  mkProg [ mkFun 9 [110] (EBin OAdd ESelf (EVar 110));
           mkFun 11 [111] (EBin OAdd (EMem (EVar 111)) (EDelay 3 (EVar 111) (ELit 2))) ]%N
         [120%N] [(121%N, ECall 9%N [EVar 120%N])]
         [ ECall 11%N [EVar 121%N]; EBin OAdd (ECall 11%N [ECall 9%N [ELit 2]]) (EVar 121%N) ].
Proof. exact ex_prog2_renamed. Qed.
Example C16_ex_runs :
  ref_run (rename_prog ex_rv ex_rf ex_prog2) 0 [[1]; [2]; [3]; [4]]%Z st0 = ref_run ex_prog2 0 [[1]; [2]; [3]; [4]]%Z st0 /\
  published_skeleton (compiled (rename_prog ex_rv ex_rf ex_prog2)) = published_skeleton (compiled ex_prog2) /\
  outs_of (mach_run VmD (rename_prog ex_rv ex_rf ex_prog2) (compiled (rename_prog ex_rv ex_rf ex_prog2)) 0
                    [[1]; [2]; [3]; [4]]%Z m0)
  = [Some [0; 1]; Some [1; 5]; Some [4; 12]; Some [9; 20]]%Z.
Proof. exact ex_prog2_renamed_runs. Qed.
(* merging the two function names (not injective) changes the output stream *)
Example C16_ex_non_injective :
  option_map fst (ref_run (rename_prog ex_rv (fun _ => 1%N) ex_prog2) 0 [[1]; [2]]%Z st0)
  <> option_map fst (ref_run ex_prog2 0 [[1]; [2]]%Z st0).
Proof. exact non_injective_differs. Qed.
