(* Props/C08.v — property theorems only. Each is closed by `exact <lemma>`. *)
From Coq Require Import List NArith.
From Mimium Require Import StateTree.Model StateTree.Lemmas.
Import ListNotations.
Local Open Scope N_scope.

(* identical layouts produce a no-op *)
Theorem C08_identical_noop : forall s : skel, plan s s = None.
Proof. exact plan_identical_none. Qed.
