(* Props/C08.v — property theorems only; each closed by `exact <lemma>` (proofs in StateTree/{Lemmas,Lcs,Apply,Embeds}.v).

   C08: "For every pair of old and new state layouts, the computed migration copies only between
   subtrees of identical shape, stays inside both storages, never writes a destination word twice,
   preserves the order of siblings, and leaves every other word zero; identical layouts produce a
   no-op. If the new layout differs from the old one only by removed or added subtrees, every word
   of every surviving subtree is carried over (up to exchange among identically shaped siblings)."

   All theorems quantify over ALL layouts (no size bound). *)
From Coq Require Import List NArith Permutation.
From Mimium Require Import StateTree.Model StateTree.Lemmas StateTree.Apply StateTree.Embeds.
Import ListNotations.
Local Open Scope N_scope.

(* identical layouts produce a no-op *)
Theorem C08_identical_noop : forall s : skel, plan s s = None.
Proof. exact plan_identical_none. Qed.

(* and conversely a no-op is only produced for identical layouts *)
Theorem C08_noop_only_identical : forall o n : skel, plan o n = None -> o = n.
Proof. exact plan_none_eq. Qed.

(* every patch copies a whole subtree of the old layout onto a whole subtree of the new layout of
   identical shape, at exactly the addresses the layouts assign to those subtrees *)
Theorem C08_same_shape : forall (o n : skel) (p : patch),
  In p (take_diff o n) ->
  exists (po pn : list nat) (t : skel),
    subtree o po = Some t /\ subtree n pn = Some t /\
    path_to_address o po = Some (p_src p, p_sz p) /\
    path_to_address n pn = Some (p_dst p, p_sz p).
Proof. exact take_diff_same_shape. Qed.

(* stays inside both storages *)
Theorem C08_in_bounds : forall (o n : skel) (p : patch),
  In p (take_diff o n) ->
  p_src p + p_sz p <= size o /\ p_dst p + p_sz p <= size n.
Proof. exact take_diff_in_bounds. Qed.

(* never writes a destination word twice (and never reads a source word twice) *)
Theorem C08_dst_disjoint : forall (o n : skel) (p q : patch),
  In p (take_diff o n) -> In q (take_diff o n) -> p <> q ->
  (p_dst p + p_sz p <= p_dst q \/ p_dst q + p_sz q <= p_dst p) /\
  (p_src p + p_sz p <= p_src q \/ p_src q + p_sz q <= p_src p).
Proof. exact take_diff_disjoint. Qed.

(* preserves order: the copies never cross (hence sibling order is preserved at every level) *)
Theorem C08_order : forall (o n : skel) (p q : patch),
  In p (take_diff o n) -> In q (take_diff o n) ->
  0 < p_sz p -> 0 < p_sz q ->
  p_dst p < p_dst q -> p_src p < p_src q.
Proof. exact take_diff_order. Qed.

(* applying the plan to any old storage of the right size never fails, produces a storage of
   exactly the new size, whose word i is the old word at the corresponding position when i lies in
   some patch, and zero otherwise *)
Theorem C08_zero_elsewhere : forall (o n : skel) (total : N) (ps : list patch) (old : list N),
  plan o n = Some (total, ps) -> length old = N.to_nat (size o) ->
  exists st, apply_plan old total ps = Some st /\ length st = N.to_nat (size n) /\
    forall i, (i < length st)%nat ->
      (forall p, In p ps -> p_dst p <= N.of_nat i < p_dst p + p_sz p ->
         nth i st 0 = nth (N.to_nat (p_src p) + (i - N.to_nat (p_dst p))) old 0) /\
      ((forall p, In p ps -> ~ (p_dst p <= N.of_nat i < p_dst p + p_sz p)) -> nth i st 0 = 0).
Proof. exact plan_apply_spec. Qed.

(* the hash-set iteration order of the patches is irrelevant *)
Theorem C08_perm : forall (o n : skel) (total : N) (ps ps' : list patch) (old : list N),
  plan o n = Some (total, ps) -> Permutation ps ps' -> length old = N.to_nat (size o) ->
  apply_plan old total ps' = apply_plan old total ps.
Proof. exact plan_apply_perm. Qed.

(* ---- last sentence of the property ("survivors") ----
   `embeds new old` (StateTree/Embeds.v): new is obtained from old by deleting subtrees at any depth.
   After the F1 fix (score = carried cells, backtrack follows the DP table) the clause holds for ALL layouts. *)

(* new ⊑ old (subtrees removed): every word of the new layout is written by some patch, i.e. every word of
   every surviving subtree is carried over; old ⊑ new (subtrees added): every word of the old layout is read
   by some patch. *)
Theorem C08_survivors : forall (o n : skel) (total : N) (ps : list patch),
  plan o n = Some (total, ps) ->
  (embeds n o -> forall i, i < size n -> exists p, In p ps /\ p_dst p <= i < p_dst p + p_sz p) /\
  (embeds o n -> forall i, i < size o -> exists p, In p ps /\ p_src p <= i < p_src p + p_sz p).
Proof. exact survivors. Qed.

(* the same, as a count: the plan carries exactly size(new) resp. size(old) words *)
Theorem C08_survivors_count : forall (o n : skel) (total : N) (ps : list patch),
  plan o n = Some (total, ps) ->
  (embeds n o -> sumN (map p_sz ps) = size n) /\
  (embeds o n -> sumN (map p_sz ps) = size o).
Proof. exact survivors_count. Qed.

(* identity form for edits that remove / add whole children of the root (the "voices" scenario of C07):
   if the new children are a subsequence of the old children (by shape equality), every new child that has at least one
   cell is copied WHOLE from an old child of identical shape (the pair_score bonus makes an identical sibling outweigh a
   partial match carrying the same number of cells); symmetrically when the old children are a subsequence of the new ones.
   `subseq l1 l2` : l1 is a subsequence of l2 (Inductive: sub_nil, sub_skip, sub_keep with Leibniz-equal elements).
   `child_off cs i := sumN (map size (firstn i cs))`. *)
Theorem C08_survivors_whole : forall (os ns : list skel) (total : N) (ps : list patch),
  plan (FnCall os) (FnCall ns) = Some (total, ps) ->
  (subseq ns os -> forall j c, nth_error ns j = Some c -> 0 < count_cells c ->
      exists i, nth_error os i = Some c /\ In (mkPatch (child_off os i) (child_off ns j) (size c)) ps) /\
  (subseq os ns -> forall i c, nth_error os i = Some c -> 0 < count_cells c ->
      exists j, nth_error ns j = Some c /\ In (mkPatch (child_off os i) (child_off ns j) (size c)) ps).
Proof. exact survivors_whole. Qed.

(* the former F1 witness now keeps the surviving sibling *)
Example C08_example_former_F1_witness :
  plan (FnCall [FnCall [Mem 1; Feed 1; Mem 1]; FnCall [Mem 1; Delay 1]]) (FnCall [FnCall [Mem 1; Feed 1; Mem 1]])
  = Some (3, [mkPatch 0 0 3]).
Proof. vm_compute. reflexivity. Qed.

(* hypotheses are satisfiable / theorems are not vacuous *)
Example C08_example_nontrivial_plan :
  plan (FnCall [Delay 1; Mem 1]) (FnCall [Delay 1; Feed 1; Mem 1])
  = Some (5, [mkPatch 0 0 3; mkPatch 3 4 1]).
Proof. vm_compute. reflexivity. Qed.

Example C08_example_embeds :
  embeds (FnCall [FnCall [Mem 1; Feed 1; Mem 1]])
         (FnCall [FnCall [Mem 1; Feed 1; Mem 1]; FnCall [Mem 1; Delay 1]]).
Proof. apply emb_call. apply el_keep; [apply emb_eq|]. apply el_skip. apply el_nil. Qed.
