(* Props/C08.v — property theorems only; each closed by `exact <lemma>` (proofs in StateTree/{Lemmas,Lcs,Apply,Embeds,Indep,Script,Unamb,Carried,MixedThm}.v).

   C08: "For every pair of old and new state layouts, the computed migration copies only between
   subtrees of identical shape, stays inside both storages, never writes a destination word twice,
   preserves the order of siblings, and leaves every other word zero; identical layouts produce a
   no-op. If the new layout differs from the old one only by removed or added subtrees, every word
   of every surviving subtree is carried over (up to exchange among identically shaped siblings)."

   All theorems quantify over ALL layouts (no size bound). *)
From Coq Require Import List NArith Permutation.
From Mimium Require Import StateTree.Model StateTree.Lemmas StateTree.Apply StateTree.Embeds
  StateTree.Indep StateTree.Script StateTree.Unamb StateTree.Carried StateTree.MixedThm.
Import ListNotations.
Local Open Scope N_scope.

(* identical layouts produce a no-op *)
Theorem C08_identical_noop : forall s : skel, plan s s = None.
Proof. exact plan_identical_none. Qed.

(* and conversely a no-op is only produced for identical layouts *)
Theorem C08_noop_only_identical : forall o n : skel, plan o n = None -> o = n.
Proof. exact plan_none_eq. Qed.

(* every patch copies a whole subtree of the old layout onto a whole subtree of the new layout of
   identical shape, at exactly the addresses the layouts assign to those subtrees *)
Theorem C08_same_shape : forall (o n : skel) (p : patch),
  In p (take_diff o n) ->
  exists (po pn : list nat) (t : skel),
    subtree o po = Some t /\ subtree n pn = Some t /\
    path_to_address o po = Some (p_src p, p_sz p) /\
    path_to_address n pn = Some (p_dst p, p_sz p).
Proof. exact take_diff_same_shape. Qed.

(* stays inside both storages *)
Theorem C08_in_bounds : forall (o n : skel) (p : patch),
  In p (take_diff o n) ->
  p_src p + p_sz p <= size o /\ p_dst p + p_sz p <= size n.
Proof. exact take_diff_in_bounds. Qed.

(* never writes a destination word twice (and never reads a source word twice) *)
Theorem C08_dst_disjoint : forall (o n : skel) (p q : patch),
  In p (take_diff o n) -> In q (take_diff o n) -> p <> q ->
  (p_dst p + p_sz p <= p_dst q \/ p_dst q + p_sz q <= p_dst p) /\
  (p_src p + p_sz p <= p_src q \/ p_src q + p_sz q <= p_src p).
Proof. exact take_diff_disjoint. Qed.

(* preserves order: the copies never cross (hence sibling order is preserved at every level) *)
Theorem C08_order : forall (o n : skel) (p q : patch),
  In p (take_diff o n) -> In q (take_diff o n) ->
  0 < p_sz p -> 0 < p_sz q ->
  p_dst p < p_dst q -> p_src p < p_src q.
Proof. exact take_diff_order. Qed.

(* applying the plan to any old storage of the right size never fails, produces a storage of
   exactly the new size, whose word i is the old word at the corresponding position when i lies in
   some patch, and zero otherwise *)
Theorem C08_zero_elsewhere : forall (o n : skel) (total : N) (ps : list patch) (old : list N),
  plan o n = Some (total, ps) -> length old = N.to_nat (size o) ->
  exists st, apply_plan old total ps = Some st /\ length st = N.to_nat (size n) /\
    forall i, (i < length st)%nat ->
      (forall p, In p ps -> p_dst p <= N.of_nat i < p_dst p + p_sz p ->
         nth i st 0 = nth (N.to_nat (p_src p) + (i - N.to_nat (p_dst p))) old 0) /\
      ((forall p, In p ps -> ~ (p_dst p <= N.of_nat i < p_dst p + p_sz p)) -> nth i st 0 = 0).
Proof. exact plan_apply_spec. Qed.

(* the hash-set iteration order of the patches is irrelevant *)
Theorem C08_perm : forall (o n : skel) (total : N) (ps ps' : list patch) (old : list N),
  plan o n = Some (total, ps) -> Permutation ps ps' -> length old = N.to_nat (size o) ->
  apply_plan old total ps' = apply_plan old total ps.
Proof. exact plan_apply_perm. Qed.

(* ---- last sentence of the property ("survivors") ----
   `embeds new old` (StateTree/Embeds.v): new is obtained from old by deleting subtrees at any depth.
   After the F1 fix (score = carried cells, backtrack follows the DP table) the clause holds for ALL layouts. *)

(* new ⊑ old (subtrees removed): every word of the new layout is written by some patch, i.e. every word of
   every surviving subtree is carried over; old ⊑ new (subtrees added): every word of the old layout is read
   by some patch. *)
Theorem C08_survivors : forall (o n : skel) (total : N) (ps : list patch),
  plan o n = Some (total, ps) ->
  (embeds n o -> forall i, i < size n -> exists p, In p ps /\ p_dst p <= i < p_dst p + p_sz p) /\
  (embeds o n -> forall i, i < size o -> exists p, In p ps /\ p_src p <= i < p_src p + p_sz p).
Proof. exact survivors. Qed.

(* the same, as a count: the plan carries exactly size(new) resp. size(old) words *)
Theorem C08_survivors_count : forall (o n : skel) (total : N) (ps : list patch),
  plan o n = Some (total, ps) ->
  (embeds n o -> sumN (map p_sz ps) = size n) /\
  (embeds o n -> sumN (map p_sz ps) = size o).
Proof. exact survivors_count. Qed.

(* identity form for edits that remove / add whole children of the root (the "voices" scenario of C07):
   if the new children are a subsequence of the old children (by shape equality), every new child that has at least one
   cell is copied WHOLE from an old child of identical shape (the pair_score bonus makes an identical sibling outweigh a
   partial match carrying the same number of cells); symmetrically when the old children are a subsequence of the new ones.
   `subseq l1 l2` : l1 is a subsequence of l2 (Inductive: sub_nil, sub_skip, sub_keep with Leibniz-equal elements).
   `child_off cs i := sumN (map size (firstn i cs))`. *)
Theorem C08_survivors_whole : forall (os ns : list skel) (total : N) (ps : list patch),
  plan (FnCall os) (FnCall ns) = Some (total, ps) ->
  (subseq ns os -> forall j c, nth_error ns j = Some c -> 0 < count_cells c ->
      exists i, nth_error os i = Some c /\ In (mkPatch (child_off os i) (child_off ns j) (size c)) ps) /\
  (subseq os ns -> forall i c, nth_error os i = Some c -> 0 < count_cells c ->
      exists j, nth_error ns j = Some c /\ In (mkPatch (child_off os i) (child_off ns j) (size c)) ps).
Proof. exact survivors_whole. Qed.

(* the former F1 witness now keeps the surviving sibling *)
Example C08_example_former_F1_witness :
  plan (FnCall [FnCall [Mem 1; Feed 1; Mem 1]; FnCall [Mem 1; Delay 1]]) (FnCall [FnCall [Mem 1; Feed 1; Mem 1]])
  = Some (3, [mkPatch 0 0 3]).
Proof. vm_compute. reflexivity. Qed.

(* hypotheses are satisfiable / theorems are not vacuous *)
Example C08_example_nontrivial_plan :
  plan (FnCall [Delay 1; Mem 1]) (FnCall [Delay 1; Feed 1; Mem 1])
  = Some (5, [mkPatch 0 0 3; mkPatch 3 4 1]).
Proof. vm_compute. reflexivity. Qed.

Example C08_example_embeds :
  embeds (FnCall [FnCall [Mem 1; Feed 1; Mem 1]])
         (FnCall [FnCall [Mem 1; Feed 1; Mem 1]; FnCall [Mem 1; Delay 1]]).
Proof. apply emb_call. apply el_keep; [apply emb_eq|]. apply el_skip. apply el_nil. Qed.

(* ---- MIXED edits: subtrees removed AND added in ONE edit, at any depth (the property's last sentence covers them too) ----
   Layouts carry no call-site identity; the sibling matching (build_patches_recursive / lcs_by_score) maximises, at every pair of call
   nodes, the number of carried CELLS (then the number of identical pairs).  Definitions (StateTree/Script.v, Indep.v, Unamb.v, Carried.v):

     step := Same s | Del o | Ins n | Edit o n      one step of an edit script over the children of a call node: an untouched child,
                                                   an old child removed, a new child added, an old child changed in place into a new one
     olds sc / news sc                              the old / new row of children the script sc describes
     medit old new k                                new is obtained from old by removing some subtrees and adding others at any depth;
                                                   k = number of cells in the surviving subtrees:
         me_same : medit s s (count_cells s)        me_none : medit o n 0 (replaced: nothing is claimed to survive)
         me_call : medit_list sc k -> medit (FnCall (olds sc)) (FnCall (news sc)) k
         medit_list: Same s adds count_cells s, Edit o n adds k1 when medit o n k1, Del / Ins add nothing
     share a b : bool                               a and b have an identical sub-layout WITH cells at equal depth (a itself, or
                                                   recursively a child of a with a child of b); share a b = false -> nothing is carried
     new_fresh os sc                                every added new child (Ins n) shares nothing with any old child in os; every changed new
                                                   child (Edit o n) differs from o and shares nothing with any old child other than o
     old_fresh ns sc                                symmetrically for the removed (Del o) and changed old children against the new children ns
     carried P old new so dn ps c                   ps = the whole-subtree copies of an order-preserving matching of identical subtrees of old
                                                   (laid out from so) and new (from dn); c = cells in the matched subtrees:
         ca_whole: carried P s s so dn [mkPatch so dn (size s)] (count_cells s);   ca_none: carried P o n so dn [] 0;
         ca_call : carried_list P os ns so dn ps c -> P os ns so dn ps -> carried P (FnCall os) (FnCall ns) so dn ps c, the children being
                   paired in order (cl_pair: patches appended, cells added) or passed over (cl_old / cl_new advance so / dn by the child's size)
     untouched_whole os ns so dn ps                 the two clauses of C08_survivors_mixed_unambiguous for the rows os / ns laid out from so / dn

   COUNT form (C08_survivors_mixed_count, no hypothesis, unit = CELLS): the plan is the set of copies of such a matching and carries at least
   as many cells as the surviving subtrees contain.  Words cannot be the unit, the matching maximises cells: old [[M5 M1 M1]] -> new [[M1 M1 D0] [M5 E1]] carries the two M1 (2 words)
   although the reading "child 0 edited into [M5 E1], [M1 M1 D0] added" has the 5-word survivor M5 (1 cell).
   IDENTITY form (C08_survivors_mixed_unambiguous): for UNAMBIGUOUS scripts every untouched child with cells is copied WHOLE from / to an
   identical child ("up to exchange among identically shaped siblings").  One-sided: the clause for new children needs new_fresh only, the
   clause for old children old_fresh only; pure removals (no Ins / Edit) need nothing (= C08_survivors_whole).
   For AMBIGUOUS scripts the identity form is FALSE (C08_survivors_mixed_refuted: a chain of partial matches carries more cells than the
   identical pair of an untouched child).  This cannot be repaired without losing C08_survivors: a scoring that puts identical pairs first
   repairs the witness but carries only 2 of 3 words on old = [[M1 E1] [M1 E1 D1]], new = [[E1] [M1 E1]] (a pure deletion that is also
   "child 1 removed, [E1] added in front of the untouched child 0"; C08_example_ambiguous_deletion shows the present code carrying 3/3).
   Recorded as finding F29 (class mixed-edit-ambiguous-partial-chain). *)

(* count form, any depth *)
Theorem C08_survivors_mixed_count : forall (o n : skel) (k total : N) (ps : list patch),
  plan o n = Some (total, ps) -> medit o n k ->
  exists ps' c, carried untouched_whole o n 0 0 ps' c /\ (forall p, In p ps' <-> In p ps) /\ k <= c.
Proof. exact survivors_mixed_count. Qed.

(* what every plan is (no hypothesis): the copies of an order-preserving matching of identical subtrees; at every pair of different call
   nodes which that matching pairs, the identity form holds for every unambiguous script between their children (level by level, any depth) *)
Theorem C08_plan_is_matching : forall (o n : skel) (total : N) (ps : list patch),
  plan o n = Some (total, ps) ->
  exists ps' c, carried untouched_whole o n 0 0 ps' c /\ (forall p, In p ps' <-> In p ps).
Proof. exact plan_carried. Qed.

(* identity form for the children of the root.  `child_off cs i := sumN (map size (firstn i cs))`.
   A new child c with cells that also occurs among the old children is an untouched one under new_fresh (an added or changed child
   cannot share anything with an old child other than its counterpart, from which it differs). *)
Theorem C08_survivors_mixed_unambiguous : forall (sc : script) (total : N) (ps : list patch),
  plan (FnCall (olds sc)) (FnCall (news sc)) = Some (total, ps) ->
  (new_fresh (olds sc) sc ->
     forall j c, nth_error (news sc) j = Some c -> 0 < count_cells c -> In c (olds sc) ->
     exists i, nth_error (olds sc) i = Some c /\
               In (mkPatch (child_off (olds sc) i) (child_off (news sc) j) (size c)) ps) /\
  (old_fresh (news sc) sc ->
     forall i c, nth_error (olds sc) i = Some c -> 0 < count_cells c -> In c (news sc) ->
     exists j, nth_error (news sc) j = Some c /\
               In (mkPatch (child_off (olds sc) i) (child_off (news sc) j) (size c)) ps).
Proof. exact survivors_mixed_unambiguous. Qed.

(* share = false means nothing is carried, wherever the two layouts are laid out; the carried cells never depend on the addresses *)
Theorem C08_no_share_nothing_carried : forall a b, share a b = false -> forall so dn, snd (bp a b so dn) = 0.
Proof. exact no_share_no_cells. Qed.

Theorem C08_carried_cells_address_free : forall o n so dn so' dn', snd (bp o n so dn) = snd (bp o n so' dn').
Proof. exact bp_cells_indep. Qed.

(* the identity form fails for ambiguous scripts: old = (A, B), new = (B, C), A = {self, mem, delay 1} removed, C = {mem, delay 1} added
   behind the untouched B = {self, mem}; C shares mem with B (C08_example_refuted_is_ambiguous).  The chain A->B (2 cells) + B->C (1 cell)
   beats the identical pair B->B (2 cells + bonus): B's new place is filled from A.  Found through C07's histories. *)
Theorem C08_survivors_mixed_refuted :
  exists sc total ps j c,
    plan (FnCall (olds sc)) (FnCall (news sc)) = Some (total, ps) /\
    In (Same c) sc /\ nth_error (news sc) j = Some c /\ 0 < count_cells c /\
    forall i, nth_error (olds sc) i = Some c ->
      ~ In (mkPatch (child_off (olds sc) i) (child_off (news sc) j) (size c)) ps.
Proof. exact mixed_refuted. Qed.

Example C08_example_refuted_is_ambiguous :
  share (FnCall [Feed 1; Mem 1]) (FnCall [Mem 1; Delay 1]) = true /\
  ~ new_fresh (olds [Del (FnCall [Feed 1; Mem 1; Delay 1]); Same (FnCall [Feed 1; Mem 1]); Ins (FnCall [Mem 1; Delay 1])])
              [Del (FnCall [Feed 1; Mem 1; Delay 1]); Same (FnCall [Feed 1; Mem 1]); Ins (FnCall [Mem 1; Delay 1])].
Proof. exact mixed_refuted_ambiguous. Qed.

(* the layouts of the C07 history that exposed it: dsp children (f115, f131, f105, f127) -> (f115, f105, f128, f127); the untouched f105
   (old words 16..18, new words 7..9) is filled from f131 (7, 9, 10), the added f128 inherits f105's mems (17, 18) *)
Example C08_example_delins_witness :
  plan (FnCall [FnCall [Feed 1; Mem 1; Mem 1; Mem 1; Delay 1]; FnCall [Feed 1; Mem 1; Mem 1; Mem 1; Delay 3];
                FnCall [Feed 1; Mem 1; Mem 1]; FnCall [Feed 1; Mem 1; Delay 3]])
       (FnCall [FnCall [Feed 1; Mem 1; Mem 1; Mem 1; Delay 1]; FnCall [Feed 1; Mem 1; Mem 1];
                FnCall [Mem 1; Mem 1; Delay 3]; FnCall [Feed 1; Mem 1; Delay 3]]) =
  Some (24, [mkPatch 0 0 7; mkPatch 7 7 1; mkPatch 9 8 1; mkPatch 10 9 1; mkPatch 17 10 1; mkPatch 18 11 1; mkPatch 19 17 7]).
Proof. exact delins_witness. Qed.

(* the hypotheses are satisfiable: the same edit with an added site D = {delay 7, self (2 words)} that shares nothing with A and B *)
Example C08_example_unambiguous :
  new_fresh (olds u_script) u_script /\
  u_script = [Del (FnCall [Feed 1; Mem 1; Delay 1]); Same (FnCall [Feed 1; Mem 1]); Ins (FnCall [Delay 7; Feed 2])] /\
  plan (FnCall (olds u_script)) (FnCall (news u_script)) = Some (13, [mkPatch 5 0 2]).
Proof. exact u_example. Qed.

(* the pure deletion on which an identical-pairs-first scoring would lose a word: the present scoring carries 3 of 3 *)
Example C08_example_ambiguous_deletion :
  embeds (FnCall [FnCall [Feed 1]; FnCall [Mem 1; Feed 1]]) (FnCall [FnCall [Mem 1; Feed 1]; FnCall [Mem 1; Feed 1; Delay 1]]) /\
  plan (FnCall [FnCall [Mem 1; Feed 1]; FnCall [Mem 1; Feed 1; Delay 1]]) (FnCall [FnCall [Feed 1]; FnCall [Mem 1; Feed 1]])
  = Some (3, [mkPatch 1 0 1; mkPatch 2 1 1; mkPatch 3 2 1]).
Proof. exact ambiguous_deletion_example. Qed.

(* a mixed edit at depth: child 0 edited inside (M2 removed, D0 added, M1 survives), [M2 E1] added, M3 untouched: 2 cells survive *)
Example C08_example_nested_medit :
  medit (FnCall [FnCall [Mem 2; Mem 1]; Mem 3]) (FnCall [FnCall [Mem 1; Delay 0]; FnCall [Mem 2; Feed 1]; Mem 3]) 2.
Proof. exact nested_medit. Qed.
