(* Props/C02.v — property theorems only; each closed by `exact <lemma>`
   (proofs in Lmmm/{Prims,Flat,Preserve,Sim,PreserveProg}.v).

   C02 (semantic preservation of the stateful core): the cursor machine running the compiled program
   (flat state words + state cursor, PushStateOffset/PopStateOffset bookkeeping) produces exactly the
   output stream defined by the reference semantics (call-by-value; every textual call site of a
   stateful construct owns its own zero-initialised state, organised as a tree; `self` = previous return
   value of the function instance, `mem(x)` = x one sample earlier, `delay(n,x,t)` = x from t samples
   earlier), for every well-formed program, every run length and every input stream.
   The proof is a simulation: the abstraction `flat_prog p s` (Lmmm/Flat.v) maps a reference state tree
   to the flat words (evaluation order; a delay cell is the ring `ring_words n hist ridx`). *)
From Coq Require Import List ZArith NArith Bool.
From Mimium Require Import StateTree.Model Lmmm.Syntax Lmmm.Ref Lmmm.Compile Lmmm.Machine Lmmm.Wf
  Lmmm.Spec Lmmm.Prims Lmmm.PreserveProg Lmmm.Examples.
Import ListNotations.

Theorem C02_preservation : forall p cp rows,
  compile p = Some cp -> wf_prog p = true -> rows_ok p rows ->
  exists outs s',
    ref_run p 0%Z rows st0 = Some (outs, s') /\
    outs_of (mach_run VmD p cp 0%Z rows m0) = map Some outs.
Proof. exact preservation. Qed.

(* the same for any start time and either cursor discipline *)
Theorem C02_preservation_gen : forall d p cp t0 rows,
  compile p = Some cp -> wf_prog p = true -> rows_ok p rows ->
  exists outs s',
    ref_run p t0 rows st0 = Some (outs, s') /\
    outs_of (mach_run d p cp t0 rows (init_state d cp)) = map Some outs.
Proof. exact preservation_gen. Qed.

(* the clauses of the property, as facts about the reference semantics: *)
Theorem C02_delay_clause : forall (n : N) (hist : list Z) (t : Z),
  (1 <= t <= Z.of_N n - 1)%Z -> delay_read n hist t = nth (Z.to_nat t - 1) hist 0%Z.
      (* hist = inputs of earlier samples, most recent first: x from t samples earlier *)
Proof. exact delay_clause. Qed.

Theorem C02_mem_clause : forall fenv now selfv r a s va ka prev kids,
  ref_eval fenv now selfv r a (kid s 0) = Some (va, ka) -> s = ST (CMem prev) kids ->
  ref_eval fenv now selfv r (EMem a) s = Some (prev, ST (CMem va) [ka]).
Proof. exact mem_clause. Qed.

Theorem C02_self_clause : forall fenv now fd vs prev kids v kb r,
  bind_params (f_params fd) vs = Some r ->
  ref_eval fenv now prev r (f_body fd) (kid (ST (CSelf prev) kids) 0) = Some (v, kb) ->
  ref_call fenv now fd vs (ST (CSelf prev) kids) = Some (v, ST (CSelf v) [kb]).
Proof. exact self_clause. Qed.

(* ring buffer refinement: if the words at the cursor are the ring denoted by the history `h`
   (Prims.ring_words: [read_idx; write_idx = |h| mod n; data[j] = most recent input written to slot j]),
   Instruction::Delay returns what the reference semantics reads from the history, touches only the
   n+2 words of the ring and leaves the ring denoted by the extended history *)
Theorem C02_ring_refinement : forall d n x t m h ridx,
  (m_pos m + 2 + n <= N.of_nat (length (m_words m)))%N ->
  seg_is m (m_pos m) (ring_words n h ridx) ->
  exists m', delay1 d n x t m = Some (delay_read n h t, m') /\
    frame_ok (m_pos m) (m_pos m + 2 + n) (m_pos m) m m' /\
    seg_is m' (m_pos m) (ring_words n (x :: h) (delay_ridx n h t)).
Proof. exact delay1_refines. Qed.

(* satisfiability of the hypotheses + a concrete instance *)
Example C02_ex_wf : wf_prog ex_prog2 = true.
Proof. exact ex_prog2_wf. Qed.
Example C02_ex_compiles : compile ex_prog2 = Some (compiled ex_prog2).
Proof. exact ex_prog2_compiles. Qed.
Example C02_ex_rows : rows_ok ex_prog2 [[1]; [2]; [3]]%Z.
Proof. exact ex_prog2_rows. Qed.
Example C02_ex_streams :
  option_map fst (ref_run ex_prog2 0 [[1]; [2]; [3]; [4]]%Z st0) = Some [[0; 1]; [1; 5]; [4; 12]; [9; 20]]%Z /\
  outs_of (mach_run VmD ex_prog2 (compiled ex_prog2) 0 [[1]; [2]; [3]; [4]]%Z m0)
  = [Some [0; 1]; Some [1; 5]; Some [4; 12]; Some [9; 20]]%Z.
Proof. exact ex_prog2_streams. Qed.
