(* Props/C04.v — property theorems only. Each is closed by `exact <lemma>`.

   C04: front end and compile entry points are total on arbitrary text — the PARSER part (cst_parser.rs).
   (Lexer and pre-parser: C04_lex_total, C04_tokenize_total, C04_preparse_total in Props/C13.v.
    Type checker and code generators are not modelled; see checks/C04.py for the crash/hang oracle.)

   Objects (Parser/Model.v, a transcription of every function of cst_parser.rs and of the GreenTreeBuilder):
     tok      one non-trivia token as the parser sees it: kind `tk` + three bits (LineBreak in its leading /
              trailing trivia, raw index adjacent to the previous token).  Position p of the input list =
              index p of PreParsedTokens.token_indices.  The theorems hold for EVERY list of tok.
     parse_with fuel ts = POk root errors rewrites | POutOfFuel | PPanic why
              Parser::parse run with an explicit fuel: the fuel decreases at every call of a parse_* function
              and at every loop iteration (so it bounds the recursion depth); POutOfFuel = exhausted,
              PPanic = Vec::drain out of range in start_node_at / finish_node().unwrap() on None.
     parse ts = parse_with (parse_fuel (length ts)) ts,  parse_fuel n = 12 * (n + 1).
     tree     TTok p (token leaf, p = position) | TNode kind children;  leaves = in-order token leaves.
     perror   e_idx = EAt p (token_index = token_indices[p]) | EEnd (`unwrap_or(0)`: raw index 0, reported when the
              cursor is past the last token), class, expected/reason text, found kind.                         *)
From Coq Require Import String List NArith Arith.
From Mimium Require Import Tables.LexerTables Tables.TokenKinds Lexer.Model Lexer.Lemmas Lexer.PreLemmas.
From Mimium Require Parser.Model Parser.Basic Parser.Progress Parser.Safety Parser.Bridge.
Import ListNotations.
Module P := Parser.Model.

(* ---------------------------------------------------------------------------------------------- *)
(* C04_parse_progress.  For every token list of length n, fuel K*(n+1) with K = 12 (or more) is     *)
(* never exhausted: every loop iteration and every cycle of calls between parse_* functions         *)
(* consumes a token or descends in a rank bounded by 10 (Parser/Progress.v: rank, chk, bodies_ok). *)
(* Hence the parser terminates on every input and its recursion depth is at most 12*(n+1).         *)
(* ---------------------------------------------------------------------------------------------- *)
Theorem C04_parse_progress : forall (ts : list P.tok) (fuel : nat),
  12 * (length ts + 1) <= fuel -> P.parse_with fuel ts <> P.POutOfFuel.
Proof. exact (fun ts fuel => Progress.parse_with_progress fuel ts). Qed.

Example C04_parse_fuel_is_12 : forall n, P.parse_fuel n = 12 * (n + 1).
Proof. intros. reflexivity. Qed.

(* the bound is not vacuous: a constant 1 is too small already for "((1))" *)
Example C04_parse_small_fuel_runs_out :
  let t k := P.mkPTok k false false false in
  P.parse_with (1 * (5 + 1)) [t KParenBegin; t KParenBegin; t KInt; t KParenEnd; t KParenEnd] = P.POutOfFuel.
Proof. vm_compute. reflexivity. Qed.

(* C04_parse_no_panic.  The tree builder is never misused, whatever the fuel: start_node_at always drains a
   range inside the children list and the final finish_node().unwrap() finds the Program node. *)
Theorem C04_parse_no_panic : forall (fuel : nat) (ts : list P.tok) (why : string),
  P.parse_with fuel ts <> P.PPanic why.
Proof. exact Safety.parse_no_panic. Qed.

(* C04_parse_total.  Together: the parser answers every token list with a tree and an error list. *)
Theorem C04_parse_total : forall ts : list P.tok,
  exists root errors rewrites, P.parse ts = P.POk root errors rewrites.
Proof. exact Bridge.parse_total. Qed.

(* ---------------------------------------------------------------------------------------------- *)
(* C04_errors_in_range.  Every reported error points at a token of the input (position < n) or is   *)
(* an at-the-end error (raw index 0); every kind rewrite (IdentFunction / IdentParameter) hits a    *)
(* token of the input.                                                                              *)
(* ---------------------------------------------------------------------------------------------- *)
Theorem C04_errors_in_range : forall (ts : list P.tok) root errors rewrites,
  P.parse ts = P.POk root errors rewrites ->
  Forall (fun e => match P.e_idx e with P.EAt p => p < length ts | P.EEnd => True end) errors /\
  Forall (fun m => fst m < length ts) rewrites.
Proof. exact Bridge.parse_errors_in_range. Qed.

(* both cases occur: "}" is reported at position 0, the missing `=` of "let" at the end *)
Example C04_error_at_token_and_at_end :
  let t k := P.mkPTok k false false false in
  (exists r e1 e2 m, P.parse [t KBlockEnd] = P.POk r [e1; e2] m /\ P.e_idx e1 = P.EAt 0) /\
  (exists r e m, P.parse [t KLet] = P.POk r [e] m /\ P.e_idx e = P.EEnd).
Proof. split; vm_compute; repeat eexists. Qed.

(* C04_error_spans_in_text.  Composition with the lexer theorems: if the raw tokens tile the text (the conclusion
   of C13_tiling) and ts is the parser's view of token_indices (same length), then the span that
   parser_errors_to_reportable attaches to an error — the span of tokens[token_index] — exists and starts and
   ends on character boundaries of the text (char_boundary s off: off is the byte length of a prefix of s). *)
Theorem C04_error_spans_in_text : forall (s : Input) (toks : list Token) (ts : list P.tok) root errors rewrites,
  tiling s toks ->
  length ts = length (pp_token_indices (preparse toks)) ->
  P.parse ts = P.POk root errors rewrites ->
  forall e, In e errors ->
  exists t, nth_error toks (N.to_nat (Bridge.error_raw_index (pp_token_indices (preparse toks)) (P.e_idx e))) = Some t /\
            char_boundary s (tk_start t) /\ char_boundary s (tk_end t).
Proof. exact Bridge.error_span_in_text. Qed.

Example C04_error_raw_index_unfolds : forall idxs p,
  Bridge.error_raw_index idxs (P.EAt p) = nth p idxs 0%N /\ Bridge.error_raw_index idxs P.EEnd = 0%N.
Proof. intros. split; reflexivity. Qed.

(* ---------------------------------------------------------------------------------------------- *)
(* C13_cst_leaves.  The in-order token leaves of the CST are exactly the positions 0..n-1, each     *)
(* once, in order — for every Eof-free token list (token_indices never contains Eof: preparse       *)
(* filters it, C13_token_indices) and every fuel that yields a tree.                                *)
(* ---------------------------------------------------------------------------------------------- *)
Theorem C13_cst_leaves : forall (fuel : nat) (ts : list P.tok) root errors rewrites,
  Forall (fun t => P.tk t <> KEof) ts ->
  P.parse_with fuel ts = P.POk root errors rewrites ->
  P.leaves root = seq 0 (length ts).
Proof. exact Basic.parse_leaves. Qed.

(* the hypothesis is needed: the parser stops at an Eof-kind token *)
Example C13_cst_leaves_stop_at_eof :
  let t k := P.mkPTok k false false false in
  exists r e m, P.parse [t KEof; t KInt] = P.POk r e m /\ P.leaves r = [].
Proof. vm_compute. repeat eexists. Qed.

Example C13_cst_leaves_example :
  let t k := P.mkPTok k false false false in
  exists r e m, P.parse [t KLet; t KIdent; t KAssign; t KInt; t KOpSum] = P.POk r e m /\ P.leaves r = [0; 1; 2; 3; 4].
Proof. vm_compute. repeat eexists. Qed.
