(* Props/C03_bvm.v — property theorems only; each closed by `exact <lemma>` (proofs in Bvm/Sound*.v).

   C03, bytecode part.  Bvm/Model.v is an executable model of the bytecode interpreter (runtime/vm.rs
   Machine::execute, call_function, return_general, StateStorage, Ringbuffer) that runs the REAL compiler's bytecode;
   it is tied to vm.rs by running both on the same dumped programs (checks/bvm_part.py).  Bvm/Verify.v is a bytecode
   verifier.  The theorems: bytecode accepted by `verify` never faults in the model VM (no stack / constant /
   function-table / jump / global / state-storage access out of range, no cursor underflow, no arity panic) and never
   reaches an instruction outside the supported subset — for EVERY arithmetic `A` (the float operations are a
   parameter), every input, every machine state between samples, every fuel and any number of samples; dsp leaves
   exactly its declared number of words on the stack, the state storage has the size dsp's skeleton publishes and
   the state cursor is back at 0.  `OutOfFuel` only says that the given fuel was used up. *)
From Coq Require Import List ZArith NArith Bool.
From Mimium Require Import Heap.Model.
From Mimium Require Import Bvm.Model Bvm.Verify Bvm.SoundTop Bvm.LmmmBridge Bvm.Examples.
From Mimium Require Import Bvm.XModel Bvm.XVerify Bvm.XInv Bvm.XSoundTop Bvm.XBridge Bvm.XSim Bvm.XSoundVm Bvm.XExamples.
From Mimium Require Lmmm.Machine.
Import ListNotations.
Local Open Scope N_scope.

(* one sample: VmDspRuntime::set_input + Machine::execute_idx(dsp).  `minv p m`: the globals have the declared size
   and the state cursor is 0 (Bvm/SoundTop.v); `dsp_fn p` is the function Program.dsp_index names. *)
Theorem C03_bvm_verified_safe : forall (p : program), verify p = true ->
  forall (A : arith) (fuel : nat) (inputs : list Z) (m : mach) (f : fn),
  dsp_fn p = Some f -> minv p m -> f_pwords f <= lenN inputs ->
  match exec_dsp A p fuel inputs m with
  | Ret n m' => n = f_nret f /\ lenN (m_stack m') = f_nret f /\ lenN (m_state m') = f_ssize f /\ minv p m'
  | OutOfFuel => True
  | Fault _ | Unsupported _ => False
  end.
Proof. exact exec_dsp_safe. Qed.

(* Machine::execute_main on the fresh machine *)
Theorem C03_bvm_main_safe : forall (p : program), verify p = true ->
  forall (A : arith) (fuel : nat),
  match exec_main A p fuel (mach0 p) with
  | Ret n m' => minv p m' /\ lenN (m_stack m') = n
  | OutOfFuel => True
  | Fault _ | Unsupported _ => False
  end.
Proof. exact exec_main_fresh_safe. Qed.

(* any number of samples, each with its own arithmetic (the external function `now` changes) and inputs *)
Theorem C03_bvm_session_safe : forall (p : program), verify p = true ->
  forall (fuel : nat) (f : fn) (steps : list (arith * list Z)) (m : mach),
  dsp_fn p = Some f -> minv p m -> Forall (fun s => f_pwords f <= lenN (snd s)) steps ->
  Forall (fun o => match o with
                   | Ret n m' => n = f_nret f /\ lenN (m_stack m') = f_nret f /\ lenN (m_state m') = f_ssize f /\ m_pos m' = 0
                   | OutOfFuel => True
                   | Fault _ | Unsupported _ => False
                   end) (run_session p fuel steps m).
Proof. exact run_session_safe. Qed.

(* An explicit fuel bound.  `costs p` proposes a cost per function; `term_ok p (costs p)` CHECKS it: every jump of
   every reachable instruction goes forward and the cost of a function covers its instructions plus the costs of the
   functions it calls (so there is no recursion).  Then `fuel_dsp p` units of fuel are enough: a dsp call of an
   accepted program returns. *)
Theorem C03_bvm_fuel : forall (p : program), verify p = true -> term_ok p (costs p) = true ->
  forall (A : arith) (fuel : nat) (inputs : list Z) (m : mach) (f : fn),
  dsp_fn p = Some f -> minv p m -> f_pwords f <= lenN inputs -> fuel_dsp p <= N.of_nat fuel ->
  exists n m', exec_dsp A p fuel inputs m = Ret n m' /\
               n = f_nret f /\ lenN (m_stack m') = f_nret f /\ lenN (m_state m') = f_ssize f /\ minv p m'.
Proof. exact exec_dsp_fuel. Qed.

(* The state primitives of the bytecode model ARE the VM-discipline primitives of the cursor machine Lmmm/Machine.v,
   about which C05 (layout), C02 (preservation) and C03_safety are proved: `lm_of m tr` is the Lmmm machine state holding
   m's state words and cursor (plus Lmmm's access trace, which the bytecode model does not keep). *)
Theorem C03_bvm_mem_is_lmmm_mem : forall (m : mach) (x : Z) (tr : list (N * N * N)),
  m_pos m + 1 <= lenN (m_state m) ->
  exists old tr', st_get m 1 = Some [old] /\
    Machine.mem1 Machine.VmD x (lm_of m tr) = Some (old, lm_of (st_put m 0 [x]) tr').
Proof. exact mem_agrees. Qed.

Theorem C03_bvm_delay_is_lmmm_delay : forall (A : arith) (m : mach) (n : N) (x t : Z) (tr : list (N * N * N)),
  m_pos m + 2 + n <= lenN (m_state m) ->
  exists res m' tr', delay_step A m n x t = Some (res, m') /\
    Machine.delay1 Machine.VmD n x (a_trunc A t) (lm_of m tr) = Some (res, lm_of m' tr').
Proof. exact delay_agrees. Qed.

(* ---- the hypotheses are satisfiable: a real dumped program (stateful calls in both arms of an if, mem, delay,
        an external function) is accepted and runs ---- *)
Example C03_bvm_ex_accepted : verify ex_stateful = true.
Proof. vm_compute. reflexivity. Qed.

Example C03_bvm_ex_runs :
  match after_main ex_stateful with
  | Some m => match exec_dsp toy ex_stateful 1000 [] m with
              | Ret n m' => n = 2 /\ lenN (m_stack m') = 2 /\ lenN (m_state m') = 9 /\ m_pos m' = 0
              | _ => False
              end
  | None => False
  end.
Proof. vm_compute. repeat split; reflexivity. Qed.

Example C03_bvm_ex_fuel : term_ok ex_stateful (costs ex_stateful) = true /\ fuel_dsp ex_stateful = 62.
Proof. vm_compute. split; reflexivity. Qed.

(* a real dump with a sum-type match (JmpTable, tagged unions, CloneUserSum on a type without boxed references) and
   stateful arms of different sizes *)
Example C03_bvm_ex_sum_match_accepted : verify ex_sum_match = true.
Proof. vm_compute. reflexivity. Qed.

(* ---- bad programs are rejected AND fault ---- *)
Example C03_bvm_ex_read_above_rejected :
  verify ex_read_above = false /\ after_main ex_read_above = Some (mkMach [] [] 0 []) /\
  exec_dsp toy ex_read_above 100 [] (mkMach [] [] 0 []) = Fault StackReadOOB.
Proof. vm_compute. repeat split; reflexivity. Qed.

Example C03_bvm_ex_unbalanced_rejected :
  verify ex_unbalanced = false /\ after_main ex_unbalanced = Some (mkMach [] [] 0 []) /\
  exec_dsp toy ex_unbalanced 100 [] (mkMach [] [] 0 []) = Fault StateOOB.
Proof. vm_compute. repeat split; reflexivity. Qed.

(* ---- a finding: the bytecode the compiler emits for `{a=1.0, b=5.0, ..} |> f3` (f3 has a third parameter with a
        default value) passes two argument words to a function of three parameter words; the verifier rejects it
        (function 3 = dsp, pc 8 = the Call) and the model faults where the real VM panics
        ("range end index 8 out of range for slice of length 7") ---- *)
Example C03_bvm_default_param_call_rejected :
  verify ex_default_param = false /\ first_bad ex_default_param = Some (3, 8) /\
  after_main ex_default_param = Some (mkMach [] [] 0 []) /\
  exec_dsp toy ex_default_param 100 [] (mkMach [] [] 0 []) = Fault StackReadOOB.
Proof. vm_compute. repeat split; reflexivity. Qed.


(* ======================================================================================================================
   The closure / upvalue / heap layer.  Bvm/XModel.v extends the machine with Machine.closures and Machine.heap (slot maps
   with generational keys: the definitions of Heap/Model.v), the shared upvalue cells, the per-closure state storages and
   states_stack, and gives a meaning to Closure Close CallCls MakeHeapClosure CloseHeapClosure CloneHeap CallIndirect
   GetUpValue SetUpValue BoxAlloc BoxLoad BoxClone BoxRelease BoxStore; with `strict = false` it transcribes vm.rs and is
   what checks/bvm_part.py runs against the real VM (outputs, state words, cursor, closures.len(), heap.len() per sample).
   Bvm/XVerify.v extends the verifier.

   What is proved (PARTIAL, hence the names): bytecode accepted by `xverify` never reaches an unsupported instruction and
   never faults on the stack, constants, function indices, jumps, globals, the state storage (the global one or a closure's
   own, which has the size its function's skeleton publishes), the cursor (balanced in every storage), or an upvalue
   index - EXCEPT for the faults of the dynamic class `Dyn d` (Bvm/Model.v `dynfault`), which depend on the value a
   register or an upvalue cell holds at run time and are excluded from the conclusion:
     DynHandle      a stale closure / heap handle is dereferenced, or the object is smaller than the access
     DynUpvalue     an open upvalue cell points outside the stack, a closed cell has another width
   and, raised by the INSTRUMENTED semantics (strict = true) only - the real VM makes no such check and goes on -
     DynSignature   the function behind an indirect callee does not fit the call site (words of parameters / results)
     DynReentry     a closure is entered while the cursor of its own state storage is not 0
     DynOpenWrite   SetUpValue through an OPEN cell (a write into another activation's registers)
     DynCellWidth   an upvalue cell is not as wide as the running function's upindexes entry says
     DynElemWidth   the array a GetArrayElem / SetArrayElem meets has another elem_word_size than the annotation says (see
                    the array section below).
   C03_bvm_strict_agrees ties the two semantics: until one of the last five fires they have the same outcome.
   Handle liveness is the subject of the C12 monitor.  Since the array extension the SAME theorems cover AllocArray,
   GetArrayElem, SetArrayElem, the array builtins and `_mimium_schedule_at` (xverify accepts them; see below).  Not covered:
   integer arithmetic (AddI .. LogI, CastItoB), which bytecodegen does not emit for any program of the check.
   `xminv p x`: globals of the declared size, global cursor 0, states_stack empty, the closure table a well-formed slot
   map in which every closure has a valid function index, as many cells as its function has upindexes and a state
   storage of the size of its function's skeleton (Bvm/XSoundTop.v, Bvm/XInv.v). *)
Theorem C03_bvm_closures_verified_safe_partial : forall (p : program), xverify p = true ->
  forall (A : arith) (fuel : nat) (inputs : list Z) (x : xmach) (f : fn),
  dsp_fn p = Some f -> xminv p x -> f_pwords f <= lenN inputs ->
  match xexec_dsp A p true fuel inputs x with
  | XRet n x' => n = f_nret f /\ lenN (x_stack x') = f_nret f /\ lenN (m_state (x_core x')) = f_ssize f /\ xminv p x'
  | XOutOfFuel => True
  | XFault e => is_dyn e = true
  | XUnsupported _ => False
  end.
Proof. exact xexec_dsp_safe. Qed.

Theorem C03_bvm_closures_main_safe_partial : forall (p : program), xverify p = true ->
  forall (A : arith) (fuel : nat),
  match xexec_main A p true fuel (xmach0 p) with
  | XRet n x' => xminv p x' /\ lenN (x_stack x') = n
  | XOutOfFuel => True
  | XFault e => is_dyn e = true
  | XUnsupported _ => False
  end.
Proof. exact xexec_main_fresh_safe. Qed.

Theorem C03_bvm_closures_session_safe_partial : forall (p : program), xverify p = true ->
  forall (fuel : nat) (f : fn) (steps : list (arith * list Z)) (x : xmach),
  dsp_fn p = Some f -> xminv p x -> Forall (fun s => f_pwords f <= lenN (snd s)) steps ->
  Forall (fun o => match o with
                   | XRet n x' => n = f_nret f /\ lenN (x_stack x') = f_nret f /\ lenN (m_state (x_core x')) = f_ssize f /\
                                  m_pos (x_core x') = 0
                   | XOutOfFuel => True
                   | XFault e => is_dyn e = true
                   | XUnsupported _ => False
                   end) (xrun_session p true fuel steps x).
Proof. exact xrun_session_safe. Qed.

(* the instrumented semantics against the transcription of vm.rs: `agree o1 o2` = o2 is a fault only the instrumentation
   raises (strict_only), or o1 = o2 *)
Theorem C03_bvm_strict_agrees : forall (A : arith) (p : program) (fuel : nat) (inputs : list Z) (x : xmach),
  (exists d, xexec_dsp A p true fuel inputs x = XFault (Dyn d) /\ strict_only d = true) \/
  xexec_dsp A p false fuel inputs x = xexec_dsp A p true fuel inputs x.
Proof. exact xexec_dsp_agree. Qed.

(* on a program without any instruction of the closure layer the extended machine is the machine of Bvm/Model.v (so
   C03_bvm_verified_safe, _main_safe, _session_safe and _fuel are theorems about the model the check extracts and runs):
   `xm C H ce ar tk m` is the extended machine with core m, empty states_stack and any closures / heap / cells / arrays /
   queued scheduler tasks, `lift` maps Ret n m' to XRet n (xm .. m') and every other outcome to itself *)
Theorem C03_bvm_xmodel_is_model_on_old_subset : forall (A : arith) (p : program) (strict : bool)
    (C : smap clos) (H : smap hobj) (ce : list upval) (ar : smap arr) (tk : list (Z * Z)),
  closure_free p = true ->
  forall (fuel : nat) (inputs : list Z) (m : mach),
  xexec_dsp A p strict fuel inputs (xm C H ce ar tk m) = lift C H ce ar tk (exec_dsp A p fuel inputs m) /\
  xexec_main A p strict fuel (xm C H ce ar tk m) = lift C H ce ar tk (exec_main A p fuel m).
Proof. intros A p strict C H ce ar tk Hf fuel inputs m. split; [apply xexec_dsp_old|apply xexec_main_old]; exact Hf. Qed.

(* ---- a real dumped program with closures (a counter whose captured variable lives in a closed upvalue cell, made by
        main and kept in a global) is accepted and runs in the instrumented semantics: every sample returns one word, cursor
        0, closures.len() = heap.len() = 1 - the numbers the real VM shows ---- *)
Example C03_bvm_ex_counter_accepted : xverify ex_counter = true.
Proof. vm_compute. reflexivity. Qed.

Example C03_bvm_ex_counter_runs :
  match xafter_main true ex_counter with
  | Some x => xsamples true ex_counter 3 x = [Some (1, 0, 1, 1); Some (1, 0, 1, 1); Some (1, 0, 1, 1)]
  | None => False
  end.
Proof. vm_compute. reflexivity. Qed.

(* ---- an upvalue index beyond the function's upindexes is rejected AND faults ---- *)
Example C03_bvm_ex_bad_upvalue_rejected :
  xverify ex_bad_upvalue = false /\ xfirst_bad ex_bad_upvalue = Some (2, 0) /\
  match xafter_main false ex_bad_upvalue with
  | Some x => xexec_dsp toy ex_bad_upvalue false 100 [] x = XFault UpvalueIndexOOB
  | None => False
  end.
Proof. vm_compute. repeat split; reflexivity. Qed.

(* ---- a repaired finding (C03/F66): the shipped test closure_tuple_escape.mmm reads a two-word OPEN upvalue into the
        registers at the top of the stack (function ff, pc 2: GetUpValue 2 1 2).  vm.rs used to hand set_vec_range a slice
        that pointed into the stack while the pushes could reallocate it (use-after-free read; the source file itself notes
        "the result becomes 48 only on the time 0"); since the repair the words move inside the stack (move_stack_range).
        The bytecode is accepted and runs: one word per sample, cursor 0; closures.len() / heap.len() grow by one per
        sample as on the real VM (the closure returned by `test` is never released: C12's subject) ---- *)
Example C03_bvm_open_upvalue_read_at_stack_top_accepted :
  xverify ex_tuple_escape = true /\
  match xafter_main false ex_tuple_escape with
  | Some x => xsamples false ex_tuple_escape 2 x = [Some (1, 0, 1, 1); Some (1, 0, 2, 2)]
  | None => False
  end.
Proof. vm_compute. split; reflexivity. Qed.


(* ======================================================================================================================
   Arrays, the array builtins and the scheduler call.  `xverify` (Bvm/XVerify.v) accepts AllocArray, GetArrayElem,
   SetArrayElem, CallExtFun of len / split_head / split_tail / prepend / append and their `$arityN` specialisations, and
   CallExtFun of `_mimium_schedule_at`; the three closure theorems above (stated for the instrumented semantics) hold for
   this larger set of programs unchanged.  What cannot be decided on untyped bytecode is a NAMED dynamic outcome:
     DynHandle     (also) an array handle read from a register names no live array; elem_word_size = 0; split_head /
                   split_tail of an empty array; prepend / append / split `$arityN` on an array of another width; the heap
                   handle given to `_mimium_schedule_at` is stale  - the panics of vm.rs / builtin_functins.rs, value dependent
     DynElemWidth  (instrumented semantics only) GetArrayElem / SetArrayElem have NO width operand: they move elem_word_size
                   words of whatever array the handle names.  The dump carries an untrusted annotation `f_ew` (program counter
                   -> width, from the MIR types / the preceding AllocArray); the verifier checks stack safety FOR that width,
                   the instrumented semantics checks the width at run time.  An array INDEX needs no check: vm.rs clamps
                   it (`as i64` saturates, then clamp(0, len - 1); an empty array reads as zeros and ignores stores).
   The theorem below restates the result for the TRANSCRIPTION of vm.rs (strict = false), the semantics the check runs
   against the real VM on every dumped program: on accepted bytecode either one of the five checks only the instrumentation
   makes fires, or the transcription returns exactly the declared words (storage size, cursor 0, closure table in shape),
   runs out of fuel, or stops with a fault of the dynamic class - never StackReadOOB / ConstOOB / FnIndexOOB / JumpOOB /
   StateOOB / GlobalOOB / BadNret / ExtIndexOOB / JumpTableOOB / TypeTableOOB / BaseUnderflow / NoClosureEnv /
   UpvalueIndexOOB, never an unsupported instruction.  PARTIAL: the dynamic class is excluded; the execution of the queued
   scheduler tasks (SimpleScheduler::on_sample -> execute_closure) is not modelled (C11's subject). *)
Theorem C03_bvm_arrays_verified_safe_partial : forall (p : program), xverify p = true ->
  forall (A : arith) (fuel : nat) (inputs : list Z) (x : xmach) (f : fn),
  dsp_fn p = Some f -> xminv p x -> f_pwords f <= lenN inputs ->
  (exists d, xexec_dsp A p true fuel inputs x = XFault (Dyn d) /\ strict_only d = true) \/
  match xexec_dsp A p false fuel inputs x with
  | XRet n x' => n = f_nret f /\ lenN (x_stack x') = f_nret f /\ lenN (m_state (x_core x')) = f_ssize f /\ xminv p x'
  | XOutOfFuel => True
  | XFault e => is_dyn e = true
  | XUnsupported _ => False
  end.
Proof. exact xexec_dsp_vm_safe. Qed.

Theorem C03_bvm_arrays_main_safe_partial : forall (p : program), xverify p = true ->
  forall (A : arith) (fuel : nat),
  (exists d, xexec_main A p true fuel (xmach0 p) = XFault (Dyn d) /\ strict_only d = true) \/
  match xexec_main A p false fuel (xmach0 p) with
  | XRet n x' => xminv p x' /\ lenN (x_stack x') = n
  | XOutOfFuel => True
  | XFault e => is_dyn e = true
  | XUnsupported _ => False
  end.
Proof. exact xexec_main_vm_safe. Qed.

(* ---- a real dumped program with arrays (literals of one-word and two-word elements, indexing by `now`, split_head$arity1,
        len) is accepted and runs in the instrumented semantics: the annotation fits, one word per sample, cursor 0 ---- *)
Example C03_bvm_ex_array_accepted : xverify ex_array = true.
Proof. vm_compute. reflexivity. Qed.

Example C03_bvm_ex_array_runs :
  match xafter_main true ex_array with
  | Some x => xsamples true ex_array 2 x = [Some (1, 0, 0, 0); Some (1, 0, 0, 0)]
  | None => False
  end.
Proof. vm_compute. reflexivity. Qed.

(* ---- why the element width must be checked: SetArrayElem stores a three-word element from register 1 when only registers 0
        and 1 are written.  With the honest annotation (width 3) the verifier rejects the bytecode and the VM's transcription
        faults (get_stack_range past the end of the stack).  With a LYING annotation (width 1) the verifier accepts; the
        instrumented semantics then stops with DynElemWidth - the outcome the theorems exclude - where the transcription
        faults ---- *)
Example C03_bvm_ex_array_wide_store_rejected :
  xverify (ex_array_wide_store 3) = false /\ xfirst_bad (ex_array_wide_store 3) = Some (1, 2) /\
  match xafter_main false (ex_array_wide_store 3) with
  | Some x => xexec_dsp toy (ex_array_wide_store 3) false 100 [] x = XFault StackReadOOB
  | None => False
  end.
Proof. vm_compute. repeat split; reflexivity. Qed.

Example C03_bvm_ex_array_lying_annotation_caught :
  xverify (ex_array_wide_store 1) = true /\
  match xafter_main true (ex_array_wide_store 1) with
  | Some x => xexec_dsp toy (ex_array_wide_store 1) true 100 [] x = XFault (Dyn DynElemWidth) /\
              xexec_dsp toy (ex_array_wide_store 1) false 100 [] x = XFault StackReadOOB
  | None => False
  end.
Proof. vm_compute. repeat split; reflexivity. Qed.
