(* Props/C03_bvm.v — property theorems only; each closed by `exact <lemma>` (proofs in Bvm/Sound*.v).

   C03, bytecode part.  Bvm/Model.v is an executable model of the bytecode interpreter (runtime/vm.rs
   Machine::execute, call_function, return_general, StateStorage, Ringbuffer) that runs the REAL compiler's bytecode;
   it is tied to vm.rs by running both on the same dumped programs (checks/bvm_part.py).  Bvm/Verify.v is a bytecode
   verifier.  The theorems: bytecode accepted by `verify` never faults in the model VM (no stack / constant /
   function-table / jump / global / state-storage access out of range, no cursor underflow, no arity panic) and never
   reaches an instruction outside the supported subset — for EVERY arithmetic `A` (the float operations are a
   parameter), every input, every machine state between samples, every fuel and any number of samples; dsp leaves
   exactly its declared number of words on the stack, the state storage has the size dsp's skeleton publishes and
   the state cursor is back at 0.  `OutOfFuel` only says that the given fuel was used up. *)
From Coq Require Import List ZArith NArith Bool.
From Mimium Require Import Bvm.Model Bvm.Verify Bvm.SoundTop Bvm.LmmmBridge Bvm.Examples.
From Mimium Require Lmmm.Machine.
Import ListNotations.
Local Open Scope N_scope.

(* one sample: VmDspRuntime::set_input + Machine::execute_idx(dsp).  `minv p m`: the globals have the declared size
   and the state cursor is 0 (Bvm/SoundTop.v); `dsp_fn p` is the function Program.dsp_index names. *)
Theorem C03_bvm_verified_safe : forall (p : program), verify p = true ->
  forall (A : arith) (fuel : nat) (inputs : list Z) (m : mach) (f : fn),
  dsp_fn p = Some f -> minv p m -> f_pwords f <= lenN inputs ->
  match exec_dsp A p fuel inputs m with
  | Ret n m' => n = f_nret f /\ lenN (m_stack m') = f_nret f /\ lenN (m_state m') = f_ssize f /\ minv p m'
  | OutOfFuel => True
  | Fault _ | Unsupported _ => False
  end.
Proof. exact exec_dsp_safe. Qed.

(* Machine::execute_main on the fresh machine *)
Theorem C03_bvm_main_safe : forall (p : program), verify p = true ->
  forall (A : arith) (fuel : nat),
  match exec_main A p fuel (mach0 p) with
  | Ret n m' => minv p m' /\ lenN (m_stack m') = n
  | OutOfFuel => True
  | Fault _ | Unsupported _ => False
  end.
Proof. exact exec_main_fresh_safe. Qed.

(* any number of samples, each with its own arithmetic (the external function `now` changes) and inputs *)
Theorem C03_bvm_session_safe : forall (p : program), verify p = true ->
  forall (fuel : nat) (f : fn) (steps : list (arith * list Z)) (m : mach),
  dsp_fn p = Some f -> minv p m -> Forall (fun s => f_pwords f <= lenN (snd s)) steps ->
  Forall (fun o => match o with
                   | Ret n m' => n = f_nret f /\ lenN (m_stack m') = f_nret f /\ lenN (m_state m') = f_ssize f /\ m_pos m' = 0
                   | OutOfFuel => True
                   | Fault _ | Unsupported _ => False
                   end) (run_session p fuel steps m).
Proof. exact run_session_safe. Qed.

(* An explicit fuel bound.  `costs p` proposes a cost per function; `term_ok p (costs p)` CHECKS it: every jump of
   every reachable instruction goes forward and the cost of a function covers its instructions plus the costs of the
   functions it calls (so there is no recursion).  Then `fuel_dsp p` units of fuel are enough: a dsp call of an
   accepted program returns. *)
Theorem C03_bvm_fuel : forall (p : program), verify p = true -> term_ok p (costs p) = true ->
  forall (A : arith) (fuel : nat) (inputs : list Z) (m : mach) (f : fn),
  dsp_fn p = Some f -> minv p m -> f_pwords f <= lenN inputs -> fuel_dsp p <= N.of_nat fuel ->
  exists n m', exec_dsp A p fuel inputs m = Ret n m' /\
               n = f_nret f /\ lenN (m_stack m') = f_nret f /\ lenN (m_state m') = f_ssize f /\ minv p m'.
Proof. exact exec_dsp_fuel. Qed.

(* The state primitives of the bytecode model ARE the VM-discipline primitives of the cursor machine Lmmm/Machine.v,
   about which C05 (layout), C02 (preservation) and C03_safety are proved: `lm_of m tr` is the Lmmm machine state holding
   m's state words and cursor (plus Lmmm's access trace, which the bytecode model does not keep). *)
Theorem C03_bvm_mem_is_lmmm_mem : forall (m : mach) (x : Z) (tr : list (N * N * N)),
  m_pos m + 1 <= lenN (m_state m) ->
  exists old tr', st_get m 1 = Some [old] /\
    Machine.mem1 Machine.VmD x (lm_of m tr) = Some (old, lm_of (st_put m 0 [x]) tr').
Proof. exact mem_agrees. Qed.

Theorem C03_bvm_delay_is_lmmm_delay : forall (A : arith) (m : mach) (n : N) (x t : Z) (tr : list (N * N * N)),
  m_pos m + 2 + n <= lenN (m_state m) ->
  exists res m' tr', delay_step A m n x t = Some (res, m') /\
    Machine.delay1 Machine.VmD n x (a_trunc A t) (lm_of m tr) = Some (res, lm_of m' tr').
Proof. exact delay_agrees. Qed.

(* ---- the hypotheses are satisfiable: a real dumped program (stateful calls in both arms of an if, mem, delay,
        an external function) is accepted and runs ---- *)
Example C03_bvm_ex_accepted : verify ex_stateful = true.
Proof. vm_compute. reflexivity. Qed.

Example C03_bvm_ex_runs :
  match after_main ex_stateful with
  | Some m => match exec_dsp toy ex_stateful 1000 [] m with
              | Ret n m' => n = 2 /\ lenN (m_stack m') = 2 /\ lenN (m_state m') = 9 /\ m_pos m' = 0
              | _ => False
              end
  | None => False
  end.
Proof. vm_compute. repeat split; reflexivity. Qed.

Example C03_bvm_ex_fuel : term_ok ex_stateful (costs ex_stateful) = true /\ fuel_dsp ex_stateful = 62.
Proof. vm_compute. split; reflexivity. Qed.

(* a real dump with a sum-type match (JmpTable, tagged unions, CloneUserSum on a type without boxed references) and
   stateful arms of different sizes *)
Example C03_bvm_ex_sum_match_accepted : verify ex_sum_match = true.
Proof. vm_compute. reflexivity. Qed.

(* ---- bad programs are rejected AND fault ---- *)
Example C03_bvm_ex_read_above_rejected :
  verify ex_read_above = false /\ after_main ex_read_above = Some (mkMach [] [] 0 []) /\
  exec_dsp toy ex_read_above 100 [] (mkMach [] [] 0 []) = Fault StackReadOOB.
Proof. vm_compute. repeat split; reflexivity. Qed.

Example C03_bvm_ex_unbalanced_rejected :
  verify ex_unbalanced = false /\ after_main ex_unbalanced = Some (mkMach [] [] 0 []) /\
  exec_dsp toy ex_unbalanced 100 [] (mkMach [] [] 0 []) = Fault StateOOB.
Proof. vm_compute. repeat split; reflexivity. Qed.

(* ---- a finding: the bytecode the compiler emits for `{a=1.0, b=5.0, ..} |> f3` (f3 has a third parameter with a
        default value) passes two argument words to a function of three parameter words; the verifier rejects it
        (function 3 = dsp, pc 8 = the Call) and the model faults where the real VM panics
        ("range end index 8 out of range for slice of length 7") ---- *)
Example C03_bvm_default_param_call_rejected :
  verify ex_default_param = false /\ first_bad ex_default_param = Some (3, 8) /\
  after_main ex_default_param = Some (mkMach [] [] 0 []) /\
  exec_dsp toy ex_default_param 100 [] (mkMach [] [] 0 []) = Fault StackReadOOB.
Proof. vm_compute. repeat split; reflexivity. Qed.
