(* Props/C18_rt.v — property theorems only; each closed by `exact <lemma>` (proofs in coq/theories/RustRt2/).

   C18, the RUNTIME OF GENERATED RUST (compiler/mimium_placeholder.rs.template + the array statements rustgen.rs emits) as the
   third implementation of the runtime-primitive contract Prims/Spec.v (the VM and the WASM host are the other two:
   Props/C01_prims.v).

   RustRt2/Model.v  literal transcription: handle encodings, MemoryStore (alloc ptr get_element load store), ArrayStorage +
                    array literal / element read / write (rustgen.rs) + the builtins len prepend append split_head split_tail
                    of call_ext, ClosureStorage, load_upvalue / store_upvalue, get_current_statestorage.  Err(String) = TErr
                    class, a panic = TPanic.  Every function is pinned to the current source text (checks/rtpl_part.py).
   RustRt2/Ops.v    [xop] = the contract's operations + the four list builtins, [xspec_step] the contract (the rule for the
                    four builtins read from the VM's plugin/builtin_functins.rs), [tpl_step] the template, [rt_pre] the
                    hypotheses (decidable, evaluated along the CONTRACT's run by [xpre_run]; the check evaluates the same
                    extracted predicate):
                      every handle argument is an array handle returned earlier, data mentions only handles returned so far;
                      an element-size argument is the array's own and not 0; a stored element has that many words;
                      a literal has fewer than 2^64 words.
                    (Since the repairs of findings C18/R1 and R2 there is no hypothesis on the index — every f64 bit pattern,
                    +infinity included — and none on the element size of `len`.)
   [res_rel t] (Prims/Pre.v) relates a contract result to an implementation result through the table t of the raw handles
   the implementation returned itself. *)
From Coq Require Import List ZArith NArith Bool.
From Mimium Require Import Lmmm.Machine Prims.Float Prims.Spec Prims.Impl Prims.Vm Prims.Pre Prims.Agree
  RustRt.Model RustRt2.Model RustRt2.Ops RustRt2.Handles RustRt2.Mem RustRt2.ArrStep RustRt2.ArrRun RustRt2.Closure RustRt2.Differs.
Import ListNotations.
Local Open Scope N_scope.

(* ---- arrays: the template refines the contract, for EVERY operation sequence of any length ---- *)
Theorem C18_rt_arrays_refine_spec : forall size now sr ops,
  xpre_run rt_pre (spec_init size now sr) ops = true ->
  Forall2 (res_rel (tpl_tabs ops)) (xspec_run (spec_init size now sr) ops) (tpl_run ops).
Proof. exact tpl_refines_spec. Qed.
Check C18_rt_arrays_refine_spec.

(* hence generated Rust and the VM agree on every sequence of the contract's array operations: both result lists are the
   contract's, each through its own handle table (with C01_prims_vm_refines_spec) *)
Theorem C18_rt_arrays_agree_with_vm : forall size now sr ops,
  N.of_nat (length ops) + 4 < 4294967296 ->
  pre_run vm_pre (spec_init size now sr) ops = true ->
  xpre_run rt_pre (spec_init size now sr) (map XBase ops) = true ->
  exists tv tt,
    Forall2 (res_rel tv) (spec_run (spec_init size now sr) ops) (vm_run size ops) /\
    Forall2 (res_rel tt) (spec_run (spec_init size now sr) ops) (tpl_run (map XBase ops)).
Proof. exact tpl_vm_agree. Qed.
Check C18_rt_arrays_agree_with_vm.

(* ... so every result without a handle (element reads, lengths, faults) is literally the same words on both *)
Theorem C18_rt_arrays_agree_numbers : forall size now sr ops i r x y,
  N.of_nat (length ops) + 4 < 4294967296 ->
  pre_run vm_pre (spec_init size now sr) ops = true ->
  xpre_run rt_pre (spec_init size now sr) (map XBase ops) = true ->
  nth_error (spec_run (spec_init size now sr) ops) i = Some r -> nums_only r = true ->
  nth_error (vm_run size ops) i = Some x -> nth_error (tpl_run (map XBase ops)) i = Some y ->
  x = y.
Proof. exact tpl_vm_agree_numbers. Qed.
Check C18_rt_arrays_agree_numbers.

(* ---- MemoryStore ---- *)
(* load after store returns what was stored (the first `size` words of src) *)
Theorem C18_rt_memory_load_store : forall m p src size m',
  ms_store m p src size = (m', TOk tt) -> ms_load m' p size = TOk (firstn (N.to_nat size) src).
Proof. exact load_after_store. Qed.
Check C18_rt_memory_load_store.

(* a store changes nothing outside its range: a load through any live handle whose range lies in another slot, before or
   after the stored range returns what it returned before *)
Theorem C18_rt_memory_store_frame : forall m p src size m' q qsize ptr qptr,
  ms_store m p src size = (m', TOk tt) -> ms_ptr m p = TOk ptr -> ms_ptr m q = TOk qptr ->
  (p_slot qptr <> p_slot ptr \/ p_off qptr + qsize <= p_off ptr \/ p_off ptr + size <= p_off qptr) ->
  ms_load m' q qsize = ms_load m q qsize.
Proof. exact store_other_range. Qed.
Check C18_rt_memory_store_frame.

(* alloc returns a handle that named nothing before, points to a NEW zeroed slot, and is disjoint from every live handle:
   their pointers, their slots and every load through them are unchanged (fewer than 2^61 pointers: the tag bit) *)
Theorem C18_rt_memory_alloc_fresh : forall m size m' h,
  ms_wf m -> nlen (ms_ptrs m) + 1 < 2 ^ 61 -> size < TWO64 -> ms_alloc m size = (m', h) ->
  ms_ptr m h = TErr EInvalidMem /\
  ms_ptr m' h = TOk (mkPtr (nlen (ms_slots m)) 0) /\
  ms_load m' h size = TOk (repeat 0 (N.to_nat size)) /\
  ms_wf m' /\
  (forall q qptr, ms_ptr m q = TOk qptr -> q <> h /\ ms_ptr m' q = TOk qptr /\ p_slot qptr <> nlen (ms_slots m) /\
     forall qsize, ms_load m' q qsize = ms_load m q qsize).
Proof. exact alloc_fresh. Qed.
Check C18_rt_memory_alloc_fresh.

(* the exact bounds behaviour: a range that leaves the slot is Err (nothing changes, no panic) ... *)
Theorem C18_rt_memory_load_out_of_range : forall m p size ptr slot,
  ms_ptr m p = TOk ptr -> nget (ms_slots m) (p_slot ptr) = Some slot ->
  nlen slot < p_off ptr + size -> p_off ptr + size < TWO64 -> ms_load m p size = TErr ELoadOOB.
Proof. exact load_out_of_range. Qed.
Theorem C18_rt_memory_store_out_of_range : forall m p src size ptr slot,
  ms_ptr m p = TOk ptr -> nget (ms_slots m) (p_slot ptr) = Some slot ->
  nlen slot < p_off ptr + size -> p_off ptr + size < TWO64 -> ms_store m p src size = (m, TErr EStoreOOB).
Proof. exact store_out_of_range. Qed.
(* ... get_element checks nothing (a pointer past the end can be made; the Err comes at the access) ... *)
Theorem C18_rt_memory_get_element_unchecked : forall m p off ptr,
  ms_ptr m p = TOk ptr -> p_off ptr + off < TWO64 ->
  ms_get_element m p off =
    (mkMS (ms_slots m) (ms_ptrs m ++ [mkPtr (p_slot ptr) (p_off ptr + off)]), TOk (encode_memory (nlen (ms_ptrs m) + 1))).
Proof. exact get_element_unchecked. Qed.
(* ... and a word that is no live pointer handle loads as ITSELF when one word is asked *)
Theorem C18_rt_memory_load_immediate_fallback : forall m w, ms_ptr m w = TErr EInvalidMem -> ms_load m w 1 = TOk [w].
Proof. exact load_immediate_fallback. Qed.

(* ---- handle encodings ---- *)
Theorem C18_rt_handles_roundtrip : forall i,
  (i < 2 ^ 61 -> decode_memory (encode_memory i) = Some i) /\
  (i < 2 ^ 62 -> decode_closure (encode_closure i) = Some i) /\
  (i < 2 ^ 63 -> decode_function (encode_function i) = Some i).
Proof. exact (fun i => conj (decode_encode_memory i) (conj (decode_encode_closure i) (decode_encode_function i))). Qed.
Check C18_rt_handles_roundtrip.

Theorem C18_rt_handles_disjoint : forall i, i < 2 ^ 61 ->
  decode_memory (encode_closure i) = None /\ decode_memory (encode_function i) = None /\
  decode_closure (encode_memory i) = None /\ decode_closure (encode_function i) = None /\
  decode_function (encode_closure i) = Some (encode_closure i) /\ decode_function (encode_memory i) = Some (encode_memory i).
Proof. exact handles_disjoint. Qed.
Check C18_rt_handles_disjoint.

(* ---- closures ---- *)
Theorem C18_rt_closure_cells_shared : forall m c h1 i1 h2 i2 cl1 cl2 p src size m' c',
  cs_get c h1 = TOk cl1 -> cs_get c h2 = TOk cl2 ->
  nget (c_up cl1) i1 = Some p -> nget (c_ind cl1) i1 = Some true ->
  nget (c_up cl2) i2 = Some p -> nget (c_ind cl2) i2 = Some true ->
  store_upvalue m c h1 i1 src size = (m', c', TOk tt) ->
  c' = c /\ load_upvalue m' c' h2 i2 size = TOk (firstn (N.to_nat size) src).
Proof. exact cells_shared. Qed.
Check C18_rt_closure_cells_shared.

Theorem C18_rt_closure_direct_upvalue_own : forall m c h i cl v src m' c',
  cs_get c h = TOk cl -> nget (c_ind cl) i = Some false -> nget (c_up cl) i = Some v ->
  store_upvalue m c h i src 1 = (m', c', TOk tt) ->
  m' = m /\ forall j, j <> cs_index h -> nth_error c' j = nth_error c j.
Proof. exact direct_upvalue_own. Qed.

Theorem C18_rt_closure_state_own : forall c x i v c' x' prev,
  current_storage c x = TOk (LClo i) -> state_mem c x v = (c', x', TOk prev) ->
  x' = x /\ (forall j, j <> i -> nth_error c' j = nth_error c j) /\
  exists cl, nth_error c i = Some cl /\
    nth_error c' i = Some (mkClo (c_fn cl) (c_up cl) (c_ind cl) (snd (ss_mem (Z.of_N v) (c_st cl)))) /\
    prev = Z.to_N (fst (ss_mem (Z.of_N v) (c_st cl))).
Proof. exact closure_state_own. Qed.

(* ---- outside the hypotheses: where generated Rust differs (witnesses replayed on the real runtime) ---- *)
Theorem C18_rt_zero_handle_differs :
  xspec_run (spec_init 0 0 0) w_zero = [SFault FInvalidHandle] /\
  tpl_run w_zero = [IHandle 1; IWords [7]] /\
  xpre_run rt_pre (spec_init 0 0 0) w_zero = false.
Proof. exact zero_handle_differs. Qed.

Theorem C18_rt_float_bits_are_a_handle :
  ms_load ms_new F22_WORD 1 = TOk [F22_WORD] /\
  (let m := fst (ms_alloc ms_new 1) in
   let m := fst (ms_store m (encode_memory 1) [F30] 1) in
   ms_load m F22_WORD 1 = TOk [F30]).
Proof. exact float_bits_are_a_handle. Qed.

(* ---- REPAIRED differences (findings C18/R1 R2), kept as regression: generated Rust, the VM and the contract agree, and the
   sequences are inside the hypotheses now ---- *)
Example C18_rt_index_infinity_agrees :
  spec_run (spec_init 0 0 0) w_inf = [SArrH 0; SVals [VNum F30]] /\
  vm_run 0 w_inf = [IHandle 4294967297; IWords [F30]] /\
  tpl_run (map XBase w_inf) = [IHandle 1; IWords [F30]] /\
  xpre_run rt_pre (spec_init 0 0 0) (map XBase w_inf) = true /\
  pre_run vm_pre (spec_init 0 0 0) w_inf = true.
Proof. exact index_infinity_agrees. Qed.

Example C18_rt_len_counts_elements :
  spec_run (spec_init 0 0 0) w_len2 = [SArrH 0; SVals [VNum (f64_of_N 2)]] /\
  vm_run 0 w_len2 = [IHandle 4294967297; IWords [f64_of_N 2]] /\
  tpl_run (map XBase w_len2) = [IHandle 1; IWords [f64_of_N 2]] /\
  xpre_run rt_pre (spec_init 0 0 0) (map XBase w_len2) = true /\
  pre_run vm_pre (spec_init 0 0 0) w_len2 = true.
Proof. exact len_counts_elements. Qed.

(* the index conversion of the emitted element accesses is the contract's, for EVERY index word (finite, NaN, both
   infinities) *)
Theorem C18_rt_index_is_contract : forall idx len, len <> 0 -> ta_index idx len = clamp_index idx len.
Proof. exact ta_index_clamp. Qed.

(* ---- the hypotheses are satisfiable ---- *)
Example C18_rt_ex_pre : xpre_run rt_pre (spec_init 0 0 0) ex_ops = true.
Proof. exact ex_pre. Qed.
Example C18_rt_ex_run :
  tpl_run ex_ops = [IHandle 1; IUnit; IHandle 2; IHandle 3; IWords [7; 8; 4]; IWords [5; 9; 1]; IWords [1; 2]; IHandle 6;
                    IWords [f64_of_N 3]].
Proof. exact ex_run. Qed.
Example C18_rt_ex_with_vm :
  pre_run vm_pre (spec_init 0 0 0) ex_base = true /\ xpre_run rt_pre (spec_init 0 0 0) (map XBase ex_base) = true /\
  tpl_run (map XBase ex_base) = [IHandle 1; IWords [F20]; IWords [F10]].
Proof. exact ex_base_pre. Qed.
Example C18_rt_ex_memory :
  let (m, h) := ms_alloc ms_new 3 in
  ms_wf ms_new /\ ms_store m h [5; 6] 2 = (mkMS [[5; 6; 0]] [mkPtr 0 0], TOk tt) /\
  ms_load (mkMS [[5; 6; 0]] [mkPtr 0 0]) h 3 = TOk [5; 6; 0].
Proof. exact (conj (Forall_nil _) (conj eq_refl eq_refl)). Qed.
Example C18_rt_ex_cells :
  let (m, p) := ms_alloc ms_new 1 in
  let c := fst (cs_alloc (fst (cs_alloc [] (encode_function 1) [p] [true] 0)) (encode_function 2) [p] [true] 0) in
  let '(m', c', r) := store_upvalue m c (encode_closure 0) 0 [42] 1 in
  r = TOk tt /\ load_upvalue m' c' (encode_closure 1) 0 1 = TOk [42].
Proof. exact (conj eq_refl eq_refl). Qed.
