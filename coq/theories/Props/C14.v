(* Props/C14.v — property theorems only; each closed by `exact <lemma>` (proofs in Fmt/{Render,Breaks,Emits,Witness,Witness2}.v).

   C14: "For every syntactically valid program and every line width, the formatter's output parses without errors to the same
   abstract syntax tree as the input, contains every comment of the input in the same order, and is a fixed point."

   What is proved here (over Fmt/Model.v) and what is not
   * The layout engine of the `pretty` crate is NOT modelled.  Instead every theorem quantifies over ALL admissible renderings
     of a document (every flat/broken choice per group), which contains the rendering picked for any width and any indent.
   * `doc_of` transcribes cst_print.rs arm by arm for the WHOLE syntax (see Fmt/Model.v header): expressions, statements,
     match (arms, patterns), type declarations (`type`, `type rec`, `type alias`), `use` (single, list, wildcard), `mod`,
     `pub`, `#stage(..)`, macro definitions and calls, quote / splice, `include`, record update / incomplete records, default
     parameters, all type forms.  Only Error nodes (texts with syntax errors) are outside (`in_fragment c = false`).
   * The parser is represented by its line-break rule only: `observed r` are the answers of has_trailing_linebreak() at the
     SENSITIVE positions, i.e. where the answer decides the parse:
       (1) before a postfix opener `(` `[` `.` that follows a token which can end an expression (parse_postfix_expr) --
           between two statements of a block / module / program, between the condition of an `if` and a then-branch that
           starts with `(` `[`, between a match arm and a following arm whose pattern starts with `(`;
       (2) before the comma that follows a match arm (parse_match_expr: after a line break the parser starts the next arm).
     The other uses of has_trailing_linebreak() (parse_expr_with_precedence, parse_block_expr) leave a loop where it would be
     left anyway; type declarations (`|` continuation lines), `use` lists and patterns never consult it.
     C14_breaks_safe_same_parse_partial / C14_same_parse_as_source_partial are stated for ANY function of (token words,
     those answers).  That the real parser is such a function is checked by checks/C14.py (re-layout test), not proved.
   * The comment clause ("contains every comment of the input in the same order") is proved over the trivia maps of the
     pre-parser model (Lexer/Model.v `preparse`, the transcription of preparser.rs used by C13): C14_trivia_attached_in_order
     (for EVERY token list) and C14_comments_emitted_once_in_order_partial (for a green tree whose leaves carry those maps).
   * Theorems named `_partial` cover the fragment / rest on a hypothesis that is validated by the correspondence check.
   * The defects the faithful model used to reproduce (`_refuted` theorems of the previous version) are repaired in
     cst_print.rs; their witnesses are now positive Examples at the end of this file. *)
From Coq Require Import String Ascii List Bool Arith NArith Sorted.
From Mimium Require Import Tables.LexerTables Lexer.Model Lexer.PreLemmas.
From Mimium Require Import Fmt.Model Fmt.Render Fmt.Breaks Fmt.Emits Fmt.Witness Fmt.Witness2 Fmt.Attach Fmt.Comments Fmt.Witness3.
Import ListNotations.
Local Open Scope string_scope.
Local Open Scope list_scope.

(* Every rendering of a document -- whatever the width and whatever groups get broken -- consists of exactly the words
   (non-blank texts: token texts and comment texts) of the document, in order: laying out never adds, drops, reorders or
   merges-by-choice a token or a comment. *)
Theorem C14_any_layout_same_tokens : forall (d : doc) (r : list atom),
  In r (renderings d) -> words r = dwords d.
Proof. exact any_layout_same_tokens. Qed.

(* Hence: if the document built for a green tree emits every token text and every comment text of the tree once and in order
   (hypothesis emits_all; decided by computation for each program by the check, and compared with the real output), every
   admissible rendering has the token and comment sequence of the source. *)
Theorem C14_emits_all_same_tokens : forall (ind : nat) (c : cst) (r : list atom),
  emits_all ind c -> In r (renderings (doc_of ind c)) -> words r = cst_words c.
Proof. exact emits_all_same_tokens. Qed.

(* The hypothesis is PROVED for every tree whose nodes are all printed by plain concatenation of their children (statements,
   literals, identifiers, unary / call / parenthesised / field-access / index expressions, type annotations): every token is
   emitted by emit_token_with_trivia, which emits the text and every comment of the trivia.  (For the nodes with a printing
   state machine -- lists, blocks, if, lambda, let, records -- emits_all is decided per program by the check.) *)
Theorem C14_emits_all_concat_partial : forall (ind : nat) (c : cst), concat_only c = true -> emits_all ind c.
Proof. exact emits_all_concat. Qed.

(* If no optional break point of the document lies between a token that can end an expression and a following postfix
   opener `(` `[` `.` (safe_breaks), then all renderings show the parser the same line-break flags at every position where
   the parser lets a line break decide. *)
Theorem C14_breaks_safe : forall (d : doc) (r1 r2 : list atom),
  safe_breaks d = true -> In r1 (renderings d) -> In r2 (renderings d) -> observed r1 = observed r2.
Proof. exact breaks_safe. Qed.

(* ... so any parser that is a function of the token sequence and of those flags gives the same result for every rendering,
   i.e. for every width and indent ("the statement-termination rule splits the tokens the same way"). *)
Theorem C14_breaks_safe_same_parse_partial :
  forall (A : Type) (parse : list string -> list bool -> A) (d : doc) (r1 r2 : list atom),
  safe_breaks d = true -> In r1 (renderings d) -> In r2 (renderings d) ->
  parse (words r1) (observed r1) = parse (words r2) (observed r2).
Proof. exact breaks_safe_parse. Qed.

(* Under safe_breaks the flags every rendering shows the parser are the flags the document FORCES (a hard line between the two
   tokens: true; no break point: false): a function of the document alone, computed by doc_flags. *)
Theorem C14_breaks_forced : forall (d : doc) (r : list atom),
  safe_breaks d = true -> In r (renderings d) -> observed r = doc_flags d.
Proof. exact breaks_forced. Qed.

(* If, moreover, these are the flags the SOURCE shows the parser (keeps_breaks: safe_breaks and doc_flags = src_observed,
   decided by computation for each program by the check), every rendering -- every width, every indent -- gives the parser
   the line-break flags of the source at every sensitive position. *)
Theorem C14_breaks_as_source : forall (ind : nat) (c : cst) (r : list atom),
  keeps_breaks ind c = true -> In r (renderings (doc_of ind c)) -> observed r = src_observed c.
Proof. exact breaks_as_source. Qed.

(* ... so, together with emits_all, any parser that is a function of the token/comment sequence and of those flags gives for
   every rendering the result it gives for the source: "the output parses to the same tree as the input". *)
Theorem C14_same_parse_as_source_partial :
  forall (A : Type) (parse : list string -> list bool -> A) (ind : nat) (c : cst) (r : list atom),
  emits_all ind c -> keeps_breaks ind c = true -> In r (renderings (doc_of ind c)) ->
  parse (words r) (observed r) = parse (cst_words c) (src_observed c).
Proof. exact same_parse_as_source. Qed.

(* emits_all is compositional over the nodes printed by concatenation (with blanks or forced breaks between the children):
   statements, unary / call / parenthesised expressions, leaf-like nodes, and now match expressions, arm lists, arms,
   patterns, type declarations and variants.  The children may be nodes with a printing state machine. *)
Theorem C14_emits_all_node_partial : forall (ind : nat) (k : skind) (cs : list cst),
  concat_kind k = true -> Forall (emits_all ind) cs -> emits_all ind (Node k cs).
Proof. exact emits_all_node. Qed.

(* The membership test the correspondence check runs on the real output is sound: a text it accepts IS the flattening of an
   admissible rendering of the model document. *)
Theorem C14_membership_sound : forall (d : doc) (s : string),
  is_rendering d s = true -> exists r, In r (renderings d) /\ flat_string r = s.
Proof. exact is_rendering_sound. Qed.

(* Idempotence, for any deterministic renderer `pick` that depends only on the linear structure of the document: if
   re-parsing the output gives a tree whose document has the same linear structure (hypothesis; checked on the real parser
   for every fragment program x width x indent by checks/C14.py), formatting the output returns it unchanged. *)
Theorem C14_idempotent_partial :
  forall (ind : nat) (parse : string -> option cst) (pick : doc -> string),
  (forall d d', same_doc d d' = true -> pick d = pick d') ->
  (forall s c, parse s = Some c ->
     exists c', parse (pick (doc_of ind c)) = Some c' /\ same_doc (doc_of ind c') (doc_of ind c) = true) ->
  forall s o,
    option_map (fun c => pick (doc_of ind c)) (parse s) = Some o ->
    option_map (fun c => pick (doc_of ind c)) (parse o) = Some o.
Proof. exact idempotent_partial. Qed.

(* ---- the comment clause ------------------------------------------------------------------------------------------------ *)
(* emit_token_with_trivia prints, for the k-th syntax token, its leading trivia, the token, its trailing trivia (both looked up
   in the maps of the pre-parser).  Taken over the syntax tokens in order, these lookups yield exactly the trivia tokens of the
   input that the pre-parser does not drop (finding C13/F5), each ONCE and in SOURCE ORDER -- for every token list. *)
Theorem C14_trivia_attached_in_order : forall (toks : list Token),
  attached_seq (preparse toks) = survivors toks.
Proof. exact attached_in_order. Qed.

Theorem C14_trivia_attached_sorted : forall (toks : list Token),
  StronglySorted N.lt (attached_seq (preparse toks)).
Proof. exact attached_sorted. Qed.

(* Hence, for a green tree whose leaves are the syntax tokens in order, each with the trivia of those maps (`decorated`: this
   is what parse_cst + the per-token lookups give the printer, C13_cst_leaves), and a document that emits every word of the
   tree (emits_all), the comment words of the document -- so, by C14_any_layout_same_tokens, of every rendering -- are the
   comments of the input that are not dropped, once each, in source order.  The two lexical hypotheses say that a comment
   token reads `//..` or `/*..` and a syntax token does not. *)
Theorem C14_comments_emitted_once_in_order_partial :
  forall (txt : N -> string) (toks : list Token) (ind : nat) (c : cst),
  decorated txt toks c -> emits_all ind c -> comment_texts_ok txt toks -> token_texts_ok c ->
  comments_in (dwords (doc_of ind c)) = trivia_words (map (triv_of txt toks) (survivors toks)).
Proof. exact comments_emitted_once_in_order. Qed.

(* the hypotheses are satisfiable: "a // c" newline "b" with the maps computed by the pre-parser model *)
Example C14_ex_comments_hypotheses :
  decorated w3_txt w3_toks w3_cst /\ emits_all 4 w3_cst /\ comment_texts_ok w3_txt w3_toks /\ token_texts_ok w3_cst /\
  survivors w3_toks = [1%N; 2%N; 3%N] /\ comments_in (dwords (doc_of 4 w3_cst)) = ["// c"].
Proof. exact (conj w3_decorated (conj w3_emits_all (conj w3_comment_texts_ok (conj w3_token_texts_ok (conj w3_survivors w3_comments))))). Qed.

(* ---- former findings (repaired in cst_print.rs; the model follows the repaired printer) ------------------------------ *)
(* Each example is the witness of a defect that Props/C14.v used to refute; the sources are regression inputs of
   checks/C14.py (corpus/C14/cases.txt).  The parser-side finding FM10 (`([a,])`, is_tuple_expr) is not a printer defect
   and stays in KNOWN_FINDINGS.txt. *)

(* "if (c)\n (a, b) else d": the break before a then-branch that starts with `(` is forced, so no optional break decides
   a sensitive position (safe_breaks) and C14_breaks_safe applies: every width gives the parser the same flags *)
Example C14_ex_if_then_bracket_safe :
  in_fragment c_if_then_bracket = true /\ safe_breaks (doc_of 4 c_if_then_bracket) = true /\ emits_all 4 c_if_then_bracket.
Proof. exact if_then_bracket_safe. Qed.

(* "(a, /* c */ b)": the comment of the comma is emitted *)
Example C14_ex_comma_comment_kept : in_fragment c_comma_comment = true /\ emits_all 4 c_comma_comment.
Proof. exact comma_comment_kept. Qed.

(* "fn f(){ 1 } // done\n// about g\nfn g(){ 2 }": the comments in the trivia of `}` are emitted *)
Example C14_ex_brace_comment_kept : in_fragment c_brace_comment = true /\ emits_all 4 c_brace_comment /\
  comments_in (dwords (doc_of 4 c_brace_comment)) = ["// done"; "// about g"].
Proof. exact brace_comment_kept. Qed.

(* "if gate {x}": every rendering starts with `if gate` *)
Example C14_ex_if_without_parenthesis :
  in_fragment c_if_word = true /\ all_renderings (doc_of 4 c_if_word) (prefix "if gate") = true.
Proof. exact if_word_spaced. Qed.

(* "- -x": every rendering is `- -x` *)
Example C14_ex_sign_of_signed :
  in_fragment c_neg_neg = true /\ all_renderings (doc_of 4 c_neg_neg) (prefix "- -x") = true.
Proof. exact neg_neg_spaced. Qed.

(* "fn f(x:float){x}": the parameter stays with its type annotation *)
Example C14_ex_typed_parameter :
  in_fragment c_typed_param = true /\ all_renderings (doc_of 4 c_typed_param) (contains "(x:float)") = true.
Proof. exact typed_param_together. Qed.

(* "| | x": the bars stay apart *)
Example C14_ex_lambda_without_parameters :
  in_fragment c_lambda0 = true /\ all_renderings (doc_of 4 c_lambda0) (prefix "| | x") = true.
Proof. exact lambda0_spaced. Qed.

(* "(a,)": the comma that makes it a tuple stays *)
Example C14_ex_one_element_tuple :
  in_fragment c_tuple1 = true /\ all_renderings (doc_of 4 c_tuple1) (String.eqb "(a,)") = true.
Proof. exact tuple1_comma_kept. Qed.

(* "if (a) x = 1 else y": the whole assignment is the then-branch *)
Example C14_ex_if_branch_assignment :
  in_fragment c_if_assign = true /\ emits_all 4 c_if_assign /\
  all_renderings (doc_of 4 c_if_assign) (contains "x = 1") = true.
Proof. exact if_assign_kept. Qed.

(* ---- the rest of the syntax: the defects FM11..FM14 (repaired) and the new sensitive position ----------------------- *)
(* "macro m(x){ x }": keyword and name stay apart *)
Example C14_ex_macro_definition :
  in_fragment c_macro_def = true /\ emits_all 4 c_macro_def /\ all_renderings (doc_of 4 c_macro_def) (prefix "macro m(x){") = true.
Proof. exact macro_def_spaced. Qed.

(* "mod k { x\n (a) }": the body of a module is laid out like a block; the line break of the source before `(a)` is forced
   in every rendering (the only rendering is shown) *)
Example C14_ex_module_body :
  in_fragment c_mod_body = true /\ emits_all 4 c_mod_body /\ keeps_breaks 4 c_mod_body = true /\
  src_observed c_mod_body = [true] /\
  all_renderings (doc_of 4 c_mod_body) (String.eqb ("mod k {" ++ newline 4 ++ "x" ++ newline 4 ++ "(a)" ++ newline 0 ++ "}")) = true.
Proof. exact mod_body_laid_out. Qed.

(* "pub mod m { use a::b\n use c::{d, e} }" *)
Example C14_ex_module_use :
  in_fragment c_mod_use = true /\ emits_all 4 c_mod_use /\ keeps_breaks 4 c_mod_use = true /\
  all_renderings (doc_of 4 c_mod_use) (contains ("use a::b" ++ newline 4 ++ "use c::{d, e}")) = true.
Proof. exact mod_use_kept. Qed.

(* "match p {\n 0 => f\n (1, 2) => 2.0, _ => g }": two sensitive positions -- before the `(` of the second arm (line break in
   the source, forced in the document) and before the comma after the second arm (no line break, no break point) *)
Example C14_ex_match_arm_paren :
  in_fragment c_match_paren = true /\ emits_all 4 c_match_paren /\ keeps_breaks 4 c_match_paren = true /\
  src_observed c_match_paren = [true; false] /\ doc_flags (doc_of 4 c_match_paren) = [true; false].
Proof. exact match_paren_arm_kept. Qed.

(* "let f = |x|->float|string x" *)
Example C14_ex_lambda_union_return :
  in_fragment c_lam_union = true /\ emits_all 4 c_lam_union /\
  all_renderings (doc_of 4 c_lam_union) (String.eqb "let f = |x|->float|string x") = true.
Proof. exact lam_union_spaced. Qed.

(* "type T = A // c\n | B(float)": a type declaration is printed by concatenation with blanks; the `|` continuation line is
   not a sensitive position (src_observed lists only `B (`, not broken) *)
Example C14_ex_type_declaration :
  forallb concat_only (children c_type_decl) = true /\ emits_all 4 c_type_decl /\ keeps_breaks 4 c_type_decl = true /\
  all_renderings (doc_of 4 c_type_decl) (String.eqb ("type T = A // c" ++ newline 0 ++ " | B ( float )")) = true.
Proof. exact type_decl_concat. Qed.

(* safe_breaks is not vacuous: a document with an optional break before a postfix opener has renderings the parser tells apart *)
Example C14_ex_unsafe_document : safe_breaks d_unsafe = false /\
  exists r1 r2, In r1 (renderings d_unsafe) /\ In r2 (renderings d_unsafe) /\ observed r1 <> observed r2.
Proof. exact unsafe_example. Qed.

(* ---- the hypotheses of the positive theorems are satisfiable: "fn f(a, b){ let x = g(a, b) + 1 // sum\n  x |> h }" ---- *)
Example C14_ex_in_fragment : in_fragment c_ok = true.
Proof. exact ok_in_fragment. Qed.
Example C14_ex_safe_breaks : safe_breaks (doc_of 4 c_ok) = true.
Proof. exact ok_safe. Qed.
Example C14_ex_emits_all : emits_all 4 c_ok.
Proof. exact ok_emits_all. Qed.
Example C14_ex_keeps_breaks : keeps_breaks 4 c_ok = true.
Proof. exact ok_keeps_breaks. Qed.
Example C14_ex_concat_only : concat_only c_concat = true /\ cst_words c_concat = ["-"; "a"; "."; "b"; "/* c */"].
Proof. exact c_concat_ok. Qed.
Example C14_ex_has_renderings : renderings (doc_of 4 c_ok) <> [].
Proof. exact ok_has_renderings. Qed.
