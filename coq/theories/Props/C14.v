(* Props/C14.v — property theorems only; each closed by `exact <lemma>` (proofs in Fmt/{Render,Breaks,Emits,Witness}.v).

   C14: "For every syntactically valid program and every line width, the formatter's output parses without errors to the same
   abstract syntax tree as the input, contains every comment of the input in the same order, and is a fixed point."

   What is proved here (over Fmt/Model.v) and what is not
   * The layout engine of the `pretty` crate is NOT modelled.  Instead every theorem quantifies over ALL admissible renderings
     of a document (every flat/broken choice per group), which contains the rendering picked for any width and any indent.
   * `doc_of` transcribes cst_print.rs for the expression/statement fragment only (see Fmt/Model.v header); match, type
     declarations, modules, `use`, visibility are outside (`in_fragment c = false`); for those only the facts of the
     property are checked directly on the implementation.
   * The parser is represented by its line-break rule only: `observed r` are the answers of has_trailing_linebreak() at the
     positions where parse_postfix_expr consults it with a postfix opener ahead; C14_breaks_safe_same_parse_partial is
     stated for ANY function of (token words, those answers).  That the real parser is such a function is checked by
     checks/C14.py (re-layout test), not proved.
   * Theorems named `_partial` cover the fragment / rest on a hypothesis that is validated by the correspondence check.
   * The defects the faithful model used to reproduce (`_refuted` theorems of the previous version) are repaired in
     cst_print.rs; their witnesses are now positive Examples at the end of this file. *)
From Coq Require Import String Ascii List Bool Arith.
From Mimium Require Import Fmt.Model Fmt.Render Fmt.Breaks Fmt.Emits Fmt.Witness.
Import ListNotations.
Local Open Scope string_scope.
Local Open Scope list_scope.

(* Every rendering of a document -- whatever the width and whatever groups get broken -- consists of exactly the words
   (non-blank texts: token texts and comment texts) of the document, in order: laying out never adds, drops, reorders or
   merges-by-choice a token or a comment. *)
Theorem C14_any_layout_same_tokens : forall (d : doc) (r : list atom),
  In r (renderings d) -> words r = dwords d.
Proof. exact any_layout_same_tokens. Qed.

(* Hence: if the document built for a green tree emits every token text and every comment text of the tree once and in order
   (hypothesis emits_all; decided by computation for each program by the check, and compared with the real output), every
   admissible rendering has the token and comment sequence of the source. *)
Theorem C14_emits_all_same_tokens : forall (ind : nat) (c : cst) (r : list atom),
  emits_all ind c -> In r (renderings (doc_of ind c)) -> words r = cst_words c.
Proof. exact emits_all_same_tokens. Qed.

(* The hypothesis is PROVED for every tree whose nodes are all printed by plain concatenation of their children (statements,
   literals, identifiers, unary / call / parenthesised / field-access / index expressions, type annotations): every token is
   emitted by emit_token_with_trivia, which emits the text and every comment of the trivia.  (For the nodes with a printing
   state machine -- lists, blocks, if, lambda, let, records -- emits_all is decided per program by the check.) *)
Theorem C14_emits_all_concat_partial : forall (ind : nat) (c : cst), concat_only c = true -> emits_all ind c.
Proof. exact emits_all_concat. Qed.

(* If no optional break point of the document lies between a token that can end an expression and a following postfix
   opener `(` `[` `.` (safe_breaks), then all renderings show the parser the same line-break flags at every position where
   the parser lets a line break decide. *)
Theorem C14_breaks_safe : forall (d : doc) (r1 r2 : list atom),
  safe_breaks d = true -> In r1 (renderings d) -> In r2 (renderings d) -> observed r1 = observed r2.
Proof. exact breaks_safe. Qed.

(* ... so any parser that is a function of the token sequence and of those flags gives the same result for every rendering,
   i.e. for every width and indent ("the statement-termination rule splits the tokens the same way"). *)
Theorem C14_breaks_safe_same_parse_partial :
  forall (A : Type) (parse : list string -> list bool -> A) (d : doc) (r1 r2 : list atom),
  safe_breaks d = true -> In r1 (renderings d) -> In r2 (renderings d) ->
  parse (words r1) (observed r1) = parse (words r2) (observed r2).
Proof. exact breaks_safe_parse. Qed.

(* The membership test the correspondence check runs on the real output is sound: a text it accepts IS the flattening of an
   admissible rendering of the model document. *)
Theorem C14_membership_sound : forall (d : doc) (s : string),
  is_rendering d s = true -> exists r, In r (renderings d) /\ flat_string r = s.
Proof. exact is_rendering_sound. Qed.

(* Idempotence, for any deterministic renderer `pick` that depends only on the linear structure of the document: if
   re-parsing the output gives a tree whose document has the same linear structure (hypothesis; checked on the real parser
   for every fragment program x width x indent by checks/C14.py), formatting the output returns it unchanged. *)
Theorem C14_idempotent_partial :
  forall (ind : nat) (parse : string -> option cst) (pick : doc -> string),
  (forall d d', same_doc d d' = true -> pick d = pick d') ->
  (forall s c, parse s = Some c ->
     exists c', parse (pick (doc_of ind c)) = Some c' /\ same_doc (doc_of ind c') (doc_of ind c) = true) ->
  forall s o,
    option_map (fun c => pick (doc_of ind c)) (parse s) = Some o ->
    option_map (fun c => pick (doc_of ind c)) (parse o) = Some o.
Proof. exact idempotent_partial. Qed.

(* ---- former findings (repaired in cst_print.rs; the model follows the repaired printer) ------------------------------ *)
(* Each example is the witness of a defect that Props/C14.v used to refute; the sources are regression inputs of
   checks/C14.py (corpus/C14/cases.txt).  The parser-side finding FM10 (`([a,])`, is_tuple_expr) is not a printer defect
   and stays in KNOWN_FINDINGS.txt. *)

(* "if (c)\n (a, b) else d": the break before a then-branch that starts with `(` is forced, so no optional break decides
   a sensitive position (safe_breaks) and C14_breaks_safe applies: every width gives the parser the same flags *)
Example C14_ex_if_then_bracket_safe :
  in_fragment c_if_then_bracket = true /\ safe_breaks (doc_of 4 c_if_then_bracket) = true /\ emits_all 4 c_if_then_bracket.
Proof. exact if_then_bracket_safe. Qed.

(* "(a, /* c */ b)": the comment of the comma is emitted *)
Example C14_ex_comma_comment_kept : in_fragment c_comma_comment = true /\ emits_all 4 c_comma_comment.
Proof. exact comma_comment_kept. Qed.

(* "fn f(){ 1 } // done\n// about g\nfn g(){ 2 }": the comments in the trivia of `}` are emitted *)
Example C14_ex_brace_comment_kept : in_fragment c_brace_comment = true /\ emits_all 4 c_brace_comment /\
  comments_in (dwords (doc_of 4 c_brace_comment)) = ["// done"; "// about g"].
Proof. exact brace_comment_kept. Qed.

(* "if gate {x}": every rendering starts with `if gate` *)
Example C14_ex_if_without_parenthesis :
  in_fragment c_if_word = true /\ all_renderings (doc_of 4 c_if_word) (prefix "if gate") = true.
Proof. exact if_word_spaced. Qed.

(* "- -x": every rendering is `- -x` *)
Example C14_ex_sign_of_signed :
  in_fragment c_neg_neg = true /\ all_renderings (doc_of 4 c_neg_neg) (prefix "- -x") = true.
Proof. exact neg_neg_spaced. Qed.

(* "fn f(x:float){x}": the parameter stays with its type annotation *)
Example C14_ex_typed_parameter :
  in_fragment c_typed_param = true /\ all_renderings (doc_of 4 c_typed_param) (contains "(x:float)") = true.
Proof. exact typed_param_together. Qed.

(* "| | x": the bars stay apart *)
Example C14_ex_lambda_without_parameters :
  in_fragment c_lambda0 = true /\ all_renderings (doc_of 4 c_lambda0) (prefix "| | x") = true.
Proof. exact lambda0_spaced. Qed.

(* "(a,)": the comma that makes it a tuple stays *)
Example C14_ex_one_element_tuple :
  in_fragment c_tuple1 = true /\ all_renderings (doc_of 4 c_tuple1) (String.eqb "(a,)") = true.
Proof. exact tuple1_comma_kept. Qed.

(* "if (a) x = 1 else y": the whole assignment is the then-branch *)
Example C14_ex_if_branch_assignment :
  in_fragment c_if_assign = true /\ emits_all 4 c_if_assign /\
  all_renderings (doc_of 4 c_if_assign) (contains "x = 1") = true.
Proof. exact if_assign_kept. Qed.

(* ---- the hypotheses of the positive theorems are satisfiable: "fn f(a, b){ let x = g(a, b) + 1 // sum\n  x |> h }" ---- *)
Example C14_ex_in_fragment : in_fragment c_ok = true.
Proof. exact ok_in_fragment. Qed.
Example C14_ex_safe_breaks : safe_breaks (doc_of 4 c_ok) = true.
Proof. exact ok_safe. Qed.
Example C14_ex_emits_all : emits_all 4 c_ok.
Proof. exact ok_emits_all. Qed.
Example C14_ex_concat_only : concat_only c_concat = true /\ cst_words c_concat = ["-"; "a"; "."; "b"; "/* c */"].
Proof. exact c_concat_ok. Qed.
Example C14_ex_has_renderings : renderings (doc_of 4 c_ok) <> [].
Proof. exact ok_has_renderings. Qed.
