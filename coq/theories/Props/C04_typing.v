(* Props/C04_typing.v — the type unifier part of C04 ("type checking terminates ... the occurs check prevents cyclic
   types") and of C03 (mechanism "unification and occurs check").

   Model: Typing/Model.v — literal transcription (store-passing, fuel = recursion depth, explicit out-of-fuel values) of
   TypeNodeId::get_root (types.rs), occur_check, unify_vec, unify_types, unify_types_args (typing/unification.rs) and
   InferContext::substitute_type (typing.rs) for the fragment Primitive / Array / Tuple / Function / Ref / Code / Boxed /
   Intermediate / Unknown.  A store is the list of the variable cells {parent, level}; `parent s v` is the parent pointer
   of variable v.

   Vocabulary (Typing/*.v):
     occurs s v t   v is reachable from t through type constructors and parent pointers           (Occurs.v)
     acyclic s      no variable is reachable from its own parent                                 (Occurs.v)
     wf_ty n t      every variable of t is one of the n cells                                     (Base.v)
     store_ok s     every parent is well scoped (wf_store) and the store is acyclic               (Main.v)
     ext s s'       s' has the cells of s and keeps every parent pointer of s                     (Base.v)
     eqv s t1 t2    t1 and t2 unfold to the same finite tree in s, up to the unifier's own coercions (boxing, one-element
                    tuples, unit = (), tuples compared by length only)                            (Eqv.v)
     novar r        r contains no type variable;  notuple r  r contains no tuple;  unbox r  boxing erased
     unify_fuel s t1 t2 = fuel_bound (length s) M = 4*(M + length s*(M+1)) + 3, M = the largest of size t1, size t2 and
                    the sizes of the stored parents                                               (Model.v) *)
From Coq Require Import List Arith Bool.
From Mimium Require Import Typing.Model Typing.Base Typing.Occurs Typing.Eqv Typing.Rank Typing.Unify
     Typing.Termination Typing.Sound Typing.Main Typing.Refute.
Import ListNotations.

(* (a) the invariant has the two readings one expects: acyclic = no variable reaches itself = the variables can be ranked
   so that every parent lies strictly below its variable *)
Theorem C04_acyclic_iff_ranked : forall s, acyclic s <-> exists rk, ranked s rk.
Proof. exact acyclic_iff_ranked. Qed.

(* the occurs check decides reachability: whenever it answers (any fuel), the answer is right — in particular the answer
   `false`, which guards every binding, means that the variable is really not reachable from the type *)
Theorem C04_occurs_check_exact : forall f s v t b,
    occur_check f s v t = Some b -> (b = true <-> occurs s v t).
Proof. exact occurs_check_exact. Qed.

(* the step the invariant rests on: binding an unbound variable to a type it does not occur in keeps the store acyclic *)
Theorem C04_guarded_binding_keeps_acyclic : forall s v t,
    acyclic s -> parent s v = None -> v < length s -> ~ occurs s v t -> acyclic (set_parent s v t).
Proof. exact acyclic_bind. Qed.

(* (b) + (d) whatever unify_types (a = false) / unify_types_args (a = true) answers, with any fuel: the store it leaves —
   also when it reports errors — is again well scoped and ACYCLIC and extends the old store; on Ok the two types are
   equivalent in it *)
Theorem C04_unify_preserves_acyclic : forall f a s t1 t2,
    store_ok s -> wf_ty (length s) t1 -> wf_ty (length s) t2 ->
    match unify f a s t1 t2 with
    | UOk s' _ => store_ok s' /\ ext s s' /\ eqv s' t1 t2
    | UErr s' _ => store_ok s' /\ ext s s'
    | UFuel => True
    end.
Proof. exact unify_preserves_store_ok. Qed.

(* (c) termination of the unifier: on an acyclic store the explicit fuel unify_fuel s t1 t2 (and any larger one) is never
   exhausted *)
Theorem C04_unify_total : forall f a s t1 t2,
    store_ok s -> wf_ty (length s) t1 -> wf_ty (length s) t2 ->
    unify_fuel s t1 t2 <= f -> unify f a s t1 t2 <> UFuel.
Proof. exact unify_total. Qed.

(* (c) termination of resolution, of get_root and of the occurs check on an acyclic store, with the same kind of bound;
   the resolved type is a finite tree without variables *)
Theorem C04_resolution_total : forall f s t,
    store_ok s -> fuel_bound (length s) (Nat.max (store_msize s) (size t)) <= f ->
    (exists r, substitute_type f s t = Some r /\ novar r) /\
    (exists r, get_root f s t = Some r) /\
    (forall v, occur_check f s v t <> None).
Proof. exact resolution_total. Qed.

(* (b) + (c) for what type inference does: ANY sequence of unifier calls (errors do not stop it) on an acyclic store runs
   to the end within the stated fuel and leaves an acyclic store, in which every type resolves to a finite tree *)
Theorem C04_unify_sequence_total : forall ops s,
    store_ok s -> Forall (op_wf (length s)) ops ->
    exists s', unify_seq ops s = Some s' /\ store_ok s' /\ ext s s' /\
               forall t, exists r, substitute_type (fuel_bound (length s') (Nat.max (store_msize s') (size t))) s' t = Some r
                                   /\ novar r.
Proof. exact unify_sequence_total. Qed.

(* (d) soundness for resolution: after Ok the two types resolve (substitute_type, any fuels that suffice) to types that
   are equal up to boxing, provided the resolved types contain no tuple *)
Theorem C04_unify_sound : forall f a s t1 t2 s' rel,
    store_ok s -> wf_ty (length s) t1 -> wf_ty (length s) t2 ->
    unify f a s t1 t2 = UOk s' rel ->
    forall f1 f2 r1 r2,
      substitute_type f1 s' t1 = Some r1 -> substitute_type f2 s' t2 = Some r2 ->
      notuple r1 -> notuple r2 -> unbox r1 = unbox r2.
Proof. exact unify_sound. Qed.

(* (d) is FALSE with tuples (unify_vec returns the errors of the elements only when the Ok results mix Subtype and
   Supertype): (int, number) unifies with (number, number).  Known on the real code (findings F44 / F41 classes). *)
Theorem C04_unify_tuple_elements_refuted :
  exists s t1 t2 s' rel r1 r2,
    store_ok s /\ wf_ty (length s) t1 /\ wf_ty (length s) t2 /\
    unify (unify_fuel s t1 t2) false s t1 t2 = UOk s' rel /\
    substitute_type (unify_fuel s t1 t2) s' t1 = Some r1 /\
    substitute_type (unify_fuel s t1 t2) s' t2 = Some r2 /\
    unbox r1 <> unbox r2.
Proof. exact tuple_elements_refuted. Qed.

(* (e) why the obligation exists: with the occurs check as it was before commit 4da95e9 (`cls(arg) && cls(ret)`, Code and
   Ref not inspected) the same unifier turns an acyclic store into a cyclic one — the constraint ?0 ~ (?0) -> ?1 of
   `|x| x(x)` is accepted and NO fuel resolves ?0 afterwards (substitute_type recursed until the stack overflowed); the
   present check answers CircularType and leaves the store alone *)
Theorem C04_old_occurs_check_refuted :
  exists s t1 t2 s',
    store_ok s /\ wf_ty (length s) t1 /\ wf_ty (length s) t2 /\
    unify_old (unify_fuel s t1 t2) false s t1 t2 = UOk s' Identical /\
    ~ acyclic s' /\
    (forall f, substitute_type f s' t1 = None) /\
    unify (unify_fuel s t1 t2) false s t1 t2 = UErr s [ECircularType].
Proof. exact old_occurs_check_refuted. Qed.

(* the two roots a unifier call looks at are never bound variables: in the Intermediate/Intermediate arm `parent1` and
   `parent2` are always None, its `(_, Some(p2))` and `(Some(p1), _)` branches are dead code *)
Theorem C04_roots_are_unbound : forall f s t v, get_root f s t = Some (TVar v) -> parent s v = None.
Proof. exact get_root_unbound. Qed.

(* (f) the hypotheses are satisfiable by a store with bound variables, and the theorems apply to it *)
Example C04_typing_store_example : store_ok ex_s /\ parent ex_s 0 = Some (TFun (TVar 1) (TPrim PNumeric)).
Proof. split; [exact ex_s_ok|reflexivity]. Qed.

Example C04_typing_unify_example :
  unify (unify_fuel ex_s (TVar 0) (TFun (TArray (TPrim PInt)) (TPrim PNumeric))) false ex_s
        (TVar 0) (TFun (TArray (TPrim PInt)) (TPrim PNumeric))
  = UOk [mkCell (Some (TFun (TVar 1) (TPrim PNumeric))) 0; mkCell (Some (TArray (TVar 2))) 1;
         mkCell (Some (TPrim PInt)) 0] Identical
  /\ unify (unify_fuel ex_s (TVar 2) (TTuple [TVar 0; TPrim PNumeric])) false ex_s
           (TVar 2) (TTuple [TVar 0; TPrim PNumeric])
     = UErr ex_s [ECircularType].
Proof. split; [exact ex_unify|exact ex_cyclic_rejected]. Qed.

Print Assumptions C04_acyclic_iff_ranked.
Print Assumptions C04_occurs_check_exact.
Print Assumptions C04_guarded_binding_keeps_acyclic.
Print Assumptions C04_unify_preserves_acyclic.
Print Assumptions C04_unify_total.
Print Assumptions C04_resolution_total.
Print Assumptions C04_unify_sequence_total.
Print Assumptions C04_unify_sound.
Print Assumptions C04_unify_tuple_elements_refuted.
Print Assumptions C04_old_occurs_check_refuted.
Print Assumptions C04_roots_are_unbound.
