(* Props/C01_prims.v — property theorems only; each closed by `exact <lemma>` (proofs in coq/theories/Prims/).

   C01, the runtime-primitive contract (runtime/primitives.rs trait RuntimePrimitives) and its two implementations.

   Prims/Spec.v    the abstract contract: heap = handle -> (refcount, values), arrays = handle -> (element size, values),
                   state = storage words + cursor, every operation with its result and explicit error outcomes;
                   handles are ordinals (the k-th allocation), values are numbers or handles.
   Prims/Vm.v      the VM: vm/primitives.rs, the interpreter's instructions (vm.rs), vm/heap.rs + slotmap (Heap/Model.v),
                   StateStorage (Lmmm/Machine.v, discipline VmD).
   Prims/Wasm.v    the WASM host: the host functions of wasm.rs with wasmgen's argument conventions; heap in the same
                   slot map, arrays in a HashMap keyed by len+1 without element sizes, state grown on demand (WasmD),
                   started empty.
   An operation sequence names handles by ordinal, so the same sequence runs on all three; an implementation resolves
   an ordinal through the table [tabs] of the raw handles it returned itself.  [res_rel t] relates a specification
   result to an implementation result through such a table: numbers are equal words, a new handle is the table's next
   entry, loaded values are the specification's values resolved through the table, reference counts, "invalid handle"
   warnings and fault classes are equal.  A run stops at its first fault (a panic of the real runtime).

   vm_pre / wasm_pre (Prims/Pre.v) are decidable hypotheses on (specification state, operation), required at every step
   of the SPECIFICATION's run ([pre_run]); the correspondence check evaluates the same extracted predicates.  They say:
     both   a handle argument has been returned by an earlier allocation of the right kind (it may have been released:
            both implementations detect that), values stored as data mention only handles returned so far;
            element-size arguments are the array's own;
     VM     state offsets fit the bytecode's 24-bit field; (trait only: now = 0, sr = 48000)
     WASM   the specification does not fault on a state operation (no cursor underflow, no access outside the storage);
            offsets are non-negative; a delay line has at most MAX_WASM_DELAY_SAMPLES = 2^24 samples; `len` only on
            arrays of one-word elements.
   [ops_short]: fewer than 2^32 - 4 operations (slot-map indices and versions are 32-bit fields of the handle). *)
From Coq Require Import List ZArith NArith Bool.
From Mimium Require Import Heap.Model Lmmm.Machine Prims.Float Prims.StateOps Prims.Spec Prims.Impl Prims.Vm Prims.Wasm
  Prims.Pre Prims.Bits Prims.HeapSim Prims.ArrSimVm Prims.Sim Prims.SimVm Prims.SimWasm Prims.Agree Prims.Differs Prims.Usersum.
Import ListNotations.
Local Open Scope N_scope.

Definition ops_short (ops : list op) : Prop := N.of_nat (length ops) + 4 < 4294967296.

(* the VM refines the contract: for EVERY operation sequence, of any length *)
Theorem C01_prims_vm_refines_spec : forall size now sr ops,
  ops_short ops -> pre_run vm_pre (spec_init size now sr) ops = true ->
  let tf := fst (iexec vm_step tabs0 (vm_init size) ops) in       (* the handles the VM returned, in order *)
  Forall2 (res_rel tf) (spec_run (spec_init size now sr) ops) (vm_run size ops).
Proof. exact vm_refines_spec. Qed.

(* the WASM host refines the contract *)
Theorem C01_prims_wasm_refines_spec : forall size now sr ops,
  ops_short ops -> pre_run wasm_pre (spec_init size now sr) ops = true ->
  let tf := fst (iexec wasm_step tabs0 (wasm_init now sr) ops) in
  Forall2 (res_rel tf) (spec_run (spec_init size now sr) ops) (wasm_run now sr ops).
Proof. exact wasm_refines_spec. Qed.

(* hence the two agree: both result lists are the specification's, each through its own handle table *)
Theorem C01_prims_agree : forall size now sr ops,
  ops_short ops ->
  pre_run vm_pre (spec_init size now sr) ops = true -> pre_run wasm_pre (spec_init size now sr) ops = true ->
  exists tv tw,
    Forall2 (res_rel tv) (spec_run (spec_init size now sr) ops) (vm_run size ops) /\
    Forall2 (res_rel tw) (spec_run (spec_init size now sr) ops) (wasm_run now sr ops).
Proof. exact vm_wasm_agree. Qed.

(* ... so every result that carries no handle (numbers read from the heap, arrays or state, delay / mem outputs,
   reference counts, warnings, faults) is literally the same on both *)
Theorem C01_prims_agree_numbers : forall size now sr ops i r a b,
  ops_short ops ->
  pre_run vm_pre (spec_init size now sr) ops = true -> pre_run wasm_pre (spec_init size now sr) ops = true ->
  nth_error (spec_run (spec_init size now sr) ops) i = Some r -> nums_only r = true ->
  nth_error (vm_run size ops) i = Some a -> nth_error (wasm_run now sr ops) i = Some b ->
  a = b.
Proof. exact vm_wasm_agree_numbers. Qed.

(* ... and both stop at the same step *)
Theorem C01_prims_same_length : forall size now sr ops,
  ops_short ops ->
  pre_run vm_pre (spec_init size now sr) ops = true -> pre_run wasm_pre (spec_init size now sr) ops = true ->
  length (vm_run size ops) = length (wasm_run now sr ops).
Proof. exact vm_wasm_same_length. Qed.

(* the VM's index conversion is the contract's (saturating truncation, then clamp) for EVERY index word: finite,
   NaN, -infinity, +infinity (since the repair 15d0817; before it +infinity selected element 0) *)
Theorem C01_prims_vm_index : forall idx len, len <> 0 -> vm_index idx len = clamp_index idx len.
Proof. exact vm_index_clamp. Qed.

(* bytecodegen's array literal (AllocArray, then SetArrayElem for element 0, 1, ..) stores exactly the literal *)
Theorem C01_prims_literal : forall e data n i cur N,
  (0 < e)%nat -> length data = (N * e)%nat -> length cur = (N * e)%nat ->
  firstn (i * e) cur = firstn (i * e) data -> (i + n = N)%nat ->
  fill_list e data cur i n = data.
Proof. exact fill_list_all. Qed.

(* ---- outside the hypotheses: where the implementations differ (one witness per hypothesis; replayed on the real
   implementations by checks/prims_part.py).  3 5 6 are reached by compiled programs (4, the index +infinity, is repaired) (see Prims/Differs.v). ---- *)
Theorem C01_prims_state_underflow_differs :
  spec_run (spec_init 4 0 F64_44100) w_underflow = [SFault FUnderflow] /\
  vm_run 4 w_underflow = [IFault FUnderflow] /\
  wasm_run 0 F64_44100 w_underflow = [IUnit; IWords [0]] /\
  pre_run wasm_pre (spec_init 4 0 F64_44100) w_underflow = false.
Proof. exact state_underflow_differs. Qed.

Theorem C01_prims_state_out_of_range_differs :
  spec_run (spec_init 4 0 F64_44100) w_past_end = [SUnit; SFault FOutOfRange] /\
  vm_run 4 w_past_end = [IUnit; IFault FOutOfRange] /\
  wasm_run 0 F64_44100 w_past_end = [IUnit; IWords [0]] /\
  pre_run wasm_pre (spec_init 4 0 F64_44100) w_past_end = false.
Proof. exact state_out_of_range_differs. Qed.

Theorem C01_prims_delay_cap_differs : forall input time n m, MAX_WASM_DELAY_SAMPLES < n ->
  wasm_state_delay input time n m = (m, 0).
Proof. exact delay_cap_differs. Qed.

Theorem C01_prims_len_words_differs :
  spec_run (spec_init 0 0 F64_44100) w_len = [SArrH 0; SVals [VNum (f64_of_N 2)]] /\
  vm_run 0 w_len = [IHandle 4294967297; IWords [f64_of_N 2]] /\
  wasm_run 0 F64_44100 w_len = [IHandle 1; IWords [f64_of_N 4]] /\
  pre_run vm_pre (spec_init 0 0 F64_44100) w_len = true /\
  pre_run wasm_pre (spec_init 0 0 F64_44100) w_len = false.
Proof. exact len_words_differs. Qed.

Theorem C01_prims_zero_handle_differs :
  spec_run (spec_init 0 0 F64_44100) w_zero = [SFault FInvalidHandle] /\
  vm_run 0 w_zero = [IFault FInvalidHandle] /\
  wasm_run 0 F64_44100 w_zero = [IWords [0]] /\
  pre_run wasm_pre (spec_init 0 0 F64_44100) w_zero = false.
Proof. exact zero_handle_differs. Qed.

Theorem C01_prims_vm_trait_now_differs :
  spec_run (spec_init 0 7 F64_44100) w_now = [SVals [VNum (f64_of_N 7)]; SVals [VNum F64_44100]] /\
  vm_run 0 w_now = [IWords [0]; IWords [F64_48000]] /\
  wasm_run 7 F64_44100 w_now = [IWords [f64_of_N 7]; IWords [F64_44100]].
Proof. exact now_differs. Qed.

Theorem C01_prims_vm_trait_array_get_differs :
  let a := fst (vm_array_new sm_new 1 [F64_10; F64_20; F64_30]) in
  vm_array_get a 4294967297 (f64_of_N 3) = IWords [F64_30] /\
  vm_prim_array_get a 4294967297 (f64_of_N 3) 1 = IFault FOutOfRange.
Proof. exact trait_array_get_differs. Qed.

Theorem C01_prims_negative_offset_differs :
  spec_run (spec_init 4 0 F64_44100) w_negpush = [SUnit; SFault FBadSize] /\
  vm_run 4 w_negpush = [IUnit; IFault FBadSize] /\
  wasm_run 0 F64_44100 w_negpush = [IUnit; IUnit; IUnit; IUnit; IWords [0; 7; 0]].
Proof. exact negative_offset_differs. Qed.

Theorem C01_prims_element_size_differs :
  spec_run (spec_init 0 0 F64_44100) w_esz = [SArrH 0; SFault FBadSize] /\
  vm_run 0 w_esz = [IHandle 4294967297; IWords [3; 4]] /\
  wasm_run 0 F64_44100 w_esz = [IHandle 1; IWords [2]].
Proof. exact element_size_differs. Qed.

(* usersum_clone / usersum_release are outside the contract language of the theorems above (transcribed in Prims/Usersum.v and
   compared with the real implementations): the VM retains / releases the boxes inside a value by a type-directed walk, the
   WASM host does nothing.  A cons cell whose tail is the box h0 is cloned, then the box released once: the VM still has
   the tail (count 2 -> 1), the WASM host has freed it (1 -> 0) and the next load faults there only. *)
Theorem C01_prims_usersum_differs :
  let value := fun raw => [1; 4607182418800017408; raw] in
  let (h0, k0) := st_alloc sm_new [0] in
  let rv := h_enc VE k0 in        (* the VM's handle for the box *)
  let rw := h_enc WE k0 in        (* the WASM host's handle for the same box *)
  let v1 := fst (vm_usersum_clone [ty_list] (mkVm h0 sm_new (st_init 0)) (value rv) 3 0) in
  let hv := fst (hp_release VE (v_heap v1) rv) in
  let w1 := fst (wasm_usersum_clone (mkWa h0 [] (st_init 0) 0 0) (value rw) 3 0) in
  let hw := fst (hp_release WE (w_heap w1) rw) in
  hp_load VE hv rv 1 = IWords [0] /\ hp_load WE hw rw 1 = IFault FInvalidHandle.
Proof. exact usersum_differs. Qed.

(* the former witness of the +infinity difference (repaired in /repo by 15d0817): both backends take the LAST element for
   +infinity, the first for -infinity and NaN, and the hypotheses of both theorems hold there *)
Example C01_prims_ex_index_infinity_agrees :
  spec_run (spec_init 0 0 F64_44100) w_pinf = [SArrH 0; SVals [VNum F64_30]; SVals [VNum F64_10]; SVals [VNum F64_10]] /\
  vm_run 0 w_pinf = [IHandle 4294967297; IWords [F64_30]; IWords [F64_10]; IWords [F64_10]] /\
  wasm_run 0 F64_44100 w_pinf = [IHandle 1; IWords [F64_30]; IWords [F64_10]; IWords [F64_10]] /\
  pre_run vm_pre (spec_init 0 0 F64_44100) w_pinf = true /\
  pre_run wasm_pre (spec_init 0 0 F64_44100) w_pinf = true.
Proof. exact index_pinf_agrees. Qed.

(* ---- the hypotheses are satisfiable (heap objects holding handles, released handles, state, delay, arrays) ---- *)
Example C01_prims_ex_heap :
  pre_run vm_pre (spec_init 0 0 F64_44100) ex_ops = true /\ pre_run wasm_pre (spec_init 0 0 F64_44100) ex_ops = true.
Proof. exact ex_ops_pre. Qed.

Example C01_prims_ex_state_arrays :
  pre_run vm_pre (spec_init 8 0 F64_44100) ex_ops2 = true /\ pre_run wasm_pre (spec_init 8 0 F64_44100) ex_ops2 = true.
Proof. exact ex_ops2_pre. Qed.

Example C01_prims_ex_released_handle_detected :
  spec_run (spec_init 0 0 F64_44100) ex_ops =
    [SHeapH 0; SHeapH 1; SCount 2; SVals [VNum F64_ONE; VHeap 0]; SUnit; SCount 1; SCount 0; SInvalid; SFault FInvalidHandle] /\
  vm_run 0 ex_ops =
    [IHandle 4294967297; IHandle 8589934593; ICount 2; IWords [F64_ONE; 4294967297]; IUnit; ICount 1; ICount 0; IInvalid; IFault FInvalidHandle] /\
  wasm_run 0 F64_44100 ex_ops =
    [IHandle 4294967297; IHandle 4294967298; ICount 2; IWords [F64_ONE; 4294967297]; IUnit; ICount 1; ICount 0; IInvalid; IFault FInvalidHandle].
Proof. exact ex_ops_runs. Qed.

(* the WASM host after the repair of finding P5: the zero word, a word that names no slot and the word of a
   released (and re-used) slot are invalid handles, not reads of a vacant slot *)
Example C01_prims_ex_wasm_bad_heap_word_invalid :
  wasm_run 0 F64_44100 w_badheap =
    [IHandle 4294967297; ICount 0; IHandle 12884901889; IInvalid; IInvalid; IInvalid; IFault FInvalidHandle].
Proof. exact wasm_bad_heap_word_invalid. Qed.

Example C01_prims_ex_short : ops_short ex_ops2.
Proof. exact ex_ops2_short. Qed.
