(* FfiCodec/ValueSerde.v — the hand-written Serialize/Deserialize of interpreter::Value (interpreter/serde_impl.rs) over bincode.
   Symbols are usize ids here (serde(transparent) over Symbol(usize)). *)
From Coq Require Import String NArith List Bool Lia Arith.
From Mimium Require Import Tables.FfiTables FfiCodec.Model FfiCodec.Wire FfiCodec.Lemmas.
Import ListNotations.
Local Open Scope list_scope.
Local Open Scope N_scope.

Lemma val_index_spec : forall k,
  match val_ser_index k with
  | Some i => val_kind_of_index i = Some k /\ i < pow32
  | None => k = WClosure \/ k = WExternalFn \/ k = WStore
  end.
Proof. intros k. destruct k; vm_compute; auto. Qed.


(* total version of the writer (what it produces when it does not refuse) *)
Definition vidx (k : val_kind) : N := match val_ser_index k with Some i => i | None => 0 end.
Fixpoint venc_tot (v : value N) : list N :=
  match v with
  | VErrorV e => enc_u32 (vidx WErrorV) ++ enc_key e
  | VUnit => enc_u32 (vidx WUnit)
  | VNumber n => enc_u32 (vidx WNumber) ++ enc_u64 n
  | VString s => enc_u32 (vidx WString) ++ enc_usize s
  | VArray l => enc_u32 (vidx WArray) ++ enc_vec venc_tot l
  | VRecord l => enc_u32 (vidx WRecord) ++ enc_vec (fun kv => enc_usize (fst kv) ++ venc_tot (snd kv)) l
  | VTuple l => enc_u32 (vidx WTuple) ++ enc_vec venc_tot l
  | VFixpoint s e => enc_u32 (vidx WFixpoint) ++ enc_usize s ++ enc_key e
  | VCode e => enc_u32 (vidx WCode) ++ enc_key e
  | VTaggedUnion tag x => enc_u32 (vidx WTaggedUnion) ++ enc_u64 tag ++ venc_tot x
  | VConstructorFn tag s t => enc_u32 (vidx WConstructorFn) ++ enc_u64 tag ++ enc_usize s ++ enc_key t
  | VClosure _ _ | VExternalFn _ | VStore _ => []
  end.

Lemma flat_map_opt_some : forall (A : Type) (f : A -> option (list N)) (g : A -> list N) (l : list A),
  Forall (fun x => f x = Some (g x)) l -> flat_map_opt f l = Some (flat_map g l).
Proof.
  intros A f g l H. induction H as [|x t Hx _ IH]; [reflexivity|].
  cbn [flat_map_opt flat_map]. rewrite Hx.
  change ((fix go (l : list A) : option (list N) :=
             match l with
             | [] => Some []
             | x :: t => match f x with
                         | None => None
                         | Some b => match go t with None => None | Some bs => Some (b ++ bs) end
                         end
             end) t) with (flat_map_opt f t).
  now rewrite IH.
Qed.

Lemma flat_map_opt_none : forall (A : Type) (f : A -> option (list N)) (l : list A) x,
  In x l -> f x = None -> flat_map_opt f l = None.
Proof.
  intros A f l x Hin Hx. induction l as [|y t IH]; [contradiction|].
  cbn [flat_map_opt].
  change ((fix go (l : list A) : option (list N) :=
             match l with
             | [] => Some []
             | x :: t => match f x with
                         | None => None
                         | Some b => match go t with None => None | Some bs => Some (b ++ bs) end
                         end
             end) t) with (flat_map_opt f t).
  destruct Hin as [->|Hin]; [now rewrite Hx|]. rewrite (IH Hin). now destruct (f y).
Qed.

Lemma tagged_some : forall k p, val_ser_index k <> None -> tagged k (Some p) = Some (enc_u32 (vidx k) ++ p).
Proof. intros k p H. unfold tagged, vidx. destruct (val_ser_index k); [reflexivity | congruence]. Qed.

Ltac idx_ne := let E := fresh in intros E; vm_compute in E; discriminate E.

Lemma venc_serialisable : forall v : value N, vserialisable v = true -> venc v = Some (venc_tot v).
Proof.
  induction v as [e| |n|s|l IH|l IH|l IH|e names|s e|e|nm|x IH|t x IH|t s k] using value_ind';
    cbn [vserialisable venc venc_tot]; intros H; try discriminate;
    try (rewrite tagged_some by idx_ne; rewrite ?app_nil_r; reflexivity).
  - rewrite (flat_map_opt_some _ venc venc_tot l).
    + cbn [option_map]. rewrite tagged_some by idx_ne. reflexivity.
    + rewrite forallb_forall in H. rewrite Forall_forall in IH |- *. intros x Hx. exact (IH x Hx (H x Hx)).
  - rewrite (flat_map_opt_some _ _ (fun kv => enc_usize (fst kv) ++ venc_tot (snd kv)) l).
    + cbn [option_map]. rewrite tagged_some by idx_ne. reflexivity.
    + rewrite forallb_forall in H. rewrite Forall_forall in IH |- *. intros kv Hkv.
      rewrite (IH kv Hkv (H kv Hkv)). reflexivity.
  - rewrite (flat_map_opt_some _ venc venc_tot l).
    + cbn [option_map]. rewrite tagged_some by idx_ne. reflexivity.
    + rewrite forallb_forall in H. rewrite Forall_forall in IH |- *. intros x Hx. exact (IH x Hx (H x Hx)).
  - rewrite (IH H). cbn [option_map]. rewrite tagged_some by idx_ne. reflexivity.
Qed.

Lemma tagged_none : forall k, tagged k None = None.
Proof. intros k. unfold tagged. now destruct (val_ser_index k). Qed.

(* the writer refuses exactly the values containing a Closure, an ExternalFn or a Store *)
Lemma venc_refuses : forall v : value N, vserialisable v = false -> venc v = None.
Proof.
  induction v as [e| |n|s|l IH|l IH|l IH|e names|s e|e|nm|x IH|t x IH|t s k] using value_ind';
    cbn [vserialisable venc]; intros H; try discriminate; try reflexivity.
  - assert (Hex : exists x, In x l /\ vserialisable x = false).
    { apply not_true_iff_false in H. rewrite forallb_forall in H.
      destruct (existsb (fun x => negb (vserialisable x)) l) eqn:E.
      - apply existsb_exists in E as (x & Hx & Hn). exists x. split; [exact Hx|]. now destruct (vserialisable x).
      - exfalso. apply H. intros x Hx. destruct (vserialisable x) eqn:Ex; [reflexivity|].
        assert (existsb (fun x => negb (vserialisable x)) l = true) by (apply existsb_exists; exists x; now rewrite Ex).
        congruence. }
    destruct Hex as (x & Hx & Hn). rewrite Forall_forall in IH.
    rewrite (flat_map_opt_none _ venc l x Hx (IH x Hx Hn)). apply tagged_none.
  - assert (Hex : exists kv, In kv l /\ vserialisable (snd kv) = false).
    { apply not_true_iff_false in H. rewrite forallb_forall in H.
      destruct (existsb (fun kv => negb (vserialisable (snd kv))) l) eqn:E.
      - apply existsb_exists in E as (x & Hx & Hn). exists x. split; [exact Hx|]. now destruct (vserialisable (snd x)).
      - exfalso. apply H. intros x Hx. destruct (vserialisable (snd x)) eqn:Ex; [reflexivity|].
        assert (existsb (fun kv => negb (vserialisable (snd kv))) l = true) by (apply existsb_exists; exists x; now rewrite Ex).
        congruence. }
    destruct Hex as (kv & Hkv & Hn). rewrite Forall_forall in IH.
    rewrite (flat_map_opt_none _ _ l kv Hkv); [apply tagged_none|]. rewrite (IH kv Hkv Hn). reflexivity.
  - assert (Hex : exists x, In x l /\ vserialisable x = false).
    { apply not_true_iff_false in H. rewrite forallb_forall in H.
      destruct (existsb (fun x => negb (vserialisable x)) l) eqn:E.
      - apply existsb_exists in E as (x & Hx & Hn). exists x. split; [exact Hx|]. now destruct (vserialisable x).
      - exfalso. apply H. intros x Hx. destruct (vserialisable x) eqn:Ex; [reflexivity|].
        assert (existsb (fun x => negb (vserialisable x)) l = true) by (apply existsb_exists; exists x; now rewrite Ex).
        congruence. }
    destruct Hex as (x & Hx & Hn). rewrite Forall_forall in IH.
    rewrite (flat_map_opt_none _ venc l x Hx (IH x Hx Hn)). apply tagged_none.
  - rewrite (IH H). apply tagged_none.
Qed.

Fixpoint vsize (v : value N) : nat :=
  match v with
  | VArray l | VTuple l => S (list_sum (map vsize l))
  | VRecord l => S (list_sum (map (fun kv => vsize (snd kv)) l))
  | VTaggedUnion _ x => S (vsize x)
  | _ => 1
  end.

Lemma vdec_S : forall f bs,
  vdec (S f) bs =
    bind (dec_u32 bs) (fun i r =>
      match val_kind_of_index i with
      | Some WErrorV => bind (dec_key r) (fun e r' => Some (VErrorV e, r'))
      | Some WUnit => Some (VUnit, r)
      | Some WNumber => bind (dec_u64 r) (fun n r' => Some (VNumber n, r'))
      | Some WString => bind (dec_usize r) (fun s r' => Some (VString s, r'))
      | Some WArray => bind (dec_vec (vdec f) r) (fun l r' => Some (VArray l, r'))
      | Some WRecord => bind (dec_vec (dec_pair dec_usize (vdec f)) r) (fun l r' => Some (VRecord l, r'))
      | Some WTuple => bind (dec_vec (vdec f) r) (fun l r' => Some (VTuple l, r'))
      | Some WFixpoint => bind (dec_usize r) (fun s r' => bind (dec_key r') (fun e r'' => Some (VFixpoint s e, r'')))
      | Some WCode => bind (dec_key r) (fun e r' => Some (VCode e, r'))
      | Some WTaggedUnion => bind (dec_u64 r) (fun t r' => bind (vdec f r') (fun x r'' => Some (VTaggedUnion t x, r'')))
      | Some WConstructorFn =>
        bind (dec_u64 r) (fun t r' => bind (dec_usize r') (fun s r'' => bind (dec_key r'') (fun k r3 =>
          Some (VConstructorFn t s k, r3))))
      | Some WClosure | Some WExternalFn | Some WStore | None => None
      end).
Proof. reflexivity. Qed.

Lemma vidx_spec : forall k, val_ser_index k <> None -> val_kind_of_index (vidx k) = Some k /\ vidx k < pow32.
Proof.
  intros k H. pose proof (val_index_spec k) as S. unfold vidx. destruct (val_ser_index k); [exact S | congruence].
Qed.

Lemma length_venc_tot_ge : forall v : value N, vserialisable v = true -> (4 <= length (venc_tot v))%nat.
Proof.
  intros v H. destruct v; cbn [venc_tot vserialisable] in *; try discriminate; rewrite ?app_length, length_enc_u32; lia.
Qed.

Ltac vtag_step k :=
  rewrite vdec_S; rewrite <- ?app_assoc;
  let H := fresh in
  assert (H : val_ser_index k <> None) by idx_ne;
  rewrite (rt_u32 _ (proj2 (vidx_spec k H))); cbn [bind];
  rewrite (proj1 (vidx_spec k H)); clear H.

Lemma vdec_venc_tot : forall v : value N, vserialisable v = true -> value_ok id_ok v = true ->
  forall fuel rest, (vsize v <= fuel)%nat -> vdec fuel (venc_tot v ++ rest) = Some (v, rest).
Proof.
  induction v as [e| |n|s|l IH|l IH|l IH|e names|s e|e|nm|x IH|t x IH|t s k] using value_ind';
    intros Hser Hok fuel rest Hfuel;
    (destruct fuel as [|fuel]; [cbn [vsize] in Hfuel; lia|]); cbn [venc_tot value_ok vsize vserialisable] in *;
    try discriminate; unfold id_ok, enc_usize, dec_usize in *.
  - vtag_step WErrorV. rewrite rt_key by exact Hok. reflexivity.
  - vtag_step WUnit. reflexivity.
  - vtag_step WNumber. apply N.ltb_lt in Hok. rewrite rt_u64 by exact Hok. reflexivity.
  - vtag_step WString. apply N.ltb_lt in Hok. rewrite rt_u64 by exact Hok. reflexivity.
  - vtag_step WArray. apply andb_prop in Hok as [Hlen Hall].
    rewrite (rt_vec _ venc_tot (vdec fuel) l); [reflexivity | | | exact Hlen].
    + rewrite forallb_forall in Hall, Hser. rewrite Forall_forall in IH |- *. intros x Hx rest'.
      apply IH; [exact Hx | apply Hser; exact Hx | apply Hall; exact Hx |].
      pose proof (in_list_sum _ vsize l x Hx). lia.
    + rewrite forallb_forall in Hser. apply Forall_forall. intros x Hx. pose proof (length_venc_tot_ge x (Hser x Hx)). lia.
  - vtag_step WRecord. apply andb_prop in Hok as [Hlen Hall].
    rewrite (rt_vec _ (fun kv => enc_u64 (fst kv) ++ venc_tot (snd kv)) (dec_pair dec_u64 (vdec fuel)) l);
      [reflexivity | | | exact Hlen].
    + rewrite forallb_forall in Hall, Hser. rewrite Forall_forall in IH |- *. intros kv Hkv.
      specialize (Hall kv Hkv). apply andb_prop in Hall as [Hk Hv]. apply N.ltb_lt in Hk.
      apply (rt_pair _ _ enc_u64 venc_tot dec_u64 (vdec fuel) kv).
      * apply rt_u64. exact Hk.
      * intros rest'. apply IH; [exact Hkv | apply Hser; exact Hkv | exact Hv |].
        pose proof (in_list_sum _ (fun kv => vsize (snd kv)) l kv Hkv). cbn beta in *. lia.
    + apply Forall_forall. intros kv _. rewrite app_length, length_enc_u64. lia.
  - vtag_step WTuple. apply andb_prop in Hok as [Hlen Hall].
    rewrite (rt_vec _ venc_tot (vdec fuel) l); [reflexivity | | | exact Hlen].
    + rewrite forallb_forall in Hall, Hser. rewrite Forall_forall in IH |- *. intros x Hx rest'.
      apply IH; [exact Hx | apply Hser; exact Hx | apply Hall; exact Hx |].
      pose proof (in_list_sum _ vsize l x Hx). lia.
    + rewrite forallb_forall in Hser. apply Forall_forall. intros x Hx. pose proof (length_venc_tot_ge x (Hser x Hx)). lia.
  - vtag_step WFixpoint. apply andb_prop in Hok as [Hs He]. apply N.ltb_lt in Hs.
    rewrite rt_u64 by exact Hs. cbn [bind]. rewrite rt_key by exact He. reflexivity.
  - vtag_step WCode. rewrite rt_key by exact Hok. reflexivity.
  - vtag_step WTaggedUnion. apply andb_prop in Hok as [Ht Hx]. apply N.ltb_lt in Ht.
    rewrite rt_u64 by exact Ht. cbn [bind]. rewrite IH; [reflexivity | exact Hser | exact Hx | lia].
  - vtag_step WConstructorFn. apply andb_prop in Hok as [Hok Hk]. apply andb_prop in Hok as [Ht Hs].
    apply N.ltb_lt in Ht, Hs.
    rewrite rt_u64 by exact Ht. cbn [bind]. rewrite rt_u64 by exact Hs. cbn [bind]. rewrite rt_key by exact Hk. reflexivity.
Qed.

Lemma vsize_le_length : forall v : value N, vserialisable v = true -> (vsize v <= length (venc_tot v))%nat.
Proof.
  induction v as [e| |n|s|l IH|l IH|l IH|e names|s e|e|nm|x IH|t x IH|t s k] using value_ind';
    cbn [venc_tot vsize vserialisable]; intros Hser; try discriminate;
    unfold enc_vec; rewrite ?app_length, ?length_enc_u32, ?length_enc_u64; try lia.
  - rewrite forallb_forall in Hser.
    pose proof (list_sum_le_flat_map _ vsize venc_tot l) as H.
    assert (Hf : Forall (fun x => (vsize x <= length (venc_tot x))%nat) l).
    { rewrite Forall_forall in IH |- *. intros x Hx. exact (IH x Hx (Hser x Hx)). }
    specialize (H Hf). lia.
  - rewrite forallb_forall in Hser.
    pose proof (list_sum_le_flat_map _ (fun kv => vsize (snd kv)) (fun kv => enc_usize (fst kv) ++ venc_tot (snd kv)) l) as H.
    assert (Hf : Forall (fun kv : N * value N => (vsize (snd kv) <= length (enc_usize (fst kv) ++ venc_tot (snd kv)))%nat) l).
    { rewrite Forall_forall in IH |- *. intros kv Hkv. rewrite app_length. specialize (IH kv Hkv (Hser kv Hkv)). lia. }
    specialize (H Hf). lia.
  - rewrite forallb_forall in Hser.
    pose proof (list_sum_le_flat_map _ vsize venc_tot l) as H.
    assert (Hf : Forall (fun x => (vsize x <= length (venc_tot x))%nat) l).
    { rewrite Forall_forall in IH |- *. intros x Hx. exact (IH x Hx (Hser x Hx)). }
    specialize (H Hf). lia.
  - specialize (IH Hser). lia.
Qed.

Lemma vdecode_venc : forall v : value N, vserialisable v = true -> value_ok id_ok v = true ->
  exists bs, venc v = Some bs /\ forall rest, vdecode (bs ++ rest) = Some (v, rest).
Proof.
  intros v Hser Hok. exists (venc_tot v). split; [apply venc_serialisable; exact Hser|].
  intros rest. unfold vdecode. apply vdec_venc_tot; [exact Hser | exact Hok |].
  rewrite app_length. pose proof (vsize_le_length v Hser). lia.
Qed.
