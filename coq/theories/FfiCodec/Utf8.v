(* FfiCodec/Utf8.v — the UTF-8 acceptor of FfiCodec/Model.v accepts exactly the encodings of sequences of Unicode scalar values *)
From Coq Require Import String NArith ZArith List Bool Lia Arith.
From Mimium Require Import FfiCodec.Model.
Import ListNotations.
Local Open Scope list_scope.
Local Open Scope N_scope.

Ltac Zify.zify_post_hook ::= Z.to_euclidean_division_equations.

Lemma in_range_true : forall lo hi b, lo <= b -> b <= hi -> in_range lo hi b = true.
Proof. intros lo hi b H1 H2. unfold in_range. apply andb_true_intro. split; apply N.leb_le; assumption. Qed.

Lemma in_range_spec : forall lo hi b, in_range lo hi b = true <-> lo <= b /\ b <= hi.
Proof.
  intros lo hi b. unfold in_range. rewrite andb_true_iff, !N.leb_le. reflexivity.
Qed.

Lemma utf8_valid_char : forall c r, scalar c = true -> utf8_valid (utf8_char c ++ r) = utf8_valid r.
Proof.
  intros c r Hs. unfold scalar in Hs. unfold utf8_char.
  destruct (c <? 128) eqn:H1.
  { cbn [app utf8_valid]. rewrite H1. reflexivity. }
  apply N.ltb_ge in H1.
  destruct (c <? 2048) eqn:H2.
  { apply N.ltb_lt in H2. cbn [app utf8_valid].
    replace (192 + c / 64 <? 128) with false by (symmetry; apply N.ltb_ge; lia).
    rewrite (in_range_true 194 223) by lia.
    unfold cont. rewrite (in_range_true 128 191) by lia. reflexivity. }
  apply N.ltb_ge in H2.
  destruct (c <? 65536) eqn:H3.
  { apply N.ltb_lt in H3. cbn [app utf8_valid].
    assert (Hsc : c < 55296 \/ 57344 <= c).
    { apply orb_prop in Hs as [Hs|Hs]; [left; now apply N.ltb_lt | right; apply andb_prop in Hs as [Hs _]; now apply N.leb_le]. }
    replace (224 + c / 4096 <? 128) with false by (symmetry; apply N.ltb_ge; lia).
    replace (in_range 194 223 (224 + c / 4096)) with false.
    2:{ symmetry. apply not_true_is_false. rewrite in_range_spec. lia. }
    rewrite (in_range_true 224 239) by lia.
    unfold cont. rewrite (in_range_true 128 191 (128 + c mod 64)) by lia.
    destruct (224 + c / 4096 =? 224) eqn:E0.
    { apply N.eqb_eq in E0. rewrite (in_range_true 160 191) by lia. reflexivity. }
    apply N.eqb_neq in E0.
    destruct (224 + c / 4096 =? 237) eqn:E1.
    { apply N.eqb_eq in E1. rewrite (in_range_true 128 159) by lia. reflexivity. }
    rewrite (in_range_true 128 191) by lia. reflexivity. }
  apply N.ltb_ge in H3.
  assert (H4 : c < 1114112).
  { apply orb_prop in Hs as [Hs|Hs]; [apply N.ltb_lt in Hs; lia | apply andb_prop in Hs as [_ Hs]; now apply N.ltb_lt]. }
  cbn [app utf8_valid].
  replace (240 + c / 262144 <? 128) with false by (symmetry; apply N.ltb_ge; lia).
  replace (in_range 194 223 (240 + c / 262144)) with false.
  2:{ symmetry. apply not_true_is_false. rewrite in_range_spec. lia. }
  replace (in_range 224 239 (240 + c / 262144)) with false.
  2:{ symmetry. apply not_true_is_false. rewrite in_range_spec. lia. }
  rewrite (in_range_true 240 244) by lia.
  unfold cont. rewrite (in_range_true 128 191 (128 + c mod 64)) by lia.
  rewrite (in_range_true 128 191 (128 + (c / 64) mod 64)) by lia.
  destruct (240 + c / 262144 =? 240) eqn:E0.
  { apply N.eqb_eq in E0. rewrite (in_range_true 144 191) by lia. reflexivity. }
  apply N.eqb_neq in E0.
  destruct (240 + c / 262144 =? 244) eqn:E1.
  { apply N.eqb_eq in E1. rewrite (in_range_true 128 143) by lia. reflexivity. }
  rewrite (in_range_true 128 191) by lia. reflexivity.
Qed.

(* completeness: every sequence of scalar values is accepted *)
Lemma utf8_valid_of_scalars : forall cs, forallb scalar cs = true -> utf8_valid (utf8_of cs) = true.
Proof.
  induction cs as [|c t IH]; intros H; [reflexivity|].
  cbn [forallb] in H. apply andb_prop in H as [Hc Ht].
  unfold utf8_of. cbn [flat_map]. rewrite utf8_valid_char by exact Hc. exact (IH Ht).
Qed.

(* one step of the acceptor, read backwards: an accepted non-empty string starts with the encoding of a scalar value *)
Lemma utf8_valid_head : forall s, s <> [] -> utf8_valid s = true ->
  exists c r, scalar c = true /\ s = utf8_char c ++ r /\ utf8_valid r = true /\ (length r < length s)%nat.
Proof.
  intros s Hne H. destruct s as [|b0 t0]; [congruence|]. cbn [utf8_valid] in H.
  destruct (b0 <? 128) eqn:H1.
  { apply N.ltb_lt in H1. exists b0, t0. repeat split.
    - unfold scalar. apply orb_true_intro. left. apply N.ltb_lt. lia.
    - unfold utf8_char. replace (b0 <? 128) with true by (symmetry; apply N.ltb_lt; lia). reflexivity.
    - exact H.
    - cbn [length]. lia. }
  apply N.ltb_ge in H1.
  destruct (in_range 194 223 b0) eqn:H2.
  { apply in_range_spec in H2. destruct t0 as [|b1 t1]; [discriminate|].
    apply andb_prop in H as [Hc Hr]. unfold cont in Hc. apply in_range_spec in Hc.
    exists ((b0 - 192) * 64 + (b1 - 128)), t1. repeat split.
    - unfold scalar. apply orb_true_intro. left. apply N.ltb_lt. lia.
    - unfold utf8_char.
      replace ((b0 - 192) * 64 + (b1 - 128) <? 128) with false by (symmetry; apply N.ltb_ge; lia).
      replace ((b0 - 192) * 64 + (b1 - 128) <? 2048) with true by (symmetry; apply N.ltb_lt; lia).
      cbn [app]. f_equal; [lia|]. f_equal. lia.
    - exact Hr.
    - cbn [length]. lia. }
  destruct (in_range 224 239 b0) eqn:H3.
  { apply in_range_spec in H3. destruct t0 as [|b1 [|b2 t2]]; try discriminate.
    apply andb_prop in H as [H Hr]. apply andb_prop in H as [Hb1 Hc2].
    unfold cont in *. apply in_range_spec in Hc2.
    assert (Hb1' : 128 <= b1 <= 191 /\ (b0 = 224 -> 160 <= b1) /\ (b0 = 237 -> b1 <= 159)).
    { destruct (b0 =? 224) eqn:E0.
      - apply N.eqb_eq in E0. apply in_range_spec in Hb1. lia.
      - apply N.eqb_neq in E0. destruct (b0 =? 237) eqn:E1.
        + apply N.eqb_eq in E1. apply in_range_spec in Hb1. lia.
        + apply N.eqb_neq in E1. apply in_range_spec in Hb1. lia. }
    destruct Hb1' as (Hb1r & Hlo & Hhi).
    exists ((b0 - 224) * 4096 + (b1 - 128) * 64 + (b2 - 128)), t2. repeat split.
    - unfold scalar. destruct (N.eq_dec b0 237) as [E|E].
      + apply orb_true_intro. left. apply N.ltb_lt. specialize (Hhi E). lia.
      + destruct (N.lt_ge_cases b0 237).
        * apply orb_true_intro. left. apply N.ltb_lt. lia.
        * apply orb_true_intro. right. apply andb_true_intro. split; [apply N.leb_le | apply N.ltb_lt]; lia.
    - unfold utf8_char.
      assert (Hge : 2048 <= (b0 - 224) * 4096 + (b1 - 128) * 64 + (b2 - 128)).
      { destruct (N.eq_dec b0 224) as [E|E]; [specialize (Hlo E); lia | lia]. }
      replace ((b0 - 224) * 4096 + (b1 - 128) * 64 + (b2 - 128) <? 128) with false by (symmetry; apply N.ltb_ge; lia).
      replace ((b0 - 224) * 4096 + (b1 - 128) * 64 + (b2 - 128) <? 2048) with false by (symmetry; apply N.ltb_ge; lia).
      replace ((b0 - 224) * 4096 + (b1 - 128) * 64 + (b2 - 128) <? 65536) with true by (symmetry; apply N.ltb_lt; lia).
      cbn [app]. f_equal; [lia|]. f_equal; [lia|]. f_equal. lia.
    - exact Hr.
    - cbn [length]. lia. }
  destruct (in_range 240 244 b0) eqn:H4; [|discriminate].
  apply in_range_spec in H4. destruct t0 as [|b1 [|b2 [|b3 t3]]]; try discriminate.
  apply andb_prop in H as [H Hr]. apply andb_prop in H as [H Hc3]. apply andb_prop in H as [Hb1 Hc2].
  unfold cont in *. apply in_range_spec in Hc2. apply in_range_spec in Hc3.
  assert (Hb1' : 128 <= b1 <= 191 /\ (b0 = 240 -> 144 <= b1) /\ (b0 = 244 -> b1 <= 143)).
  { destruct (b0 =? 240) eqn:E0.
    - apply N.eqb_eq in E0. apply in_range_spec in Hb1. lia.
    - apply N.eqb_neq in E0. destruct (b0 =? 244) eqn:E1.
      + apply N.eqb_eq in E1. apply in_range_spec in Hb1. lia.
      + apply N.eqb_neq in E1. apply in_range_spec in Hb1. lia. }
  destruct Hb1' as (Hb1r & Hlo & Hhi).
  exists ((b0 - 240) * 262144 + (b1 - 128) * 4096 + (b2 - 128) * 64 + (b3 - 128)), t3.
  assert (Hge : 65536 <= (b0 - 240) * 262144 + (b1 - 128) * 4096 + (b2 - 128) * 64 + (b3 - 128)).
  { destruct (N.eq_dec b0 240) as [E|E]; [specialize (Hlo E); lia | lia]. }
  assert (Hlt : (b0 - 240) * 262144 + (b1 - 128) * 4096 + (b2 - 128) * 64 + (b3 - 128) < 1114112).
  { destruct (N.eq_dec b0 244) as [E|E]; [specialize (Hhi E); lia | lia]. }
  repeat split.
  - unfold scalar. apply orb_true_intro. right. apply andb_true_intro. split; [apply N.leb_le | apply N.ltb_lt]; lia.
  - unfold utf8_char.
    replace ((b0 - 240) * 262144 + (b1 - 128) * 4096 + (b2 - 128) * 64 + (b3 - 128) <? 128) with false by (symmetry; apply N.ltb_ge; lia).
    replace ((b0 - 240) * 262144 + (b1 - 128) * 4096 + (b2 - 128) * 64 + (b3 - 128) <? 2048) with false by (symmetry; apply N.ltb_ge; lia).
    replace ((b0 - 240) * 262144 + (b1 - 128) * 4096 + (b2 - 128) * 64 + (b3 - 128) <? 65536) with false by (symmetry; apply N.ltb_ge; lia).
    cbn [app]. f_equal; [lia|]. f_equal; [lia|]. f_equal; [lia|]. f_equal. lia.
  - exact Hr.
  - cbn [length]. lia.
Qed.

(* soundness: whatever is accepted is the encoding of a sequence of scalar values *)
Lemma utf8_valid_sound : forall n s, (length s <= n)%nat -> utf8_valid s = true ->
  exists cs, forallb scalar cs = true /\ s = utf8_of cs.
Proof.
  induction n as [|n IH]; intros s Hn Hv.
  - destruct s; [|cbn [length] in Hn; lia]. exists []. split; reflexivity.
  - destruct s as [|b t] eqn:Es; [exists []; split; reflexivity|]. rewrite <- Es in *.
    assert (Hne : s <> []) by (rewrite Es; discriminate).
    destruct (utf8_valid_head s Hne Hv) as (c & r & Hc & Hs & Hr & Hlen).
    destruct (IH r ltac:(lia) Hr) as (cs & Hcs & Hrcs).
    exists (c :: cs). split.
    + cbn [forallb]. now rewrite Hc, Hcs.
    + unfold utf8_of. cbn [flat_map]. fold (utf8_of cs). now rewrite <- Hrcs.
Qed.

Lemma utf8_valid_iff : forall s, utf8_valid s = true <-> exists cs, forallb scalar cs = true /\ s = utf8_of cs.
Proof.
  intros s. split.
  - apply (utf8_valid_sound (length s)). lia.
  - intros (cs & Hcs & ->). apply utf8_valid_of_scalars. exact Hcs.
Qed.
