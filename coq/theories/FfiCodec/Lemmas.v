(* FfiCodec/Lemmas.v — proofs about FfiCodec/Model.v: FfiValue over bincode, to_ffi_value / to_value, macro arguments *)
From Coq Require Import String NArith List Bool Lia Arith.
From Mimium Require Import Tables.FfiTables FfiCodec.Model FfiCodec.Wire.
Import ListNotations.
Local Open Scope list_scope.
Local Open Scope N_scope.

(* ------------------------------------------------------------------ *)
(* the generated tables                                                 *)
(* ------------------------------------------------------------------ *)

Lemma tables_agree_true : tables_agree = true.
Proof. vm_compute. reflexivity. Qed.

Lemma ffi_index_spec : forall k, ffi_kind_of_index (ffi_index k) = Some k /\ ffi_index k < pow32.
Proof. intros k. destruct k; vm_compute; split; reflexivity. Qed.

(* ------------------------------------------------------------------ *)
(* induction principles for the nested inductives                       *)
(* ------------------------------------------------------------------ *)

Section ffi_value_ind.
  Variable P : ffi_value -> Prop.
  Hypothesis HErrorV : P FErrorV.
  Hypothesis HUnit : P FUnit.
  Hypothesis HNumber : forall n, P (FNumber n).
  Hypothesis HString : forall s, P (FString s).
  Hypothesis HArray : forall l, Forall P l -> P (FArray l).
  Hypothesis HTuple : forall l, Forall P l -> P (FTuple l).
  Hypothesis HRecord : forall l, Forall (fun kv => P (snd kv)) l -> P (FRecord l).
  Hypothesis HCode : forall e, P (FCode e).
  Hypothesis HTagged : forall t x, P x -> P (FTaggedUnion t x).

  Fixpoint ffi_value_ind' (f : ffi_value) : P f :=
    match f with
    | FErrorV => HErrorV
    | FUnit => HUnit
    | FNumber n => HNumber n
    | FString s => HString s
    | FArray l => HArray l ((fix go (l : list ffi_value) : Forall P l :=
                               match l with
                               | [] => Forall_nil _
                               | x :: t => Forall_cons _ (ffi_value_ind' x) (go t)
                               end) l)
    | FTuple l => HTuple l ((fix go (l : list ffi_value) : Forall P l :=
                               match l with
                               | [] => Forall_nil _
                               | x :: t => Forall_cons _ (ffi_value_ind' x) (go t)
                               end) l)
    | FRecord l => HRecord l ((fix go (l : list (str * ffi_value)) : Forall (fun kv => P (snd kv)) l :=
                                 match l with
                                 | [] => Forall_nil _
                                 | kv :: t => Forall_cons _ (ffi_value_ind' (snd kv)) (go t)
                                 end) l)
    | FCode e => HCode e
    | FTaggedUnion t x => HTagged t x (ffi_value_ind' x)
    end.
End ffi_value_ind.

Section value_ind.
  Variable S : Type.
  Variable P : value S -> Prop.
  Hypothesis HErrorV : forall e, P (VErrorV e).
  Hypothesis HUnit : P VUnit.
  Hypothesis HNumber : forall n, P (VNumber n).
  Hypothesis HString : forall s, P (VString s).
  Hypothesis HArray : forall l, Forall P l -> P (VArray l).
  Hypothesis HRecord : forall l, Forall (fun kv => P (snd kv)) l -> P (VRecord l).
  Hypothesis HTuple : forall l, Forall P l -> P (VTuple l).
  Hypothesis HClosure : forall e names, P (VClosure e names).
  Hypothesis HFixpoint : forall s e, P (VFixpoint s e).
  Hypothesis HCode : forall e, P (VCode e).
  Hypothesis HExternalFn : forall nm, P (VExternalFn nm).
  Hypothesis HStore : forall x, P x -> P (VStore x).
  Hypothesis HTagged : forall t x, P x -> P (VTaggedUnion t x).
  Hypothesis HConstructorFn : forall t s k, P (VConstructorFn t s k).

  Fixpoint value_ind' (v : value S) : P v :=
    match v with
    | VErrorV e => HErrorV e
    | VUnit => HUnit
    | VNumber n => HNumber n
    | VString s => HString s
    | VArray l => HArray l ((fix go (l : list (value S)) : Forall P l :=
                               match l with
                               | [] => Forall_nil _
                               | x :: t => Forall_cons _ (value_ind' x) (go t)
                               end) l)
    | VRecord l => HRecord l ((fix go (l : list (S * value S)) : Forall (fun kv => P (snd kv)) l :=
                                 match l with
                                 | [] => Forall_nil _
                                 | kv :: t => Forall_cons _ (value_ind' (snd kv)) (go t)
                                 end) l)
    | VTuple l => HTuple l ((fix go (l : list (value S)) : Forall P l :=
                               match l with
                               | [] => Forall_nil _
                               | x :: t => Forall_cons _ (value_ind' x) (go t)
                               end) l)
    | VClosure e names => HClosure e names
    | VFixpoint s e => HFixpoint s e
    | VCode e => HCode e
    | VExternalFn nm => HExternalFn nm
    | VStore x => HStore x (value_ind' x)
    | VTaggedUnion t x => HTagged t x (value_ind' x)
    | VConstructorFn t s k => HConstructorFn t s k
    end.
End value_ind.

(* ------------------------------------------------------------------ *)
(* FfiValue over bincode                                                *)
(* ------------------------------------------------------------------ *)

(* number of nodes: the fuel that certainly suffices *)
Fixpoint ffi_size (f : ffi_value) : nat :=
  match f with
  | FArray l | FTuple l => S (list_sum (map ffi_size l))
  | FRecord l => S (list_sum (map (fun kv => ffi_size (snd kv)) l))
  | FTaggedUnion _ x => S (ffi_size x)
  | _ => 1
  end.

Lemma in_list_sum : forall (A : Type) (f : A -> nat) (l : list A) x, In x l -> (f x <= list_sum (map f l))%nat.
Proof.
  intros A f l x H. induction l as [|y t IH]; [contradiction|].
  change (list_sum (map f (y :: t))) with (f y + list_sum (map f t))%nat. destruct H as [->|H]; [lia | specialize (IH H); lia].
Qed.

Lemma decode_S : forall f bs,
  decode (S f) bs =
  bind (dec_u32 bs) (fun i r =>
      match ffi_kind_of_index i with
      | None => None
      | Some KErrorV => Some (FErrorV, r)
      | Some KUnit => Some (FUnit, r)
      | Some KNumber => bind (dec_u64 r) (fun n r' => Some (FNumber n, r'))
      | Some KString => bind (dec_string r) (fun s r' => Some (FString s, r'))
      | Some KArray => bind (dec_vec (decode f) r) (fun l r' => Some (FArray l, r'))
      | Some KTuple => bind (dec_vec (decode f) r) (fun l r' => Some (FTuple l, r'))
      | Some KRecord => bind (dec_vec (dec_pair dec_string (decode f)) r) (fun l r' => Some (FRecord l, r'))
      | Some KCode => bind (dec_key r) (fun e r' => Some (FCode e, r'))
      | Some KTaggedUnion => bind (dec_u64 r) (fun t r' => bind (decode f r') (fun x r'' => Some (FTaggedUnion t x, r'')))
      end).
Proof. reflexivity. Qed.

Lemma length_encode_ge : forall f, (4 <= length (encode f))%nat.
Proof.
  intros f. destruct f; cbn [encode]; rewrite ?app_length, length_enc_u32; lia.
Qed.

Ltac tag_step k :=
  rewrite decode_S; rewrite <- ?app_assoc;
  rewrite (rt_u32 _ (proj2 (ffi_index_spec k))); cbn [bind];
  rewrite (proj1 (ffi_index_spec k)).

Lemma decode_encode : forall f, ffi_ok f = true ->
  forall fuel rest, (ffi_size f <= fuel)%nat -> decode fuel (encode f ++ rest) = Some (f, rest).
Proof.
  induction f as [| |n|s|l IH|l IH|l IH|e|t x IH] using ffi_value_ind'; intros Hok fuel rest Hfuel;
    (destruct fuel as [|fuel]; [cbn [ffi_size] in Hfuel; lia|]); cbn [encode ffi_ok ffi_size] in *.
  - tag_step KErrorV. reflexivity.
  - tag_step KUnit. reflexivity.
  - tag_step KNumber. apply N.ltb_lt in Hok. rewrite rt_u64 by exact Hok. reflexivity.
  - tag_step KString. rewrite rt_string by exact Hok. reflexivity.
  - tag_step KArray. apply andb_prop in Hok as [Hlen Hall].
    rewrite (rt_vec _ encode (decode fuel) l); [reflexivity | | | exact Hlen].
    + rewrite forallb_forall in Hall. rewrite Forall_forall in IH |- *. intros x Hx rest'.
      apply IH; [exact Hx | apply Hall; exact Hx |].
      pose proof (in_list_sum _ ffi_size l x Hx). lia.
    + apply Forall_forall. intros x _. pose proof (length_encode_ge x). lia.
  - tag_step KTuple. apply andb_prop in Hok as [Hlen Hall].
    rewrite (rt_vec _ encode (decode fuel) l); [reflexivity | | | exact Hlen].
    + rewrite forallb_forall in Hall. rewrite Forall_forall in IH |- *. intros x Hx rest'.
      apply IH; [exact Hx | apply Hall; exact Hx |].
      pose proof (in_list_sum _ ffi_size l x Hx). lia.
    + apply Forall_forall. intros x _. pose proof (length_encode_ge x). lia.
  - tag_step KRecord. apply andb_prop in Hok as [Hlen Hall].
    rewrite (rt_vec _ (fun kv => enc_string (fst kv) ++ encode (snd kv)) (dec_pair dec_string (decode fuel)) l);
      [reflexivity | | | exact Hlen].
    + rewrite forallb_forall in Hall. rewrite Forall_forall in IH |- *. intros kv Hkv.
      specialize (Hall kv Hkv). apply andb_prop in Hall as [Hk Hv].
      apply (rt_pair _ _ enc_string encode dec_string (decode fuel) kv).
      * apply rt_string. exact Hk.
      * intros rest'. apply IH; [exact Hkv | exact Hv |].
        pose proof (in_list_sum _ (fun kv => ffi_size (snd kv)) l kv Hkv). cbn beta in *. lia.
    + apply Forall_forall. intros kv _. rewrite app_length. pose proof (length_enc_string (fst kv)). lia.
  - tag_step KCode. rewrite rt_key by exact Hok. reflexivity.
  - tag_step KTaggedUnion. apply andb_prop in Hok as [Ht Hx]. apply N.ltb_lt in Ht.
    rewrite rt_u64 by exact Ht. cbn [bind]. rewrite IH; [reflexivity | exact Hx | lia].
Qed.

Lemma list_sum_le_flat_map : forall (A : Type) (sz : A -> nat) (e : A -> list N) (l : list A),
  Forall (fun x => (sz x <= length (e x))%nat) l -> (list_sum (map sz l) <= length (flat_map e l))%nat.
Proof.
  intros A sz e l H. induction H as [|x t Hx _ IH]; [cbn; lia|].
  change (list_sum (map sz (x :: t))) with (sz x + list_sum (map sz t))%nat.
  cbn [flat_map]. rewrite app_length. lia.
Qed.

Lemma ffi_size_le_length : forall f, (ffi_size f <= length (encode f))%nat.
Proof.
  induction f as [| |n|s|l IH|l IH|l IH|e|t x IH] using ffi_value_ind'; cbn [encode ffi_size];
    unfold enc_vec; rewrite ?app_length, ?length_enc_u32, ?length_enc_u64; try lia.
  - pose proof (list_sum_le_flat_map _ ffi_size encode l IH). lia.
  - pose proof (list_sum_le_flat_map _ ffi_size encode l IH). lia.
  - pose proof (list_sum_le_flat_map _ (fun kv => ffi_size (snd kv)) (fun kv => enc_string (fst kv) ++ encode (snd kv)) l) as H.
    assert (Hf : Forall (fun kv : str * ffi_value => (ffi_size (snd kv) <= length (enc_string (fst kv) ++ encode (snd kv)))%nat) l).
    { rewrite Forall_forall in IH |- *. intros kv Hkv. rewrite app_length. specialize (IH kv Hkv). lia. }
    specialize (H Hf). lia.
Qed.

(* bincode::deserialize::<FfiValue>(bincode::serialize(f) ++ rest) *)
Lemma decode_ffi_encode : forall f rest, ffi_ok f = true -> decode_ffi (encode f ++ rest) = Some (f, rest).
Proof.
  intros f rest Hok. unfold decode_ffi. apply decode_encode; [exact Hok|].
  rewrite app_length. pose proof (ffi_size_le_length f). lia.
Qed.

(* ------------------------------------------------------------------ *)
(* Value::to_ffi_value / FfiValue::to_value                             *)
(* ------------------------------------------------------------------ *)

Lemma map_res_spec : forall (A B : Type) (f : A -> result B) (g : A -> option ffi_err) (Q : A -> B -> Prop) (l : list A),
  Forall (fun x => match g x with
                   | Some e => f x = Err e
                   | None => exists y, f x = Ok y /\ Q x y
                   end) l ->
  match first_some g l with
  | Some e => map_res f l = Err e
  | None => exists ys, map_res f l = Ok ys /\ Forall2 Q l ys
  end.
Proof.
  intros A B f g Q l H. induction H as [|x t Hx _ IH].
  - cbn. exists []. split; [reflexivity | constructor].
  - cbn [first_some map_res]. destruct (g x) as [e|].
    + rewrite Hx. reflexivity.
    + destruct Hx as (y & Hy & HQ). rewrite Hy.
      change ((fix go (l : list A) : option ffi_err :=
                 match l with [] => None | x :: t => match g x with Some e' => Some e' | None => go t end end) t)
        with (first_some g t).
      change ((fix go (l : list A) : result (list B) :=
                 match l with
                 | [] => Ok []
                 | x :: t => match f x with
                             | Err e1 => Err e1
                             | Ok y => match go t with Err e2 => Err e2 | Ok ys => Ok (y :: ys) end
                             end
                 end) t) with (map_res f t).
      destruct (first_some g t) as [e|].
      * rewrite IH. reflexivity.
      * destruct IH as (ys & Hys & HF). rewrite Hys. exists (y :: ys). split; [reflexivity | constructor; assumption].
Qed.

Lemma Forall2_length_eq : forall (A B : Type) (Q : A -> B -> Prop) l l', Forall2 Q l l' -> length l = length l'.
Proof. intros A B Q l l' H. induction H; cbn [length]; congruence. Qed.

Lemma Forall2_map_eq : forall (A B C : Type) (g : B -> C) (h : A -> C) (Q : A -> B -> Prop) l ys,
  Forall2 Q l ys -> (forall x y, Q x y -> g y = h x) -> map g ys = map h l.
Proof. intros A B C g h Q l ys H HQ. induction H as [|x y t t' Hxy _ IH]; cbn [map]; [reflexivity|]. now rewrite (HQ _ _ Hxy), IH. Qed.

Lemma Forall2_forallb : forall (A B : Type) (p : A -> bool) (q : B -> bool) (Q : A -> B -> Prop) l ys,
  Forall2 Q l ys -> (forall x y, Q x y -> p x = true -> q y = true) -> forallb p l = true -> forallb q ys = true.
Proof.
  intros A B p q Q l ys H HQ. induction H as [|x y t t' Hxy _ IH]; cbn [forallb]; [reflexivity|].
  intros Hall. apply andb_prop in Hall as [Hx Ht]. now rewrite (HQ _ _ Hxy Hx), (IH Ht).
Qed.

(* the complete description of to_ffi_value followed by to_value *)
Definition conv_post (v : value str) (f : ffi_value) : Prop :=
  of_ffi f = squash_errorv v /\ (value_ok str_ok v = true -> ffi_ok f = true).

Lemma to_ffi_spec : forall v : value str,
  match first_refused v with
  | Some e => to_ffi v = Err e
  | None => exists f, to_ffi v = Ok f /\ conv_post v f
  end.
Proof.
  induction v as [e| |n|s|l IH|l IH|l IH|e names|s e|e|nm|x IH|t x IH|t s k] using value_ind';
    cbn [first_refused to_ffi]; try reflexivity;
    try (eexists; split; [reflexivity | split; [reflexivity | cbn [value_ok ffi_ok]; intros H; exact H]]).
  - (* ErrorV *) eexists. split; [reflexivity | split; [reflexivity | reflexivity]].
  - (* Array *)
    pose proof (map_res_spec _ _ to_ffi first_refused conv_post l IH) as H.
    destruct (first_some first_refused l) as [e|]; [rewrite H; reflexivity|].
    destruct H as (ys & Hys & HF). rewrite Hys. eexists. split; [reflexivity|]. split.
    + cbn [of_ffi squash_errorv]. f_equal. apply (Forall2_map_eq _ _ _ _ _ _ _ _ HF). intros x y [Hxy _]. exact Hxy.
    + cbn [value_ok ffi_ok]. intros Hok. apply andb_prop in Hok as [Hlen Hall].
      unfold len_ok in *. rewrite <- (Forall2_length_eq _ _ _ _ _ HF), Hlen. cbn [andb].
      apply (Forall2_forallb _ _ (value_ok str_ok) ffi_ok _ _ _ HF); [|exact Hall]. intros x y [_ Hxy]. exact Hxy.
  - (* Record *)
    pose proof (map_res_spec _ _ (fun kv => match to_ffi (snd kv) with Ok y => Ok (fst kv, y) | Err e => Err e end)
                  (fun kv => first_refused (snd kv))
                  (fun kv kf => fst kf = fst kv /\ conv_post (snd kv) (snd kf)) l) as H.
    assert (Hpre : Forall (fun x : str * value str =>
              match first_refused (snd x) with
              | Some e => match to_ffi (snd x) with Ok y => Ok (fst x, y) | Err e0 => Err e0 end = Err e
              | None => exists y : str * ffi_value,
                  match to_ffi (snd x) with Ok y0 => Ok (fst x, y0) | Err e => Err e end = Ok y /\
                  fst y = fst x /\ conv_post (snd x) (snd y)
              end) l).
    { rewrite Forall_forall in IH |- *. intros kv Hkv. specialize (IH kv Hkv).
      destruct (first_refused (snd kv)) as [e|].
      - rewrite IH. reflexivity.
      - destruct IH as (f & Hf & Hpost). rewrite Hf. exists (fst kv, f). cbn [fst snd]. auto. }
    specialize (H Hpre). clear Hpre.
    destruct (first_some (fun kv => first_refused (snd kv)) l) as [e|]; [rewrite H; reflexivity|].
    destruct H as (ys & Hys & HF). rewrite Hys. eexists. split; [reflexivity|]. split.
    + cbn [of_ffi squash_errorv]. f_equal.
      apply (Forall2_map_eq _ _ _ _ _ _ _ _ HF). intros x y (Hk & Hxy & _). cbn beta. now rewrite Hk, Hxy.
    + cbn [value_ok ffi_ok]. intros Hok. apply andb_prop in Hok as [Hlen Hall].
      unfold len_ok in *. rewrite <- (Forall2_length_eq _ _ _ _ _ HF), Hlen. cbn [andb].
      apply (Forall2_forallb _ _ (fun kv => str_ok (fst kv) && value_ok str_ok (snd kv)) (fun kv => str_ok (fst kv) && ffi_ok (snd kv)) _ _ _ HF); [|exact Hall]. intros x y (Hk & _ & Hxy) Hx. cbn beta in *.
      apply andb_prop in Hx as [Hkx Hvx]. now rewrite Hk, Hkx, (Hxy Hvx).
  - (* Tuple *)
    pose proof (map_res_spec _ _ to_ffi first_refused conv_post l IH) as H.
    destruct (first_some first_refused l) as [e|]; [rewrite H; reflexivity|].
    destruct H as (ys & Hys & HF). rewrite Hys. eexists. split; [reflexivity|]. split.
    + cbn [of_ffi squash_errorv]. f_equal. apply (Forall2_map_eq _ _ _ _ _ _ _ _ HF). intros x y [Hxy _]. exact Hxy.
    + cbn [value_ok ffi_ok]. intros Hok. apply andb_prop in Hok as [Hlen Hall].
      unfold len_ok in *. rewrite <- (Forall2_length_eq _ _ _ _ _ HF), Hlen. cbn [andb].
      apply (Forall2_forallb _ _ (value_ok str_ok) ffi_ok _ _ _ HF); [|exact Hall]. intros x y [_ Hxy]. exact Hxy.
  - (* TaggedUnion *)
    destruct (first_refused x) as [e|]; [rewrite IH; reflexivity|].
    destruct IH as (f & Hf & Hof & Hokf). rewrite Hf. eexists. split; [reflexivity|]. split.
    + cbn [of_ffi squash_errorv]. now rewrite Hof.
    + cbn [value_ok ffi_ok]. intros Hok. apply andb_prop in Hok as [Ht Hx]. rewrite Ht, (Hokf Hx). reflexivity.
Qed.

Lemma first_some_none : forall (A B : Type) (g : A -> option B) (l : list A),
  Forall (fun x => g x = None) l -> first_some g l = None.
Proof.
  intros A B g l H. induction H as [|x t Hx _ IH]; [reflexivity|].
  cbn [first_some]. rewrite Hx. exact IH.
Qed.

Lemma crossable_spec : forall v : value str, crossable v = true -> first_refused v = None /\ has_errorv v = false.
Proof.
  induction v as [e| |n|s|l IH|l IH|l IH|e names|s e|e|nm|x IH|t x IH|t s k] using value_ind';
    cbn [crossable first_refused has_errorv]; intros H; try discriminate; try (split; reflexivity).
  - rewrite forallb_forall in H. rewrite Forall_forall in IH. split.
    + apply first_some_none. apply Forall_forall. intros x Hx. apply (IH x Hx (H x Hx)).
    + apply not_true_is_false. intros He. apply existsb_exists in He as (x & Hx & Hex).
      destruct (IH x Hx (H x Hx)) as [_ Hne]. congruence.
  - rewrite forallb_forall in H. rewrite Forall_forall in IH. split.
    + apply first_some_none. apply Forall_forall. intros x Hx. apply (IH x Hx (H x Hx)).
    + apply not_true_is_false. intros He. apply existsb_exists in He as (x & Hx & Hex).
      destruct (IH x Hx (H x Hx)) as [_ Hne]. congruence.
  - rewrite forallb_forall in H. rewrite Forall_forall in IH. split.
    + apply first_some_none. apply Forall_forall. intros x Hx. apply (IH x Hx (H x Hx)).
    + apply not_true_is_false. intros He. apply existsb_exists in He as (x & Hx & Hex).
      destruct (IH x Hx (H x Hx)) as [_ Hne]. congruence.
  - exact (IH H).
Qed.

Lemma map_id_on : forall (A : Type) (f : A -> A) (l : list A), Forall (fun x => f x = x) l -> map f l = l.
Proof. intros A f l H. induction H as [|x t Hx _ IH]; cbn [map]; [reflexivity | now rewrite Hx, IH]. Qed.

Lemma map_id_inv : forall (A : Type) (f : A -> A) (l : list A), map f l = l -> Forall (fun x => f x = x) l.
Proof.
  intros A f l. induction l as [|x t IH]; cbn [map]; intros H; constructor.
  - now injection H.
  - apply IH. now injection H.
Qed.

(* nothing but the ErrorV nodes is altered: the conversion result equals the original iff there is none *)
Lemma squash_errorv_id_iff : forall v : value str, squash_errorv v = v <-> has_errorv v = false.
Proof.
  induction v as [e| |n|s|l IH|l IH|l IH|e names|s e|e|nm|x IH|t x IH|t s k] using value_ind';
    cbn [squash_errorv has_errorv]; try (split; [reflexivity | reflexivity]).
  - split; discriminate.
  - split.
    + intros H. injection H as H. apply map_id_inv in H. apply not_true_is_false. intros He.
      apply existsb_exists in He as (x & Hx & Hex). rewrite Forall_forall in IH, H.
      apply (IH x Hx) in H; [congruence | exact Hx].
    + intros H. f_equal. apply map_id_on. rewrite Forall_forall in IH |- *. intros x Hx. apply (IH x Hx).
      apply not_true_is_false. intros Hex. assert (existsb has_errorv l = true) by (apply existsb_exists; eauto). congruence.
  - split.
    + intros H. injection H as H. apply not_true_is_false. intros He.
      apply existsb_exists in He as (kv & Hkv & Hex). rewrite Forall_forall in IH.
      apply map_id_inv in H. rewrite Forall_forall in H. specialize (H kv Hkv).
      assert (Hs : squash_errorv (snd kv) = snd kv) by (destruct kv as [k0 v0]; cbn [fst snd] in *; now injection H).
      apply (IH kv Hkv) in Hs. congruence.
    + intros H. f_equal. apply map_id_on. rewrite Forall_forall in IH |- *. intros kv Hkv.
      assert (Hne : has_errorv (snd kv) = false).
      { apply not_true_is_false. intros Hex.
        assert (existsb (fun kv => has_errorv (snd kv)) l = true) by (apply existsb_exists; eauto). congruence. }
      apply (IH kv Hkv) in Hne. destruct kv as [k0 v0]. cbn [fst snd] in *. now rewrite Hne.
  - split.
    + intros H. injection H as H. apply map_id_inv in H. apply not_true_is_false. intros He.
      apply existsb_exists in He as (x & Hx & Hex). rewrite Forall_forall in IH, H.
      apply (IH x Hx) in H; [congruence | exact Hx].
    + intros H. f_equal. apply map_id_on. rewrite Forall_forall in IH |- *. intros x Hx. apply (IH x Hx).
      apply not_true_is_false. intros Hex. assert (existsb has_errorv l = true) by (apply existsb_exists; eauto). congruence.
  - split.
    + intros H. injection H as H. apply IH. exact H.
    + intros H. f_equal. apply IH. exact H.
Qed.

(* ---- the statements used by Props/C20.v ---- *)

(* refusal: Err exactly when a Closure / Fixpoint / ExternalFn / Store / ConstructorFn is met, with the error of the first one *)
Lemma to_ffi_err_iff : forall (v : value str) e, to_ffi v = Err e <-> first_refused v = Some e.
Proof.
  intros v e. pose proof (to_ffi_spec v) as H. destruct (first_refused v) as [e'|].
  - rewrite H. split; intros E; injection E as ->; reflexivity.
  - destruct H as (f & Hf & _). rewrite Hf. split; discriminate.
Qed.

Lemma to_ffi_ok_iff : forall v : value str, (exists f, to_ffi v = Ok f) <-> first_refused v = None.
Proof.
  intros v. pose proof (to_ffi_spec v) as H. destruct (first_refused v) as [e'|].
  - rewrite H. split; [intros [f Hf]; discriminate | discriminate].
  - destruct H as (f & Hf & _). split; [reflexivity | eauto].
Qed.

Lemma of_ffi_to_ffi : forall (v : value str) f, to_ffi v = Ok f -> of_ffi f = squash_errorv v.
Proof.
  intros v f Hf. pose proof (to_ffi_spec v) as H. destruct (first_refused v) as [e'|]; [congruence|].
  destruct H as (f' & Hf' & Hpost & _). congruence.
Qed.

Lemma to_ffi_ok_wf : forall (v : value str) f, to_ffi v = Ok f -> value_ok str_ok v = true -> ffi_ok f = true.
Proof.
  intros v f Hf Hok. pose proof (to_ffi_spec v) as H. destruct (first_refused v) as [e'|]; [congruence|].
  destruct H as (f' & Hf' & _ & Hwf). assert (f' = f) by congruence. subst f'. exact (Hwf Hok).
Qed.

(* serialize_value then deserialize_value, with arbitrary bytes following the encoding *)
Lemma value_roundtrip : forall v : value str, representable v = true ->
  exists f, to_ffi v = Ok f /\ serialize_value v = Ok (encode f) /\ of_ffi f = v /\
            forall rest, decode_ffi (encode f ++ rest) = Some (f, rest) /\ deserialize_value (encode f ++ rest) = Some v.
Proof.
  intros v Hrep. unfold representable in Hrep. apply andb_prop in Hrep as [Hc Hok].
  destruct (crossable_spec v Hc) as [Hnr Hne].
  destruct (proj2 (to_ffi_ok_iff v) Hnr) as [f Hf].
  pose proof (of_ffi_to_ffi v f Hf) as Hof. rewrite (proj2 (squash_errorv_id_iff v) Hne) in Hof.
  pose proof (to_ffi_ok_wf v f Hf Hok) as Hwf.
  exists f. repeat split; try assumption.
  - unfold serialize_value. now rewrite Hf.
  - apply decode_ffi_encode. exact Hwf.
  - unfold deserialize_value. rewrite decode_ffi_encode by exact Hwf. now rewrite Hof.
Qed.

(* F10, general form: whatever crosses comes back with its ErrorV nodes replaced by Unit and nothing else changed *)
Lemma value_roundtrip_squash : forall (v : value str) bs, value_ok str_ok v = true -> serialize_value v = Ok bs ->
  forall rest, deserialize_value (bs ++ rest) = Some (squash_errorv v).
Proof.
  intros v bs Hok Hs rest. unfold serialize_value in Hs. destruct (to_ffi v) as [f|e] eqn:Hf; [|discriminate].
  injection Hs as <-. unfold deserialize_value.
  rewrite decode_ffi_encode by (eapply to_ffi_ok_wf; eauto). now rewrite (of_ffi_to_ffi v f Hf).
Qed.

(* ------------------------------------------------------------------ *)
(* macro arguments: Vec<(FfiValue, TypeNodeId)>                          *)
(* ------------------------------------------------------------------ *)

Lemma in_length_flat_map : forall (A : Type) (e : A -> list N) (l : list A) x,
  In x l -> (length (e x) <= length (flat_map e l))%nat.
Proof.
  intros A e l x H. induction l as [|y t IH]; [contradiction|].
  cbn [flat_map]. rewrite app_length. destruct H as [->|H]; [lia | specialize (IH H); lia].
Qed.


Lemma decode_args_encode : forall l rest, len_ok l = true -> forallb arg_ok l = true ->
  decode_args (encode_args l ++ rest) = Some (l, rest).
Proof.
  intros l rest Hlen Hall. unfold decode_args, encode_args.
  set (F := S (length (enc_vec (fun p : ffi_value * key => encode (fst p) ++ enc_key (snd p)) l ++ rest))).
  apply (rt_vec _ (fun p : ffi_value * key => encode (fst p) ++ enc_key (snd p)) (dec_pair (decode F) dec_key) l); [| |exact Hlen].
  - rewrite forallb_forall in Hall. apply Forall_forall. intros p Hp. specialize (Hall p Hp).
    unfold arg_ok in Hall. apply andb_prop in Hall as [Hf Hk].
    apply (rt_pair _ _ encode enc_key (decode F) dec_key p); [|apply rt_key; exact Hk].
    intros rest'. apply decode_encode; [exact Hf|].
    pose proof (ffi_size_le_length (fst p)) as H1.
    pose proof (in_length_flat_map _ (fun p : ffi_value * key => encode (fst p) ++ enc_key (snd p)) l p Hp) as H2.
    cbn beta in H2. rewrite app_length in H2.
    subst F. unfold enc_vec. rewrite !app_length. lia.
  - apply Forall_forall. intros p _. rewrite app_length, length_enc_key. lia.
Qed.


Lemma args_conv_spec : forall args : list (value str * key),
  match first_some arg_refused args with
  | Some e => serialize_macro_args args = Err e
  | None => exists l, serialize_macro_args args = Ok (encode_args l) /\
                      Forall2 (fun p q => snd q = snd p /\ conv_post (fst p) (fst q)) args l
  end.
Proof.
  intros args. unfold serialize_macro_args.
  pose proof (map_res_spec _ _ (fun p : value str * key => match to_ffi (fst p) with Ok f => Ok (f, snd p) | Err e => Err e end)
                arg_refused (fun p q => snd q = snd p /\ conv_post (fst p) (fst q)) args) as H.
  assert (Hpre : Forall (fun x : value str * key =>
            match arg_refused x with
            | Some e => match to_ffi (fst x) with Ok f => Ok (f, snd x) | Err e0 => Err e0 end = Err e
            | None => exists y : ffi_value * key,
                match to_ffi (fst x) with Ok f => Ok (f, snd x) | Err e => Err e end = Ok y /\
                snd y = snd x /\ conv_post (fst x) (fst y)
            end) args).
  { apply Forall_forall. intros p _. unfold arg_refused. pose proof (to_ffi_spec (fst p)) as Hs.
    destruct (first_refused (fst p)) as [e|].
    - rewrite Hs. reflexivity.
    - destruct Hs as (f & Hf & Hpost). rewrite Hf. exists (f, snd p). cbn [fst snd]. auto. }
  specialize (H Hpre). destruct (first_some arg_refused args) as [e|].
  - rewrite H. reflexivity.
  - destruct H as (l & Hl & HF). rewrite Hl. exists l. split; [reflexivity | exact HF].
Qed.

Lemma args_roundtrip : forall args : list (value str * key),
  len_ok args = true -> forallb arg_representable args = true ->
  exists l, serialize_macro_args args = Ok (encode_args l) /\
            forall rest, decode_args (encode_args l ++ rest) = Some (l, rest) /\
                         deserialize_macro_args (encode_args l ++ rest) = Some args.
Proof.
  intros args Hlen Hall. pose proof (args_conv_spec args) as H.
  assert (Hnone : first_some arg_refused args = None).
  { apply first_some_none. rewrite forallb_forall in Hall. apply Forall_forall. intros p Hp.
    specialize (Hall p Hp). unfold arg_representable, representable in Hall.
    apply andb_prop in Hall as [Hr _]. apply andb_prop in Hr as [Hc _]. unfold arg_refused. apply crossable_spec. exact Hc. }
  rewrite Hnone in H. destruct H as (l & Hl & HF). exists l. split; [exact Hl|].
  assert (Hlen' : len_ok l = true) by (unfold len_ok in *; now rewrite <- (Forall2_length_eq _ _ _ _ _ HF)).
  assert (Hok : forallb arg_ok l = true).
  { apply (Forall2_forallb _ _ arg_representable arg_ok _ _ _ HF); [|exact Hall].
    intros p q (Hk & _ & Hwf) Hp. unfold arg_representable, representable in Hp. unfold arg_ok.
    apply andb_prop in Hp as [Hr Hkp]. apply andb_prop in Hr as [_ Hvok]. now rewrite Hk, Hkp, (Hwf Hvok). }
  assert (Hback : map (fun p : ffi_value * key => (of_ffi (fst p), snd p)) l = args).
  { clear Hl Hlen Hlen' Hok Hnone.
    induction HF as [|p q t t' (Hk & Hof & _) _ IH]; cbn [map]; [reflexivity|].
    cbn [forallb] in Hall. apply andb_prop in Hall as [Hp Ht]. rewrite (IH Ht). f_equal.
    unfold arg_representable, representable in Hp. apply andb_prop in Hp as [Hr _]. apply andb_prop in Hr as [Hc _].
    destruct (crossable_spec _ Hc) as [_ Hne].
    destruct p as [v k]. cbn [fst snd] in *. rewrite Hk, Hof. f_equal. apply squash_errorv_id_iff. exact Hne. }
  intros rest. split; [apply decode_args_encode; assumption|].
  unfold deserialize_macro_args. rewrite decode_args_encode by assumption. now rewrite Hback.
Qed.

Lemma refusal_variants : forall (e : key) (names : list str) (s : str) (x : value str) (tag : N) (t : key),
  to_ffi (VClosure e names) = Err ErrClosure /\ to_ffi (VFixpoint s e) = Err ErrFixpoint /\
  to_ffi (VExternalFn s) = Err ErrExternalFn /\ to_ffi (VStore x) = Err ErrStore /\
  to_ffi (VConstructorFn tag s t) = Err ErrConstructorFn.
Proof. intros. repeat split. Qed.

Lemma args_refusal : forall args : list (value str * key),
  match first_some arg_refused args with
  | Some e => serialize_macro_args args = Err e
  | None => exists bs, serialize_macro_args args = Ok bs
  end.
Proof.
  intros args. pose proof (args_conv_spec args) as H. destruct (first_some arg_refused args); [exact H|].
  destruct H as (l & Hl & _). eauto.
Qed.

Lemma errorv_refuted : exists (v : value str) (bs : list N),
  value_ok str_ok v = true /\ serialize_value v = Ok bs /\ deserialize_value bs = Some VUnit /\ v <> VUnit.
Proof.
  exists (VErrorV (Key 1 1)), (encode FErrorV). repeat split; try (vm_compute; reflexivity). discriminate.
Qed.

Lemma only_errorv_altered : forall (v : value str) bs, value_ok str_ok v = true -> serialize_value v = Ok bs ->
  (forall rest, deserialize_value (bs ++ rest) = Some (squash_errorv v)) /\ (squash_errorv v = v <-> has_errorv v = false).
Proof.
  intros v bs Hok Hs. split; [apply value_roundtrip_squash; assumption | apply squash_errorv_id_iff].
Qed.
