(* FfiCodec/Lemmas.v — proofs about FfiCodec/Model.v: FfiValue over bincode, to_ffi_value / to_value, macro arguments *)
From Coq Require Import String NArith List Bool Lia Arith.
From Mimium Require Import Tables.FfiTables FfiCodec.Model FfiCodec.Wire.
Import ListNotations.
Local Open Scope list_scope.
Local Open Scope N_scope.

(* ------------------------------------------------------------------ *)
(* the generated tables                                                 *)
(* ------------------------------------------------------------------ *)

Lemma tables_agree_true : tables_agree = true.
Proof. vm_compute. reflexivity. Qed.

Lemma ffi_index_spec : forall k, ffi_kind_of_index (ffi_index k) = Some k /\ ffi_index k < pow32.
Proof. intros k. destruct k; vm_compute; split; reflexivity. Qed.

(* ------------------------------------------------------------------ *)
(* induction principles for the nested inductives                       *)
(* ------------------------------------------------------------------ *)

Section ffi_value_ind.
  Variable P : ffi_value -> Prop.
  Hypothesis HErrorV : P FErrorV.
  Hypothesis HUnit : P FUnit.
  Hypothesis HNumber : forall n, P (FNumber n).
  Hypothesis HString : forall s, P (FString s).
  Hypothesis HArray : forall l, Forall P l -> P (FArray l).
  Hypothesis HTuple : forall l, Forall P l -> P (FTuple l).
  Hypothesis HRecord : forall l, Forall (fun kv => P (snd kv)) l -> P (FRecord l).
  Hypothesis HCode : forall e, P (FCode e).
  Hypothesis HTagged : forall t x, P x -> P (FTaggedUnion t x).

  Fixpoint ffi_value_ind' (f : ffi_value) : P f :=
    match f with
    | FErrorV => HErrorV
    | FUnit => HUnit
    | FNumber n => HNumber n
    | FString s => HString s
    | FArray l => HArray l ((fix go (l : list ffi_value) : Forall P l :=
                               match l with
                               | [] => Forall_nil _
                               | x :: t => Forall_cons _ (ffi_value_ind' x) (go t)
                               end) l)
    | FTuple l => HTuple l ((fix go (l : list ffi_value) : Forall P l :=
                               match l with
                               | [] => Forall_nil _
                               | x :: t => Forall_cons _ (ffi_value_ind' x) (go t)
                               end) l)
    | FRecord l => HRecord l ((fix go (l : list (str * ffi_value)) : Forall (fun kv => P (snd kv)) l :=
                                 match l with
                                 | [] => Forall_nil _
                                 | kv :: t => Forall_cons _ (ffi_value_ind' (snd kv)) (go t)
                                 end) l)
    | FCode e => HCode e
    | FTaggedUnion t x => HTagged t x (ffi_value_ind' x)
    end.
End ffi_value_ind.

Section value_ind.
  Variable S : Type.
  Variable P : value S -> Prop.
  Hypothesis HErrorV : forall e, P (VErrorV e).
  Hypothesis HUnit : P VUnit.
  Hypothesis HNumber : forall n, P (VNumber n).
  Hypothesis HString : forall s, P (VString s).
  Hypothesis HArray : forall l, Forall P l -> P (VArray l).
  Hypothesis HRecord : forall l, Forall (fun kv => P (snd kv)) l -> P (VRecord l).
  Hypothesis HTuple : forall l, Forall P l -> P (VTuple l).
  Hypothesis HClosure : forall e names, P (VClosure e names).
  Hypothesis HFixpoint : forall s e, P (VFixpoint s e).
  Hypothesis HCode : forall e, P (VCode e).
  Hypothesis HExternalFn : forall nm, P (VExternalFn nm).
  Hypothesis HStore : forall x, P x -> P (VStore x).
  Hypothesis HTagged : forall t x, P x -> P (VTaggedUnion t x).
  Hypothesis HConstructorFn : forall t s k, P (VConstructorFn t s k).

  Fixpoint value_ind' (v : value S) : P v :=
    match v with
    | VErrorV e => HErrorV e
    | VUnit => HUnit
    | VNumber n => HNumber n
    | VString s => HString s
    | VArray l => HArray l ((fix go (l : list (value S)) : Forall P l :=
                               match l with
                               | [] => Forall_nil _
                               | x :: t => Forall_cons _ (value_ind' x) (go t)
                               end) l)
    | VRecord l => HRecord l ((fix go (l : list (S * value S)) : Forall (fun kv => P (snd kv)) l :=
                                 match l with
                                 | [] => Forall_nil _
                                 | kv :: t => Forall_cons _ (value_ind' (snd kv)) (go t)
                                 end) l)
    | VTuple l => HTuple l ((fix go (l : list (value S)) : Forall P l :=
                               match l with
                               | [] => Forall_nil _
                               | x :: t => Forall_cons _ (value_ind' x) (go t)
                               end) l)
    | VClosure e names => HClosure e names
    | VFixpoint s e => HFixpoint s e
    | VCode e => HCode e
    | VExternalFn nm => HExternalFn nm
    | VStore x => HStore x (value_ind' x)
    | VTaggedUnion t x => HTagged t x (value_ind' x)
    | VConstructorFn t s k => HConstructorFn t s k
    end.
End value_ind.

(* ------------------------------------------------------------------ *)
(* FfiValue over bincode                                                *)
(* ------------------------------------------------------------------ *)

(* number of nodes: the fuel that certainly suffices *)
Fixpoint ffi_size (f : ffi_value) : nat :=
  match f with
  | FArray l | FTuple l => S (list_sum (map ffi_size l))
  | FRecord l => S (list_sum (map (fun kv => ffi_size (snd kv)) l))
  | FTaggedUnion _ x => S (ffi_size x)
  | _ => 1
  end.

Lemma in_list_sum : forall (A : Type) (f : A -> nat) (l : list A) x, In x l -> (f x <= list_sum (map f l))%nat.
Proof.
  intros A f l x H. induction l as [|y t IH]; [contradiction|].
  change (list_sum (map f (y :: t))) with (f y + list_sum (map f t))%nat. destruct H as [->|H]; [lia | specialize (IH H); lia].
Qed.

Lemma decode_S : forall f bs,
  decode (S f) bs =
  bind (dec_u32 bs) (fun i r =>
      match ffi_kind_of_index i with
      | None => None
      | Some KErrorV => Some (FErrorV, r)
      | Some KUnit => Some (FUnit, r)
      | Some KNumber => bind (dec_u64 r) (fun n r' => Some (FNumber n, r'))
      | Some KString => bind (dec_string r) (fun s r' => Some (FString s, r'))
      | Some KArray => bind (dec_vec (decode f) r) (fun l r' => Some (FArray l, r'))
      | Some KTuple => bind (dec_vec (decode f) r) (fun l r' => Some (FTuple l, r'))
      | Some KRecord => bind (dec_vec (dec_pair dec_string (decode f)) r) (fun l r' => Some (FRecord l, r'))
      | Some KCode => bind (dec_key r) (fun e r' => Some (FCode e, r'))
      | Some KTaggedUnion => bind (dec_u64 r) (fun t r' => bind (decode f r') (fun x r'' => Some (FTaggedUnion t x, r'')))
      end).
Proof. reflexivity. Qed.

Lemma length_encode_ge : forall f, (4 <= length (encode f))%nat.
Proof.
  intros f. destruct f; cbn [encode]; rewrite ?app_length, length_enc_u32; lia.
Qed.

Ltac tag_step k :=
  rewrite decode_S; rewrite <- ?app_assoc;
  rewrite (rt_u32 _ (proj2 (ffi_index_spec k))); cbn [bind];
  rewrite (proj1 (ffi_index_spec k)).

Lemma decode_encode : forall f, ffi_ok f = true ->
  forall fuel rest, (ffi_size f <= fuel)%nat -> decode fuel (encode f ++ rest) = Some (f, rest).
Proof.
  induction f as [| |n|s|l IH|l IH|l IH|e|t x IH] using ffi_value_ind'; intros Hok fuel rest Hfuel;
    (destruct fuel as [|fuel]; [cbn [ffi_size] in Hfuel; lia|]); cbn [encode ffi_ok ffi_size] in *.
  - tag_step KErrorV. reflexivity.
  - tag_step KUnit. reflexivity.
  - tag_step KNumber. apply N.ltb_lt in Hok. rewrite rt_u64 by exact Hok. reflexivity.
  - tag_step KString. rewrite rt_string by exact Hok. reflexivity.
  - tag_step KArray. apply andb_prop in Hok as [Hlen Hall].
    rewrite (rt_vec _ encode (decode fuel) l); [reflexivity | | | exact Hlen].
    + rewrite forallb_forall in Hall. rewrite Forall_forall in IH |- *. intros x Hx rest'.
      apply IH; [exact Hx | apply Hall; exact Hx |].
      pose proof (in_list_sum _ ffi_size l x Hx). lia.
    + apply Forall_forall. intros x _. pose proof (length_encode_ge x). lia.
  - tag_step KTuple. apply andb_prop in Hok as [Hlen Hall].
    rewrite (rt_vec _ encode (decode fuel) l); [reflexivity | | | exact Hlen].
    + rewrite forallb_forall in Hall. rewrite Forall_forall in IH |- *. intros x Hx rest'.
      apply IH; [exact Hx | apply Hall; exact Hx |].
      pose proof (in_list_sum _ ffi_size l x Hx). lia.
    + apply Forall_forall. intros x _. pose proof (length_encode_ge x). lia.
  - tag_step KRecord. apply andb_prop in Hok as [Hlen Hall].
    rewrite (rt_vec _ (fun kv => enc_string (fst kv) ++ encode (snd kv)) (dec_pair dec_string (decode fuel)) l);
      [reflexivity | | | exact Hlen].
    + rewrite forallb_forall in Hall. rewrite Forall_forall in IH |- *. intros kv Hkv.
      specialize (Hall kv Hkv). apply andb_prop in Hall as [Hk Hv].
      apply (rt_pair _ _ enc_string encode dec_string (decode fuel) kv).
      * apply rt_string. exact Hk.
      * intros rest'. apply IH; [exact Hkv | exact Hv |].
        pose proof (in_list_sum _ (fun kv => ffi_size (snd kv)) l kv Hkv). cbn beta in *. lia.
    + apply Forall_forall. intros kv _. rewrite app_length. pose proof (length_enc_string (fst kv)). lia.
  - tag_step KCode. rewrite rt_key by exact Hok. reflexivity.
  - tag_step KTaggedUnion. apply andb_prop in Hok as [Ht Hx]. apply N.ltb_lt in Ht.
    rewrite rt_u64 by exact Ht. cbn [bind]. rewrite IH; [reflexivity | exact Hx | lia].
Qed.

Lemma list_sum_le_flat_map : forall (A : Type) (sz : A -> nat) (e : A -> list N) (l : list A),
  Forall (fun x => (sz x <= length (e x))%nat) l -> (list_sum (map sz l) <= length (flat_map e l))%nat.
Proof.
  intros A sz e l H. induction H as [|x t Hx _ IH]; [cbn; lia|].
  change (list_sum (map sz (x :: t))) with (sz x + list_sum (map sz t))%nat.
  cbn [flat_map]. rewrite app_length. lia.
Qed.

Lemma ffi_size_le_length : forall f, (ffi_size f <= length (encode f))%nat.
Proof.
  induction f as [| |n|s|l IH|l IH|l IH|e|t x IH] using ffi_value_ind'; cbn [encode ffi_size];
    unfold enc_vec; rewrite ?app_length, ?length_enc_u32, ?length_enc_u64; try lia.
  - pose proof (list_sum_le_flat_map _ ffi_size encode l IH). lia.
  - pose proof (list_sum_le_flat_map _ ffi_size encode l IH). lia.
  - pose proof (list_sum_le_flat_map _ (fun kv => ffi_size (snd kv)) (fun kv => enc_string (fst kv) ++ encode (snd kv)) l) as H.
    assert (Hf : Forall (fun kv : str * ffi_value => (ffi_size (snd kv) <= length (enc_string (fst kv) ++ encode (snd kv)))%nat) l).
    { rewrite Forall_forall in IH |- *. intros kv Hkv. rewrite app_length. specialize (IH kv Hkv). lia. }
    specialize (H Hf). lia.
Qed.

(* bincode::deserialize::<FfiValue>(bincode::serialize(f) ++ rest) *)
Lemma decode_ffi_encode : forall f rest, ffi_ok f = true -> decode_ffi (encode f ++ rest) = Some (f, rest).
Proof.
  intros f rest Hok. unfold decode_ffi. apply decode_encode; [exact Hok|].
  rewrite app_length. pose proof (ffi_size_le_length f). lia.
Qed.

(* ------------------------------------------------------------------ *)
(* Value::to_ffi_value / FfiValue::to_value                             *)
(* ------------------------------------------------------------------ *)

Lemma map_res_spec : forall (A B : Type) (f : A -> result B) (g : A -> option ffi_err) (Q : A -> B -> Prop) (l : list A),
  Forall (fun x => match g x with
                   | Some e => f x = Err e
                   | None => exists y, f x = Ok y /\ Q x y
                   end) l ->
  match first_some g l with
  | Some e => map_res f l = Err e
  | None => exists ys, map_res f l = Ok ys /\ Forall2 Q l ys
  end.
Proof.
  intros A B f g Q l H. induction H as [|x t Hx _ IH].
  - cbn. exists []. split; [reflexivity | constructor].
  - cbn [first_some map_res]. destruct (g x) as [e|].
    + rewrite Hx. reflexivity.
    + destruct Hx as (y & Hy & HQ). rewrite Hy.
      change ((fix go (l : list A) : option ffi_err :=
                 match l with [] => None | x :: t => match g x with Some e => Some e | None => go t end end) t)
        with (first_some g t).
      change ((fix go (l : list A) : result (list B) :=
                 match l with
                 | [] => Ok []
                 | x :: t => match f x with
                             | Err e => Err e
                             | Ok y => match go t with Err e => Err e | Ok ys => Ok (y :: ys) end
                             end
                 end) t) with (map_res f t).
      destruct (first_some g t) as [e|].
      * rewrite IH. reflexivity.
      * destruct IH as (ys & Hys & HF). rewrite Hys. exists (y :: ys). split; [reflexivity | constructor; assumption].
Qed.

Lemma Forall2_length_eq : forall (A B : Type) (Q : A -> B -> Prop) l l', Forall2 Q l l' -> length l = length l'.
Proof. intros A B Q l l' H. induction H; cbn [length]; congruence. Qed.

(* the complete description of to_ffi_value followed by to_value *)
Definition conv_post (v : value str) (f : ffi_value) : Prop :=
  of_ffi f = squash_errorv v /\ (value_ok str_ok v = true -> ffi_ok f = true).

Lemma to_ffi_spec : forall v : value str,
  match first_refused v with
  | Some e => to_ffi v = Err e
  | None => exists f, to_ffi v = Ok f /\ conv_post v f
  end.
Proof.
  induction v as [e| |n|s|l IH|l IH|l IH|e names|s e|e|nm|x IH|t x IH|t s k] using value_ind';
    cbn [first_refused to_ffi]; try reflexivity;
    try (eexists; split; [reflexivity | split; [reflexivity | cbn [value_ok ffi_ok]; intros H; exact H]]).
  - (* ErrorV *) eexists. split; [reflexivity | split; [reflexivity | reflexivity]].
  - (* Array *)
    pose proof (map_res_spec _ _ to_ffi first_refused conv_post l IH) as H.
    destruct (first_some first_refused l) as [e|]; [rewrite H; reflexivity|].
    destruct H as (ys & Hys & HF). rewrite Hys. eexists. split; [reflexivity|]. split.
    + cbn [of_ffi squash_errorv]. f_equal. induction HF as [|x y t t' [Hxy _] _ IHF]; cbn [map]; [reflexivity | now rewrite Hxy, IHF].
    + cbn [value_ok ffi_ok]. intros Hok. apply andb_prop in Hok as [Hlen Hall].
      unfold len_ok in *. rewrite <- (Forall2_length_eq _ _ _ _ _ HF), Hlen. cbn [andb].
      clear Hlen Hys IH. induction HF as [|x y t t' [_ Hxy] _ IHF]; cbn [forallb] in *; [reflexivity|].
      apply andb_prop in Hall as [Hx Ht]. rewrite (Hxy Hx), (IHF Ht). reflexivity.
  - (* Record *)
    pose proof (map_res_spec _ _ (fun kv => match to_ffi (snd kv) with Ok y => Ok (fst kv, y) | Err e => Err e end)
                  (fun kv => first_refused (snd kv))
                  (fun kv kf => fst kf = fst kv /\ conv_post (snd kv) (snd kf)) l) as H.
    assert (Hpre : Forall (fun x : str * value str =>
              match first_refused (snd x) with
              | Some e => match to_ffi (snd x) with Ok y => Ok (fst x, y) | Err e0 => Err e0 end = Err e
              | None => exists y : str * ffi_value,
                  match to_ffi (snd x) with Ok y0 => Ok (fst x, y0) | Err e => Err e end = Ok y /\
                  fst y = fst x /\ conv_post (snd x) (snd y)
              end) l).
    { rewrite Forall_forall in IH |- *. intros kv Hkv. specialize (IH kv Hkv).
      destruct (first_refused (snd kv)) as [e|].
      - rewrite IH. reflexivity.
      - destruct IH as (f & Hf & Hpost). rewrite Hf. exists (fst kv, f). cbn [fst snd]. auto. }
    specialize (H Hpre). clear Hpre.
    destruct (first_some (fun kv => first_refused (snd kv)) l) as [e|]; [rewrite H; reflexivity|].
    destruct H as (ys & Hys & HF). rewrite Hys. eexists. split; [reflexivity|]. split.
    + cbn [of_ffi squash_errorv]. f_equal.
      induction HF as [|x y t t' (Hk & Hxy & _) _ IHF]; cbn [map]; [reflexivity | now rewrite Hk, Hxy, IHF].
    + cbn [value_ok ffi_ok]. intros Hok. apply andb_prop in Hok as [Hlen Hall].
      unfold len_ok in *. rewrite <- (Forall2_length_eq _ _ _ _ _ HF), Hlen. cbn [andb].
      clear Hlen Hys IH. induction HF as [|x y t t' (Hk & _ & Hxy) _ IHF]; cbn [forallb] in *; [reflexivity|].
      apply andb_prop in Hall as [Hx Ht]. apply andb_prop in Hx as [Hkx Hvx].
      rewrite Hk, Hkx, (Hxy Hvx), (IHF Ht). reflexivity.
  - (* Tuple *)
    pose proof (map_res_spec _ _ to_ffi first_refused conv_post l IH) as H.
    destruct (first_some first_refused l) as [e|]; [rewrite H; reflexivity|].
    destruct H as (ys & Hys & HF). rewrite Hys. eexists. split; [reflexivity|]. split.
    + cbn [of_ffi squash_errorv]. f_equal. induction HF as [|x y t t' [Hxy _] _ IHF]; cbn [map]; [reflexivity | now rewrite Hxy, IHF].
    + cbn [value_ok ffi_ok]. intros Hok. apply andb_prop in Hok as [Hlen Hall].
      unfold len_ok in *. rewrite <- (Forall2_length_eq _ _ _ _ _ HF), Hlen. cbn [andb].
      clear Hlen Hys IH. induction HF as [|x y t t' [_ Hxy] _ IHF]; cbn [forallb] in *; [reflexivity|].
      apply andb_prop in Hall as [Hx Ht]. rewrite (Hxy Hx), (IHF Ht). reflexivity.
  - (* TaggedUnion *)
    destruct (first_refused x) as [e|]; [rewrite IH; reflexivity|].
    destruct IH as (f & Hf & Hof & Hokf). rewrite Hf. eexists. split; [reflexivity|]. split.
    + cbn [of_ffi squash_errorv]. now rewrite Hof.
    + cbn [value_ok ffi_ok]. intros Hok. apply andb_prop in Hok as [Ht Hx]. rewrite Ht, (Hokf Hx). reflexivity.
Qed.
