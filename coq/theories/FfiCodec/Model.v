(* FfiCodec/Model.v — executable model of the plugin FFI codec (C20). Definitions only.

   Mirrors
     crates/lib/mimium-lang/src/runtime/ffi_serde.rs      FfiValue, Value::to_ffi_value, FfiValue::to_value,
                                                           serialize_value/deserialize_value, serialize_macro_args/deserialize_macro_args
     crates/lib/mimium-lang/src/interpreter.rs            enum Value
     crates/lib/mimium-lang/src/interpreter/serde_impl.rs hand-written Serialize/Deserialize for Value
     crates/lib/mimium-lang/src/types.rs                  enum Type, enum PType, struct RecordTypeField
     crates/lib/mimium-lang/src/types/serde_impl.rs       hand-written Serialize/Deserialize for Type
     crates/lib/mimium-lang/src/interner.rs               Symbol(usize), ExprNodeId(ExprKey), TypeNodeId(TypeKey)  (serde(transparent))
     bincode 1.3 `serialize`/`deserialize` (fixint, little endian, trailing bytes allowed, no size limit)
     slotmap 1.0 `KeyData` serde (struct {idx:u32, version:u32}; on read: idx==MAX => version:=1; version |= 1)

   Conventions: a byte is an N (< 256 on every encoder output); f64 is its bit pattern (N < 2^64) so that NaN payloads,
   +-0 and infinities are distinct; a Rust String / interned symbol text is the list of its UTF-8 bytes;
   a slot-map key is (idx, version).  Variant indices are NOT written in this file: they are looked up in
   Tables/FfiTables.v, which is regenerated from the Rust source on every run. *)
From Coq Require Import String NArith List Bool.
From Mimium Require Import Tables.FfiTables.
Import ListNotations.
Local Open Scope string_scope.
Local Open Scope list_scope.
Local Open Scope N_scope.

(* ------------------------------------------------------------------ *)
(* bincode primitives                                                   *)
(* ------------------------------------------------------------------ *)

Definition pow32 : N := 4294967296.
Definition pow64 : N := 18446744073709551616.
Definition u32_max : N := 4294967295.

(* byteorder::LittleEndian write_uN: k bytes, least significant first *)
Fixpoint le_bytes (k : nat) (n : N) : list N :=
  match k with
  | O => []
  | S k' => N.modulo n 256 :: le_bytes k' (N.div n 256)
  end.

Fixpoint le_val (l : list N) : N :=
  match l with
  | [] => 0
  | b :: t => b + 256 * le_val t
  end.

Definition enc_u8 (n : N) := le_bytes 1 n.
Definition enc_u32 (n : N) := le_bytes 4 n.
Definition enc_u64 (n : N) := le_bytes 8 n.

(* a decoder consumes a prefix of the input and returns the remaining bytes (SliceReader) *)
Definition dec (A : Type) := list N -> option (A * list N).

Definition bind {A B : Type} (m : option (A * list N)) (f : A -> list N -> option (B * list N)) : option (B * list N) :=
  match m with
  | Some (a, r) => f a r
  | None => None
  end.

(* SliceReader::read_exact of k bytes: UnexpectedEof when fewer remain *)
Definition read_le (k : nat) : dec N := fun bs =>
  if Nat.ltb (length bs) k then None else Some (le_val (firstn k bs), skipn k bs).

Definition dec_u8 : dec N := read_le 1.
Definition dec_u32 : dec N := read_le 4.
Definition dec_u64 : dec N := read_le 8.

(* serialize_bool / deserialize_bool: one byte, anything but 0/1 is InvalidBoolEncoding *)
Definition enc_bool (b : bool) : list N := [if b then 1 else 0].
Definition dec_bool : dec bool := fun bs =>
  bind (dec_u8 bs) (fun b r => if b =? 0 then Some (false, r) else if b =? 1 then Some (true, r) else None).

(* serialize_none / serialize_some / deserialize_option: u8 tag 0/1, else InvalidTagEncoding *)
Definition enc_option {A : Type} (e : A -> list N) (o : option A) : list N :=
  match o with
  | None => [0]
  | Some a => 1 :: e a
  end.
Definition dec_option {A : Type} (d : dec A) : dec (option A) := fun bs =>
  bind (dec_u8 bs) (fun t r =>
    if t =? 0 then Some (None, r)
    else if t =? 1 then bind (d r) (fun a r' => Some (Some a, r'))
    else None).

(* tuples and structs: the fields one after the other *)
Definition dec_pair {A B : Type} (da : dec A) (db : dec B) : dec (A * B) := fun bs =>
  bind (da bs) (fun a r => bind (db r) (fun b r' => Some ((a, b), r'))).

(* deserialize_tuple(len): exactly n elements *)
Fixpoint dec_n {A : Type} (d : dec A) (n : nat) : dec (list A) := fun bs =>
  match n with
  | O => Some ([], bs)
  | S n' => bind (d bs) (fun a r => bind (dec_n d n' r) (fun l r' => Some (a :: l, r')))
  end.

(* serialize_seq(Some(len)) / deserialize_seq: u64 length, then the elements.
   Every element type of this codec occupies at least one byte, so a count larger than the number of remaining
   bytes can only end in UnexpectedEof; the model rejects it up front instead of looping 2^64 times. *)
Definition enc_vec {A : Type} (e : A -> list N) (l : list A) : list N :=
  enc_u64 (N.of_nat (length l)) ++ flat_map e l.
Definition dec_vec {A : Type} (d : dec A) : dec (list A) := fun bs =>
  bind (dec_u64 bs) (fun n r =>
    if N.of_nat (length r) <? n then None else dec_n d (N.to_nat n) r).

(* core::str::from_utf8 (run_utf8_validation): the well-formed byte sequences of Unicode Table 3-7 *)
Definition in_range (lo hi b : N) : bool := (lo <=? b) && (b <=? hi).
Definition cont (b : N) : bool := in_range 128 191 b.   (* 80..BF *)

Fixpoint utf8_valid (l : list N) : bool :=
  match l with
  | [] => true
  | b0 :: t0 =>
    if b0 <? 128 then utf8_valid t0                                     (* 00..7F *)
    else if in_range 194 223 b0 then                                    (* C2..DF *)
      match t0 with
      | b1 :: t1 => cont b1 && utf8_valid t1
      | _ => false
      end
    else if in_range 224 239 b0 then                                    (* E0..EF *)
      match t0 with
      | b1 :: b2 :: t2 =>
        (if b0 =? 224 then in_range 160 191 b1                          (* E0 A0..BF *)
         else if b0 =? 237 then in_range 128 159 b1                     (* ED 80..9F : no surrogates *)
         else cont b1)
        && cont b2 && utf8_valid t2
      | _ => false
      end
    else if in_range 240 244 b0 then                                    (* F0..F4 *)
      match t0 with
      | b1 :: b2 :: b3 :: t3 =>
        (if b0 =? 240 then in_range 144 191 b1                          (* F0 90..BF *)
         else if b0 =? 244 then in_range 128 143 b1                     (* F4 80..8F : <= U+10FFFF *)
         else cont b1)
        && cont b2 && cont b3 && utf8_valid t3
      | _ => false
      end
    else false                                                          (* 80..C1, F5..FF *)
  end.

Definition str := list N.

(* serialize_str / read_string: u64 byte length, the bytes; String::from_utf8 on read *)
Definition enc_string (s : str) : list N := enc_u64 (N.of_nat (length s)) ++ s.
Definition dec_string : dec str := fun bs =>
  bind (dec_u64 bs) (fun n r =>
    if N.of_nat (length r) <? n then None
    else let k := N.to_nat n in
         let s := firstn k r in
         if utf8_valid s then Some (s, skipn k r) else None).

(* usize (Symbol ids) is written as u64 *)
Definition enc_usize := enc_u64.
Definition dec_usize := dec_u64.

(* ------------------------------------------------------------------ *)
(* slot-map keys (ExprNodeId / TypeNodeId are serde(transparent) over the key)                      *)
(* ------------------------------------------------------------------ *)

Inductive key := Key (idx ver : N).

(* impl Serialize for KeyData: SerKey { idx, version } *)
Definition enc_key (k : key) : list N :=
  match k with Key i v => enc_u32 i ++ enc_u32 v end.

(* impl Deserialize for KeyData *)
Definition dec_key : dec key := fun bs =>
  bind (dec_u32 bs) (fun i r => bind (dec_u32 r) (fun v r' =>
    let v1 := if i =? u32_max then 1 else v in
    Some (Key i (N.lor v1 1), r'))).

(* ------------------------------------------------------------------ *)
(* variant tables                                                       *)
(* ------------------------------------------------------------------ *)

Fixpoint index_of (name : string) (l : list string) : option N :=
  match l with
  | [] => None
  | x :: t => if String.eqb x name then Some 0 else option_map N.succ (index_of name t)
  end.

Fixpoint assoc {B : Type} (name : string) (l : list (string * B)) : option B :=
  match l with
  | [] => None
  | (x, b) :: t => if String.eqb x name then Some b else assoc name t
  end.

(* i-th name of a table (the bound test keeps N.to_nat small: i is any u32 read from the wire) *)
Definition name_at (l : list string) (i : N) : option string :=
  if N.of_nat (length l) <=? i then None else nth_error l (N.to_nat i).

(* ------------------------------------------------------------------ *)
(* interpreter::Value and runtime::ffi_serde::FfiValue                  *)
(* ------------------------------------------------------------------ *)

(* `S` is what a Symbol stands for: its interned text (S = str; what Symbol::as_str / to_symbol see) or its
   usize id (S = N; what the derived Serialize of Symbol writes).
   Not modelled because the codec never looks at them: the Environment captured by a Closure, the function pointer
   of an ExtFunction (only its name is kept), sharing of the Rc in Store. *)
Inductive value (S : Type) : Type :=
| VErrorV (e : key)
| VUnit
| VNumber (bits : N)
| VString (s : S)
| VArray (l : list (value S))
| VRecord (l : list (S * value S))
| VTuple (l : list (value S))
| VClosure (e : key) (names : list S)
| VFixpoint (s : S) (e : key)
| VCode (e : key)
| VExternalFn (name : S)
| VStore (v : value S)
| VTaggedUnion (tag : N) (v : value S)
| VConstructorFn (tag : N) (s : S) (t : key).
Arguments VErrorV {S}. Arguments VUnit {S}. Arguments VNumber {S}. Arguments VString {S}. Arguments VArray {S}.
Arguments VRecord {S}. Arguments VTuple {S}. Arguments VClosure {S}. Arguments VFixpoint {S}. Arguments VCode {S}.
Arguments VExternalFn {S}. Arguments VStore {S}. Arguments VTaggedUnion {S}. Arguments VConstructorFn {S}.

Inductive ffi_value : Type :=
| FErrorV
| FUnit
| FNumber (bits : N)
| FString (s : str)
| FArray (l : list ffi_value)
| FTuple (l : list ffi_value)
| FRecord (l : list (str * ffi_value))
| FCode (e : key)
| FTaggedUnion (tag : N) (v : ffi_value).

(* the five Err(..) messages of to_ffi_value *)
Inductive ffi_err := ErrClosure | ErrFixpoint | ErrExternalFn | ErrStore | ErrConstructorFn.

Inductive result (A : Type) : Type :=
| Ok (a : A)
| Err (e : ffi_err).
Arguments Ok {A}. Arguments Err {A}.

(* iter().map(f).collect::<Result<Vec<_>, _>>(): the first Err in order wins *)
Definition map_res {A B : Type} (f : A -> result B) : list A -> result (list B) :=
  fix go (l : list A) : result (list B) :=
    match l with
    | [] => Ok []
    | x :: t =>
      match f x with
      | Err e => Err e
      | Ok y => match go t with
                | Err e => Err e
                | Ok ys => Ok (y :: ys)
                end
      end
    end.

(* Value::to_ffi_value (Symbol::as_str already applied: S = str) *)
Fixpoint to_ffi (v : value str) : result ffi_value :=
  match v with
  | VErrorV _ => Ok FErrorV
  | VUnit => Ok FUnit
  | VNumber n => Ok (FNumber n)
  | VString s => Ok (FString s)
  | VArray l =>
    match map_res to_ffi l with
    | Ok ys => Ok (FArray ys)
    | Err e => Err e
    end
  | VTuple l =>
    match map_res to_ffi l with
    | Ok ys => Ok (FTuple ys)
    | Err e => Err e
    end
  | VRecord l =>
    match map_res (fun kv => match to_ffi (snd kv) with
                             | Ok y => Ok (fst kv, y)
                             | Err e => Err e
                             end) l with
    | Ok ys => Ok (FRecord ys)
    | Err e => Err e
    end
  | VCode e => Ok (FCode e)
  | VTaggedUnion tag x =>
    match to_ffi x with
    | Ok y => Ok (FTaggedUnion tag y)
    | Err e => Err e
    end
  | VClosure _ _ => Err ErrClosure
  | VFixpoint _ _ => Err ErrFixpoint
  | VExternalFn _ => Err ErrExternalFn
  | VStore _ => Err ErrStore
  | VConstructorFn _ _ _ => Err ErrConstructorFn
  end.

(* FfiValue::to_value (to_symbol applied: the result is again read through the symbol text) *)
Fixpoint of_ffi (f : ffi_value) : value str :=
  match f with
  | FErrorV => VUnit
  | FUnit => VUnit
  | FNumber n => VNumber n
  | FString s => VString s
  | FArray l => VArray (map of_ffi l)
  | FTuple l => VTuple (map of_ffi l)
  | FRecord l => VRecord (map (fun kv => (fst kv, of_ffi (snd kv))) l)
  | FCode e => VCode e
  | FTaggedUnion tag x => VTaggedUnion tag (of_ffi x)
  end.

(* ---- derive(Serialize, Deserialize) for FfiValue over bincode ---- *)

Inductive ffi_kind := KErrorV | KUnit | KNumber | KString | KArray | KTuple | KRecord | KCode | KTaggedUnion.

Definition ffi_kind_name (k : ffi_kind) : string :=
  match k with
  | KErrorV => "ErrorV" | KUnit => "Unit" | KNumber => "Number" | KString => "String" | KArray => "Array"
  | KTuple => "Tuple" | KRecord => "Record" | KCode => "Code" | KTaggedUnion => "TaggedUnion"
  end.
Definition all_ffi_kinds := [KErrorV; KUnit; KNumber; KString; KArray; KTuple; KRecord; KCode; KTaggedUnion].

Definition ffi_kind_of_name (s : string) : option ffi_kind :=
  find (fun k => String.eqb (ffi_kind_name k) s) all_ffi_kinds.

(* variant index written = position in the declaration order of `enum FfiValue` (table) *)
Definition ffi_index (k : ffi_kind) : N :=
  match index_of (ffi_kind_name k) ffi_value_variants with
  | Some i => i
  | None => u32_max
  end.
Definition ffi_kind_of_index (i : N) : option ffi_kind :=
  match name_at ffi_value_variants i with
  | Some nm => ffi_kind_of_name nm
  | None => None
  end.

Fixpoint encode (f : ffi_value) : list N :=
  match f with
  | FErrorV => enc_u32 (ffi_index KErrorV)
  | FUnit => enc_u32 (ffi_index KUnit)
  | FNumber n => enc_u32 (ffi_index KNumber) ++ enc_u64 n
  | FString s => enc_u32 (ffi_index KString) ++ enc_string s
  | FArray l => enc_u32 (ffi_index KArray) ++ enc_vec encode l
  | FTuple l => enc_u32 (ffi_index KTuple) ++ enc_vec encode l
  | FRecord l => enc_u32 (ffi_index KRecord) ++ enc_vec (fun kv => enc_string (fst kv) ++ encode (snd kv)) l
  | FCode e => enc_u32 (ffi_index KCode) ++ enc_key e
  | FTaggedUnion tag x => enc_u32 (ffi_index KTaggedUnion) ++ enc_u64 tag ++ encode x
  end.

(* `fuel` bounds the nesting depth only; one level of nesting consumes at least 4 bytes (the variant index),
   so S (length bs) can never run out (FfiCodec/Lemmas.v decode_fuel_irrelevant). *)
Fixpoint decode (fuel : nat) : dec ffi_value := fun bs =>
  match fuel with
  | O => None
  | S f =>
    bind (dec_u32 bs) (fun i r =>
      match ffi_kind_of_index i with
      | None => None
      | Some KErrorV => Some (FErrorV, r)
      | Some KUnit => Some (FUnit, r)
      | Some KNumber => bind (dec_u64 r) (fun n r' => Some (FNumber n, r'))
      | Some KString => bind (dec_string r) (fun s r' => Some (FString s, r'))
      | Some KArray => bind (dec_vec (decode f) r) (fun l r' => Some (FArray l, r'))
      | Some KTuple => bind (dec_vec (decode f) r) (fun l r' => Some (FTuple l, r'))
      | Some KRecord => bind (dec_vec (dec_pair dec_string (decode f)) r) (fun l r' => Some (FRecord l, r'))
      | Some KCode => bind (dec_key r) (fun e r' => Some (FCode e, r'))
      | Some KTaggedUnion => bind (dec_u64 r) (fun t r' => bind (decode f r') (fun x r'' => Some (FTaggedUnion t x, r'')))
      end)
  end.

(* bincode::deserialize::<FfiValue> (trailing bytes are allowed and returned here) *)
Definition decode_ffi : dec ffi_value := fun bs => decode (S (length bs)) bs.

(* serialize_value / deserialize_value *)
Definition serialize_value (v : value str) : result (list N) :=
  match to_ffi v with
  | Ok f => Ok (encode f)
  | Err e => Err e
  end.
Definition deserialize_value (bs : list N) : option (value str) :=
  match decode_ffi bs with
  | Some (f, _) => Some (of_ffi f)
  | None => None
  end.

(* serialize_macro_args / deserialize_macro_args: Vec<(FfiValue, TypeNodeId)> *)
Definition encode_args (l : list (ffi_value * key)) : list N :=
  enc_vec (fun p => encode (fst p) ++ enc_key (snd p)) l.
Definition decode_args : dec (list (ffi_value * key)) := fun bs =>
  dec_vec (dec_pair (decode (S (length bs))) dec_key) bs.

Definition serialize_macro_args (args : list (value str * key)) : result (list N) :=
  match map_res (fun p => match to_ffi (fst p) with
                          | Ok f => Ok (f, snd p)
                          | Err e => Err e
                          end) args with
  | Ok l => Ok (encode_args l)
  | Err e => Err e
  end.
Definition deserialize_macro_args (bs : list N) : option (list (value str * key)) :=
  match decode_args bs with
  | Some (l, _) => Some (map (fun p => (of_ffi (fst p), snd p)) l)
  | None => None
  end.

(* ------------------------------------------------------------------ *)
(* hand-written Serialize / Deserialize for interpreter::Value (S = N: Symbol ids as usize)          *)
(* ------------------------------------------------------------------ *)

Inductive val_kind := WErrorV | WUnit | WNumber | WString | WArray | WRecord | WTuple | WClosure | WFixpoint | WCode
                    | WExternalFn | WStore | WTaggedUnion | WConstructorFn.
Definition val_kind_name (k : val_kind) : string :=
  match k with
  | WErrorV => "ErrorV" | WUnit => "Unit" | WNumber => "Number" | WString => "String" | WArray => "Array"
  | WRecord => "Record" | WTuple => "Tuple" | WClosure => "Closure" | WFixpoint => "Fixpoint" | WCode => "Code"
  | WExternalFn => "ExternalFn" | WStore => "Store" | WTaggedUnion => "TaggedUnion" | WConstructorFn => "ConstructorFn"
  end.
Definition all_val_kinds := [WErrorV; WUnit; WNumber; WString; WArray; WRecord; WTuple; WClosure; WFixpoint; WCode;
                             WExternalFn; WStore; WTaggedUnion; WConstructorFn].
Definition val_kind_of_name (s : string) : option val_kind :=
  find (fun k => String.eqb (val_kind_name k) s) all_val_kinds.

Definition kind_of_value {S : Type} (v : value S) : val_kind :=
  match v with
  | VErrorV _ => WErrorV | VUnit => WUnit | VNumber _ => WNumber | VString _ => WString | VArray _ => WArray
  | VRecord _ => WRecord | VTuple _ => WTuple | VClosure _ _ => WClosure | VFixpoint _ _ => WFixpoint
  | VCode _ => WCode | VExternalFn _ => WExternalFn | VStore _ => WStore | VTaggedUnion _ _ => WTaggedUnion
  | VConstructorFn _ _ _ => WConstructorFn
  end.

(* index passed to serialize_{struct,unit}_variant("Value", idx, name, ..) — None for the variants answered with Err *)
Definition val_ser_index (k : val_kind) : option N := assoc (val_kind_name k) value_ser_index.
(* the reader: u32 index -> i-th variant of `enum Field` *)
Definition val_kind_of_index (i : N) : option val_kind :=
  match name_at value_de_fields i with
  | Some nm => val_kind_of_name nm
  | None => None
  end.

(* Vec<T>::serialize with a fallible element serializer: the first failure aborts *)
Definition flat_map_opt {A : Type} (f : A -> option (list N)) : list A -> option (list N) :=
  fix go (l : list A) : option (list N) :=
    match l with
    | [] => Some []
    | x :: t => match f x with
                | None => None
                | Some b => match go t with
                            | None => None
                            | Some bs => Some (b ++ bs)
                            end
                end
    end.

Definition tagged (k : val_kind) (payload : option (list N)) : option (list N) :=
  match val_ser_index k, payload with
  | Some i, Some p => Some (enc_u32 i ++ p)
  | _, _ => None
  end.

(* impl Serialize for Value *)
Fixpoint venc (v : value N) : option (list N) :=
  match v with
  | VErrorV e => tagged WErrorV (Some (enc_key e))
  | VUnit => tagged WUnit (Some [])
  | VNumber n => tagged WNumber (Some (enc_u64 n))
  | VString s => tagged WString (Some (enc_usize s))
  | VArray l => tagged WArray (option_map (app (enc_u64 (N.of_nat (length l)))) (flat_map_opt venc l))
  | VRecord l => tagged WRecord (option_map (app (enc_u64 (N.of_nat (length l))))
                                   (flat_map_opt (fun kv => option_map (app (enc_usize (fst kv))) (venc (snd kv))) l))
  | VTuple l => tagged WTuple (option_map (app (enc_u64 (N.of_nat (length l)))) (flat_map_opt venc l))
  | VFixpoint s e => tagged WFixpoint (Some (enc_usize s ++ enc_key e))
  | VCode e => tagged WCode (Some (enc_key e))
  | VTaggedUnion tag x => tagged WTaggedUnion (option_map (app (enc_u64 tag)) (venc x))
  | VConstructorFn tag s t => tagged WConstructorFn (Some (enc_u64 tag ++ enc_usize s ++ enc_key t))
  | VClosure _ _ => None
  | VExternalFn _ => None
  | VStore _ => None
  end.

(* impl Deserialize for Value *)
Fixpoint vdec (fuel : nat) : dec (value N) := fun bs =>
  match fuel with
  | O => None
  | S f =>
    bind (dec_u32 bs) (fun i r =>
      match val_kind_of_index i with
      | Some WErrorV => bind (dec_key r) (fun e r' => Some (VErrorV e, r'))
      | Some WUnit => Some (VUnit, r)
      | Some WNumber => bind (dec_u64 r) (fun n r' => Some (VNumber n, r'))
      | Some WString => bind (dec_usize r) (fun s r' => Some (VString s, r'))
      | Some WArray => bind (dec_vec (vdec f) r) (fun l r' => Some (VArray l, r'))
      | Some WRecord => bind (dec_vec (dec_pair dec_usize (vdec f)) r) (fun l r' => Some (VRecord l, r'))
      | Some WTuple => bind (dec_vec (vdec f) r) (fun l r' => Some (VTuple l, r'))
      | Some WFixpoint => bind (dec_usize r) (fun s r' => bind (dec_key r') (fun e r'' => Some (VFixpoint s e, r'')))
      | Some WCode => bind (dec_key r) (fun e r' => Some (VCode e, r'))
      | Some WTaggedUnion => bind (dec_u64 r) (fun t r' => bind (vdec f r') (fun x r'' => Some (VTaggedUnion t x, r'')))
      | Some WConstructorFn =>
        bind (dec_u64 r) (fun t r' => bind (dec_usize r') (fun s r'' => bind (dec_key r'') (fun k r3 =>
          Some (VConstructorFn t s k, r3))))
      | Some WClosure | Some WExternalFn | Some WStore | None => None
      end)
  end.
Definition vdecode : dec (value N) := fun bs => vdec (S (length bs)) bs.

(* ------------------------------------------------------------------ *)
(* types::Type with the hand-written serde of types/serde_impl.rs       *)
(* ------------------------------------------------------------------ *)

Inductive ptype := PUnit | PInt | PNumeric | PString.
Definition ptype_name (p : ptype) : string :=
  match p with PUnit => "Unit" | PInt => "Int" | PNumeric => "Numeric" | PString => "String" end.
Definition all_ptypes := [PUnit; PInt; PNumeric; PString].
Definition ptype_index (p : ptype) : N :=
  match index_of (ptype_name p) ptype_variants with Some i => i | None => u32_max end.
Definition ptype_of_index (i : N) : option ptype :=
  match name_at ptype_variants i with
  | Some nm => find (fun p => String.eqb (ptype_name p) nm) all_ptypes
  | None => None
  end.
Definition enc_ptype (p : ptype) := enc_u32 (ptype_index p).
Definition dec_ptype : dec ptype := fun bs =>
  bind (dec_u32 bs) (fun i r => match ptype_of_index i with Some p => Some (p, r) | None => None end).

(* struct RecordTypeField { key: Symbol, ty: TypeNodeId, has_default: bool } (derived serde: fields in order) *)
Record rtf := mk_rtf { rtf_key : N; rtf_ty : key; rtf_default : bool }.
Definition enc_rtf (f : rtf) := enc_usize (rtf_key f) ++ enc_key (rtf_ty f) ++ enc_bool (rtf_default f).
Definition dec_rtf : dec rtf := fun bs =>
  bind (dec_usize bs) (fun k r => bind (dec_key r) (fun t r' => bind (dec_bool r') (fun d r'' => Some (mk_rtf k t d, r'')))).

(* Symbols are usize ids and TypeNodeIds are keys: a Type is flat on the wire.
   Intermediate(Arc<RwLock<TypeVar>>) is represented by its variable id, TypeScheme by its id. *)
Inductive ty :=
| TPrimitive (p : ptype)
| TArray (t : key)
| TTuple (l : list key)
| TRecord (l : list rtf)
| TFunction (arg ret : key)
| TRef (t : key)
| TCode (t : key)
| TUnion (l : list key)
| TUserSum (name : N) (variants : list (N * option key))
| TBoxed (t : key)
| TIntermediate (var : N)
| TTypeScheme (id : N)
| TTypeAlias (s : N)
| TAny
| TFailure
| TUnknown.

Inductive ty_kind := YPrimitive | YArray | YTuple | YRecord | YFunction | YRef | YCode | YUnion | YUserSum | YBoxed
                   | YIntermediate | YTypeScheme | YTypeAlias | YAny | YFailure | YUnknown.
Definition ty_kind_name (k : ty_kind) : string :=
  match k with
  | YPrimitive => "Primitive" | YArray => "Array" | YTuple => "Tuple" | YRecord => "Record" | YFunction => "Function"
  | YRef => "Ref" | YCode => "Code" | YUnion => "Union" | YUserSum => "UserSum" | YBoxed => "Boxed"
  | YIntermediate => "Intermediate" | YTypeScheme => "TypeScheme" | YTypeAlias => "TypeAlias" | YAny => "Any"
  | YFailure => "Failure" | YUnknown => "Unknown"
  end.
Definition all_ty_kinds := [YPrimitive; YArray; YTuple; YRecord; YFunction; YRef; YCode; YUnion; YUserSum; YBoxed;
                            YIntermediate; YTypeScheme; YTypeAlias; YAny; YFailure; YUnknown].
Definition ty_kind_of_name (s : string) : option ty_kind :=
  find (fun k => String.eqb (ty_kind_name k) s) all_ty_kinds.
Definition kind_of_ty (t : ty) : ty_kind :=
  match t with
  | TPrimitive _ => YPrimitive | TArray _ => YArray | TTuple _ => YTuple | TRecord _ => YRecord
  | TFunction _ _ => YFunction | TRef _ => YRef | TCode _ => YCode | TUnion _ => YUnion | TUserSum _ _ => YUserSum
  | TBoxed _ => YBoxed | TIntermediate _ => YIntermediate | TTypeScheme _ => YTypeScheme | TTypeAlias _ => YTypeAlias
  | TAny => YAny | TFailure => YFailure | TUnknown => YUnknown
  end.

Definition ty_ser_index (k : ty_kind) : option N := assoc (ty_kind_name k) type_ser_index.
Definition ty_kind_of_index (i : N) : option ty_kind :=
  match name_at type_de_fields i with
  | Some nm => ty_kind_of_name nm
  | None => None
  end.

Definition enc_variant (p : N * option key) : list N := enc_usize (fst p) ++ enc_option enc_key (snd p).

(* impl Serialize for Type: None = Err("Cannot serialize Type::Intermediate / TypeScheme") *)
Definition encode_type (t : ty) : option (list N) :=
  match ty_ser_index (kind_of_ty t) with
  | None => None
  | Some i =>
    match t with
    | TPrimitive p => Some (enc_u32 i ++ enc_ptype p)
    | TArray k | TRef k | TCode k | TBoxed k => Some (enc_u32 i ++ enc_key k)
    | TTuple l | TUnion l => Some (enc_u32 i ++ enc_vec enc_key l)
    | TRecord l => Some (enc_u32 i ++ enc_vec enc_rtf l)
    | TFunction a r => Some (enc_u32 i ++ enc_key a ++ enc_key r)
    | TUserSum n vs => Some (enc_u32 i ++ enc_usize n ++ enc_vec enc_variant vs)
    | TTypeAlias s => Some (enc_u32 i ++ enc_usize s)
    | TAny | TFailure | TUnknown => Some (enc_u32 i)
    | TIntermediate _ | TTypeScheme _ => None
    end
  end.

(* impl Deserialize for Type *)
Definition decode_type : dec ty := fun bs =>
  bind (dec_u32 bs) (fun i r =>
    match ty_kind_of_index i with
    | Some YPrimitive => bind (dec_ptype r) (fun p r' => Some (TPrimitive p, r'))
    | Some YArray => bind (dec_key r) (fun k r' => Some (TArray k, r'))
    | Some YTuple => bind (dec_vec dec_key r) (fun l r' => Some (TTuple l, r'))
    | Some YRecord => bind (dec_vec dec_rtf r) (fun l r' => Some (TRecord l, r'))
    | Some YFunction => bind (dec_key r) (fun a r' => bind (dec_key r') (fun b r'' => Some (TFunction a b, r'')))
    | Some YRef => bind (dec_key r) (fun k r' => Some (TRef k, r'))
    | Some YCode => bind (dec_key r) (fun k r' => Some (TCode k, r'))
    | Some YUnion => bind (dec_vec dec_key r) (fun l r' => Some (TUnion l, r'))
    | Some YUserSum =>
      bind (dec_usize r) (fun n r' =>
        bind (dec_vec (dec_pair dec_usize (dec_option dec_key)) r') (fun vs r'' => Some (TUserSum n vs, r'')))
    | Some YBoxed => bind (dec_key r) (fun k r' => Some (TBoxed k, r'))
    | Some YTypeAlias => bind (dec_usize r) (fun s r' => Some (TTypeAlias s, r'))
    | Some YAny => Some (TAny, r)
    | Some YFailure => Some (TFailure, r)
    | Some YUnknown => Some (TUnknown, r)
    | Some YIntermediate | Some YTypeScheme | None => None
    end).

(* ------------------------------------------------------------------ *)
(* what "representable" means (bounds that every Rust value satisfies)  *)
(* ------------------------------------------------------------------ *)

(* a key as slot-map produces them: u32 fields, odd version, the null key is (MAX, 1) *)
Definition key_ok (k : key) : bool :=
  match k with
  | Key i v => (i <? pow32) && (v <? pow32) && N.odd v && (if i =? u32_max then v =? 1 else true)
  end.
Definition bytes_ok (s : list N) : bool := forallb (fun b => b <? 256) s.
(* a Rust String: bytes, well-formed UTF-8, length fits usize *)
Definition str_ok (s : str) : bool := bytes_ok s && utf8_valid s && (N.of_nat (length s) <? pow64).
Definition len_ok {A : Type} (l : list A) : bool := N.of_nat (length l) <? pow64.

Fixpoint ffi_ok (f : ffi_value) : bool :=
  match f with
  | FErrorV | FUnit => true
  | FNumber n => n <? pow64
  | FString s => str_ok s
  | FArray l | FTuple l => len_ok l && forallb ffi_ok l
  | FRecord l => len_ok l && forallb (fun kv => str_ok (fst kv) && ffi_ok (snd kv)) l
  | FCode e => key_ok e
  | FTaggedUnion tag x => (tag <? pow64) && ffi_ok x
  end.

(* bounds of a Value whatever its variants (S-components checked by `sok`) *)
Fixpoint value_ok {S : Type} (sok : S -> bool) (v : value S) : bool :=
  match v with
  | VErrorV e => key_ok e
  | VUnit => true
  | VNumber n => n <? pow64
  | VString s => sok s
  | VArray l | VTuple l => len_ok l && forallb (value_ok sok) l
  | VRecord l => len_ok l && forallb (fun kv => sok (fst kv) && value_ok sok (snd kv)) l
  | VClosure e names => key_ok e && forallb sok names
  | VFixpoint s e => sok s && key_ok e
  | VCode e => key_ok e
  | VExternalFn nm => sok nm
  | VStore x => value_ok sok x
  | VTaggedUnion tag x => (tag <? pow64) && value_ok sok x
  | VConstructorFn tag s t => (tag <? pow64) && sok s && key_ok t
  end.

(* built only from the variants listed in the property: numbers, strings, arrays, tuples, records, tagged unions, code, unit *)
Fixpoint crossable {S : Type} (v : value S) : bool :=
  match v with
  | VUnit | VNumber _ | VString _ | VCode _ => true
  | VArray l | VTuple l => forallb crossable l
  | VRecord l => forallb (fun kv => crossable (snd kv)) l
  | VTaggedUnion _ x => crossable x
  | VErrorV _ | VClosure _ _ | VFixpoint _ _ | VExternalFn _ | VStore _ | VConstructorFn _ _ _ => false
  end.

(* the first variant (in traversal order) that to_ffi_value answers with Err, if any *)
Definition first_some {A B : Type} (f : A -> option B) : list A -> option B :=
  fix go (l : list A) : option B :=
    match l with
    | [] => None
    | x :: t => match f x with Some e => Some e | None => go t end
    end.
Fixpoint first_refused (v : value str) : option ffi_err :=
  match v with
  | VClosure _ _ => Some ErrClosure
  | VFixpoint _ _ => Some ErrFixpoint
  | VExternalFn _ => Some ErrExternalFn
  | VStore _ => Some ErrStore
  | VConstructorFn _ _ _ => Some ErrConstructorFn
  | VArray l | VTuple l => first_some first_refused l
  | VRecord l => first_some (fun kv => first_refused (snd kv)) l
  | VTaggedUnion _ x => first_refused x
  | VErrorV _ | VUnit | VNumber _ | VString _ | VCode _ => None
  end.
(* an ErrorV somewhere on the part of the value that to_ffi_value traverses *)
Fixpoint has_errorv {S : Type} (v : value S) : bool :=
  match v with
  | VErrorV _ => true
  | VArray l | VTuple l => existsb has_errorv l
  | VRecord l => existsb (fun kv => has_errorv (snd kv)) l
  | VTaggedUnion _ x => has_errorv x
  | _ => false
  end.

(* the value with every ErrorV on the traversed part replaced by Unit (what finding F10 turns a value into) *)
Fixpoint squash_errorv (v : value str) : value str :=
  match v with
  | VErrorV _ => VUnit
  | VArray l => VArray (map squash_errorv l)
  | VTuple l => VTuple (map squash_errorv l)
  | VRecord l => VRecord (map (fun kv => (fst kv, squash_errorv (snd kv))) l)
  | VTaggedUnion tag x => VTaggedUnion tag (squash_errorv x)
  | _ => v
  end.

(* representable across the boundary: only the listed variants, within the bounds every Rust value satisfies *)
Definition representable (v : value str) : bool := crossable v && value_ok str_ok v.

Definition rtf_ok (f : rtf) : bool := (rtf_key f <? pow64) && key_ok (rtf_ty f).
Definition variant_ok (p : N * option key) : bool :=
  (fst p <? pow64) && match snd p with Some k => key_ok k | None => true end.
Definition ty_ok (t : ty) : bool :=
  match t with
  | TPrimitive _ | TAny | TFailure | TUnknown => true
  | TArray k | TRef k | TCode k | TBoxed k => key_ok k
  | TTuple l | TUnion l => len_ok l && forallb key_ok l
  | TRecord l => len_ok l && forallb rtf_ok l
  | TFunction a r => key_ok a && key_ok r
  | TUserSum n vs => (n <? pow64) && len_ok vs && forallb variant_ok vs
  | TIntermediate n | TTypeScheme n | TTypeAlias n => n <? pow64
  end.
(* serialisable for the hand-written Value serde *)
Fixpoint vserialisable {S : Type} (v : value S) : bool :=
  match v with
  | VClosure _ _ | VExternalFn _ | VStore _ => false
  | VArray l | VTuple l => forallb vserialisable l
  | VRecord l => forallb (fun kv => vserialisable (snd kv)) l
  | VTaggedUnion _ x => vserialisable x
  | _ => true
  end.

(* Unicode scalar values (U+0000..U+D7FF, U+E000..U+10FFFF) and the UTF-8 encoding form (Unicode 3.9, table 3-6):
   the specification `utf8_valid` is proved against in FfiCodec/Utf8.v *)
Definition scalar (c : N) : bool := (c <? 55296) || ((57344 <=? c) && (c <? 1114112)).
Definition utf8_char (c : N) : list N :=
  if c <? 128 then [c]
  else if c <? 2048 then [192 + c / 64; 128 + c mod 64]
  else if c <? 65536 then [224 + c / 4096; 128 + (c / 64) mod 64; 128 + c mod 64]
  else [240 + c / 262144; 128 + (c / 4096) mod 64; 128 + (c / 64) mod 64; 128 + c mod 64].
Definition utf8_of (cs : list N) : list N := flat_map utf8_char cs.

(* macro arguments *)
Definition arg_ok (p : ffi_value * key) : bool := ffi_ok (fst p) && key_ok (snd p).
Definition arg_refused (p : value str * key) : option ffi_err := first_refused (fst p).
Definition arg_representable (p : value str * key) : bool := representable (fst p) && key_ok (snd p).
(* a Symbol id (usize) *)
Definition id_ok (s : N) : bool := s <? pow64.
(* Type variants the hand-written Serialize accepts *)
Definition ty_serialisable (t : ty) : bool :=
  match t with TIntermediate _ | TTypeScheme _ => false | _ => true end.

(* ------------------------------------------------------------------ *)
(* agreement of the generated tables (evaluated by vm_compute in Props/C20.v)                         *)
(* ------------------------------------------------------------------ *)

Definition str_list_eqb (a b : list string) : bool :=
  Nat.eqb (length a) (length b) && forallb (fun p => String.eqb (fst p) (snd p)) (combine a b).

Fixpoint nodupb (l : list string) : bool :=
  match l with
  | [] => true
  | x :: t => negb (existsb (String.eqb x) t) && nodupb t
  end.

(* same names, any order *)
Definition same_set (a b : list string) : bool :=
  Nat.eqb (length a) (length b) && nodupb b && forallb (fun x => existsb (String.eqb x) b) a.

Definition opt_eqb {A : Type} (eqb : A -> A -> bool) (a b : option A) : bool :=
  match a, b with
  | Some x, Some y => eqb x y
  | None, None => true
  | _, _ => false
  end.

(* writer index i for variant v  =>  the reader's i-th Field is v and its arm builds v;
   reader Field list = VARIANTS list; every declared variant is either written or refused *)
Definition hand_written_agree (declared : list string) (ser : list (string * N)) (refused fields variants : list string)
           (builds : list (string * string)) : bool :=
  forallb (fun p => opt_eqb String.eqb (name_at fields (snd p)) (Some (fst p)) && (snd p <? pow32)) ser
  && forallb (fun f => opt_eqb String.eqb (assoc f builds) (Some f)) fields
  && str_list_eqb fields variants
  && nodupb fields && nodupb (map fst ser)
  && Nat.eqb (length ser) (length fields)
  && forallb (fun d => xorb (existsb (String.eqb d) (map fst ser)) (existsb (String.eqb d) refused)) declared
  && forallb (fun r => existsb (String.eqb r) declared) (refused ++ map fst ser).

(* the model's view of one arm of to_ffi_value / to_value, by variant name *)
Definition sample_value (k : val_kind) : value str :=
  match k with
  | WErrorV => VErrorV (Key 1 1) | WUnit => VUnit | WNumber => VNumber 0 | WString => VString [] | WArray => VArray []
  | WRecord => VRecord [] | WTuple => VTuple [] | WClosure => VClosure (Key 1 1) [] | WFixpoint => VFixpoint [] (Key 1 1)
  | WCode => VCode (Key 1 1) | WExternalFn => VExternalFn [] | WStore => VStore VUnit
  | WTaggedUnion => VTaggedUnion 0 VUnit | WConstructorFn => VConstructorFn 0 [] (Key 1 1)
  end.
Definition kind_of_ffi (f : ffi_value) : ffi_kind :=
  match f with
  | FErrorV => KErrorV | FUnit => KUnit | FNumber _ => KNumber | FString _ => KString | FArray _ => KArray
  | FTuple _ => KTuple | FRecord _ => KRecord | FCode _ => KCode | FTaggedUnion _ _ => KTaggedUnion
  end.
Definition sample_ffi (k : ffi_kind) : ffi_value :=
  match k with
  | KErrorV => FErrorV | KUnit => FUnit | KNumber => FNumber 0 | KString => FString [] | KArray => FArray []
  | KTuple => FTuple [] | KRecord => FRecord [] | KCode => FCode (Key 1 1) | KTaggedUnion => FTaggedUnion 0 FUnit
  end.
Definition model_to_ffi_arm (k : val_kind) : option string :=
  match to_ffi (sample_value k) with
  | Ok f => Some (ffi_kind_name (kind_of_ffi f))
  | Err _ => None
  end.
Definition model_to_value_arm (k : ffi_kind) : string := val_kind_name (kind_of_value (of_ffi (sample_ffi k))).

Definition tables_agree : bool :=
  (* derived serde of FfiValue / PType: every constructor of the model has exactly one index, and conversely *)
  nodupb ffi_value_variants
  && Nat.eqb (length ffi_value_variants) (length all_ffi_kinds)
  && forallb (fun k => opt_eqb (fun a b => String.eqb (ffi_kind_name a) (ffi_kind_name b)) (ffi_kind_of_index (ffi_index k)) (Some k)
                       && (ffi_index k <? pow32)) all_ffi_kinds
  && nodupb ptype_variants
  && Nat.eqb (length ptype_variants) (length all_ptypes)
  && forallb (fun p => opt_eqb (fun a b => String.eqb (ptype_name a) (ptype_name b)) (ptype_of_index (ptype_index p)) (Some p)
                       && (ptype_index p <? pow32)) all_ptypes
  (* hand-written serde of Value and Type *)
  && hand_written_agree value_variants value_ser_index value_ser_refused value_de_fields value_de_variants value_de_builds
  && hand_written_agree type_variants type_ser_index type_ser_refused type_de_fields type_de_variants type_de_builds
  && same_set (map val_kind_name all_val_kinds) value_variants
  && same_set (map ty_kind_name all_ty_kinds) type_variants
  (* the arms of to_ffi_value / to_value in the source are the arms of the model *)
  && Nat.eqb (length to_ffi_arms) (length all_val_kinds)
  && forallb (fun k => opt_eqb (opt_eqb String.eqb) (assoc (val_kind_name k) to_ffi_arms) (Some (model_to_ffi_arm k))) all_val_kinds
  && Nat.eqb (length to_value_arms) (length all_ffi_kinds)
  && forallb (fun k => opt_eqb String.eqb (assoc (ffi_kind_name k) to_value_arms) (Some (model_to_value_arm k))) all_ffi_kinds.
