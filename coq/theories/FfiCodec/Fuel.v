(* FfiCodec/Fuel.v — the fuel of `decode` / `vdec` only bounds the nesting depth and S (length bs) never runs out:
   with more fuel than bytes the answer does not depend on the fuel, so a `None` of decode_ffi / vdecode is a genuine rejection. *)
From Coq Require Import String NArith List Bool Lia Arith.
From Mimium Require Import Tables.FfiTables FfiCodec.Model FfiCodec.Wire FfiCodec.Lemmas FfiCodec.ValueSerde.
Import ListNotations.
Local Open Scope list_scope.
Local Open Scope N_scope.

Definition shrinks {A : Type} (d : dec A) : Prop := forall bs a r, d bs = Some (a, r) -> (length r <= length bs)%nat.
Definition agree {A : Type} (n : nat) (d1 d2 : dec A) : Prop := forall bs, (length bs <= n)%nat -> d1 bs = d2 bs.

Lemma read_le_len : forall k bs n r, read_le k bs = Some (n, r) -> length bs = (k + length r)%nat.
Proof.
  intros k bs n r H. apply read_le_inv in H as (_ & -> & Hk). rewrite skipn_length. lia.
Qed.

Lemma shrinks_read_le : forall k, shrinks (read_le k).
Proof. intros k bs a r H. apply read_le_len in H. lia. Qed.

Lemma shrinks_dec_string : shrinks dec_string.
Proof.
  intros bs a r H. unfold dec_string in H.
  destruct (dec_u64 bs) as [[n r0]|] eqn:E; cbn [bind] in H; [|discriminate].
  apply read_le_len in E.
  destruct (N.of_nat (length r0) <? n); [discriminate|]. cbv zeta in H.
  destruct (utf8_valid (firstn (N.to_nat n) r0)); [|discriminate].
  injection H as _ <-. rewrite skipn_length. lia.
Qed.

Lemma shrinks_dec_key : shrinks dec_key.
Proof.
  intros bs a r H. unfold dec_key in H.
  destruct (dec_u32 bs) as [[i r0]|] eqn:E1; cbn [bind] in H; [|discriminate].
  destruct (dec_u32 r0) as [[v r1]|] eqn:E2; cbn [bind] in H; [|discriminate].
  apply read_le_len in E1, E2. cbv zeta in H. injection H as _ <-. lia.
Qed.

Lemma shrinks_dec_pair : forall (A B : Type) (da : dec A) (db : dec B), shrinks da -> shrinks db -> shrinks (dec_pair da db).
Proof.
  intros A B da db Ha Hb bs [a b] r H. unfold dec_pair in H.
  destruct (da bs) as [[a0 r0]|] eqn:E1; cbn [bind] in H; [|discriminate].
  destruct (db r0) as [[b0 r1]|] eqn:E2; cbn [bind] in H; [|discriminate].
  injection H as _ _ <-. apply Ha in E1. apply Hb in E2. lia.
Qed.

Lemma shrinks_dec_n : forall (A : Type) (d : dec A), shrinks d -> forall k, shrinks (dec_n d k).
Proof.
  intros A d Hd k. induction k as [|k IH]; intros bs a r H; cbn [dec_n] in H.
  - injection H as _ <-. lia.
  - destruct (d bs) as [[x r0]|] eqn:E1; cbn [bind] in H; [|discriminate].
    destruct (dec_n d k r0) as [[l r1]|] eqn:E2; cbn [bind] in H; [|discriminate].
    injection H as _ <-. apply Hd in E1. apply IH in E2. lia.
Qed.

Lemma shrinks_dec_vec : forall (A : Type) (d : dec A), shrinks d -> shrinks (dec_vec d).
Proof.
  intros A d Hd bs a r H. unfold dec_vec in H.
  destruct (dec_u64 bs) as [[n r0]|] eqn:E; cbn [bind] in H; [|discriminate].
  apply read_le_len in E. destruct (N.of_nat (length r0) <? n); [discriminate|].
  apply (shrinks_dec_n _ d Hd) in H. lia.
Qed.

Lemma dec_n_ext : forall (A : Type) (d1 d2 : dec A) n, agree n d1 d2 -> shrinks d1 ->
  forall k bs, (length bs <= n)%nat -> dec_n d1 k bs = dec_n d2 k bs.
Proof.
  intros A d1 d2 n Hag Hsh k. induction k as [|k IH]; intros bs Hlen; cbn [dec_n]; [reflexivity|].
  rewrite <- (Hag bs Hlen). destruct (d1 bs) as [[x r0]|] eqn:E; cbn [bind]; [|reflexivity].
  apply Hsh in E. rewrite IH by lia. reflexivity.
Qed.

Lemma dec_vec_ext : forall (A : Type) (d1 d2 : dec A) n, agree n d1 d2 -> shrinks d1 ->
  forall bs, (length bs <= n)%nat -> dec_vec d1 bs = dec_vec d2 bs.
Proof.
  intros A d1 d2 n Hag Hsh bs Hlen. unfold dec_vec.
  destruct (dec_u64 bs) as [[k r0]|] eqn:E; cbn [bind]; [|reflexivity].
  apply read_le_len in E. destruct (N.of_nat (length r0) <? k); [reflexivity|].
  apply (dec_n_ext _ d1 d2 n Hag Hsh). lia.
Qed.

Lemma agree_dec_pair : forall (A B : Type) (da : dec A) (d1 d2 : dec B) n, shrinks da -> agree n d1 d2 ->
  agree n (dec_pair da d1) (dec_pair da d2).
Proof.
  intros A B da d1 d2 n Hsh Hag bs Hlen. unfold dec_pair.
  destruct (da bs) as [[a r0]|] eqn:E; cbn [bind]; [|reflexivity].
  apply Hsh in E. rewrite (Hag r0) by lia. reflexivity.
Qed.

(* ---------------- FfiValue ---------------- *)

Lemma shrinks_decode : forall fuel, shrinks (decode fuel).
Proof.
  induction fuel as [|f IH]; intros bs a r H; [discriminate|].
  rewrite decode_S in H.
  destruct (dec_u32 bs) as [[i r0]|] eqn:E; cbn [bind] in H; [|discriminate].
  apply read_le_len in E.
  destruct (ffi_kind_of_index i) as [[]|]; try discriminate.
  - injection H as _ <-. lia.
  - injection H as _ <-. lia.
  - destruct (dec_u64 r0) as [[n r1]|] eqn:E1; cbn [bind] in H; [|discriminate]. apply read_le_len in E1. injection H as _ <-. lia.
  - destruct (dec_string r0) as [[n r1]|] eqn:E1; cbn [bind] in H; [|discriminate]. apply shrinks_dec_string in E1. injection H as _ <-. lia.
  - destruct (dec_vec (decode f) r0) as [[n r1]|] eqn:E1; cbn [bind] in H; [|discriminate].
    apply (shrinks_dec_vec _ _ IH) in E1. injection H as _ <-. lia.
  - destruct (dec_vec (decode f) r0) as [[n r1]|] eqn:E1; cbn [bind] in H; [|discriminate].
    apply (shrinks_dec_vec _ _ IH) in E1. injection H as _ <-. lia.
  - destruct (dec_vec (dec_pair dec_string (decode f)) r0) as [[n r1]|] eqn:E1; cbn [bind] in H; [|discriminate].
    apply (shrinks_dec_vec _ _ (shrinks_dec_pair _ _ _ _ shrinks_dec_string IH)) in E1. injection H as _ <-. lia.
  - destruct (dec_key r0) as [[n r1]|] eqn:E1; cbn [bind] in H; [|discriminate]. apply shrinks_dec_key in E1. injection H as _ <-. lia.
  - destruct (dec_u64 r0) as [[n r1]|] eqn:E1; cbn [bind] in H; [|discriminate]. apply read_le_len in E1.
    destruct (decode f r1) as [[x r2]|] eqn:E2; cbn [bind] in H; [|discriminate]. apply IH in E2. injection H as _ <-. lia.
Qed.

Lemma decode_fuel_any : forall f1 f2 bs, (length bs < f1)%nat -> (length bs < f2)%nat -> decode f1 bs = decode f2 bs.
Proof.
  induction f1 as [|f1 IH]; intros f2 bs H1 H2; [lia|].
  destruct f2 as [|f2]; [lia|]. rewrite !decode_S.
  destruct (dec_u32 bs) as [[i r0]|] eqn:E; cbn [bind]; [|reflexivity].
  apply read_le_len in E.
  assert (Hag : agree (length r0) (decode f1) (decode f2)).
  { intros bs' Hbs'. apply IH; lia. }
  destruct (ffi_kind_of_index i) as [[]|]; try reflexivity.
  - rewrite (dec_vec_ext _ _ _ _ Hag (shrinks_decode f1)) by lia. reflexivity.
  - rewrite (dec_vec_ext _ _ _ _ Hag (shrinks_decode f1)) by lia. reflexivity.
  - rewrite (dec_vec_ext _ _ _ _ (agree_dec_pair _ _ dec_string _ _ _ shrinks_dec_string Hag)
               (shrinks_dec_pair _ _ _ _ shrinks_dec_string (shrinks_decode f1))) by lia. reflexivity.
  - destruct (dec_u64 r0) as [[n r1]|] eqn:E1; cbn [bind]; [|reflexivity]. apply read_le_len in E1.
    rewrite (Hag r1) by lia. reflexivity.
Qed.

Lemma decode_fuel_irrelevant : forall fuel bs, (length bs < fuel)%nat -> decode fuel bs = decode_ffi bs.
Proof. intros fuel bs H. unfold decode_ffi. apply decode_fuel_any; lia. Qed.

(* ---------------- Value (hand-written serde) ---------------- *)

Lemma shrinks_vdec : forall fuel, shrinks (vdec fuel).
Proof.
  induction fuel as [|f IH]; intros bs a r H; [discriminate|].
  rewrite vdec_S in H.
  destruct (dec_u32 bs) as [[i r0]|] eqn:E; cbn [bind] in H; [|discriminate].
  apply read_le_len in E. unfold dec_usize in *.
  destruct (val_kind_of_index i) as [[]|]; try discriminate.
  - destruct (dec_key r0) as [[n r1]|] eqn:E1; cbn [bind] in H; [|discriminate]. apply shrinks_dec_key in E1. injection H as _ <-. lia.
  - injection H as _ <-. lia.
  - destruct (dec_u64 r0) as [[n r1]|] eqn:E1; cbn [bind] in H; [|discriminate]. apply read_le_len in E1. injection H as _ <-. lia.
  - destruct (dec_u64 r0) as [[n r1]|] eqn:E1; cbn [bind] in H; [|discriminate]. apply read_le_len in E1. injection H as _ <-. lia.
  - destruct (dec_vec (vdec f) r0) as [[n r1]|] eqn:E1; cbn [bind] in H; [|discriminate].
    apply (shrinks_dec_vec _ _ IH) in E1. injection H as _ <-. lia.
  - destruct (dec_vec (dec_pair dec_u64 (vdec f)) r0) as [[n r1]|] eqn:E1; cbn [bind] in H; [|discriminate].
    apply (shrinks_dec_vec _ _ (shrinks_dec_pair _ _ _ _ (shrinks_read_le 8) IH)) in E1. injection H as _ <-. lia.
  - destruct (dec_vec (vdec f) r0) as [[n r1]|] eqn:E1; cbn [bind] in H; [|discriminate].
    apply (shrinks_dec_vec _ _ IH) in E1. injection H as _ <-. lia.
  - destruct (dec_u64 r0) as [[n r1]|] eqn:E1; cbn [bind] in H; [|discriminate]. apply read_le_len in E1.
    destruct (dec_key r1) as [[k r2]|] eqn:E2; cbn [bind] in H; [|discriminate]. apply shrinks_dec_key in E2. injection H as _ <-. lia.
  - destruct (dec_key r0) as [[n r1]|] eqn:E1; cbn [bind] in H; [|discriminate]. apply shrinks_dec_key in E1. injection H as _ <-. lia.
  - destruct (dec_u64 r0) as [[n r1]|] eqn:E1; cbn [bind] in H; [|discriminate]. apply read_le_len in E1.
    destruct (vdec f r1) as [[x r2]|] eqn:E2; cbn [bind] in H; [|discriminate]. apply IH in E2. injection H as _ <-. lia.
  - destruct (dec_u64 r0) as [[n r1]|] eqn:E1; cbn [bind] in H; [|discriminate]. apply read_le_len in E1.
    destruct (dec_u64 r1) as [[s r2]|] eqn:E2; cbn [bind] in H; [|discriminate]. apply read_le_len in E2.
    destruct (dec_key r2) as [[k r3]|] eqn:E3; cbn [bind] in H; [|discriminate]. apply shrinks_dec_key in E3. injection H as _ <-. lia.
Qed.

Lemma vdec_fuel_any : forall f1 f2 bs, (length bs < f1)%nat -> (length bs < f2)%nat -> vdec f1 bs = vdec f2 bs.
Proof.
  induction f1 as [|f1 IH]; intros f2 bs H1 H2; [lia|].
  destruct f2 as [|f2]; [lia|]. rewrite !vdec_S.
  destruct (dec_u32 bs) as [[i r0]|] eqn:E; cbn [bind]; [|reflexivity].
  apply read_le_len in E. unfold dec_usize.
  assert (Hag : agree (length r0) (vdec f1) (vdec f2)).
  { intros bs' Hbs'. apply IH; lia. }
  destruct (val_kind_of_index i) as [[]|]; try reflexivity.
  - rewrite (dec_vec_ext _ _ _ _ Hag (shrinks_vdec f1)) by lia. reflexivity.
  - rewrite (dec_vec_ext _ _ _ _ (agree_dec_pair _ _ dec_u64 _ _ _ (shrinks_read_le 8) Hag)
               (shrinks_dec_pair _ _ _ _ (shrinks_read_le 8) (shrinks_vdec f1))) by lia. reflexivity.
  - rewrite (dec_vec_ext _ _ _ _ Hag (shrinks_vdec f1)) by lia. reflexivity.
  - destruct (dec_u64 r0) as [[n r1]|] eqn:E1; cbn [bind]; [|reflexivity]. apply read_le_len in E1.
    rewrite (Hag r1) by lia. reflexivity.
Qed.

Lemma vdec_fuel_irrelevant : forall fuel bs, (length bs < fuel)%nat -> vdec fuel bs = vdecode bs.
Proof. intros fuel bs H. unfold vdecode. apply vdec_fuel_any; lia. Qed.

Lemma fuel_irrelevant : forall fuel bs, (length bs < fuel)%nat -> decode fuel bs = decode_ffi bs /\ vdec fuel bs = vdecode bs.
Proof. intros fuel bs H. split; [apply decode_fuel_irrelevant | apply vdec_fuel_irrelevant]; exact H. Qed.
