(* FfiCodec/TypeSerde.v — the hand-written Serialize/Deserialize of types::Type (types/serde_impl.rs) over bincode *)
From Coq Require Import String NArith List Bool Lia Arith.
From Mimium Require Import Tables.FfiTables FfiCodec.Model FfiCodec.Wire.
Import ListNotations.
Local Open Scope list_scope.
Local Open Scope N_scope.

Lemma ptype_index_spec : forall p, ptype_of_index (ptype_index p) = Some p /\ ptype_index p < pow32.
Proof. intros p. destruct p; vm_compute; split; reflexivity. Qed.

(* writer index vs reader order, from the generated tables *)
Lemma ty_index_spec : forall k,
  match ty_ser_index k with
  | Some i => ty_kind_of_index i = Some k /\ i < pow32
  | None => k = YIntermediate \/ k = YTypeScheme
  end.
Proof. intros k. destruct k; vm_compute; auto. Qed.

Lemma rt_ptype : forall p, rt enc_ptype dec_ptype p.
Proof.
  intros p rest. unfold dec_ptype, enc_ptype. destruct (ptype_index_spec p) as [H1 H2].
  rewrite rt_u32 by exact H2. cbn [bind]. now rewrite H1.
Qed.

Lemma rt_rtf : forall f, rtf_ok f = true -> rt enc_rtf dec_rtf f.
Proof.
  intros [k t d] H rest. unfold rtf_ok in H. cbn [rtf_key rtf_ty rtf_default] in H.
  apply andb_prop in H as [Hk Ht]. apply N.ltb_lt in Hk.
  unfold dec_rtf, enc_rtf, enc_usize, dec_usize. cbn [rtf_key rtf_ty rtf_default].
  rewrite <- !app_assoc, rt_u64 by exact Hk. cbn [bind]. rewrite rt_key by exact Ht. cbn [bind].
  rewrite rt_bool. reflexivity.
Qed.

Lemma rt_variant : forall p, variant_ok p = true -> rt enc_variant (dec_pair dec_usize (dec_option dec_key)) p.
Proof.
  intros p H. unfold variant_ok in H. apply andb_prop in H as [Hs Ho]. apply N.ltb_lt in Hs.
  apply (rt_pair _ _ enc_usize (enc_option enc_key) dec_usize (dec_option dec_key) p).
  - apply rt_u64. exact Hs.
  - apply rt_option. intros k Hk. rewrite Hk in Ho. apply rt_key. exact Ho.
Qed.

Lemma rt_keys : forall l, len_ok l = true -> forallb key_ok l = true -> rt (enc_vec enc_key) (dec_vec dec_key) l.
Proof.
  intros l Hlen Hall. apply rt_vec; [| |exact Hlen].
  - rewrite forallb_forall in Hall. apply Forall_forall. intros k Hk. apply rt_key. exact (Hall k Hk).
  - apply Forall_forall. intros k _. rewrite length_enc_key. lia.
Qed.


Lemma encode_type_none_iff : forall t, encode_type t = None <-> ty_serialisable t = false.
Proof.
  intros t. unfold encode_type. pose proof (ty_index_spec (kind_of_ty t)) as H.
  destruct (ty_ser_index (kind_of_ty t)) as [i|].
  - destruct t; cbn [ty_serialisable]; split; intros E; try discriminate; reflexivity.
  - destruct t; cbn [kind_of_ty ty_serialisable] in *; destruct H as [H|H]; try discriminate; split; reflexivity.
Qed.

Lemma decode_type_encode : forall t, ty_ok t = true -> ty_serialisable t = true ->
  exists bs, encode_type t = Some bs /\ forall rest, decode_type (bs ++ rest) = Some (t, rest).
Proof.
  intros t Hok Hser. unfold encode_type. pose proof (ty_index_spec (kind_of_ty t)) as H.
  destruct (ty_ser_index (kind_of_ty t)) as [i|].
  2:{ destruct t; cbn [kind_of_ty ty_serialisable] in *; destruct H as [H|H]; discriminate. }
  destruct H as [Hk Hi].
  destruct t; cbn [kind_of_ty ty_ok ty_serialisable] in *; try discriminate;
    (eexists; split; [reflexivity|]); intros rest; unfold decode_type;
    rewrite <- ?app_assoc, (rt_u32 _ Hi); cbn [bind]; rewrite Hk.
  - rewrite rt_ptype. reflexivity.
  - rewrite rt_key by exact Hok. reflexivity.
  - apply andb_prop in Hok as [Hl Ha]. rewrite rt_keys by assumption. reflexivity.
  - apply andb_prop in Hok as [Hl Ha].
    rewrite (rt_vec _ enc_rtf dec_rtf l); [reflexivity | | | exact Hl].
    + rewrite forallb_forall in Ha. apply Forall_forall. intros f Hf. apply rt_rtf. exact (Ha f Hf).
    + apply Forall_forall. intros f _. unfold enc_rtf. rewrite !app_length, length_enc_key. lia.
  - apply andb_prop in Hok as [Ha Hr]. rewrite rt_key by exact Ha. cbn [bind]. rewrite rt_key by exact Hr. reflexivity.
  - rewrite rt_key by exact Hok. reflexivity.
  - rewrite rt_key by exact Hok. reflexivity.
  - apply andb_prop in Hok as [Hl Ha]. rewrite rt_keys by assumption. reflexivity.
  - apply andb_prop in Hok as [Hn Ha]. apply andb_prop in Hn as [Hn Hl]. apply N.ltb_lt in Hn.
    unfold enc_usize, dec_usize. rewrite rt_u64 by exact Hn. cbn [bind].
    rewrite (rt_vec _ enc_variant (dec_pair dec_u64 (dec_option dec_key)) variants); [reflexivity | | | exact Hl].
    + rewrite forallb_forall in Ha. apply Forall_forall. intros p Hp. apply rt_variant. exact (Ha p Hp).
    + apply Forall_forall. intros p _. unfold enc_variant, enc_usize. rewrite app_length, length_enc_u64. lia.
  - rewrite rt_key by exact Hok. reflexivity.
  - apply N.ltb_lt in Hok. unfold enc_usize, dec_usize. rewrite rt_u64 by exact Hok. reflexivity.
  - reflexivity.
  - reflexivity.
  - reflexivity.
Qed.
