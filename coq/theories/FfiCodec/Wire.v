(* FfiCodec/Wire.v — round-trip lemmas for the bincode primitives of FfiCodec/Model.v *)
From Coq Require Import String NArith List Bool Lia Arith.
From Mimium Require Import FfiCodec.Model.
Import ListNotations.
Local Open Scope list_scope.
Local Open Scope N_scope.

(* `rt e d a`: decoding what was encoded returns the value and exactly the bytes that followed it *)
Definition rt {A : Type} (e : A -> list N) (d : dec A) (a : A) : Prop :=
  forall rest, d (e a ++ rest) = Some (a, rest).

(* ---------------- little-endian integers ---------------- *)

Lemma length_le_bytes : forall k n, length (le_bytes k n) = k.
Proof. induction k as [|k IH]; intros n; cbn [le_bytes length]; [reflexivity | now rewrite IH]. Qed.

Lemma le_val_le_bytes : forall k n, n < 256 ^ N.of_nat k -> le_val (le_bytes k n) = n.
Proof.
  induction k as [|k IH]; intros n Hn.
  - change (256 ^ N.of_nat 0) with 1 in Hn. cbn [le_bytes le_val]. lia.
  - cbn [le_bytes le_val]. rewrite IH.
    + pose proof (N.div_mod n 256) as Hdm. lia.
    + rewrite Nat2N.inj_succ, N.pow_succ_r' in Hn. apply N.div_lt_upper_bound; lia.
Qed.

Lemma le_bytes_lt256 : forall k n, Forall (fun b => b < 256) (le_bytes k n).
Proof.
  induction k as [|k IH]; intros n; cbn [le_bytes]; constructor.
  - apply N.mod_lt. lia.
  - apply IH.
Qed.

Lemma firstn_app_exact : forall (A : Type) (a b : list A), firstn (length a) (a ++ b) = a.
Proof. intros A a b. rewrite firstn_app, Nat.sub_diag, firstn_all. cbn. apply app_nil_r. Qed.

Lemma skipn_app_exact : forall (A : Type) (a b : list A), skipn (length a) (a ++ b) = b.
Proof. intros A a b. rewrite skipn_app, Nat.sub_diag, skipn_all. reflexivity. Qed.

Lemma firstn_app_len : forall (A : Type) (a b : list A) k, length a = k -> firstn k (a ++ b) = a.
Proof. intros A a b k <-. apply firstn_app_exact. Qed.
Lemma skipn_app_len : forall (A : Type) (a b : list A) k, length a = k -> skipn k (a ++ b) = b.
Proof. intros A a b k <-. apply skipn_app_exact. Qed.

Lemma read_le_rt : forall k n, n < 256 ^ N.of_nat k -> rt (le_bytes k) (read_le k) n.
Proof.
  intros k n Hn rest. unfold read_le.
  assert (Hlen : length (le_bytes k n) = k) by apply length_le_bytes.
  replace (Nat.ltb (length (le_bytes k n ++ rest)) k) with false.
  2:{ symmetry. apply Nat.ltb_ge. rewrite app_length. lia. }
  rewrite (firstn_app_len _ _ _ _ Hlen), (skipn_app_len _ _ _ _ Hlen), le_val_le_bytes by exact Hn. reflexivity.
Qed.

Lemma rt_u8 : forall n, n < 256 -> rt enc_u8 dec_u8 n.
Proof. intros n Hn. apply read_le_rt. exact Hn. Qed.

Lemma rt_u32 : forall n, n < pow32 -> rt enc_u32 dec_u32 n.
Proof. intros n Hn. apply read_le_rt. exact Hn. Qed.

Lemma rt_u64 : forall n, n < pow64 -> rt enc_u64 dec_u64 n.
Proof. intros n Hn. apply read_le_rt. exact Hn. Qed.

Lemma length_enc_u32 : forall n, length (enc_u32 n) = 4%nat.
Proof. intros n. apply length_le_bytes. Qed.
Lemma length_enc_u64 : forall n, length (enc_u64 n) = 8%nat.
Proof. intros n. apply length_le_bytes. Qed.

(* ---------------- bool / option / pair ---------------- *)

Lemma rt_bool : forall b, rt enc_bool dec_bool b.
Proof.
  intros b rest. unfold dec_bool, enc_bool.
  destruct b.
  - change ([1] ++ rest) with (enc_u8 1 ++ rest). rewrite rt_u8 by lia. reflexivity.
  - change ([0] ++ rest) with (enc_u8 0 ++ rest). rewrite rt_u8 by lia. reflexivity.
Qed.

Lemma rt_option : forall (A : Type) (e : A -> list N) (d : dec A) (o : option A),
  (forall a, o = Some a -> rt e d a) -> rt (enc_option e) (dec_option d) o.
Proof.
  intros A e d o H rest. unfold dec_option, enc_option.
  destruct o as [a|].
  - change ((1 :: e a) ++ rest) with (enc_u8 1 ++ (e a ++ rest)). rewrite rt_u8 by lia.
    cbn [bind]. change (1 =? 0) with false. change (1 =? 1) with true. cbn iota.
    rewrite (H a eq_refl). reflexivity.
  - change ([0] ++ rest) with (enc_u8 0 ++ rest). rewrite rt_u8 by lia. reflexivity.
Qed.

Lemma rt_pair : forall (A B : Type) (ea : A -> list N) (eb : B -> list N) (da : dec A) (db : dec B) (p : A * B),
  rt ea da (fst p) -> rt eb db (snd p) ->
  rt (fun q => ea (fst q) ++ eb (snd q)) (dec_pair da db) p.
Proof.
  intros A B ea eb da db [a b] Ha Hb rest. unfold dec_pair. cbn [fst snd] in *.
  rewrite <- app_assoc, Ha. cbn [bind]. rewrite Hb. reflexivity.
Qed.

(* ---------------- sequences ---------------- *)

Lemma dec_n_rt : forall (A : Type) (e : A -> list N) (d : dec A) (l : list A) rest,
  Forall (rt e d) l -> dec_n d (length l) (flat_map e l ++ rest) = Some (l, rest).
Proof.
  intros A e d l rest H. induction H as [|x t Hx _ IH]; cbn [length flat_map dec_n].
  - reflexivity.
  - rewrite <- app_assoc, Hx. cbn [bind]. rewrite IH. reflexivity.
Qed.

Lemma length_flat_map_ge : forall (A : Type) (e : A -> list N) (l : list A),
  Forall (fun x => (1 <= length (e x))%nat) l -> (length l <= length (flat_map e l))%nat.
Proof.
  intros A e l H. induction H as [|x t Hx _ IH]; cbn [length flat_map].
  - lia.
  - rewrite app_length. lia.
Qed.

Lemma rt_vec : forall (A : Type) (e : A -> list N) (d : dec A) (l : list A),
  Forall (rt e d) l ->
  Forall (fun x => (1 <= length (e x))%nat) l ->
  len_ok l = true ->
  rt (enc_vec e) (dec_vec d) l.
Proof.
  intros A e d l Hrt Hne Hlen rest. unfold dec_vec, enc_vec.
  unfold len_ok in Hlen. apply N.ltb_lt in Hlen.
  rewrite <- app_assoc, rt_u64 by exact Hlen. cbn [bind].
  replace (N.of_nat (length (flat_map e l ++ rest)) <? N.of_nat (length l)) with false.
  2:{ symmetry. apply N.ltb_ge. rewrite app_length. pose proof (length_flat_map_ge A e l Hne). lia. }
  rewrite Nat2N.id. apply dec_n_rt. exact Hrt.
Qed.

(* ---------------- strings ---------------- *)

Lemma rt_string : forall s, str_ok s = true -> rt enc_string dec_string s.
Proof.
  intros s Hs rest. unfold str_ok in Hs.
  apply andb_prop in Hs as [Hs Hlen]. apply andb_prop in Hs as [_ Hutf].
  apply N.ltb_lt in Hlen.
  unfold dec_string, enc_string. rewrite <- app_assoc, rt_u64 by exact Hlen. cbn [bind].
  replace (N.of_nat (length (s ++ rest)) <? N.of_nat (length s)) with false.
  2:{ symmetry. apply N.ltb_ge. rewrite app_length. lia. }
  rewrite Nat2N.id. cbv zeta. rewrite firstn_app_exact, skipn_app_exact, Hutf. reflexivity.
Qed.

Lemma length_enc_string : forall s, (8 <= length (enc_string s))%nat.
Proof. intros s. unfold enc_string. rewrite app_length, length_enc_u64. lia. Qed.

(* ---------------- slot-map keys ---------------- *)

Lemma lor_1_odd : forall v, N.odd v = true -> N.lor v 1 = v.
Proof.
  intros v Hv. apply N.bits_inj. intros i. rewrite N.lor_spec.
  destruct (N.eq_dec i 0) as [->|Hi].
  - rewrite N.bit0_odd, Hv. reflexivity.
  - replace (N.testbit 1 i) with false; [apply orb_false_r|].
    symmetry. destruct i as [|p]; [lia|]. reflexivity.
Qed.

Lemma rt_key : forall k, key_ok k = true -> rt enc_key dec_key k.
Proof.
  intros [i v] Hk rest. unfold key_ok in Hk.
  apply andb_prop in Hk as [Hk Hnull]. apply andb_prop in Hk as [Hk Hodd]. apply andb_prop in Hk as [Hi Hv].
  apply N.ltb_lt in Hi, Hv.
  unfold dec_key, enc_key. rewrite <- app_assoc, rt_u32 by exact Hi. cbn [bind]. rewrite rt_u32 by exact Hv. cbn [bind].
  cbv zeta. destruct (i =? u32_max) eqn:Hmax.
  - apply N.eqb_eq in Hnull. subst v. reflexivity.
  - rewrite lor_1_odd by exact Hodd. reflexivity.
Qed.

Lemma length_enc_key : forall k, length (enc_key k) = 8%nat.
Proof. intros [i v]. unfold enc_key. rewrite app_length, !length_enc_u32. reflexivity. Qed.

(* ---------------- what a successful read tells ---------------- *)

Definition bytes (l : list N) : Prop := Forall (fun b => b < 256) l.

Lemma le_val_bound : forall l, bytes l -> le_val l < 256 ^ N.of_nat (length l).
Proof.
  intros l H. induction H as [|b t Hb _ IH]; cbn [le_val length].
  - change (256 ^ N.of_nat 0) with 1. lia.
  - rewrite Nat2N.inj_succ, N.pow_succ_r'. lia.
Qed.

Lemma bytes_firstn : forall k l, bytes l -> bytes (firstn k l).
Proof.
  intros k l H. apply Forall_forall. intros x Hx. unfold bytes in H. rewrite Forall_forall in H.
  apply H. rewrite <- (firstn_skipn k l). apply in_or_app. now left.
Qed.
Lemma bytes_skipn : forall k l, bytes l -> bytes (skipn k l).
Proof.
  intros k l H. apply Forall_forall. intros x Hx. unfold bytes in H. rewrite Forall_forall in H.
  apply H. rewrite <- (firstn_skipn k l). apply in_or_app. now right.
Qed.

Lemma read_le_inv : forall k bs n r, read_le k bs = Some (n, r) ->
  n = le_val (firstn k bs) /\ r = skipn k bs /\ (k <= length bs)%nat.
Proof.
  intros k bs n r H. unfold read_le in H. destruct (Nat.ltb (length bs) k) eqn:E; [discriminate|].
  apply Nat.ltb_ge in E. injection H as <- <-. repeat split. exact E.
Qed.

Lemma read_le_bound : forall k bs n r, read_le k bs = Some (n, r) -> bytes bs ->
  n < 256 ^ N.of_nat k /\ bytes r /\ length bs = (k + length r)%nat.
Proof.
  intros k bs n r H Hb. apply read_le_inv in H as (-> & -> & Hk). repeat split.
  - pose proof (le_val_bound (firstn k bs) (bytes_firstn k bs Hb)) as Hv.
    rewrite firstn_length_le in Hv by exact Hk. exact Hv.
  - apply bytes_skipn. exact Hb.
  - rewrite skipn_length. lia.
Qed.

(* what the key reader produces is always a well-formed key *)
Lemma dec_key_ok : forall bs k rest, dec_key bs = Some (k, rest) -> bytes bs ->
  key_ok k = true /\ bytes rest /\ length bs = (8 + length rest)%nat.
Proof.
  intros bs k rest H Hb. unfold dec_key in H.
  destruct (dec_u32 bs) as [[i r]|] eqn:E1; cbn [bind] in H; [|discriminate].
  destruct (dec_u32 r) as [[v r']|] eqn:E2; cbn [bind] in H; [|discriminate].
  cbv zeta in H. injection H as <- <-.
  apply read_le_bound in E1 as (Hi & Hr & Hl1); [|exact Hb].
  apply read_le_bound in E2 as (Hv & Hr' & Hl2); [|exact Hr].
  change (256 ^ N.of_nat 4) with pow32 in Hi, Hv.
  split; [|split; [exact Hr' | lia]].
  unfold key_ok.
  assert (Hlor : forall w, w < pow32 -> N.lor w 1 < pow32).
  { intros w Hw. unfold pow32 in *. change 4294967296 with (2 ^ 32) in *.
    destruct (N.eq_dec w 0) as [->|Hw0]; [cbn; lia|].
    apply N.log2_lt_pow2; [destruct w; cbn; lia|].
    rewrite N.log2_lor. apply N.max_lub_lt; [apply N.log2_lt_pow2; lia | cbn; lia]. }
  assert (Hodd : forall w, N.odd (N.lor w 1) = true).
  { intros w. rewrite <- N.bit0_odd, N.lor_spec. apply orb_true_r. }
  apply N.ltb_lt in Hi. rewrite Hi. cbn [andb].
  destruct (i =? u32_max) eqn:Hmax.
  - reflexivity.
  - pose proof (Hlor v Hv) as Hv'. apply N.ltb_lt in Hv'. rewrite Hv', Hodd. reflexivity.
Qed.
