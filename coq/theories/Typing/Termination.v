(* Typing/Termination.v — (c): on an acyclic store the unifier never runs out of fuel when started with
   Model.fuel_bound n M = 4*(M + n*(M+1)) + 3 (n cells, parents and the two types of size <= M).

   Argument.  A descent from the type the call started with (`desc`: steps to a child, parent pointers are free) is a path
   in the CURRENT store, because stores only grow; by Rank.acyclic_ranked its length is at most D = M + n*(M+1) in any
   acyclic store.  Every recursive call of unify_types / unify_types_args descends on at least one side, except
   unify_types_args -> unify_types on the same pair, which happens at most once in a row. *)
From Coq Require Import List Arith Bool Lia.
From Mimium Require Import Typing.Model Typing.Base Typing.Occurs Typing.Eqv Typing.Rank Typing.Unify.
Import ListNotations.

Inductive desc (s : store) (o : ty) : nat -> ty -> Prop :=
| d_refl : desc s o 0 o
| d_parent : forall k v p, desc s o k (TVar v) -> parent s v = Some p -> desc s o k p
| d_child : forall k t c, desc s o k t -> child c t -> desc s o (S k) c.

Lemma desc_hgt : forall s rk o k t, ranked s rk -> desc s o k t -> hgt rk t + k <= hgt rk o.
Proof.
  intros s rk o k t Hr H. induction H.
  - lia.
  - specialize (Hr _ _ H0). cbn [hgt] in IHdesc. lia.
  - pose proof (child_hgt rk _ _ H0). lia.
Qed.

Lemma desc_ext : forall s s' o k t, ext s s' -> desc s o k t -> desc s' o k t.
Proof.
  intros s s' o k t [_ HE] H. induction H.
  - apply d_refl.
  - eapply d_parent; eauto.
  - eapply d_child; eauto.
Qed.

Lemma desc_chain : forall s o k t r, desc s o k t -> chain s t r -> desc s o k r.
Proof.
  intros s o k t r H C. induction C; auto. apply IHC. eapply d_parent; eauto.
Qed.

Lemma desc_tyok : forall n M s o k t, store_tyok n M s -> tyok n M o -> desc s o k t -> tyok n M t.
Proof.
  intros n M s o k t [_ HP] Ho H. induction H; auto.
  - eauto.
  - eapply tyok_child; eauto.
Qed.

Lemma chain_hgt : forall s rk t r, ranked s rk -> chain s t r -> hgt rk r <= hgt rk t.
Proof.
  intros s rk t r Hr C. induction C; [lia|]. specialize (Hr _ _ H). cbn [hgt]. lia.
Qed.

(* ---------- arms: no out-of-fuel value is produced when the parts produce none ---------- *)
Lemma nf_try_array : forall r,
    r <> UFuel ->
    try_ r (fun s' res => match res with Identical => UOk s' Identical | _ => UErr s' [ETypeMismatch] end) <> UFuel.
Proof. intros [s r|s e|] H; cbn [try_]; try congruence. destruct r; discriminate. Qed.

Lemma nf_coerce : forall r, r <> UFuel -> unify_boxed_coerce r <> UFuel.
Proof. intros [s r|s e|] H; cbn [unify_boxed_coerce]; congruence. Qed.

Lemma nf_var_other : forall oc s v t, oc s v t <> None -> unify_var_other oc s v t <> UFuel.
Proof. intros oc s v t H. unfold unify_var_other. destruct (oc s v t) as [[|]|]; congruence. Qed.

Lemma nf_var_var : forall oc a s t1r t2r t2 v1 v2, oc s v1 t2 <> None -> unify_var_var oc a s t1r t2r t2 v1 v2 <> UFuel.
Proof.
  intros oc a s t1r t2r t2 v1 v2 H. unfold unify_var_var.
  destruct (v1 =? v2); [discriminate|]. destruct (oc s v1 t2) as [[|]|]; congruence.
Qed.

Section Total.
  Variables n M : nat.
  Notation Inv := (Inv n M).
  Notation post := (post n M).
  Notation tyok := (tyok n M).
  Let D := M + n * (M + 1).
  Let C := 4 * D + 3.

  (* what is assumed of the recursive callback with fuel f, for descents from o1 / o2 *)
  Definition tspec (f : nat) (o1 o2 : ty) (u : bool -> store -> ty -> ty -> ures) : Prop :=
    forall a s x y k1 k2,
      Inv s -> desc s o1 k1 x -> desc s o2 k2 y ->
      C <= f + 2 * (k1 + k2) + (if a : bool then 0 else 1) -> u a s x y <> UFuel.

  Lemma nf_fun : forall f u s o1 o2 k1 k2 g1 r1 g2 r2,
      tspec f o1 o2 u -> uspec n M u -> Inv s -> tyok o1 -> tyok o2 ->
      desc s o1 k1 (TFun g1 r1) -> desc s o2 k2 (TFun g2 r2) ->
      C <= S f + 2 * (k1 + k2) + 1 ->
      unify_fun u s g1 r1 g2 r2 <> UFuel.
  Proof.
    intros f u s o1 o2 k1 k2 g1 r1 g2 r2 T U HI Ho1 Ho2 D1 D2 HC. unfold unify_fun.
    assert (Da1 : desc s o1 (S k1) g1) by (eapply d_child; [exact D1|constructor]).
    assert (Da2 : desc s o2 (S k2) g2) by (eapply d_child; [exact D2|constructor]).
    assert (Dr1 : desc s o1 (S k1) r1) by (eapply d_child; [exact D1|constructor]).
    assert (Dr2 : desc s o2 (S k2) r2) by (eapply d_child; [exact D2|constructor]).
    pose proof (T true s g1 g2 (S k1) (S k2) HI Da1 Da2 ltac:(cbv iota; lia)) as N1.
    destruct HI as [HS HA].
    pose proof (U true s g1 g2 (conj HS HA) (desc_tyok _ _ _ _ _ _ HS Ho1 Da1) (desc_tyok _ _ _ _ _ _ HS Ho2 Da2)) as P1.
    destruct (u true s g1 g2) as [s1 ra|s1 e1|]; [| |congruence]; cbn [Unify.post] in P1.
    - destruct P1 as [HI1 [HE1 _]].
      pose proof (T false s1 r1 r2 (S k1) (S k2) HI1 (desc_ext _ _ _ _ _ HE1 Dr1) (desc_ext _ _ _ _ _ HE1 Dr2) ltac:(cbv iota; lia)) as N2.
      destruct (u false s1 r1 r2) as [s2 rr|s2 e2|]; [| |congruence].
      + destruct ra, rr; discriminate.
      + discriminate.
    - destruct P1 as [HI1 HE1].
      pose proof (T false s1 r1 r2 (S k1) (S k2) HI1 (desc_ext _ _ _ _ _ HE1 Dr1) (desc_ext _ _ _ _ _ HE1 Dr2) ltac:(cbv iota; lia)) as N2.
      destruct (u false s1 r1 r2) as [s2 rr|s2 e2|]; [| |congruence]; discriminate.
  Qed.

  Lemma nf_pairs : forall (u : store -> ty -> ty -> ures) o1 o2 k1 k2,
      (forall s x y, Inv s -> desc s o1 k1 x -> desc s o2 k2 y -> u s x y <> UFuel) ->
      (forall s x y, Inv s -> tyok x -> tyok y -> post s x y (u s x y)) ->
      tyok o1 -> tyok o2 ->
      forall a1 a2 s, Inv s ->
                      (forall x, In x a1 -> desc s o1 k1 x) -> (forall y, In y a2 -> desc s o2 k2 y) ->
                      unify_pairs u s a1 a2 <> None.
  Proof.
    intros u o1 o2 k1 k2 T U Ho1 Ho2. induction a1 as [|x r1 IH]; intros a2 s HI F1 F2; cbn [unify_pairs]; [discriminate|].
    destruct a2 as [|y r2]; [discriminate|].
    assert (Dx : desc s o1 k1 x) by (apply F1; left; reflexivity).
    assert (Dy : desc s o2 k2 y) by (apply F2; left; reflexivity).
    pose proof (T s x y HI Dx Dy) as N1.
    assert (HS : store_tyok n M s) by (destruct HI; assumption).
    pose proof (U s x y HI (desc_tyok _ _ _ _ _ _ HS Ho1 Dx) (desc_tyok _ _ _ _ _ _ HS Ho2 Dy)) as P1.
    destruct (u s x y) as [s' r|s' e|]; [| |congruence]; cbn [Unify.post] in P1.
    - destruct P1 as [HI' [HE' _]].
      assert (N2 : unify_pairs u s' r1 r2 <> None).
      { apply IH.
        - exact HI'.
        - intros z Hz. eapply desc_ext; [exact HE'|]. apply F1. right. exact Hz.
        - intros z Hz. eapply desc_ext; [exact HE'|]. apply F2. right. exact Hz. }
      destruct (unify_pairs u s' r1 r2) as [[[s'' rs] es]|]; congruence.
    - destruct P1 as [HI' HE'].
      assert (N2 : unify_pairs u s' r1 r2 <> None).
      { apply IH.
        - exact HI'.
        - intros z Hz. eapply desc_ext; [exact HE'|]. apply F1. right. exact Hz.
        - intros z Hz. eapply desc_ext; [exact HE'|]. apply F2. right. exact Hz. }
      destruct (unify_pairs u s' r1 r2) as [[[s'' rs] es]|]; congruence.
  Qed.

  Lemma nf_tuple : forall f u s o1 o2 k1 k2 a1 a2,
      tspec f o1 o2 u -> uspec n M u -> Inv s -> tyok o1 -> tyok o2 ->
      desc s o1 k1 (TTuple a1) -> desc s o2 k2 (TTuple a2) ->
      C <= S f + 2 * (k1 + k2) + 1 ->
      (if length a1 =? length a2
       then try_ (unify_vec (u false) s a1 a2) (fun s' _ => UOk s' Identical)
       else UErr s [ELengthMismatch]) <> UFuel.
  Proof.
    intros f u s o1 o2 k1 k2 a1 a2 T U HI Ho1 Ho2 D1 D2 HC.
    destruct (length a1 =? length a2); [|discriminate].
    assert (N : unify_pairs (u false) s a1 a2 <> None).
    { apply (nf_pairs (u false) o1 o2 (S k1) (S k2)).
      - intros s' x y HI' Dx Dy. apply (T false s' x y (S k1) (S k2)); auto. cbv iota. lia.
      - intros s' x y. apply U.
      - exact Ho1.
      - exact Ho2.
      - exact HI.
      - intros x Hx. eapply d_child; [exact D1|apply ch_tuple; exact Hx].
      - intros y Hy. eapply d_child; [exact D2|apply ch_tuple; exact Hy]. }
    unfold unify_vec. destruct (unify_pairs (u false) s a1 a2) as [[[s' rs] es]|]; [|congruence].
    destruct (forallb _ rs); cbn [try_]; [discriminate|]. destruct (forallb _ rs); cbn [try_]; discriminate.
  Qed.

  Ltac dk H := (eapply d_child; [exact H|first [apply ch_tuple; cbn [In]; auto|constructor]]).

  (* unify_types: the match on the two roots *)
  Lemma types_body_total : forall f u s t1 t2 t1r t2r o1 o2 k1 k2,
      tspec f o1 o2 u -> uspec n M u -> Inv s -> tyok o1 -> tyok o2 ->
      desc s o1 k1 t1 -> desc s o2 k2 t2 -> chain s t1 t1r -> chain s t2 t2r ->
      (forall v, occur_check f s v t1r <> None) -> (forall v, occur_check f s v t2r <> None) ->
      (forall v, occur_check f s v t2 <> None) ->
      C <= S f + 2 * (k1 + k2) + 1 ->
      unify_types_body (occur_check f) u s t1 t2 t1r t2r <> UFuel.
  Proof.
    intros f u s t1 t2 t1r t2r o1 o2 k1 k2 T U HI Ho1 Ho2 D1 D2 C1 C2 O1 O2 O3 HC.
    assert (D1r : desc s o1 k1 t1r) by (eapply desc_chain; eassumption).
    assert (D2r : desc s o2 k2 t2r) by (eapply desc_chain; eassumption).
    destruct t1r as [p1|a1|l1|g1 r1|x1|c1|b1|v1|];
      destruct t2r as [p2|a2|l2|g2 r2|x2|c2|b2|v2|];
      try (destruct l1 as [|e1 [|e1' l1]]); try (destruct l2 as [|e2 [|e2' l2]]);
      try (destruct p1); try (destruct p2);
      cbn [unify_types_body ptype_eqb]; try discriminate;
      match goal with
      | |- unify_var_var _ _ _ _ _ _ _ _ <> _ => apply nf_var_var; apply O3
      | |- unify_var_other _ _ _ _ <> _ => apply nf_var_other; first [apply O1|apply O2]
      | |- try_ (u false s _ _) _ <> _ =>
          apply nf_try_array; apply (T false s _ _ (S k1) (S k2)); [exact HI|dk D1r|dk D2r|cbv iota; lia]
      | |- (if _ =? _ then _ else _) <> _ => eapply nf_tuple; eassumption
      | |- unify_fun _ _ _ _ _ _ <> _ => eapply nf_fun; eassumption
      | |- unify_boxed_coerce (u false s ?x ?y) <> _ =>
          apply nf_coerce;
          first [apply (T false s x y (S k1) k2); [exact HI|dk D1r|exact D2r|cbv iota; lia]
                |apply (T false s x y k1 (S k2)); [exact HI|exact D1r|dk D2r|cbv iota; lia]]
      | |- u false s t1 ?x <> _ => apply (T false s t1 x k1 (S k2)); [exact HI|exact D1|dk D2r|cbv iota; lia]
      | |- u false s ?x t2 <> _ => apply (T false s x t2 (S k1) k2); [exact HI|dk D1r|exact D2|cbv iota; lia]
      | |- u false s ?x ?y <> _ => apply (T false s x y (S k1) (S k2)); [exact HI|dk D1r|dk D2r|cbv iota; lia]
      end.
  Qed.

  (* unify_types_args: the match on the two roots *)
  Lemma args_body_total : forall f u s t1 t2 t1r t2r o1 o2 k1 k2,
      tspec f o1 o2 u -> Inv s ->
      desc s o1 k1 t1 -> desc s o2 k2 t2 -> chain s t1 t1r -> chain s t2 t2r ->
      (forall v, occur_check f s v t1r <> None) -> (forall v, occur_check f s v t2r <> None) ->
      (forall v, occur_check f s v t2 <> None) ->
      C <= S f + 2 * (k1 + k2) ->
      unify_args_body (occur_check f) u s t1 t2 t1r t2r <> UFuel.
  Proof.
    intros f u s t1 t2 t1r t2r o1 o2 k1 k2 T HI D1 D2 C1 C2 O1 O2 O3 HC.
    assert (D1r : desc s o1 k1 t1r) by (eapply desc_chain; eassumption).
    assert (D2r : desc s o2 k2 t2r) by (eapply desc_chain; eassumption).
    destruct t1r as [p1|a1|l1|g1 r1|x1|c1|b1|v1|];
      destruct t2r as [p2|a2|l2|g2 r2|x2|c2|b2|v2|];
      try (destruct l1 as [|e1 [|e1' l1]]); try (destruct l2 as [|e2 [|e2' l2]]);
      cbn [unify_args_body];
      match goal with
      | |- unify_var_var _ _ _ _ _ _ _ _ <> _ => apply nf_var_var; apply O3
      | |- unify_var_other _ _ _ _ <> _ => apply nf_var_other; first [apply O1|apply O2]
      | |- u false s t1 t2 <> _ => apply (T false s t1 t2 k1 k2); [exact HI|exact D1|exact D2|cbv iota; lia]
      | |- u true s t1 ?x <> _ => apply (T true s t1 x k1 (S k2)); [exact HI|exact D1|dk D2r|cbv iota; lia]
      | |- u true s ?x t2 <> _ => apply (T true s x t2 (S k1) k2); [exact HI|dk D1r|exact D2|cbv iota; lia]
      end.
  Qed.

  (* (c) for the unifier, in its general form: descents of k1 / k2 steps from o1 / o2 *)
  Theorem unify_total_gen : forall f a s t1 t2 o1 o2 k1 k2,
      Inv s -> tyok o1 -> tyok o2 -> desc s o1 k1 t1 -> desc s o2 k2 t2 ->
      C <= f + 2 * (k1 + k2) + (if a : bool then 0 else 1) ->
      unify f a s t1 t2 <> UFuel.
  Proof.
    unfold unify. induction f as [|f IH]; intros a s t1 t2 o1 o2 k1 k2 HI Ho1 Ho2 D1 D2 HC.
    - exfalso. destruct HI as [[HL HP] HA].
      destruct (acyclic_ranked n M s HL (fun v p H => proj2 (HP v p H)) HA) as [rk [Hrk [_ Hh]]].
      pose proof (desc_hgt _ _ _ _ _ Hrk D1). pose proof (desc_hgt _ _ _ _ _ Hrk D2).
      pose proof (Hh o1). pose proof (Hh o2). destruct Ho1 as [_ Hs1]. destruct Ho2 as [_ Hs2].
      destruct a; unfold C, D in *; lia.
    - cbn [unify_gen].
      assert (HI' := HI). destruct HI' as [[HL HP] HA].
      destruct (acyclic_ranked n M s HL (fun v p H => proj2 (HP v p H)) HA) as [rk [Hrk [_ Hh]]].
      pose proof (desc_hgt _ _ _ _ _ Hrk D1) as B1. pose proof (desc_hgt _ _ _ _ _ Hrk D2) as B2.
      pose proof (Hh o1) as Hh1. pose proof (Hh o2) as Hh2.
      assert (Hs1 : size o1 <= M) by (destruct Ho1; assumption).
      assert (Hs2 : size o2 <= M) by (destruct Ho2; assumption).
      assert (F1 : hgt rk t1 < f) by (destruct a; unfold C, D in *; lia).
      assert (F2 : hgt rk t2 < f) by (destruct a; unfold C, D in *; lia).
      destruct (get_root_total s rk Hrk f t1 F1) as [t1r G1].
      destruct (get_root_total s rk Hrk f t2 F2) as [t2r G2].
      rewrite G1, G2.
      pose proof (get_root_chain _ _ _ _ G1) as C1. pose proof (get_root_chain _ _ _ _ G2) as C2.
      pose proof (chain_hgt _ _ _ _ Hrk C1) as R1. pose proof (chain_hgt _ _ _ _ Hrk C2) as R2.
      assert (T : tspec f o1 o2 (unify_gen occur_check f)).
      { intros a' s' x y k1' k2' HI' Dx Dy HC'. apply (IH a' s' x y o1 o2 k1' k2'); assumption. }
      assert (U : uspec n M (unify_gen occur_check f)) by (intros a' s' x y; apply unify_post).
      destruct a.
      + apply (args_body_total f _ s t1 t2 t1r t2r o1 o2 k1 k2 T HI D1 D2 C1 C2);
          try (intros v; apply (occur_check_total s rk Hrk); lia).
        cbv iota in HC. lia.
      + apply (types_body_total f _ s t1 t2 t1r t2r o1 o2 k1 k2 T U HI Ho1 Ho2 D1 D2 C1 C2);
          try (intros v; apply (occur_check_total s rk Hrk); lia).
        cbv iota in HC. lia.
  Qed.
End Total.
