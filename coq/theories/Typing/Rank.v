(* Typing/Rank.v — an acyclic store of n cells whose parents have at most M nodes admits a ranking of its variables,
   bounded by n*(M+1), such that the height of every parent is below the rank of its variable.  This is the combinatorial
   heart of the explicit fuel bound: a path through parent pointers visits every bound variable at most once. *)
From Coq Require Import List Arith Bool Lia.
From Mimium Require Import Typing.Model Typing.Base Typing.Occurs.
Import ListNotations.

(* height of a type when variable v counts rk v *)
Fixpoint hgt (rk : nat -> nat) (t : ty) : nat :=
  match t with
  | TVar v => rk v
  | TArray a | TRef a | TCode a | TBoxed a => S (hgt rk a)
  | TFun a r => S (Nat.max (hgt rk a) (hgt rk r))
  | TTuple l => S (fold_right (fun x acc => Nat.max (hgt rk x) acc) 0 l)
  | _ => 0
  end.

Definition ranked (s : store) (rk : nat -> nat) : Prop :=
  forall v p, parent s v = Some p -> hgt rk p < rk v.

Lemma in_tuple_hgt : forall rk x l, In x l -> hgt rk x <= fold_right (fun y acc => Nat.max (hgt rk y) acc) 0 l.
Proof.
  intros rk x l; induction l as [|y r IH]; cbn [fold_right In]; intros Hin; [contradiction|].
  destruct Hin as [->|Hin]; [lia|]. specialize (IH Hin). lia.
Qed.

Lemma child_hgt : forall rk c t, child c t -> hgt rk c < hgt rk t.
Proof.
  intros rk c t H; destruct H; cbn [hgt]; try lia.
  pose proof (in_tuple_hgt rk _ _ H). lia.
Qed.

(* ---------- ranked stores are acyclic (the easy direction) ---------- *)
Lemma ranked_occurs_hgt : forall s rk v t, ranked s rk -> occurs s v t -> rk v <= hgt rk t.
Proof.
  intros s rk v t Hr H. induction H.
  - cbn [hgt]. lia.
  - cbn [hgt]. specialize (Hr _ _ H). lia.
  - pose proof (child_hgt rk _ _ H). lia.
Qed.

Theorem ranked_acyclic : forall s rk, ranked s rk -> acyclic s.
Proof.
  intros s rk Hr v p Hp Hocc.
  pose proof (ranked_occurs_hgt _ _ _ _ Hr Hocc). specialize (Hr _ _ Hp). lia.
Qed.

(* ---------- the variable graph ---------- *)
Definition edge (s : store) (v w : nat) : Prop := exists p, parent s v = Some p /\ In w (vars p).

Inductive reach (s : store) : nat -> nat -> Prop :=
| reach_edge : forall v w, edge s v w -> reach s v w
| reach_step : forall v u w, edge s v u -> reach s u w -> reach s v w.

Lemma reach_snoc : forall s u v w, reach s u v -> edge s v w -> reach s u w.
Proof.
  intros s u v w H. induction H; intros He.
  - eapply reach_step; [eassumption|apply reach_edge; exact He].
  - eapply reach_step; [eassumption|auto].
Qed.

Lemma reach_bound : forall s v w, reach s v w -> exists p, parent s v = Some p.
Proof. intros s v w H. destruct H as [v w [p [Hp _]]|v u w [p [Hp _]] _]; eauto. Qed.

Lemma reach_occurs : forall s v w, reach s v w -> forall p, parent s v = Some p -> occurs s w p.
Proof.
  intros s v w H. induction H as [v w [q [Hq Hin]]|v u w [q [Hq Hin]] Hr IH]; intros p Hp.
  - assert (q = p) by congruence. subst. apply vars_occurs. exact Hin.
  - assert (q = p) by congruence. subst.
    destruct (reach_bound _ _ _ Hr) as [pu Hpu].
    eapply occurs_trans; [apply vars_occurs; exact Hin|exact Hpu|auto].
Qed.

Lemma acyclic_no_loop : forall s v, acyclic s -> ~ reach s v v.
Proof.
  intros s v Hac Hr. destruct (reach_bound _ _ _ Hr) as [p Hp].
  exact (Hac _ _ Hp (reach_occurs _ _ _ Hr _ Hp)).
Qed.

(* ---------- depth of a variable in the graph, computed with fuel k ---------- *)
Definition lmax (l : list nat) : nat := fold_right Nat.max 0 l.

Lemma lmax_le : forall l b, (forall e, In e l -> e <= b) -> lmax l <= b.
Proof.
  induction l as [|x r IH]; intros b H; cbn [lmax fold_right]; [lia|].
  assert (x <= b) by (apply H; left; reflexivity).
  assert (lmax r <= b) by (apply IH; intros e He; apply H; right; exact He).
  unfold lmax in *. lia.
Qed.

Lemma lmax_in : forall l e, In e l -> e <= lmax l.
Proof.
  induction l as [|x r IH]; intros e H; cbn [lmax fold_right In] in *; [contradiction|].
  destruct H as [->|H]; [lia|]. specialize (IH _ H). unfold lmax in IH. lia.
Qed.

Lemma lmax_app : forall l1 l2, lmax (l1 ++ l2) = Nat.max (lmax l1) (lmax l2).
Proof.
  induction l1 as [|x r IH]; intros l2; cbn [lmax fold_right app]; [reflexivity|].
  fold (lmax (r ++ l2)). rewrite IH. fold (lmax r). lia.
Qed.

Fixpoint vd (s : store) (k : nat) (v : nat) : nat :=
  match k with
  | 0 => 0
  | S k' => match parent s v with
            | None => 0
            | Some p => S (lmax (map (vd s k') (vars p)))
            end
  end.

(* distinct cells of a store of n cells are at most n *)
Lemma nodup_lt_length : forall n l, NoDup l -> (forall x, In x l -> x < n) -> length l <= n.
Proof.
  intros n l Hnd Hlt. rewrite <- (seq_length n 0). apply NoDup_incl_length; [exact Hnd|].
  intros x Hx. apply in_seq. specialize (Hlt _ Hx). lia.
Qed.

(* visited-set argument: the variables already seen on the way to v are distinct bound cells that reach v *)
Lemma vd_bound : forall s, acyclic s -> forall k v seen,
      NoDup seen -> (forall u, In u seen -> reach s u v) -> vd s k v + length seen <= length s.
Proof.
  intros s Hac. induction k as [|k IH]; intros v seen Hnd Hseen.
  - cbn [vd]. apply nodup_lt_length; [exact Hnd|].
    intros u Hu. destruct (reach_bound _ _ _ (Hseen _ Hu)) as [p Hp]. eapply parent_Some_lt; eauto.
  - cbn [vd]. destruct (parent s v) as [p|] eqn:Hp.
    + assert (Hnd' : NoDup (v :: seen)).
      { constructor; [|exact Hnd]. intros Hin. exact (acyclic_no_loop _ _ Hac (Hseen _ Hin)). }
      assert (Hlen : S (length seen) <= length s).
      { change (length (v :: seen) <= length s). apply nodup_lt_length; [exact Hnd'|].
        intros u [<-|Hu]; [eapply parent_Some_lt; eauto|].
        destruct (reach_bound _ _ _ (Hseen _ Hu)) as [q Hq]. eapply parent_Some_lt; eauto. }
      assert (Hall : forall e, In e (map (vd s k) (vars p)) -> e <= length s - S (length seen)).
      { intros e He. apply in_map_iff in He. destruct He as [w [<- Hw]].
        assert (Hedge : edge s v w) by (exists p; auto).
        specialize (IH w (v :: seen) Hnd').
        cbn [length] in IH. enough (vd s k w + S (length seen) <= length s) by lia.
        apply IH. intros u [<-|Hu]; [apply reach_edge; exact Hedge|].
        eapply reach_snoc; eauto. }
      pose proof (lmax_le _ _ Hall). lia.
    + apply nodup_lt_length; [exact Hnd|].
      intros u Hu. destruct (reach_bound _ _ _ (Hseen _ Hu)) as [q Hq]. eapply parent_Some_lt; eauto.
Qed.

(* once the depth is below the fuel, more fuel changes nothing *)
Lemma vd_stable : forall s k v, vd s k v < k -> vd s (S k) v = vd s k v.
Proof.
  intros s. induction k as [|k IH]; intros v H; [cbn [vd] in H; lia|].
  cbn [vd] in H. change (vd s (S (S k)) v) with
      (match parent s v with None => 0 | Some p => S (lmax (map (vd s (S k)) (vars p))) end).
  cbn [vd]. destruct (parent s v) as [p|]; [|reflexivity].
  f_equal. f_equal. apply map_ext_in. intros w Hw. apply IH.
  assert (vd s k w <= lmax (map (vd s k) (vars p))) by (apply lmax_in; apply in_map; exact Hw). lia.
Qed.

(* ---------- from the variable depth to a ranking of types ---------- *)
Lemma lmax_nil : lmax [] = 0.
Proof. reflexivity. Qed.
Lemma lmax_cons : forall x l, lmax (x :: l) = Nat.max x (lmax l).
Proof. reflexivity. Qed.

Lemma hgt_le_size_vars : forall rk t, hgt rk t <= size t + lmax (map rk (vars t)).
Proof.
  intros rk t. induction t using ty_ind2; cbn [hgt size vars];
    try (cbn [map]; rewrite ?lmax_cons, ?lmax_nil; lia).
  - induction H as [|x l Hx Hl IHl]; cbn [fold_right flat_map].
    + cbn [map]. rewrite lmax_nil. lia.
    + rewrite map_app, lmax_app. lia.
  - rewrite map_app, lmax_app. lia.
Qed.

(* (L): the ranking *)
Theorem acyclic_ranked : forall n M s,
    length s = n ->
    (forall v p, parent s v = Some p -> size p <= M) ->
    acyclic s ->
    exists rk, ranked s rk /\ (forall v, rk v <= n * (M + 1)) /\
               (forall t, hgt rk t <= size t + n * (M + 1)).
Proof.
  intros n M s Hlen Hsz Hac.
  set (d := vd s (S n)).
  assert (Hd : forall v, d v <= n).
  { intros v. pose proof (vd_bound s Hac (S n) v [] (NoDup_nil _)) as H.
    cbn [length] in H. rewrite Hlen in H. unfold d.
    assert (vd s (S n) v + 0 <= n) by (apply H; intros u []). lia. }
  assert (Hstab : forall v, vd s (S (S n)) v = d v).
  { intros v. apply vd_stable. specialize (Hd v). unfold d in Hd. lia. }
  assert (Hedge : forall v p w, parent s v = Some p -> In w (vars p) -> d w < d v).
  { intros v p w Hp Hw. rewrite <- (Hstab v).
    change (vd s (S (S n)) v) with
        (match parent s v with None => 0 | Some p => S (lmax (map (vd s (S n)) (vars p))) end).
    rewrite Hp. fold d.
    assert (d w <= lmax (map d (vars p))) by (apply lmax_in; apply in_map; exact Hw). lia. }
  set (rk := fun v => d v * (M + 1)).
  assert (Hrk : forall v, rk v <= n * (M + 1)).
  { intros v. unfold rk. apply Nat.mul_le_mono_r. apply Hd. }
  exists rk. split; [|split].
  - intros v p Hp.
    pose proof (hgt_le_size_vars rk p) as Hh.
    assert (Hm : lmax (map rk (vars p)) + (M + 1) <= rk v).
    { assert (Hle : lmax (map rk (vars p)) <= (d v - 1) * (M + 1)).
      { apply lmax_le. intros e He. apply in_map_iff in He. destruct He as [w [<- Hw]].
        unfold rk. apply Nat.mul_le_mono_r. specialize (Hedge _ _ _ Hp Hw). lia. }
      assert (Hpos : 1 <= d v).
      { rewrite <- (Hstab v).
        change (vd s (S (S n)) v) with
            (match parent s v with None => 0 | Some p => S (lmax (map (vd s (S n)) (vars p))) end).
        rewrite Hp. lia. }
      assert (Heq : rk v = (d v - 1) * (M + 1) + (M + 1)).
      { unfold rk. replace (d v) with (S (d v - 1)) at 1 by lia. rewrite Nat.mul_succ_l. reflexivity. }
      lia. }
    specialize (Hsz _ _ Hp). lia.
  - exact Hrk.
  - intros t. pose proof (hgt_le_size_vars rk t) as Hh.
    assert (lmax (map rk (vars t)) <= n * (M + 1)).
    { apply lmax_le. intros e He. apply in_map_iff in He. destruct He as [w [<- _]]. apply Hrk. }
    lia.
Qed.

(* ---------- with a ranking, fuel above the height suffices ---------- *)
Lemma get_root_total : forall s rk, ranked s rk -> forall f t, hgt rk t < f -> exists r, get_root f s t = Some r.
Proof.
  intros s rk Hr. induction f as [|f IH]; intros t Hf; [lia|].
  cbn [get_root]. destruct t; eauto.
  destruct (parent s v) as [p|] eqn:Hp; eauto.
  apply IH. specialize (Hr _ _ Hp). cbn [hgt] in Hf. lia.
Qed.

Lemma any_m_total : forall c l, (forall x, In x l -> c x <> None) -> any_m c l <> None.
Proof.
  intros c l; induction l as [|y r IH]; intros H; cbn [any_m]; [discriminate|].
  destruct (c y) as [[|]|] eqn:Hy; [discriminate| |].
  - apply IH. intros x Hx. apply H. right. exact Hx.
  - exfalso. apply (H y); [left; reflexivity|exact Hy].
Qed.

Lemma occur_check_total : forall s rk, ranked s rk -> forall f v t, hgt rk t < f -> occur_check f s v t <> None.
Proof.
  intros s rk Hr. induction f as [|f IH]; intros v t Hf; [lia|].
  cbn [occur_check]. destruct t; cbn [hgt] in Hf; try discriminate.
  - apply IH. lia.
  - apply any_m_total. intros x Hx. apply IH. pose proof (in_tuple_hgt rk _ _ Hx). lia.
  - assert (H1 : occur_check f s v t1 <> None) by (apply IH; lia).
    assert (H2 : occur_check f s v t2 <> None) by (apply IH; lia).
    destruct (occur_check f s v t1) as [[|]|]; cbn [or_m]; congruence.
  - apply IH. lia.
  - apply IH. lia.
  - apply IH. lia.
  - destruct (parent s v0) as [p|] eqn:Hp; [|discriminate].
    destruct (v =? v0); [discriminate|]. apply IH. specialize (Hr _ _ Hp). lia.
Qed.

(* a type without variables (what resolution must produce) *)
Definition novar (t : ty) : Prop := vars t = [].

Lemma map_m_total : forall (c : ty -> option ty) l,
    (forall x, In x l -> exists y, c x = Some y /\ novar y) ->
    exists l', map_m c l = Some l' /\ flat_map vars l' = [].
Proof.
  intros c l; induction l as [|x r IH]; intros H; cbn [map_m]; [exists []; auto|].
  destruct (H x) as [y [Hy Hn]]; [left; reflexivity|]. rewrite Hy.
  destruct IH as [l' [Hl' Hv]]; [intros z Hz; apply H; right; exact Hz|]. rewrite Hl'.
  exists (y :: l'). split; [reflexivity|]. cbn [flat_map]. unfold novar in Hn. rewrite Hn, Hv. reflexivity.
Qed.

Lemma substitute_total : forall s rk, ranked s rk -> forall f t, hgt rk t < f ->
      exists r, substitute_type f s t = Some r /\ novar r.
Proof.
  intros s rk Hr. induction f as [|f IH]; intros t Hf; [lia|].
  cbn [substitute_type]. destruct t; cbn [hgt] in Hf.
  - eexists; split; [reflexivity|reflexivity].
  - destruct (IH t) as [r [H1 H2]]; [lia|]. rewrite H1. eexists; split; [reflexivity|exact H2].
  - destruct (map_m_total (substitute_type f s) l) as [l' [H1 H2]].
    { intros x Hx. apply IH. pose proof (in_tuple_hgt rk _ _ Hx). lia. }
    rewrite H1. eexists; split; [reflexivity|exact H2].
  - destruct (IH t1) as [r1 [H1 H2]]; [lia|]. destruct (IH t2) as [r2 [H3 H4]]; [lia|].
    rewrite H1, H3. eexists; split; [reflexivity|]. unfold novar in *. cbn [vars]. rewrite H2, H4. reflexivity.
  - destruct (IH t) as [r [H1 H2]]; [lia|]. rewrite H1. eexists; split; [reflexivity|exact H2].
  - destruct (IH t) as [r [H1 H2]]; [lia|]. rewrite H1. eexists; split; [reflexivity|exact H2].
  - destruct (IH t) as [r [H1 H2]]; [lia|]. rewrite H1. eexists; split; [reflexivity|exact H2].
  - destruct (parent s v) as [p|] eqn:Hp.
    + apply IH. specialize (Hr _ _ Hp). lia.
    + eexists; split; reflexivity.
  - eexists; split; reflexivity.
Qed.
