(* Typing/Refute.v — witnesses: (e) the occurs check used before commit 4da95e9 lets the unifier build a cyclic store;
   tuple elements are not unified reliably (unify_vec drops their errors); a non-trivial store satisfying store_ok. *)
From Coq Require Import List Arith Bool Lia.
From Mimium Require Import Typing.Model Typing.Base Typing.Occurs Typing.Rank Typing.Sound Typing.Main.
Import ListNotations.

(* ---------- (e) `|x| x(x)`: x : ?0, the application demands ?0 ~ (?0) -> ?1 ---------- *)
Definition old_s : store := [mkCell None 0; mkCell None 0].
Definition old_t1 : ty := TVar 0.
Definition old_t2 : ty := TFun (TVar 0) (TVar 1).
Definition old_s' : store := [mkCell (Some old_t2) 0; mkCell None 0].

Lemma old_s_ok : store_ok old_s.
Proof.
  split; intros v p H; pose proof (parent_Some_lt _ _ _ H) as Hlt; cbn in Hlt;
    (destruct v as [|[|v]]; [cbn in H; discriminate|cbn in H; discriminate|lia]).
Qed.

Lemma old_check_accepts : unify_old (unify_fuel old_s old_t1 old_t2) false old_s old_t1 old_t2 = UOk old_s' Identical.
Proof. vm_compute. reflexivity. Qed.

Lemma new_check_rejects : unify (unify_fuel old_s old_t1 old_t2) false old_s old_t1 old_t2 = UErr old_s [ECircularType].
Proof. vm_compute. reflexivity. Qed.

Lemma old_s'_cyclic : ~ acyclic old_s'.
Proof.
  intros H. apply (H 0 old_t2 eq_refl). eapply occ_child; [apply ch_fun_arg|apply occ_here].
Qed.

Lemma old_s'_no_resolution : forall f, substitute_type f old_s' old_t1 = None.
Proof.
  assert (H : forall f, substitute_type f old_s' (TVar 0) = None /\ substitute_type f old_s' old_t2 = None).
  { induction f as [|f [IH1 IH2]]; [split; reflexivity|]. split.
    - cbn [substitute_type]. change (parent old_s' 0) with (Some old_t2). exact IH2.
    - cbn [substitute_type old_t2]. rewrite IH1. reflexivity. }
  intros f. apply H.
Qed.

(* the same with a code type and a reference type, which the old check did not inspect at all *)
Lemma old_check_accepts_code :
  unify_old 47 false [mkCell None 0] (TVar 0) (TCode (TVar 0)) = UOk [mkCell (Some (TCode (TVar 0))) 0] Identical /\
  unify_old 47 false [mkCell None 0] (TVar 0) (TRef (TVar 0)) = UOk [mkCell (Some (TRef (TVar 0))) 0] Identical.
Proof. split; vm_compute; reflexivity. Qed.

Theorem old_occurs_check_refuted :
  exists s t1 t2 s',
    store_ok s /\ wf_ty (length s) t1 /\ wf_ty (length s) t2 /\
    unify_old (unify_fuel s t1 t2) false s t1 t2 = UOk s' Identical /\
    ~ acyclic s' /\
    (forall f, substitute_type f s' t1 = None) /\
    unify (unify_fuel s t1 t2) false s t1 t2 = UErr s [ECircularType].
Proof.
  exists old_s, old_t1, old_t2, old_s'. split; [exact old_s_ok|]. split; [|split].
  - intros v [<-|[]]. cbn. lia.
  - intros v [<-|[<-|[]]]; cbn; lia.
  - split; [exact old_check_accepts|]. split; [exact old_s'_cyclic|].
    split; [exact old_s'_no_resolution|exact new_check_rejects].
Qed.

(* ---------- tuples: Ok although an element does not unify ---------- *)
Definition tup1 : ty := TTuple [TPrim PInt; TPrim PNumeric].
Definition tup2 : ty := TTuple [TPrim PNumeric; TPrim PNumeric].

Theorem tuple_elements_refuted :
  exists s t1 t2 s' rel r1 r2,
    store_ok s /\ wf_ty (length s) t1 /\ wf_ty (length s) t2 /\
    unify (unify_fuel s t1 t2) false s t1 t2 = UOk s' rel /\
    substitute_type (unify_fuel s t1 t2) s' t1 = Some r1 /\
    substitute_type (unify_fuel s t1 t2) s' t2 = Some r2 /\
    unbox r1 <> unbox r2.
Proof.
  exists [], tup1, tup2, [], Identical, tup1, tup2. split; [|split; [|split]].
  - split; intros v p H; pose proof (parent_Some_lt _ _ _ H) as Hlt; cbn in Hlt; lia.
  - intros v [].
  - intros v [].
  - split; [vm_compute; reflexivity|]. split; [vm_compute; reflexivity|]. split; [vm_compute; reflexivity|].
    cbn. discriminate.
Qed.

(* ---------- a non-trivial store that satisfies the hypotheses ---------- *)
(* ?0 := (?1) -> number,  ?1 := [?2],  ?2 unbound *)
Definition ex_s : store :=
  [mkCell (Some (TFun (TVar 1) (TPrim PNumeric))) 0; mkCell (Some (TArray (TVar 2))) 1; mkCell None 0].

Lemma ex_s_ok : store_ok ex_s.
Proof.
  split.
  - intros v p H. pose proof (parent_Some_lt _ _ _ H) as Hlt. cbn in Hlt.
    destruct v as [|[|[|v]]]; [| | |lia]; cbn in H; try discriminate; injection H as <-; intros w Hw; cbn in Hw.
    + destruct Hw as [<-|[]]. cbn. lia.
    + destruct Hw as [<-|[]]. cbn. lia.
  - apply ranked_acyclic with (rk := fun v => match v with 0 => 5 | 1 => 2 | _ => 0 end).
    intros v p H. pose proof (parent_Some_lt _ _ _ H) as Hlt. cbn in Hlt.
    destruct v as [|[|[|v]]]; [| | |lia]; cbn in H; try discriminate; injection H as <-; cbn; lia.
Qed.

(* unifying ?0 with ([int]) -> ?2' on it: ?2 := int is derived through two parent pointers *)
Lemma ex_unify :
  unify (unify_fuel ex_s (TVar 0) (TFun (TArray (TPrim PInt)) (TPrim PNumeric))) false ex_s
        (TVar 0) (TFun (TArray (TPrim PInt)) (TPrim PNumeric))
  = UOk [mkCell (Some (TFun (TVar 1) (TPrim PNumeric))) 0; mkCell (Some (TArray (TVar 2))) 1;
         mkCell (Some (TPrim PInt)) 0] Identical.
Proof. vm_compute. reflexivity. Qed.

(* and the cyclic attempt ?2 ~ (?0, number) is rejected on it, store unchanged *)
Lemma ex_cyclic_rejected :
  unify (unify_fuel ex_s (TVar 2) (TTuple [TVar 0; TPrim PNumeric])) false ex_s
        (TVar 2) (TTuple [TVar 0; TPrim PNumeric])
  = UErr ex_s [ECircularType].
Proof. vm_compute. reflexivity. Qed.
