(* Typing/Eqv.v — what a successful unification establishes: `eqv s t1 t2`, t1 and t2 have a common finite unfolding in
   the store s, up to exactly the identifications the unifier makes (boxing is transparent, a one-element tuple is its
   element, unit is the empty tuple, and — because unify_vec drops the errors of the elements — two tuples only have to
   have the same number of elements). *)
From Coq Require Import List Arith Bool Lia.
From Mimium Require Import Typing.Model Typing.Base.
Import ListNotations.

Inductive eqv (s : store) : ty -> ty -> Prop :=
| eqv_refl : forall t, eqv s t t
| eqv_var_l : forall v p t, parent s v = Some p -> eqv s p t -> eqv s (TVar v) t
| eqv_var_r : forall v p t, parent s v = Some p -> eqv s t p -> eqv s t (TVar v)
| eqv_array : forall a b, eqv s a b -> eqv s (TArray a) (TArray b)
| eqv_ref : forall a b, eqv s a b -> eqv s (TRef a) (TRef b)
| eqv_code : forall a b, eqv s a b -> eqv s (TCode a) (TCode b)
| eqv_boxed : forall a b, eqv s a b -> eqv s (TBoxed a) (TBoxed b)
| eqv_fun : forall a1 r1 a2 r2, eqv s a1 a2 -> eqv s r1 r2 -> eqv s (TFun a1 r1) (TFun a2 r2)
| eqv_tuple_len : forall l1 l2, length l1 = length l2 -> eqv s (TTuple l1) (TTuple l2)
| eqv_unit_tuple : eqv s (TPrim PUnit) (TTuple [])
| eqv_tuple_unit : eqv s (TTuple []) (TPrim PUnit)
| eqv_tuple1_r : forall t x, eqv s t x -> eqv s t (TTuple [x])
| eqv_tuple1_l : forall t x, eqv s x t -> eqv s (TTuple [x]) t
| eqv_boxed_l : forall inner t, eqv s inner t -> eqv s (TBoxed inner) t
| eqv_boxed_r : forall inner t, eqv s t inner -> eqv s t (TBoxed inner).
#[export] Hint Constructors eqv : typing.

Lemma eqv_sym : forall s a b, eqv s a b -> eqv s b a.
Proof. intros s a b H. induction H; eauto with typing. Qed.

Lemma eqv_ext : forall s s' a b, ext s s' -> eqv s a b -> eqv s' a b.
Proof. intros s s' a b [_ HE] H. induction H; eauto with typing. Qed.

Lemma eqv_chain_l : forall s t r x, chain s t r -> eqv s r x -> eqv s t x.
Proof. intros s t r x Hc. induction Hc; intros He; eauto with typing. Qed.

Lemma eqv_chain_r : forall s t r x, chain s t r -> eqv s x r -> eqv s x t.
Proof. intros s t r x Hc. induction Hc; intros He; eauto with typing. Qed.
