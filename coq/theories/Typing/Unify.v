(* Typing/Unify.v — partial correctness of the unifier (any fuel): whatever unify returns (Ok or Err), the store it
   leaves is again well scoped, size bounded and ACYCLIC — because every binding is guarded by the occurs check —, it
   extends the old store, and on Ok the two types are equivalent (Eqv.eqv) in it. *)
From Coq Require Import List Arith Bool Lia.
From Mimium Require Import Typing.Model Typing.Base Typing.Occurs Typing.Eqv.
Import ListNotations.

(* the store invariant: n cells, every parent well scoped with at most M nodes, no cycle *)
Definition Inv (n M : nat) (s : store) : Prop := store_tyok n M s /\ acyclic s.

Definition post (n M : nat) (s : store) (t1 t2 : ty) (res : ures) : Prop :=
  match res with
  | UFuel => True
  | UErr s' _ => Inv n M s' /\ ext s s'
  | UOk s' _ => Inv n M s' /\ ext s s' /\ eqv s' t1 t2
  end.

Section Part.
  Variables n M : nat.
  Notation Inv := (Inv n M).
  Notation post := (post n M).
  Notation tyok := (tyok n M).

  Lemma Inv_length : forall s, Inv s -> length s = n.
  Proof. intros s [[H _] _]. exact H. Qed.

  Lemma Inv_set_level : forall s v l, Inv s -> Inv (set_level s v l).
  Proof. intros s v l [H1 H2]. split; [apply store_tyok_set_level; exact H1|apply acyclic_set_level; exact H2]. Qed.

  Lemma Inv_bind : forall s v t, Inv s -> parent s v = None -> v < n -> tyok t -> ~ occurs s v t -> Inv (set_parent s v t).
  Proof.
    intros s v t [H1 H2] Hn Hlt Ht Hno. split; [apply store_tyok_set_parent; assumption|].
    apply acyclic_bind; auto. destruct H1 as [HL _]. lia.
  Qed.

  Lemma post_err_here : forall s t1 t2 es, Inv s -> post s t1 t2 (UErr s es).
  Proof. intros. split; [assumption|apply ext_refl]. Qed.

  Lemma post_ok_here : forall s t1 t2 r, Inv s -> eqv s t1 t2 -> post s t1 t2 (UOk s r).
  Proof. intros. split; [assumption|split; [apply ext_refl|assumption]]. Qed.

  (* change the pair of types the Ok case speaks about *)
  Lemma post_lift : forall s a b t1 t2 res,
      post s a b res -> (forall s', ext s s' -> eqv s' a b -> eqv s' t1 t2) -> post s t1 t2 res.
  Proof. intros s a b t1 t2 [s' r|s' es|] H L; cbn [post] in *; auto. destruct H as [H1 [H2 H3]]. auto. Qed.

  Lemma post_sym : forall s a b res, post s a b res -> post s b a res.
  Proof. intros. eapply post_lift; [eassumption|]. intros. apply eqv_sym. assumption. Qed.

  Lemma post_chain : forall s t1 t2 t1r t2r res,
      chain s t1 t1r -> chain s t2 t2r -> post s t1r t2r res -> post s t1 t2 res.
  Proof.
    intros s t1 t2 t1r t2r res C1 C2 H. eapply post_lift; [eassumption|]. intros s' He Hq.
    eapply eqv_chain_l; [eapply chain_ext; eassumption|].
    eapply eqv_chain_r; [eapply chain_ext; eassumption|]. exact Hq.
  Qed.

  (* weaken the start store *)
  Lemma post_from : forall s0 s t1 t2 res, ext s0 s -> post s t1 t2 res -> post s0 t1 t2 res.
  Proof.
    intros s0 s t1 t2 [s' r|s' es|] He H; cbn [post] in *; auto.
    - destruct H as [H1 [H2 H3]]. split; [auto|split; [eapply ext_trans; eauto|auto]].
    - destruct H as [H1 H2]. split; [auto|eapply ext_trans; eauto].
  Qed.

  (* ---------- the arms that bind a variable ---------- *)
  Lemma post_var_other : forall f s v t,
      Inv s -> parent s v = None -> v < n -> tyok t ->
      post s (TVar v) t (unify_var_other (occur_check f) s v t).
  Proof.
    intros f s v t HI Hn Hlt Ht. unfold unify_var_other.
    destruct (occur_check f s v t) as [[|]|] eqn:Hoc; cbn [post]; auto.
    - split; [assumption|apply ext_refl].
    - pose proof (occur_check_false _ _ _ _ Hoc) as Hno.
      split; [apply Inv_bind; assumption|]. split; [apply ext_set_parent; assumption|].
      eapply eqv_var_l; [apply parent_set_parent_same; rewrite (Inv_length _ HI); exact Hlt|apply eqv_refl].
  Qed.

  Lemma post_var_var : forall f args s t2 v1 v2,
      Inv s -> parent s v1 = None -> parent s v2 = None -> tyok (TVar v1) -> tyok (TVar v2) ->
      post s (TVar v1) (TVar v2) (unify_var_var (occur_check f) args s (TVar v1) (TVar v2) t2 v1 v2).
  Proof.
    intros f args s t2 v1 v2 HI Hn1 Hn2 Ht1 Ht2. unfold unify_var_var.
    pose proof (tyok_var_lt _ _ _ Ht1) as Hl1. pose proof (tyok_var_lt _ _ _ Ht2) as Hl2.
    destruct (Nat.eqb_spec v1 v2) as [->|Hne].
    { apply post_ok_here; [assumption|apply eqv_refl]. }
    destruct (occur_check f s v1 t2) as [[|]|]; cbn [post]; auto.
    { split; [assumption|apply ext_refl]. }
    rewrite Hn1, Hn2.
    set (s1 := if args
               then if level s v1 <? level s v2 then set_level s v2 (level s v1) else s
               else if level s v1 <? level s v2 then set_level s v1 (level s v2) else s).
    assert (HI1 : Inv s1).
    { unfold s1. destruct args; destruct (level s v1 <? level s v2); auto using Inv_set_level. }
    assert (HE1 : ext s s1).
    { unfold s1. destruct args; destruct (level s v1 <? level s v2); auto using ext_set_level, ext_refl. }
    assert (HP1 : forall w, parent s1 w = parent s w).
    { intros w. unfold s1. destruct args; destruct (level s v1 <? level s v2); auto using parent_set_level. }
    assert (HL1 : length s1 = n) by (apply Inv_length; exact HI1).
    destruct (v2 <? v1).
    - split; [|split].
      + apply Inv_bind; auto; [rewrite HP1; exact Hn2|].
        intros Hocc. apply occurs_unbound_var in Hocc; [congruence|rewrite HP1; exact Hn1].
      + eapply ext_trans; [exact HE1|apply ext_set_parent; rewrite HP1; exact Hn2].
      + eapply eqv_var_r; [apply parent_set_parent_same; lia|apply eqv_refl].
    - split; [|split].
      + apply Inv_bind; auto; [rewrite HP1; exact Hn1|].
        intros Hocc. apply occurs_unbound_var in Hocc; [congruence|rewrite HP1; exact Hn2].
      + eapply ext_trans; [exact HE1|apply ext_set_parent; rewrite HP1; exact Hn1].
      + eapply eqv_var_l; [apply parent_set_parent_same; lia|apply eqv_refl].
  Qed.

  (* ---------- the arms that recurse ---------- *)
  (* specification assumed of the recursive callback *)
  Definition uspec (u : bool -> store -> ty -> ty -> ures) : Prop :=
    forall a s x y, Inv s -> tyok x -> tyok y -> post s x y (u a s x y).

  Lemma post_array : forall u s a1 a2,
      uspec u -> Inv s -> tyok a1 -> tyok a2 ->
      post s (TArray a1) (TArray a2)
           (try_ (u false s a1 a2)
                 (fun s' res => match res with Identical => UOk s' Identical | _ => UErr s' [ETypeMismatch] end)).
  Proof.
    intros u s a1 a2 U HI H1 H2. specialize (U false s a1 a2 HI H1 H2).
    destruct (u false s a1 a2) as [s' r|s' es|]; cbn [try_ post] in *; auto.
    destruct U as [HI' [HE HQ]]. destruct r; cbn [post]; auto with typing.
  Qed.

  Lemma post_boxed_coerce : forall s a b t1 t2 res,
      post s a b res -> (forall s', ext s s' -> eqv s' a b -> eqv s' t1 t2) -> post s t1 t2 (unify_boxed_coerce res).
  Proof.
    intros s a b t1 t2 [s' r|s' es|] H L; cbn [post unify_boxed_coerce] in *; auto.
    destruct H as [H1 [H2 H3]]. auto.
  Qed.

  Lemma post_fun : forall u s a1 r1 a2 r2,
      uspec u -> Inv s -> tyok a1 -> tyok r1 -> tyok a2 -> tyok r2 ->
      post s (TFun a1 r1) (TFun a2 r2) (unify_fun u s a1 r1 a2 r2).
  Proof.
    intros u s a1 r1 a2 r2 U HI Ha1 Hr1 Ha2 Hr2. unfold unify_fun.
    pose proof (U true s a1 a2 HI Ha1 Ha2) as H1.
    destruct (u true s a1 a2) as [s1 ra|s1 e1|]; cbn [post] in *; auto.
    - destruct H1 as [HI1 [HE1 HQ1]].
      pose proof (U false s1 r1 r2 HI1 Hr1 Hr2) as H2.
      destruct (u false s1 r1 r2) as [s2 rr|s2 e2|]; cbn [post] in *; auto.
      + destruct H2 as [HI2 [HE2 HQ2]].
        assert (ext s s2) by (eapply ext_trans; eauto).
        assert (eqv s2 (TFun a1 r1) (TFun a2 r2)) by (apply eqv_fun; [apply eqv_ext with s1; assumption|assumption]).
        destruct ra, rr; cbn [post]; auto.
      + destruct H2 as [HI2 HE2]. split; [assumption|eapply ext_trans; eauto].
    - destruct H1 as [HI1 HE1].
      pose proof (U false s1 r1 r2 HI1 Hr1 Hr2) as H2.
      destruct (u false s1 r1 r2) as [s2 rr|s2 e2|]; cbn [post] in *; auto.
      + destruct H2 as [HI2 [HE2 _]]. split; [assumption|eapply ext_trans; eauto].
      + destruct H2 as [HI2 HE2]. split; [assumption|eapply ext_trans; eauto].
  Qed.

  Lemma post_pairs : forall (u : store -> ty -> ty -> ures),
      (forall s x y, Inv s -> tyok x -> tyok y -> post s x y (u s x y)) ->
      forall a1 a2 s, Inv s -> Forall tyok a1 -> Forall tyok a2 ->
                      match unify_pairs u s a1 a2 with
                      | None => True
                      | Some (s', _, _) => Inv s' /\ ext s s'
                      end.
  Proof.
    intros u U. induction a1 as [|x r1 IH]; intros a2 s HI F1 F2; cbn [unify_pairs].
    { split; [assumption|apply ext_refl]. }
    destruct a2 as [|y r2].
    { split; [assumption|apply ext_refl]. }
    inversion F1 as [|? ? Hx Hr1]; inversion F2 as [|? ? Hy Hr2]; subst.
    pose proof (U s x y HI Hx Hy) as H.
    destruct (u s x y) as [s' r|s' e|]; cbn [post] in H; auto.
    - destruct H as [HI' [HE' _]]. specialize (IH r2 s' HI' Hr1 Hr2).
      destruct (unify_pairs u s' r1 r2) as [[[s'' rs] es]|]; auto.
      destruct IH as [HI'' HE'']. split; [assumption|eapply ext_trans; eauto].
    - destruct H as [HI' HE']. specialize (IH r2 s' HI' Hr1 Hr2).
      destruct (unify_pairs u s' r1 r2) as [[[s'' rs] es]|]; auto.
      destruct IH as [HI'' HE'']. split; [assumption|eapply ext_trans; eauto].
  Qed.

  Lemma tyok_tuple_forall : forall l, tyok (TTuple l) -> Forall tyok l.
  Proof. intros l H. apply Forall_forall. intros x Hx. eapply tyok_child; [apply ch_tuple; exact Hx|exact H]. Qed.

  Lemma post_tuple : forall u s a1 a2,
      uspec u -> Inv s -> tyok (TTuple a1) -> tyok (TTuple a2) ->
      post s (TTuple a1) (TTuple a2)
           (if length a1 =? length a2
            then try_ (unify_vec (u false) s a1 a2) (fun s' _ => UOk s' Identical)
            else UErr s [ELengthMismatch]).
  Proof.
    intros u s a1 a2 U HI H1 H2.
    destruct (Nat.eqb_spec (length a1) (length a2)) as [Hlen|Hlen]; [|apply post_err_here; assumption].
    pose proof (post_pairs (u false) (U false) a1 a2 s HI (tyok_tuple_forall _ H1) (tyok_tuple_forall _ H2)) as H.
    unfold unify_vec. destruct (unify_pairs (u false) s a1 a2) as [[[s' rs] es]|]; cbn [try_ post]; auto.
    destruct H as [HI' HE'].
    destruct (forallb _ rs); cbn [try_ post]; [auto using eqv_tuple_len|].
    destruct (forallb _ rs); cbn [try_ post]; auto using eqv_tuple_len.
  Qed.

  Ltac tc := eauto with typing.
  Ltac kid H := (eapply tyok_child; [|exact H]; first [apply ch_tuple; cbn [In]; auto | constructor]).

  (* unify_types: the match on the two roots *)
  Lemma types_body_post : forall f u s t1 t2 t1r t2r,
      uspec u -> Inv s -> tyok t1 -> tyok t2 -> chain s t1 t1r -> chain s t2 t2r ->
      (forall v, t1r = TVar v -> parent s v = None) -> (forall v, t2r = TVar v -> parent s v = None) ->
      post s t1 t2 (unify_types_body (occur_check f) u s t1 t2 t1r t2r).
  Proof.
    intros f u s t1 t2 t1r t2r U HI Ht1 Ht2 C1 C2 R1 R2.
    assert (Hr1 : tyok t1r) by (destruct HI as [HS _]; eapply chain_tyok; eauto).
    assert (Hr2 : tyok t2r) by (destruct HI as [HS _]; eapply chain_tyok; eauto).
    assert (L1 : forall s' x, ext s s' -> eqv s' t1r x -> eqv s' t1 x)
      by (intros; eapply eqv_chain_l; [eapply chain_ext; eassumption|assumption]).
    assert (L2 : forall s' x, ext s s' -> eqv s' x t2r -> eqv s' x t2)
      by (intros; eapply eqv_chain_r; [eapply chain_ext; eassumption|assumption]).
    destruct t1r as [p1|a1|l1|g1 r1|x1|c1|b1|v1|];
      destruct t2r as [p2|a2|l2|g2 r2|x2|c2|b2|v2|];
      try (destruct l1 as [|e1 [|e1' l1]]); try (destruct l2 as [|e2 [|e2' l2]]);
      try (destruct p1); try (destruct p2);
      cbn [unify_types_body ptype_eqb];
      try (apply post_err_here; assumption);
      match goal with
         | |- post _ _ _ (u false s t1 _) =>
             eapply post_lift; [apply U; [assumption|assumption|kid Hr2]|];
             intros s' He Hq; apply L2; [exact He|]; apply eqv_tuple1_r; exact Hq
         | |- post _ _ _ (u false s _ t2) =>
             eapply post_lift; [apply U; [assumption|kid Hr1|assumption]|];
             intros s' He Hq; apply L1; [exact He|]; apply eqv_tuple1_l; exact Hq
         | |- _ => eapply post_chain; [eassumption|eassumption|]
         end;
      try match goal with
         | |- post _ _ _ (UOk _ _) => apply post_ok_here; [assumption|tc]
         | |- post _ _ _ (unify_var_var _ _ _ _ _ _ _ _) =>
             apply post_var_var; [assumption|apply R1; reflexivity|apply R2; reflexivity|assumption|assumption]
         | |- post _ (TVar _) _ (unify_var_other _ _ _ _) =>
             apply post_var_other; [assumption|apply R1; reflexivity|eapply tyok_var_lt; eassumption|assumption]
         | |- post _ _ (TVar _) (unify_var_other _ _ _ _) =>
             apply post_sym; apply post_var_other;
             [assumption|apply R2; reflexivity|eapply tyok_var_lt; eassumption|assumption]
         | |- post _ (TArray _) (TArray _) _ => apply post_array; [assumption|assumption|kid Hr1|kid Hr2]
         | |- post _ (TTuple _) (TTuple _) _ => apply post_tuple; assumption
         | |- post _ _ _ (unify_fun _ _ _ _ _ _) =>
             apply post_fun; [assumption|assumption|kid Hr1|kid Hr1|kid Hr2|kid Hr2]
         | |- post _ (TBoxed _) _ (unify_boxed_coerce (u false s _ ?y)) =>
             eapply post_boxed_coerce; [apply U; [assumption|kid Hr1|assumption]|intros; tc]
         | |- post _ _ (TBoxed _) (unify_boxed_coerce (u false s ?x _)) =>
             eapply post_boxed_coerce; [apply U; [assumption|assumption|kid Hr2]|intros; tc]
         | |- post _ _ _ (u false s _ _) =>
             eapply post_lift; [apply U; [assumption|kid Hr1|kid Hr2]|intros; tc]
         end.
  Qed.

  (* unify_types_args: the match on the two roots *)
  Lemma args_body_post : forall f u s t1 t2 t1r t2r,
      uspec u -> Inv s -> tyok t1 -> tyok t2 -> chain s t1 t1r -> chain s t2 t2r ->
      (forall v, t1r = TVar v -> parent s v = None) -> (forall v, t2r = TVar v -> parent s v = None) ->
      post s t1 t2 (unify_args_body (occur_check f) u s t1 t2 t1r t2r).
  Proof.
    intros f u s t1 t2 t1r t2r U HI Ht1 Ht2 C1 C2 R1 R2.
    assert (Hr1 : tyok t1r) by (destruct HI as [HS _]; eapply chain_tyok; eauto).
    assert (Hr2 : tyok t2r) by (destruct HI as [HS _]; eapply chain_tyok; eauto).
    assert (L1 : forall s' x, ext s s' -> eqv s' t1r x -> eqv s' t1 x)
      by (intros; eapply eqv_chain_l; [eapply chain_ext; eassumption|assumption]).
    assert (L2 : forall s' x, ext s s' -> eqv s' x t2r -> eqv s' x t2)
      by (intros; eapply eqv_chain_r; [eapply chain_ext; eassumption|assumption]).
    destruct t1r as [p1|a1|l1|g1 r1|x1|c1|b1|v1|];
      destruct t2r as [p2|a2|l2|g2 r2|x2|c2|b2|v2|];
      try (destruct l1 as [|e1 [|e1' l1]]); try (destruct l2 as [|e2 [|e2' l2]]);
      cbn [unify_args_body];
      match goal with
      | |- post _ _ _ (u false s t1 t2) => apply U; assumption
      | |- post _ _ _ (u true s t1 _) =>
          eapply post_lift; [apply U; [assumption|assumption|kid Hr2]|];
          intros s' He Hq; apply L2; [exact He|]; apply eqv_tuple1_r; exact Hq
      | |- post _ _ _ (u true s _ t2) =>
          eapply post_lift; [apply U; [assumption|kid Hr1|assumption]|];
          intros s' He Hq; apply L1; [exact He|]; apply eqv_tuple1_l; exact Hq
      | |- _ => eapply post_chain; [eassumption|eassumption|]
      end;
      try match goal with
        | |- post _ _ _ (unify_var_var _ _ _ _ _ _ _ _) =>
            apply post_var_var; [assumption|apply R1; reflexivity|apply R2; reflexivity|assumption|assumption]
        | |- post _ (TVar _) _ (unify_var_other _ _ _ _) =>
            apply post_var_other; [assumption|apply R1; reflexivity|eapply tyok_var_lt; eassumption|assumption]
        | |- post _ _ (TVar _) (unify_var_other _ _ _ _) =>
            apply post_sym; apply post_var_other;
            [assumption|apply R2; reflexivity|eapply tyok_var_lt; eassumption|assumption]
        end.
  Qed.

  (* (b) + (d): every outcome of unify_types / unify_types_args leaves an acyclic, well-scoped, size-bounded store that
     extends the old one, and Ok means the two types are equivalent in it *)
  Theorem unify_post : forall f a s t1 t2, Inv s -> tyok t1 -> tyok t2 -> post s t1 t2 (unify f a s t1 t2).
  Proof.
    unfold unify. induction f as [|f IH]; intros a s t1 t2 HI H1 H2; cbn [unify_gen]; [exact I|].
    destruct (get_root f s t1) as [t1r|] eqn:G1; [|exact I].
    destruct (get_root f s t2) as [t2r|] eqn:G2; [|exact I].
    assert (U : uspec (unify_gen occur_check f)) by (intros a' s' x y; apply IH).
    destruct a; [apply args_body_post|apply types_body_post]; auto;
      try (eapply get_root_chain; eassumption);
      intros v ->; eapply get_root_unbound; eassumption.
  Qed.
End Part.
