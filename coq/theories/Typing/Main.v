(* Typing/Main.v — the results in the form Props/C04_typing.v states them: for stores described by `store_ok` alone, with
   the fuel computed from the store and the types (Model.fuel_bound / Model.unify_fuel). *)
From Coq Require Import List Arith Bool Lia.
From Mimium Require Import Typing.Model Typing.Base Typing.Occurs Typing.Eqv Typing.Rank Typing.Unify
     Typing.Termination Typing.Sound.
Import ListNotations.

(* every stored parent mentions cells of the store only *)
Definition wf_store (s : store) : Prop := forall v p, parent s v = Some p -> wf_ty (length s) p.

(* THE STORE INVARIANT of the theorems: well scoped and acyclic *)
Definition store_ok (s : store) : Prop := wf_store s /\ acyclic s.

Lemma store_ok_Inv : forall s M, store_ok s -> store_msize s <= M -> Inv (length s) M s.
Proof.
  intros s M [Hw Ha] HM. split; [|exact Ha]. split; [reflexivity|].
  intros v p Hp. split; [apply Hw with v; exact Hp|]. pose proof (store_msize_bound _ _ _ Hp). lia.
Qed.

Lemma Inv_store_ok : forall n M s, Inv n M s -> store_ok s.
Proof.
  intros n M s [[HL HP] HA]. split; [|exact HA]. intros v p Hp. rewrite HL. exact (proj1 (HP _ _ Hp)).
Qed.

Definition bigM (s : store) (t1 t2 : ty) : nat := Nat.max (store_msize s) (Nat.max (size t1) (size t2)).

Lemma unify_fuel_eq : forall s t1 t2, unify_fuel s t1 t2 = fuel_bound (length s) (bigM s t1 t2).
Proof. reflexivity. Qed.

(* (b) *)
Theorem unify_preserves_store_ok : forall f a s t1 t2,
    store_ok s -> wf_ty (length s) t1 -> wf_ty (length s) t2 ->
    match unify f a s t1 t2 with
    | UOk s' _ => store_ok s' /\ ext s s' /\ eqv s' t1 t2
    | UErr s' _ => store_ok s' /\ ext s s'
    | UFuel => True
    end.
Proof.
  intros f a s t1 t2 Hok W1 W2.
  assert (HI : Inv (length s) (bigM s t1 t2) s) by (apply store_ok_Inv; [exact Hok|unfold bigM; lia]).
  assert (T1 : tyok (length s) (bigM s t1 t2) t1) by (split; [exact W1|unfold bigM; lia]).
  assert (T2 : tyok (length s) (bigM s t1 t2) t2) by (split; [exact W2|unfold bigM; lia]).
  pose proof (unify_post _ _ f a s t1 t2 HI T1 T2) as H.
  destruct (unify f a s t1 t2) as [s' r|s' es|]; cbn [post] in H; auto.
  - destruct H as [H1 [H2 H3]]. split; [eapply Inv_store_ok; eauto|auto].
  - destruct H as [H1 H2]. split; [eapply Inv_store_ok; eauto|auto].
Qed.

(* (c), unifier *)
Theorem unify_total : forall f a s t1 t2,
    store_ok s -> wf_ty (length s) t1 -> wf_ty (length s) t2 ->
    unify_fuel s t1 t2 <= f -> unify f a s t1 t2 <> UFuel.
Proof.
  intros f a s t1 t2 Hok W1 W2 Hf.
  assert (HI : Inv (length s) (bigM s t1 t2) s) by (apply store_ok_Inv; [exact Hok|unfold bigM; lia]).
  assert (T1 : tyok (length s) (bigM s t1 t2) t1) by (split; [exact W1|unfold bigM; lia]).
  assert (T2 : tyok (length s) (bigM s t1 t2) t2) by (split; [exact W2|unfold bigM; lia]).
  apply (unify_total_gen (length s) (bigM s t1 t2) f a s t1 t2 t1 t2 0 0 HI T1 T2 (d_refl _ _) (d_refl _ _)).
  rewrite unify_fuel_eq in Hf. unfold fuel_bound in Hf. destruct a; lia.
Qed.

(* a ranking for a store_ok store, with the explicit bound *)
Lemma store_ok_ranked : forall s M,
    store_ok s -> store_msize s <= M ->
    exists rk, ranked s rk /\ forall t, hgt rk t <= size t + length s * (M + 1).
Proof.
  intros s M [Hw Ha] HM.
  destruct (acyclic_ranked (length s) M s eq_refl) as [rk [H1 [_ H3]]]; [|exact Ha|eauto].
  intros v p Hp. pose proof (store_msize_bound _ _ _ Hp). lia.
Qed.

(* (c), the other three functions: one bound for all *)
Theorem resolution_total : forall f s t,
    store_ok s -> fuel_bound (length s) (Nat.max (store_msize s) (size t)) <= f ->
    (exists r, substitute_type f s t = Some r /\ novar r) /\
    (exists r, get_root f s t = Some r) /\
    (forall v, occur_check f s v t <> None).
Proof.
  intros f s t Hok Hf.
  set (M := Nat.max (store_msize s) (size t)) in *.
  destruct (store_ok_ranked s M Hok ltac:(unfold M; lia)) as [rk [Hr Hh]].
  assert (Hlt : hgt rk t < f).
  { specialize (Hh t). unfold fuel_bound in Hf. assert (size t <= M) by (unfold M; lia). nia. }
  split; [|split].
  - eapply substitute_total; eauto.
  - eapply get_root_total; eauto.
  - intros v. eapply occur_check_total; eauto.
Qed.

(* acyclicity is exactly the existence of a ranking *)
Theorem acyclic_iff_ranked : forall s, acyclic s <-> exists rk, ranked s rk.
Proof.
  intros s. split.
  - intros Ha. destruct (acyclic_ranked (length s) (store_msize s) s eq_refl) as [rk [H1 _]]; [|exact Ha|eauto].
    intros v p Hp. apply (store_msize_bound _ _ _ Hp).
  - intros [rk Hr]. eapply ranked_acyclic; eauto.
Qed.

(* (d) *)
Theorem unify_sound : forall f a s t1 t2 s' rel,
    store_ok s -> wf_ty (length s) t1 -> wf_ty (length s) t2 ->
    unify f a s t1 t2 = UOk s' rel ->
    forall f1 f2 r1 r2,
      substitute_type f1 s' t1 = Some r1 -> substitute_type f2 s' t2 = Some r2 ->
      notuple r1 -> notuple r2 -> unbox r1 = unbox r2.
Proof.
  intros f a s t1 t2 s' rel Hok W1 W2 HU.
  pose proof (unify_preserves_store_ok f a s t1 t2 Hok W1 W2) as H. rewrite HU in H.
  destruct H as [_ [_ Hq]]. intros. eapply eqv_substitute; eauto.
Qed.

(* sequences of calls *)
Definition op_wf (n : nat) (op : bool * ty * ty) : Prop := wf_ty n (snd (fst op)) /\ wf_ty n (snd op).

Theorem unify_seq_ok : forall ops s,
    store_ok s -> Forall (op_wf (length s)) ops ->
    exists s', unify_seq ops s = Some s' /\ store_ok s' /\ ext s s'.
Proof.
  induction ops as [|[[a t1] t2] r IH]; intros s Hok HF; cbn [unify_seq].
  - exists s. split; [reflexivity|split; [exact Hok|apply ext_refl]].
  - inversion HF as [|? ? [W1 W2] HF']; subst. cbn [fst snd] in W1, W2.
    pose proof (unify_total (unify_fuel s t1 t2) a s t1 t2 Hok W1 W2 (le_n _)) as HN.
    pose proof (unify_preserves_store_ok (unify_fuel s t1 t2) a s t1 t2 Hok W1 W2) as HP.
    destruct (unify (unify_fuel s t1 t2) a s t1 t2) as [s1 rel|s1 es|]; [| |congruence].
    + destruct HP as [Hok1 [He1 _]].
      destruct (IH s1 Hok1) as [s' [H1 [H2 H3]]]; [rewrite (proj1 He1); exact HF'|].
      exists s'. split; [exact H1|split; [exact H2|eapply ext_trans; eauto]].
    + destruct HP as [Hok1 He1].
      destruct (IH s1 Hok1) as [s' [H1 [H2 H3]]]; [rewrite (proj1 He1); exact HF'|].
      exists s'. split; [exact H1|split; [exact H2|eapply ext_trans; eauto]].
Qed.

(* the occurs check decides reachability *)
Theorem occurs_check_exact : forall f s v t b,
    occur_check f s v t = Some b -> (b = true <-> occurs s v t).
Proof.
  intros f s v t [|] H; split; intros H'; try reflexivity; try discriminate.
  - eapply occur_check_true; eauto.
  - exfalso. eapply occur_check_false; eauto.
Qed.

Theorem unify_sequence_total : forall ops s,
    store_ok s -> Forall (op_wf (length s)) ops ->
    exists s', unify_seq ops s = Some s' /\ store_ok s' /\ ext s s' /\
               forall t, exists r, substitute_type (fuel_bound (length s') (Nat.max (store_msize s') (size t))) s' t = Some r
                                   /\ novar r.
Proof.
  intros ops s Hok HF. destruct (unify_seq_ok ops s Hok HF) as [s' [H1 [H2 H3]]].
  exists s'. split; [exact H1|]. split; [exact H2|]. split; [exact H3|].
  intros t. exact (proj1 (resolution_total _ s' t H2 (le_n _))).
Qed.
