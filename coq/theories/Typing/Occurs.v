(* Typing/Occurs.v — the invariant `acyclic` (no variable reaches itself through parent pointers and type constructors),
   the specification of occur_check, and: a binding guarded by the occurs check keeps the store acyclic. *)
From Coq Require Import List Arith Bool Lia.
From Mimium Require Import Typing.Model Typing.Base.
Import ListNotations.

(* `occurs s v t`: variable v is reachable from type t through type constructors and parent pointers *)
Inductive occurs (s : store) (v : nat) : ty -> Prop :=
| occ_here : occurs s v (TVar v)
| occ_parent : forall w p, parent s w = Some p -> occurs s v p -> occurs s v (TVar w)
| occ_child : forall c t, child c t -> occurs s v c -> occurs s v t.

(* THE INVARIANT: no variable is reachable from its own parent *)
Definition acyclic (s : store) : Prop := forall v p, parent s v = Some p -> ~ occurs s v p.

Lemma vars_occurs : forall s v t, In v (vars t) -> occurs s v t.
Proof.
  intros s v t. induction t using ty_ind2; cbn [vars]; intros Hin; try contradiction.
  - eapply occ_child; [apply ch_array|auto].
  - apply in_flat_map in Hin. destruct Hin as [x [Hx Hv]].
    rewrite Forall_forall in H. eapply occ_child; [apply ch_tuple; exact Hx|auto].
  - apply in_app_or in Hin. destruct Hin as [Hin|Hin].
    + eapply occ_child; [apply ch_fun_arg|auto].
    + eapply occ_child; [apply ch_fun_ret|auto].
  - eapply occ_child; [apply ch_ref|auto].
  - eapply occ_child; [apply ch_code|auto].
  - eapply occ_child; [apply ch_boxed|auto].
  - destruct Hin as [->|[]]. apply occ_here.
Qed.

(* if w is reachable from t and v from w's parent, then v is reachable from t *)
Lemma occurs_trans : forall s v w p t, occurs s w t -> parent s w = Some p -> occurs s v p -> occurs s v t.
Proof.
  intros s v w p t H. induction H; intros Hp Hv.
  - eapply occ_parent; eauto.
  - eapply occ_parent; eauto.
  - eapply occ_child; eauto.
Qed.

Lemma occurs_ext : forall s s' v t, ext s s' -> occurs s v t -> occurs s' v t.
Proof.
  intros s s' v t [_ HE] H. induction H.
  - apply occ_here.
  - eapply occ_parent; eauto.
  - eapply occ_child; eauto.
Qed.

Lemma occurs_chain : forall s v t r, chain s t r -> occurs s v r -> occurs s v t.
Proof. intros s v t r Hc. induction Hc; intros Hocc; auto. eapply occ_parent; eauto. Qed.

(* ---------- occur_check computes `occurs` (whenever it does not run out of fuel) ---------- *)
Lemma any_m_false : forall c l, any_m c l = Some false -> forall x, In x l -> c x = Some false.
Proof.
  intros c l; induction l as [|y r IH]; cbn [any_m In]; intros H x Hin; [contradiction|].
  destruct (c y) as [[|]|] eqn:Hy; try discriminate.
  destruct Hin as [->|Hin]; auto.
Qed.

Lemma any_m_true : forall c l, any_m c l = Some true -> exists x, In x l /\ c x = Some true.
Proof.
  intros c l; induction l as [|y r IH]; cbn [any_m]; intros H; [discriminate|].
  destruct (c y) as [[|]|] eqn:Hy; try discriminate.
  - exists y. split; [left; reflexivity|exact Hy].
  - destruct (IH H) as [x [Hx Hc]]. exists x. split; [right; exact Hx|exact Hc].
Qed.

Lemma or_m_false : forall a b, or_m a b = Some false -> a = Some false /\ b tt = Some false.
Proof. intros [[|]|] b H; cbn in H; try discriminate. auto. Qed.

Lemma or_m_true : forall a b, or_m a b = Some true -> a = Some true \/ b tt = Some true.
Proof. intros [[|]|] b H; cbn in H; try discriminate; auto. Qed.

Ltac inv_child :=
  match goal with
  | H : child _ (TPrim _) |- _ => inversion H
  | H : child _ TUnknown |- _ => inversion H
  | H : child _ (TVar _) |- _ => inversion H
  | H : child _ (TArray _) |- _ => inversion H; subst; clear H
  | H : child _ (TRef _) |- _ => inversion H; subst; clear H
  | H : child _ (TCode _) |- _ => inversion H; subst; clear H
  | H : child _ (TBoxed _) |- _ => inversion H; subst; clear H
  | H : child _ (TFun _ _) |- _ => inversion H; subst; clear H
  | H : child _ (TTuple _) |- _ => inversion H; subst; clear H
  end.

(* the answer `false` is right: nothing reachable was missed (this is what guards every binding) *)
Theorem occur_check_false : forall f s v t, occur_check f s v t = Some false -> ~ occurs s v t.
Proof.
  induction f as [|f IH]; intros s v t H Hocc; cbn [occur_check] in H; [discriminate|].
  destruct t.
  - inversion Hocc; subst. inv_child.
  - inversion Hocc; subst. inv_child. eapply IH; eauto.
  - inversion Hocc; subst. inv_child. eapply IH; [|eassumption]. eapply any_m_false; eauto.
  - apply or_m_false in H. destruct H as [Ha Hr]. inversion Hocc; subst. inv_child; (eapply IH; [|eassumption]; eassumption).
  - inversion Hocc; subst. inv_child. eapply IH; eauto.
  - inversion Hocc; subst. inv_child. eapply IH; eauto.
  - inversion Hocc; subst. inv_child. eapply IH; eauto.
  - destruct (parent s v0) as [p|] eqn:Hp.
    + destruct (Nat.eqb_spec v v0) as [->|Hne]; [discriminate|].
      inversion Hocc; subst; [congruence| |inv_child].
      assert (p0 = p) by congruence. subst. eapply IH; eauto.
    + injection H as H. apply Nat.eqb_neq in H.
      inversion Hocc; subst; [congruence|congruence|inv_child].
  - inversion Hocc; subst. inv_child.
Qed.

(* the answer `true` is right too: the check rejects only bindings that would really close a cycle *)
Theorem occur_check_true : forall f s v t, occur_check f s v t = Some true -> occurs s v t.
Proof.
  induction f as [|f IH]; intros s v t H; cbn [occur_check] in H; [discriminate|].
  destruct t; try discriminate.
  - eapply occ_child; [apply ch_array|eauto].
  - apply any_m_true in H. destruct H as [x [Hx Hc]]. eapply occ_child; [apply ch_tuple; exact Hx|eauto].
  - apply or_m_true in H. destruct H as [H|H].
    + eapply occ_child; [apply ch_fun_arg|eauto].
    + eapply occ_child; [apply ch_fun_ret|eauto].
  - eapply occ_child; [apply ch_ref|eauto].
  - eapply occ_child; [apply ch_code|eauto].
  - eapply occ_child; [apply ch_boxed|eauto].
  - destruct (parent s v0) as [p|] eqn:Hp.
    + destruct (Nat.eqb_spec v v0) as [->|Hne]; [apply occ_here|].
      eapply occ_parent; eauto.
    + injection H as H. apply Nat.eqb_eq in H. subst. apply occ_here.
Qed.

(* ---------- binding an unbound variable ---------- *)
(* reachability in the store after `v := t` in terms of the store before *)
Lemma occurs_bind_inv : forall s s' v t,
    parent s v = None ->
    parent s' v = Some t ->
    (forall w, w <> v -> parent s' w = parent s w) ->
    forall x u, occurs s' x u -> occurs s x u \/ (occurs s v u /\ occurs s x t).
Proof.
  intros s s' v t Hnone Hv Hother x u H. induction H.
  - left. apply occ_here.
  - destruct (Nat.eq_dec w v) as [->|Hne].
    + assert (p = t) by congruence. subst p.
      right. split; [apply occ_here|]. destruct IHoccurs as [Hl|[_ Hr]]; auto.
    + rewrite Hother in H by exact Hne.
      destruct IHoccurs as [Hl|[Hr1 Hr2]].
      * left. eapply occ_parent; eauto.
      * right. split; [eapply occ_parent; eauto|exact Hr2].
  - destruct IHoccurs as [Hl|[Hr1 Hr2]].
    + left. eapply occ_child; eauto.
    + right. split; [eapply occ_child; eauto|exact Hr2].
Qed.

(* (b), the core: a binding v := t of an unbound variable, guarded by `~ occurs s v t`, keeps the store acyclic *)
Theorem acyclic_bind : forall s v t,
    acyclic s -> parent s v = None -> v < length s -> ~ occurs s v t -> acyclic (set_parent s v t).
Proof.
  intros s v t Hac Hnone Hlt Hno w p Hp Hocc.
  assert (Hv : parent (set_parent s v t) v = Some t) by (apply parent_set_parent_same; exact Hlt).
  assert (Hother : forall w, w <> v -> parent (set_parent s v t) w = parent s w)
    by (intros w0 Hw0; apply parent_set_parent_other; congruence).
  destruct (occurs_bind_inv _ _ _ _ Hnone Hv Hother _ _ Hocc) as [Hl|[Hr1 Hr2]].
  - destruct (Nat.eq_dec w v) as [->|Hne].
    + assert (p = t) by congruence. subst p. contradiction.
    + rewrite Hother in Hp by exact Hne. exact (Hac _ _ Hp Hl).
  - destruct (Nat.eq_dec w v) as [->|Hne].
    + assert (p = t) by congruence. subst p. contradiction.
    + rewrite Hother in Hp by exact Hne.
      (* t reaches w, w's parent reaches v: so t reaches v *)
      apply Hno. eapply occurs_trans; eauto.
Qed.

Lemma acyclic_set_level : forall s v l, acyclic s -> acyclic (set_level s v l).
Proof.
  intros s v l Hac w p Hp Hocc. rewrite parent_set_level in Hp.
  apply (Hac _ _ Hp). clear Hp. induction Hocc.
  - apply occ_here.
  - rewrite parent_set_level in H. eapply occ_parent; eauto.
  - eapply occ_child; eauto.
Qed.

(* an unbound variable different from v does not reach v *)
Lemma occurs_unbound_var : forall s v w, parent s w = None -> occurs s v (TVar w) -> v = w.
Proof. intros s v w Hn H. inversion H; subst; auto; [congruence|inv_child]. Qed.
