(* Typing/Model.v — executable model of the type unifier of the type checker (properties C04 / C03).

   Literal transcription, in store-passing style, of
     crates/lib/mimium-lang/src/types.rs                      TypeNodeId::get_root, Type, TypeVar
     crates/lib/mimium-lang/src/compiler/typing/unification.rs occur_check, unify_vec, unify_types, unify_types_args
     crates/lib/mimium-lang/src/compiler/typing.rs            InferContext::substitute_type (with TypeNodeId::apply_fn)

   FRAGMENT.  Types are restricted to Primitive(Unit/Int/Numeric/String), Array, Tuple, Function{arg,ret}, Ref, Code,
   Boxed, Intermediate(var) and Unknown (the value substitute_type gives an unsolved variable).  Records, unions, user
   sums, type aliases, type schemes, Any and Failure are NOT modelled: the match arms of the Rust functions that mention
   them are left out, every other arm is kept in the order of the source (the first matching arm is taken, as in Rust).
   The harness generator (checks/typing_part.py) produces exactly this fragment.

   STORE.  A Rust type variable is an `Arc<RwLock<TypeVar>>` cell {parent, var, level, bound}.  The model keeps one cell
   per variable id in a list (cell k = variable k); `bound` is written by the unifier but read by neither the unifier
   nor substitute_type (`tv1_eq == tv2_eq` compares it, but two handles with the same `var` are the same cell), so it
   is left out.  Rust types are arena nodes (TypeNodeId); nodes are immutable except for the variable cells, so a type is
   modelled by the tree it denotes.

   FUEL.  Every recursive Rust function takes a fuel argument here and returns an explicit out-of-fuel value
   (None / UFuel).  Fuel bounds the recursion DEPTH (sibling calls receive the same fuel). *)
From Coq Require Import List Arith Bool.
Import ListNotations.

(* types.rs PType *)
Inductive ptype : Type := PUnit | PInt | PNumeric | PString.

Definition ptype_eqb (a b : ptype) : bool :=
  match a, b with
  | PUnit, PUnit | PInt, PInt | PNumeric, PNumeric | PString, PString => true
  | _, _ => false
  end.

(* types.rs Type (fragment); TVar v = Type::Intermediate(cell with var = IntermediateId(v)) *)
Inductive ty : Type :=
| TPrim (p : ptype)
| TArray (a : ty)
| TTuple (l : list ty)
| TFun (arg ret : ty)
| TRef (a : ty)
| TCode (a : ty)
| TBoxed (a : ty)
| TVar (v : nat)
| TUnknown.

(* types.rs TypeVar {parent, level} of the variable whose id is the position in the store *)
Record cell : Type := mkCell { c_parent : option ty; c_level : nat }.
Definition store : Type := list cell.

Definition get (s : store) (v : nat) : cell := nth v s (mkCell None 0).
Definition parent (s : store) (v : nat) : option ty := c_parent (get s v).
Definition level (s : store) (v : nat) : nat := c_level (get s v).

Fixpoint upd (s : store) (v : nat) (c : cell) : store :=
  match s, v with
  | [], _ => []
  | _ :: r, 0 => c :: r
  | x :: r, S v' => x :: upd r v' c
  end.

(* `cell.write().unwrap().parent = Some(p)` / `.level = l` *)
Definition set_parent (s : store) (v : nat) (p : ty) : store := upd s v (mkCell (Some p) (level s v)).
Definition set_level (s : store) (v : nat) (l : nat) : store := upd s v (mkCell (parent s v) l).

(* types.rs TypeNodeId::get_root:
     Type::Intermediate(cell) => tv.parent.map_or(self, |t| t.get_root()),  _ => *self *)
Fixpoint get_root (fuel : nat) (s : store) (t : ty) : option ty :=
  match fuel with
  | 0 => None
  | S f =>
      match t with
      | TVar v => match parent s v with
                  | Some p => get_root f s p
                  | None => Some t
                  end
      | _ => Some t
      end
  end.

(* `t.iter().any(|a| cls(a))` — short-circuits on the first true *)
Fixpoint any_m (c : ty -> option bool) (l : list ty) : option bool :=
  match l with
  | [] => Some false
  | x :: r => match c x with
              | None => None
              | Some true => Some true
              | Some false => any_m c r
              end
  end.

(* `a || b` on results that may run out of fuel (b is not evaluated when a is true) *)
Definition or_m (a : option bool) (b : unit -> option bool) : option bool :=
  match a with
  | None => None
  | Some true => Some true
  | Some false => b tt
  end.

(* unification.rs occur_check(id1, t2): "return true when the circular loop of intermediate variable exists" *)
Fixpoint occur_check (fuel : nat) (s : store) (id1 : nat) (t2 : ty) : option bool :=
  match fuel with
  | 0 => None
  | S f =>
      let cls := occur_check f s id1 in
      match t2 with
      | TVar v =>
          match parent s v with
          | Some tid2 => if id1 =? v then Some true else cls tid2   (* id1 == tv2.var || occur_check(id1, tid2) *)
          | None => Some (id1 =? v)
          end
      | TArray a => cls a
      | TTuple l => any_m cls l
      | TFun arg ret => or_m (cls arg) (fun _ => cls ret)             (* cls(arg) || cls(ret) *)
      | TBoxed b => cls b
      | TCode c => cls c
      | TRef r => cls r
      | _ => Some false
      end
  end.

(* unification.rs Relation / Error (kinds only; spans and payloads are not modelled) *)
Inductive relation : Type := Subtype | Identical | Supertype.
Inductive uerr : Type := ETypeMismatch | ELengthMismatch | ECircularType.

Definition rel_eqb (a b : relation) : bool :=
  match a, b with
  | Subtype, Subtype | Identical, Identical | Supertype, Supertype => true
  | _, _ => false
  end.

(* Result<Relation, Vec<Error>> together with the store as the call leaves it (bindings made before an error persist) *)
Inductive ures : Type :=
| UOk (s : store) (r : relation)
| UErr (s : store) (es : list uerr)
| UFuel.

(* the `?` operator *)
Definition try_ (r : ures) (k : store -> relation -> ures) : ures :=
  match r with
  | UOk s rel => k s rel
  | UErr s es => UErr s es
  | UFuel => UFuel
  end.

(* unification.rs unify_vec, first half: `a1.iter().zip(a2).map(|(a1,a2)| unify_types(a1,a2)).partition_result()`
   (every pair is unified, in order, whatever the earlier outcomes; Ok values and errors are collected separately) *)
Fixpoint unify_pairs (u : store -> ty -> ty -> ures) (s : store) (a1 a2 : list ty)
  : option (store * list relation * list uerr) :=
  match a1, a2 with
  | x :: r1, y :: r2 =>
      match u s x y with
      | UFuel => None
      | UOk s' rel =>
          match unify_pairs u s' r1 r2 with
          | None => None
          | Some (s'', rs, es) => Some (s'', rel :: rs, es)
          end
      | UErr s' e =>
          match unify_pairs u s' r1 r2 with
          | None => None
          | Some (s'', rs, es) => Some (s'', rs, e ++ es)
          end
      end
  | _, _ => Some (s, [], [])
  end.

(* unification.rs unify_vec, second half.  NOTE (literal): the collected errors are returned only when the Ok results
   contain both a Subtype and a Supertype; otherwise the result is Ok even if some element failed to unify. *)
Definition unify_vec (u : store -> ty -> ty -> ures) (s : store) (a1 a2 : list ty) : ures :=
  match unify_pairs u s a1 a2 with
  | None => UFuel
  | Some (s', rs, es) =>
      if forallb (fun r => negb (rel_eqb r Subtype)) rs then UOk s' Supertype
      else if forallb (fun r => negb (rel_eqb r Supertype)) rs then UOk s' Subtype
      else UErr s' es
  end.

(* the (Type::Intermediate(i1), Type::Intermediate(i2)) arm, shared by unify_types and unify_types_args, which differ in
   the level update only.  t1r / t2r are the roots, t2 the second argument as passed (the occurs check runs on t2).
   `oc` is the occurs check (occur_check of this file; a parameter only so that the check used before commit 4da95e9 can
   be plugged in for the refutation theorem). *)
Definition unify_var_var (oc : store -> nat -> ty -> option bool) (args : bool) (s : store)
           (t1r t2r t2 : ty) (var1 var2 : nat) : ures :=
  if var1 =? var2 then UOk s Identical                       (* tv1_eq == tv2_eq: the same cell *)
  else
    match oc s var1 t2 with
    | None => UFuel
    | Some true => UErr s [ECircularType]
    | Some false =>
        let level1 := level s var1 in
        let level2 := level s var2 in
        let parent1 := parent s var1 in
        let parent2 := parent s var2 in
        let s1 :=
          if args
          then (if level1 <? level2 then set_level s var2 level1 else s)   (* if level2 > level1 { i2.level = level1 } *)
          else (if level1 <? level2 then set_level s var1 level2 else s)   (* if level1 < level2 { i1.level = level2 } *)
        in
        let s2 :=
          match parent1, parent2 with
          | None, None => if var2 <? var1                                   (* if var1 > var2 *)
                          then set_parent s1 var2 t1r
                          else set_parent s1 var1 t2r
          | _, Some p2 => set_parent s1 var1 p2
          | Some p1, _ => set_parent s1 var2 p1
          end in
        UOk s2 Identical
    end.

(* the (Type::Intermediate(i), _) and (_, Type::Intermediate(i)) arms: occurs check, then `tv.parent = Some(root)` *)
Definition unify_var_other (oc : store -> nat -> ty -> option bool) (s : store) (var : nat) (t : ty) : ures :=
  match oc s var t with
  | None => UFuel
  | Some true => UErr s [ECircularType]
  | Some false => UOk (set_parent s var t) Identical
  end.

(* the Function/Function arm of unify_types: both halves are unified (the result half in the store the argument half
   left), then `match (arg_res, ret_res)` *)
Definition unify_fun (u : bool -> store -> ty -> ty -> ures) (s : store) (arg1 ret1 arg2 ret2 : ty) : ures :=
  match u true s arg1 arg2 with
  | UFuel => UFuel
  | UOk s1 ra =>
      match u false s1 ret1 ret2 with
      | UFuel => UFuel
      | UOk s2 rr =>
          match ra, rr with
          | Subtype, _ => UErr s2 [ETypeMismatch]            (* (Ok(Subtype), Ok(_)) *)
          | _, Supertype => UErr s2 [ETypeMismatch]          (* (Ok(_), Ok(Supertype)) *)
          | Identical, Identical => UOk s2 Identical
          | _, _ => UOk s2 Subtype
          end
      | UErr s2 errs => UErr s2 errs                         (* (Ok(_), Err(errs)) *)
      end
  | UErr s1 e1 =>
      match u false s1 ret1 ret2 with
      | UFuel => UFuel
      | UOk s2 _ => UErr s2 e1                               (* (Err(errs), Ok(_)) *)
      | UErr s2 e2 => UErr s2 (e1 ++ e2)                     (* e1.append(&mut e2) *)
      end
  end.

(* the Boxed(inner)/_ and _/Boxed(inner) arms: Ok(_) => Identical, Err(_) => one TypeMismatch *)
Definition unify_boxed_coerce (r : ures) : ures :=
  match r with
  | UOk s _ => UOk s Identical
  | UErr s _ => UErr s [ETypeMismatch]
  | UFuel => UFuel
  end.

(* unification.rs unify_types, the `match &(t1r.to_type(), t2r.to_type())` (arms of the fragment, source order) *)
Definition unify_types_body (oc : store -> nat -> ty -> option bool) (u : bool -> store -> ty -> ty -> ures)
           (s : store) (t1 t2 t1r t2r : ty) : ures :=
  match t1r, t2r with
  | TVar var1, TVar var2 => unify_var_var oc false s t1r t2r t2 var1 var2
  | TVar var1, _ => unify_var_other oc s var1 t2r
  | _, TVar var2 => unify_var_other oc s var2 t1r
  | TArray a1, TArray a2 =>
      try_ (u false s a1 a2)
           (fun s' res => match res with
                          | Identical => UOk s' Identical
                          | _ => UErr s' [ETypeMismatch]
                          end)
  | TRef x1, TRef x2 => u false s x1 x2
  | TTuple a1, TTuple a2 =>
      if length a1 =? length a2
      then try_ (unify_vec (u false) s a1 a2) (fun s' _ => UOk s' Identical)
      else UErr s [ELengthMismatch]
  | TFun arg1 ret1, TFun arg2 ret2 => unify_fun u s arg1 ret1 arg2 ret2
  | TPrim p1, TPrim p2 =>
      (* `if p1 == p2 => Identical`; two different primitives match no later arm but the last one *)
      if ptype_eqb p1 p2 then UOk s Identical else UErr s [ETypeMismatch]
  | TPrim PUnit, TTuple [] => UOk s Identical
  | TTuple [], TPrim PUnit => UOk s Identical
  | _, TTuple [x] => u false s t1 x                          (* (_t, Tuple(v)) if v.len() == 1 => unify_types(t1, v[0])? *)
  | TTuple [x], _ => u false s x t2                          (* (Tuple(v), _t) if v.len() == 1 => unify_types(v[0], t2)? *)
  | TCode p1, TCode p2 => u false s p1 p2
  | TBoxed b1, TBoxed b2 => u false s b1 b2
  | TBoxed inner, _ => unify_boxed_coerce (u false s inner t2r)
  | _, TBoxed inner => unify_boxed_coerce (u false s t1r inner)
  | _, _ => UErr s [ETypeMismatch]
  end.

(* unification.rs unify_types_args, the same match (arms of the fragment, source order) *)
Definition unify_args_body (oc : store -> nat -> ty -> option bool) (u : bool -> store -> ty -> ty -> ures)
           (s : store) (t1 t2 t1r t2r : ty) : ures :=
  match t1r, t2r with
  | TTuple _, TTuple _ => u false s t1 t2
  | _, TTuple [x] => u true s t1 x
  | TTuple [x], _ => u true s x t2
  | TVar var1, TVar var2 => unify_var_var oc true s t1r t2r t2 var1 var2
  | TVar var1, _ => unify_var_other oc s var1 t2r
  | _, TVar var2 => unify_var_other oc s var2 t1r
  | _, _ => u false s t1 t2
  end.

(* unify_types (args = false) and unify_types_args (args = true): `let t1r = t1.get_root(); let t2r = t2.get_root();`
   then the match.  `ocf` maps the remaining fuel to the occurs check. *)
Fixpoint unify_gen (ocf : nat -> store -> nat -> ty -> option bool) (fuel : nat) (args : bool) (s : store)
         (t1 t2 : ty) {struct fuel} : ures :=
  match fuel with
  | 0 => UFuel
  | S f =>
      match get_root f s t1, get_root f s t2 with
      | Some t1r, Some t2r =>
          if args
          then unify_args_body (ocf f) (unify_gen ocf f) s t1 t2 t1r t2r
          else unify_types_body (ocf f) (unify_gen ocf f) s t1 t2 t1r t2r
      | _, _ => UFuel
      end
  end.

Definition unify : nat -> bool -> store -> ty -> ty -> ures := unify_gen occur_check.
Definition unify_types (fuel : nat) : store -> ty -> ty -> ures := unify fuel false.
Definition unify_types_args (fuel : nat) : store -> ty -> ty -> ures := unify fuel true.

(* `.map(f)` over children that may run out of fuel *)
Fixpoint map_m (f : ty -> option ty) (l : list ty) : option (list ty) :=
  match l with
  | [] => Some []
  | x :: r => match f x with
              | None => None
              | Some y => match map_m f r with
                          | None => None
                          | Some ys => Some (y :: ys)
                          end
              end
  end.

Definition omap (f : ty -> ty) (o : option ty) : option ty :=
  match o with Some x => Some (f x) | None => None end.

(* typing.rs InferContext::substitute_type:
     Type::Intermediate(cell) => match parent { Some(p) => substitute_type(p), None => Type::Unknown }
     _ => t.apply_fn(Self::substitute_type)                      (types.rs TypeNodeId::apply_fn) *)
Fixpoint substitute_type (fuel : nat) (s : store) (t : ty) : option ty :=
  match fuel with
  | 0 => None
  | S f =>
      let sub := substitute_type f s in
      match t with
      | TVar v => match parent s v with
                  | Some p => sub p
                  | None => Some TUnknown
                  end
      | TArray a => omap TArray (sub a)
      | TTuple l => match map_m sub l with Some l' => Some (TTuple l') | None => None end
      | TFun arg ret => match sub arg, sub ret with
                        | Some a', Some r' => Some (TFun a' r')
                        | _, _ => None
                        end
      | TRef x => omap TRef (sub x)
      | TBoxed x => omap TBoxed (sub x)
      | TCode c => omap TCode (sub c)
      | _ => Some t
      end
  end.

(* resolution that keeps unsolved variables (what the harness prints as R): not a function of the Rust code, used to
   compare model and implementation variable by variable *)
Fixpoint resolve (fuel : nat) (s : store) (t : ty) : option ty :=
  match fuel with
  | 0 => None
  | S f =>
      let sub := resolve f s in
      match t with
      | TVar v => match parent s v with
                  | Some p => sub p
                  | None => Some t
                  end
      | TArray a => omap TArray (sub a)
      | TTuple l => match map_m sub l with Some l' => Some (TTuple l') | None => None end
      | TFun arg ret => match sub arg, sub ret with
                        | Some a', Some r' => Some (TFun a' r')
                        | _, _ => None
                        end
      | TRef x => omap TRef (sub x)
      | TBoxed x => omap TBoxed (sub x)
      | TCode c => omap TCode (sub c)
      | _ => Some t
      end
  end.

(* ---- the occurs check as it was before commit 4da95e9 (`&&` for functions, Code and Ref not inspected) ---- *)
Definition and_m (a : option bool) (b : unit -> option bool) : option bool :=
  match a with
  | None => None
  | Some false => Some false
  | Some true => b tt
  end.

Fixpoint occur_check_old (fuel : nat) (s : store) (id1 : nat) (t2 : ty) : option bool :=
  match fuel with
  | 0 => None
  | S f =>
      let cls := occur_check_old f s id1 in
      match t2 with
      | TVar v =>
          match parent s v with
          | Some tid2 => if id1 =? v then Some true else cls tid2
          | None => Some (id1 =? v)
          end
      | TArray a => cls a
      | TTuple l => any_m cls l
      | TFun arg ret => and_m (cls arg) (fun _ => cls ret)            (* cls(arg) && cls(ret) *)
      | TBoxed b => cls b
      | _ => Some false
      end
  end.

Definition unify_old : nat -> bool -> store -> ty -> ty -> ures := unify_gen occur_check_old.

(* ---- sizes used by the explicit fuel bound ---- *)
Fixpoint size (t : ty) : nat :=
  match t with
  | TArray a | TRef a | TCode a | TBoxed a => S (size a)
  | TTuple l => S (fold_right (fun x acc => size x + acc) 0 l)
  | TFun a r => S (size a + size r)
  | _ => 1
  end.

(* the largest parent stored *)
Definition store_msize (s : store) : nat :=
  fold_right (fun c acc => match c_parent c with Some p => Nat.max (size p) acc | None => acc end) 0 s.

(* fuel that suffices for a store of n variables whose parents, like the two types, have size <= M *)
Definition fuel_bound (n M : nat) : nat := 4 * (M + n * (M + 1)) + 3.

Definition unify_fuel (s : store) (t1 t2 : ty) : nat :=
  fuel_bound (length s) (Nat.max (store_msize s) (Nat.max (size t1) (size t2))).

(* a sequence of unifier calls on one shared store (what type inference does to the variable cells; what the harness
   replays), every call with the fuel of the bound; an error of a call does not stop the sequence (errors are collected
   by the type checker, inference goes on), None = some call ran out of fuel *)
Fixpoint unify_seq (ops : list (bool * ty * ty)) (s : store) : option store :=
  match ops with
  | [] => Some s
  | (a, t1, t2) :: r =>
      match unify (unify_fuel s t1 t2) a s t1 t2 with
      | UOk s' _ => unify_seq r s'
      | UErr s' _ => unify_seq r s'
      | UFuel => None
      end
  end.
