(* Typing/Base.v — basic facts about types, stores and the auxiliary notions the theorems are stated with
   (children of a type, variables of a type, well-scoped types, store extension). *)
From Coq Require Import List Arith Bool Lia.
From Mimium Require Import Typing.Model.
Import ListNotations.

(* ---------- induction on types (tuples nest lists) ---------- *)
Section ty_ind2.
  Variable P : ty -> Prop.
  Hypothesis Hprim : forall p, P (TPrim p).
  Hypothesis Harray : forall a, P a -> P (TArray a).
  Hypothesis Htuple : forall l, Forall P l -> P (TTuple l).
  Hypothesis Hfun : forall a r, P a -> P r -> P (TFun a r).
  Hypothesis Href : forall a, P a -> P (TRef a).
  Hypothesis Hcode : forall a, P a -> P (TCode a).
  Hypothesis Hboxed : forall a, P a -> P (TBoxed a).
  Hypothesis Hvar : forall v, P (TVar v).
  Hypothesis Hunk : P TUnknown.

  Fixpoint ty_ind2 (t : ty) : P t :=
    match t with
    | TPrim p => Hprim p
    | TArray a => Harray a (ty_ind2 a)
    | TTuple l =>
        Htuple l ((fix go (l : list ty) : Forall P l :=
                     match l with
                     | [] => Forall_nil P
                     | x :: r => Forall_cons x (ty_ind2 x) (go r)
                     end) l)
    | TFun a r => Hfun a r (ty_ind2 a) (ty_ind2 r)
    | TRef a => Href a (ty_ind2 a)
    | TCode a => Hcode a (ty_ind2 a)
    | TBoxed a => Hboxed a (ty_ind2 a)
    | TVar v => Hvar v
    | TUnknown => Hunk
    end.
End ty_ind2.

(* ---------- immediate children ---------- *)
Inductive child : ty -> ty -> Prop :=
| ch_array : forall a, child a (TArray a)
| ch_tuple : forall x l, In x l -> child x (TTuple l)
| ch_fun_arg : forall a r, child a (TFun a r)
| ch_fun_ret : forall a r, child r (TFun a r)
| ch_ref : forall a, child a (TRef a)
| ch_code : forall a, child a (TCode a)
| ch_boxed : forall a, child a (TBoxed a).
#[export] Hint Constructors child : typing.

Lemma in_tuple_size : forall x l, In x l -> size x <= fold_right (fun y acc => size y + acc) 0 l.
Proof.
  intros x l; induction l as [|y r IH]; cbn [fold_right In]; intros Hin; [contradiction|].
  destruct Hin as [->|Hin]; [lia|]. specialize (IH Hin). lia.
Qed.

Lemma child_size : forall c t, child c t -> size c < size t.
Proof.
  intros c t H; destruct H; cbn [size]; try lia.
  pose proof (in_tuple_size _ _ H). lia.
Qed.

Lemma size_pos : forall t, 1 <= size t.
Proof. intros t; destruct t; cbn [size]; lia. Qed.

(* ---------- variables of a type, well-scoped types ---------- *)
Fixpoint vars (t : ty) : list nat :=
  match t with
  | TVar v => [v]
  | TArray a | TRef a | TCode a | TBoxed a => vars a
  | TFun a r => vars a ++ vars r
  | TTuple l => flat_map vars l
  | _ => []
  end.

Lemma child_vars : forall c t, child c t -> incl (vars c) (vars t).
Proof.
  intros c t H; destruct H; cbn [vars]; intros v Hv; auto.
  - apply in_flat_map. eauto.
  - apply in_or_app; auto.
  - apply in_or_app; auto.
Qed.

(* all variables of t are cells of a store with n cells, and t has at most M nodes *)
Definition wf_ty (n : nat) (t : ty) : Prop := forall v, In v (vars t) -> v < n.
Definition tyok (n M : nat) (t : ty) : Prop := wf_ty n t /\ size t <= M.

Lemma tyok_child : forall n M c t, child c t -> tyok n M t -> tyok n M c.
Proof.
  intros n M c t Hc [Hw Hs]. split.
  - intros v Hv. apply Hw. eapply child_vars; eauto.
  - pose proof (child_size _ _ Hc). lia.
Qed.

Lemma tyok_var_lt : forall n M v, tyok n M (TVar v) -> v < n.
Proof. intros n M v [Hw _]. apply Hw. cbn. auto. Qed.

(* ---------- the store ---------- *)
Lemma length_upd : forall s v c, length (upd s v c) = length s.
Proof. induction s as [|x r IH]; intros [|v] c; cbn [upd length]; auto. Qed.

Lemma get_upd_same : forall s v c, v < length s -> get (upd s v c) v = c.
Proof.
  unfold get. induction s as [|x r IH]; intros [|v] c Hlt; cbn [upd length nth] in *; try lia; auto.
  apply IH. lia.
Qed.

Lemma get_upd_other : forall s v w c, v <> w -> get (upd s v c) w = get s w.
Proof.
  unfold get. induction s as [|x r IH]; intros [|v] [|w] c Hne; cbn [upd nth]; auto; try congruence.
Qed.

Lemma get_out : forall s v, length s <= v -> get s v = mkCell None 0.
Proof. intros s v H. unfold get. apply nth_overflow. exact H. Qed.

Lemma upd_out : forall s v c, length s <= v -> upd s v c = s.
Proof. induction s as [|x r IH]; intros [|v] c H; cbn [upd length] in *; auto; try lia. f_equal. apply IH. lia. Qed.

Lemma parent_Some_lt : forall s v p, parent s v = Some p -> v < length s.
Proof.
  intros s v p H. destruct (Nat.lt_ge_cases v (length s)) as [Hlt|Hge]; auto.
  unfold parent in H. rewrite get_out in H by exact Hge. discriminate.
Qed.

Lemma length_set_parent : forall s v p, length (set_parent s v p) = length s.
Proof. intros. apply length_upd. Qed.
Lemma length_set_level : forall s v l, length (set_level s v l) = length s.
Proof. intros. apply length_upd. Qed.

Lemma parent_set_parent_same : forall s v p, v < length s -> parent (set_parent s v p) v = Some p.
Proof. intros. unfold parent, set_parent. rewrite get_upd_same by assumption. reflexivity. Qed.

Lemma parent_set_parent_other : forall s v w p, v <> w -> parent (set_parent s v p) w = parent s w.
Proof. intros. unfold parent, set_parent. rewrite get_upd_other by assumption. reflexivity. Qed.

Lemma parent_set_level : forall s v l w, parent (set_level s v l) w = parent s w.
Proof.
  intros s v l w. unfold parent at 1, set_level.
  destruct (Nat.eq_dec v w) as [->|Hne].
  - destruct (Nat.lt_ge_cases w (length s)) as [Hlt|Hge].
    + rewrite get_upd_same by exact Hlt. reflexivity.
    + rewrite upd_out by exact Hge. reflexivity.
  - rewrite get_upd_other by exact Hne. reflexivity.
Qed.

(* s' extends s: same cells, every parent pointer of s is still there *)
Definition ext (s s' : store) : Prop :=
  length s' = length s /\ forall v p, parent s v = Some p -> parent s' v = Some p.

Lemma ext_refl : forall s, ext s s.
Proof. intros s; split; auto. Qed.

Lemma ext_trans : forall s1 s2 s3, ext s1 s2 -> ext s2 s3 -> ext s1 s3.
Proof. intros s1 s2 s3 [L1 P1] [L2 P2]. split; [congruence|]. intros v p H. auto. Qed.

Lemma ext_set_level : forall s v l, ext s (set_level s v l).
Proof. intros s v l. split; [apply length_set_level|]. intros w p H. rewrite parent_set_level. exact H. Qed.

Lemma ext_set_parent : forall s v p, parent s v = None -> ext s (set_parent s v p).
Proof.
  intros s v p Hn. split; [apply length_set_parent|]. intros w q H.
  destruct (Nat.eq_dec v w) as [->|Hne]; [congruence|].
  rewrite parent_set_parent_other by exact Hne. exact H.
Qed.

(* ---------- store invariants that do not involve cycles ---------- *)
(* every stored parent is well scoped and has at most M nodes *)
Definition store_tyok (n M : nat) (s : store) : Prop :=
  length s = n /\ forall v p, parent s v = Some p -> tyok n M p.

Lemma store_tyok_set_level : forall n M s v l, store_tyok n M s -> store_tyok n M (set_level s v l).
Proof.
  intros n M s v l [HL HP]. split; [rewrite length_set_level; exact HL|].
  intros w p H. rewrite parent_set_level in H. eauto.
Qed.

Lemma store_tyok_set_parent : forall n M s v p, store_tyok n M s -> tyok n M p -> store_tyok n M (set_parent s v p).
Proof.
  intros n M s v p [HL HP] Hp. split; [rewrite length_set_parent; exact HL|].
  intros w q H. destruct (Nat.eq_dec v w) as [->|Hne].
  - destruct (Nat.lt_ge_cases w (length s)) as [Hlt|Hge].
    + rewrite parent_set_parent_same in H by exact Hlt. injection H as <-. exact Hp.
    + unfold set_parent in H. rewrite upd_out in H by exact Hge. eauto.
  - rewrite parent_set_parent_other in H by exact Hne. eauto.
Qed.

(* the computed bound store_msize really bounds every stored parent *)
Lemma store_msize_bound : forall s v p, parent s v = Some p -> size p <= store_msize s.
Proof.
  unfold parent, get. induction s as [|c r IH]; intros v p H.
  - destruct v; cbn in H; discriminate.
  - destruct v as [|v]; cbn [nth] in H; cbn [store_msize fold_right].
    + rewrite H. lia.
    + specialize (IH v p H). unfold store_msize in IH. destruct (c_parent c); lia.
Qed.

(* ---------- chains of parent pointers (what get_root follows) ---------- *)
Inductive chain (s : store) : ty -> ty -> Prop :=
| chain_refl : forall t, chain s t t
| chain_step : forall v p r, parent s v = Some p -> chain s p r -> chain s (TVar v) r.

Lemma get_root_chain : forall f s t r, get_root f s t = Some r -> chain s t r.
Proof.
  induction f as [|f IH]; intros s t r H; cbn [get_root] in H; [discriminate|].
  destruct t; try (injection H as <-; apply chain_refl).
  destruct (parent s v) as [p|] eqn:Hp.
  - eapply chain_step; eauto.
  - injection H as <-. apply chain_refl.
Qed.

(* a root is never a bound variable *)
Lemma get_root_unbound : forall f s t v, get_root f s t = Some (TVar v) -> parent s v = None.
Proof.
  induction f as [|f IH]; intros s t v H; cbn [get_root] in H; [discriminate|].
  destruct t; try discriminate.
  destruct (parent s v0) as [p|] eqn:Hp.
  - eauto.
  - injection H as <-. exact Hp.
Qed.

Lemma chain_tyok : forall n M s t r, store_tyok n M s -> chain s t r -> tyok n M t -> tyok n M r.
Proof.
  intros n M s t r [_ HP] Hc. induction Hc; intros Ht; auto. apply IHHc. eauto.
Qed.

Lemma chain_ext : forall s s' t r, ext s s' -> chain s t r -> chain s' t r.
Proof.
  intros s s' t r [_ HE] Hc. induction Hc; [apply chain_refl|]. eapply chain_step; eauto.
Qed.
