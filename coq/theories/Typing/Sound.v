(* Typing/Sound.v — (d): from the equivalence a successful unification establishes (Eqv.eqv) to the resolution function
   of the type checker: the two resolved types are equal up to boxing whenever no tuple is involved; with tuples the
   claim is false of the faithful model (unify_vec drops the errors of the elements): witness below. *)
From Coq Require Import List Arith Bool Lia.
From Mimium Require Import Typing.Model Typing.Base Typing.Eqv.
Import ListNotations.

(* no tuple anywhere in the type *)
Fixpoint notuple (t : ty) : Prop :=
  match t with
  | TTuple _ => False
  | TArray a | TRef a | TCode a | TBoxed a => notuple a
  | TFun a r => notuple a /\ notuple r
  | _ => True
  end.

(* boxing erased (tuples are left alone: the function is used on tuple-free types only) *)
Fixpoint unbox (t : ty) : ty :=
  match t with
  | TBoxed a => unbox a
  | TArray a => TArray (unbox a)
  | TRef a => TRef (unbox a)
  | TCode a => TCode (unbox a)
  | TFun a r => TFun (unbox a) (unbox r)
  | _ => t
  end.

(* more fuel never changes an answer of substitute_type *)
Lemma map_m_mono : forall (c c' : ty -> option ty) l l',
    (forall x y, In x l -> c x = Some y -> c' x = Some y) -> map_m c l = Some l' -> map_m c' l = Some l'.
Proof.
  intros c c' l. induction l as [|x r IH]; intros l' H Hm; cbn [map_m] in *; [exact Hm|].
  destruct (c x) as [y|] eqn:Hy; [|discriminate].
  rewrite (H x y (or_introl eq_refl) Hy).
  destruct (map_m c r) as [ys|] eqn:Hr; [|discriminate].
  rewrite (IH ys); [exact Hm| |reflexivity]. intros z w Hz. apply H. right. exact Hz.
Qed.

Lemma substitute_mono : forall f s t r, substitute_type f s t = Some r -> substitute_type (S f) s t = Some r.
Proof.
  induction f as [|f IH]; intros s t r H; [discriminate|].
  cbn [substitute_type] in H. change (substitute_type (S (S f)) s t) with
      (let sub := substitute_type (S f) s in
       match t with
       | TVar v => match parent s v with Some p => sub p | None => Some TUnknown end
       | TArray a => omap TArray (sub a)
       | TTuple l => match map_m sub l with Some l' => Some (TTuple l') | None => None end
       | TFun arg ret => match sub arg, sub ret with Some a', Some r' => Some (TFun a' r') | _, _ => None end
       | TRef x => omap TRef (sub x)
       | TBoxed x => omap TBoxed (sub x)
       | TCode c => omap TCode (sub c)
       | _ => Some t
       end).
  cbv zeta. destruct t; auto.
  - destruct (substitute_type f s t) as [y|] eqn:Hy; [|discriminate]. rewrite (IH _ _ _ Hy). exact H.
  - destruct (map_m (substitute_type f s) l) as [l'|] eqn:Hl; [|discriminate].
    rewrite (map_m_mono _ (substitute_type (S f) s) _ _ (fun x y _ Hx => IH s x y Hx) Hl). exact H.
  - destruct (substitute_type f s t1) as [y1|] eqn:H1; [|discriminate].
    destruct (substitute_type f s t2) as [y2|] eqn:H2; [|discriminate].
    rewrite (IH _ _ _ H1), (IH _ _ _ H2). exact H.
  - destruct (substitute_type f s t) as [y|] eqn:Hy; [|discriminate]. rewrite (IH _ _ _ Hy). exact H.
  - destruct (substitute_type f s t) as [y|] eqn:Hy; [|discriminate]. rewrite (IH _ _ _ Hy). exact H.
  - destruct (substitute_type f s t) as [y|] eqn:Hy; [|discriminate]. rewrite (IH _ _ _ Hy). exact H.
  - destruct (parent s v); auto.
Qed.

Lemma substitute_mono_le : forall f f' s t r, f <= f' -> substitute_type f s t = Some r -> substitute_type f' s t = Some r.
Proof. intros f f' s t r Hle H. induction Hle; auto using substitute_mono. Qed.

Lemma substitute_det : forall f1 f2 s t r1 r2,
    substitute_type f1 s t = Some r1 -> substitute_type f2 s t = Some r2 -> r1 = r2.
Proof.
  intros f1 f2 s t r1 r2 H1 H2.
  pose proof (substitute_mono_le f1 (Nat.max f1 f2) s t r1 (Nat.le_max_l _ _) H1) as A.
  pose proof (substitute_mono_le f2 (Nat.max f1 f2) s t r2 (Nat.le_max_r _ _) H2) as B.
  congruence.
Qed.

Ltac subst_inv H f :=
  destruct f as [|f]; [discriminate H|]; cbn [substitute_type] in H.

(* equivalent types resolve equally, up to boxing, when the resolved types are tuple free *)
Theorem eqv_substitute : forall s t1 t2,
    eqv s t1 t2 ->
    forall f1 f2 r1 r2,
      substitute_type f1 s t1 = Some r1 -> substitute_type f2 s t2 = Some r2 ->
      notuple r1 -> notuple r2 -> unbox r1 = unbox r2.
Proof.
  intros s t1 t2 H. induction H; intros f1 f2 q1 q2 H1 H2 N1 N2.
  - rewrite (substitute_det _ _ _ _ _ _ H1 H2). reflexivity.
  - subst_inv H1 f1. rewrite H in H1. eauto.
  - subst_inv H2 f2. rewrite H in H2. eauto.
  - subst_inv H1 f1. subst_inv H2 f2.
    destruct (substitute_type f1 s a) as [x|] eqn:E1; [|discriminate].
    destruct (substitute_type f2 s b) as [y|] eqn:E2; [|discriminate].
    injection H1 as <-. injection H2 as <-. cbn [unbox notuple] in *. f_equal. eauto.
  - subst_inv H1 f1. subst_inv H2 f2.
    destruct (substitute_type f1 s a) as [x|] eqn:E1; [|discriminate].
    destruct (substitute_type f2 s b) as [y|] eqn:E2; [|discriminate].
    injection H1 as <-. injection H2 as <-. cbn [unbox notuple] in *. f_equal. eauto.
  - subst_inv H1 f1. subst_inv H2 f2.
    destruct (substitute_type f1 s a) as [x|] eqn:E1; [|discriminate].
    destruct (substitute_type f2 s b) as [y|] eqn:E2; [|discriminate].
    injection H1 as <-. injection H2 as <-. cbn [unbox notuple] in *. f_equal. eauto.
  - subst_inv H1 f1. subst_inv H2 f2.
    destruct (substitute_type f1 s a) as [x|] eqn:E1; [|discriminate].
    destruct (substitute_type f2 s b) as [y|] eqn:E2; [|discriminate].
    injection H1 as <-. injection H2 as <-. cbn [unbox notuple] in *. eauto.
  - subst_inv H1 f1. subst_inv H2 f2.
    destruct (substitute_type f1 s a1) as [x1|] eqn:E1; [|discriminate].
    destruct (substitute_type f1 s r1) as [y1|] eqn:E2; [|discriminate].
    destruct (substitute_type f2 s a2) as [x2|] eqn:E3; [|discriminate].
    destruct (substitute_type f2 s r2) as [y2|] eqn:E4; [|discriminate].
    injection H1 as <-. injection H2 as <-. cbn [unbox notuple] in *.
    destruct N1, N2. f_equal; eauto.
  - subst_inv H1 f1. destruct (map_m _ l1); [|discriminate]. injection H1 as <-. contradiction.
  - subst_inv H2 f2. cbn [map_m] in H2. injection H2 as <-. contradiction.
  - subst_inv H1 f1. cbn [map_m] in H1. injection H1 as <-. contradiction.
  - subst_inv H2 f2. destruct (map_m _ [x]); [|discriminate]. injection H2 as <-. contradiction.
  - subst_inv H1 f1. destruct (map_m _ [x]); [|discriminate]. injection H1 as <-. contradiction.
  - subst_inv H1 f1.
    destruct (substitute_type f1 s inner) as [x|] eqn:E1; [|discriminate].
    injection H1 as <-. cbn [unbox notuple] in *. eauto.
  - subst_inv H2 f2.
    destruct (substitute_type f2 s inner) as [x|] eqn:E1; [|discriminate].
    injection H2 as <-. cbn [unbox notuple] in *. eauto.
Qed.
