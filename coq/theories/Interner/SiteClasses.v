(* Interner/SiteClasses.v — HAND-MAINTAINED classification of the HashMap/HashSet iteration sites listed by
   translators/hash_iter_sites.py in Tables/HashIterSites.v (property C15).

   Every site must be matched by an entry (same file, function, text and fingerprint of the surrounding code; the
   fingerprint is "*" only for NotHash entries, whose justification is the declared type of the iterated value and not
   the code around the site).  When the translator lists a site that has no entry here -- a new loop over a hash map,
   or an edit of a function containing one -- Props/C15.v C15_sites_classified no longer checks and the site has to be
   looked at again.

   Classes:
     NotHash           the iterated value is not a hash container (over-approximation of the translator)
     OrderInsensitive  the result of the iteration is the same for every order
     Canonicalised     the items are put into a canonical order (sorted on pairwise different keys) before use
     DiagnosticsOnly   the order reaches only the ORDER of the error messages of a rejected program
     Observable        the order reaches an artefact: a finding (KNOWN_FINDINGS.txt), demonstrated by checks/C15.py
     NotSymbolOrder    (second table, symbol_order_sites) the sort / search / comparison / ordered-map walk is keyed by strings
                       or numbers, not by Symbol; a site that IS ordered by Symbol (= by the interner index, i.e. by which name
                       the process happened to intern first, C15_id_order_refuted) must be OrderInsensitive, Canonicalised or
                       Observable with a reason *)
From Coq Require Import String List Bool.
Import ListNotations.
Open Scope string_scope.

Inductive site_class : Type := NotHash | OrderInsensitive | Canonicalised | DiagnosticsOnly | Observable | NotSymbolOrder.

Record site_entry := mkClass {
  sc_file : string; sc_fn : string; sc_text : string; sc_fp : string; sc_class : site_class; sc_reason : string }.

Definition is_not_hash (c : site_class) : bool := match c with NotHash => true | _ => false end.
Definition is_observable (c : site_class) : bool := match c with Observable => true | _ => false end.

Definition entry_matches (s : string * string * string * string) (e : site_entry) : bool :=
  let '(f, fn, txt, fp) := s in
  String.eqb f (sc_file e) && String.eqb fn (sc_fn e) && String.eqb txt (sc_text e)
  && (String.eqb fp (sc_fp e) || (String.eqb (sc_fp e) "*" && is_not_hash (sc_class e))).

Definition classified (classes : list site_entry) (s : string * string * string * string) : bool :=
  existsb (entry_matches s) classes.

Definition class_of (classes : list site_entry) (s : string * string * string * string) : option site_class :=
  option_map sc_class (find (entry_matches s) classes).

Definition site_classes : list site_entry := [
  mkClass "compiler/bytecodegen.rs" "VRegister::add_newvalue"
          "let pos = self .0 .iter()"
          "2fa0f519d7" OrderInsensitive
          "max_by_key(address+size) mapped to address+size: only the MAXIMUM end address over all entries is used, not the entry attaining it (Sort.max_fold_perm)";
  mkClass "compiler/bytecodegen.rs" "VRegister::add_newvalue_range"
          "let pos = self .0 .iter()"
          "cf1240ae49" OrderInsensitive
          "same as add_newvalue: only the maximum of address+size is used (Sort.max_fold_perm)";
  mkClass "compiler/bytecodegen.rs" "VStack::find_upvalue"
          "self.0 .iter()"
          "*" NotHash
          "VStack(Vec<VRegister>): the Vec of scopes is walked innermost-first; each VRegister is only queried by key (find_keep -> HashMap::get)";
  mkClass "compiler/bytecodegen.rs" "ByteCodeGenerator::emit_instruction"
          "mirfunc.body[tbb as usize] .0 .iter()"
          "*" NotHash
          "mir::Block(pub Vec<(VPtr, Instruction)>) is a Vec: `.0` iterates instructions in program order (listed only because VRegister, another tuple struct of this file, wraps a HashMap)";
  mkClass "compiler/bytecodegen.rs" "ByteCodeGenerator::emit_instruction"
          "mirfunc.body[ebb as usize] .0 .iter()"
          "*" NotHash
          "mir::Block(pub Vec<(VPtr, Instruction)>) is a Vec: `.0` iterates instructions in program order (listed only because VRegister, another tuple struct of this file, wraps a HashMap)";
  mkClass "compiler/bytecodegen.rs" "ByteCodeGenerator::emit_instruction"
          "block.0.iter().fold(vec![], |mut bytes, (bdst, binst)| {"
          "*" NotHash
          "mir::Block(pub Vec<(VPtr, Instruction)>) is a Vec: `.0` iterates instructions in program order (listed only because VRegister, another tuple struct of this file, wraps a HashMap)";
  mkClass "compiler/bytecodegen.rs" "ByteCodeGenerator::emit_instruction"
          "merge_block_mir .0 .iter()"
          "*" NotHash
          "mir::Block(pub Vec<(VPtr, Instruction)>) is a Vec: `.0` iterates instructions in program order (listed only because VRegister, another tuple struct of this file, wraps a HashMap)";
  mkClass "compiler/bytecodegen.rs" "ByteCodeGenerator::generate_funcproto"
          "block.0.iter().for_each(|(dst, inst)| {"
          "*" NotHash
          "mir::Block(pub Vec<(VPtr, Instruction)>) is a Vec: `.0` iterates instructions in program order (listed only because VRegister, another tuple struct of this file, wraps a HashMap)";
  mkClass "compiler/mirgen.rs" "Context::substitute_by_map"
          "let mut mapped = unresolved_subst.values().copied();"
          "c48db1dfc2" OrderInsensitive
          "the first value is returned only if ALL values are == to it (TypeNodeId::eq compares the type structurally and the span), so every iteration order returns an equal type or falls through to `ty`";
  mkClass "compiler/mirgen/convert_qualified_names.rs" "ResolveContext::is_locally_bound"
          "self.local_bindings .iter()"
          "*" NotHash
          "local_bindings: Vec<HashSet<Symbol>> is iterated as a Vec; the sets are only asked `contains`";
  mkClass "compiler/rustgen.rs" "RustGenerator::emit_function"
          "let mut regs: Vec<_> = register_sizes.into_iter().collect();"
          "91bbefb59a" Canonicalised
          "collected into a Vec and sorted by register number (map keys, pairwise different) before use (Sort.sorted_canonical); rustgen is not on the bytecode/WASM path";
  mkClass "compiler/typing.rs" "InferContext::register_type_declarations"
          "for (type_name, decl_info) in type_declarations {"
          "6e744044e1" OrderInsensitive
          "first pass: allocates one UserSum type per declaration (arena ids are never printed), records it in a local map keyed by the type name and binds type name -> type in one environment frame searched by name; type names are map keys, hence pairwise different";
  mkClass "compiler/typing.rs" "InferContext::register_type_declarations"
          "for (type_name, decl_info) in type_declarations {  #2"
          "6e744044e1" Observable
          "F20: `constructor_env.insert(variant_name, ..)` for every variant of every `type rec` declaration in map order: when two recursive sum types declare the same constructor name the LAST one visited wins, so the type (and tag) a constructor denotes depends on the per-map random hash seed";
  mkClass "compiler/typing.rs" "InferContext::register_type_declarations"
          "for (type_name, decl_info) in type_declarations {  #3"
          "6e744044e1" Observable
          "F20: `constructor_env.insert(variant.name, ..)` for every variant of every non-recursive sum type in map order: when two sum types declare the same constructor name the LAST one visited wins (witness corpus/C15/f20_shared_constructor.mmm: accepted by some compilations, rejected with a type mismatch by others)";
  mkClass "compiler/typing.rs" "InferContext::check_type_declaration_recursion"
          "for (type_name, decl_info) in type_declarations {"
          "ec2234aeca" DiagnosticsOnly
          "pushes one RecursiveTypeAlias error per offending declaration in map order: only the ORDER of the diagnostics of a rejected program varies (no artefact exists)";
  mkClass "compiler/typing.rs" "InferContext::register_type_aliases"
          "for (alias_name, target_type) in type_aliases {"
          "802d3312dd" OrderInsensitive
          "copies entries into another HashMap (keys = alias names, pairwise different) and binds alias name -> type in one environment frame that is searched by name";
  mkClass "compiler/typing.rs" "InferContext::check_type_alias_cycles"
          "let errors: Vec<_> = type_aliases .iter()"
          "e5513fea4d" DiagnosticsOnly
          "one RecursiveTypeAlias error per alias on a cycle, in map order: the order of the diagnostics of a rejected program varies between compilations (witness tests/mmm/type_recursive_invalid_mutual.mmm, finding F21)";
  mkClass "compiler/typing.rs" "InferContext::resolve_type_alias_symbol_fallback"
          "let mut candidates: Vec<Symbol> = self .type_aliases .keys()"
          "91da0d1bce" OrderInsensitive
          "the candidate list is used only when it has exactly one element (`candidates.len() == 1`)";
  mkClass "compiler/typing.rs" "InferContext::resolve_type_alias_symbol_fallback"
          "candidates.extend( module_info .type_declarations"
          "91da0d1bce" OrderInsensitive
          "the candidate list is used only when it has exactly one element (`candidates.len() == 1`)";
  mkClass "compiler/typing.rs" "InferContext::resolve_type_alias_symbol_fallback"
          "module_info .type_declarations .keys()"
          "91da0d1bce" OrderInsensitive
          "the candidate list is used only when it has exactly one element (`candidates.len() == 1`)";
  mkClass "compiler/wasmgen.rs" "WasmGenerator::process_mir_functions"
          "for func in &functions {"
          "*" NotHash
          "`functions` is the local `let functions = self.mir.functions.clone()`, a Vec<mir::Function> in definition order (listed only because another struct of this file has a private field `functions: HashMap<Symbol, u32>`)";
  mkClass "compiler/wasmgen.rs" "WasmGenerator::generate_indirect_adapters"
          "for (mir_fn_idx, func) in functions.iter().enumerate() {"
          "*" NotHash
          "`functions` is the local `let functions = self.mir.functions.clone()`, a Vec<mir::Function> in definition order (listed only because another struct of this file has a private field `functions: HashMap<Symbol, u32>`)";
  mkClass "compiler/wasmgen.rs" "WasmGenerator::generate_function_bodies"
          "for (mir_fn_idx, func) in functions.iter().enumerate() {"
          "*" NotHash
          "`functions` is the local `let functions = self.mir.functions.clone()`, a Vec<mir::Function> in definition order (listed only because another struct of this file has a private field `functions: HashMap<Symbol, u32>`)";
  mkClass "compiler/wasmgen.rs" "WasmGenerator::compute_max_register_indices"
          "for (&reg_idx, &val_type) in &self.register_types {"
          "144537b729" OrderInsensitive
          "two running maxima over all entries (Sort.max_fold_perm)";
  mkClass "compiler/wasmgen.rs" "WasmGenerator::export_functions"
          "for func in &functions {"
          "*" NotHash
          "`functions` is the local `let functions = self.mir.functions.clone()`, a Vec<mir::Function> in definition order (listed only because another struct of this file has a private field `functions: HashMap<Symbol, u32>`)";
  mkClass "compiler/wasmgen.rs" "WasmGenerator::build_name_section"
          "let mut pairs = self .fn_name_to_idx .iter()"
          "7c9a181267" Canonicalised
          "pairs are sorted by function index before they are appended to the name section; indices are pairwise different (each insert into fn_name_to_idx uses the running counter current_fn_idx) (Sort.sorted_canonical)";
  mkClass "lib.rs" "ExecContext::freeze_wasm_plugin_fns"
          "acc.extend(map);"
          "513978ee72" OrderInsensitive
          "entries of one plugin's map (pairwise different names) are inserted into another HashMap; clashes between plugins are resolved by the Vec order of sys_plugins";
  (* --- the same sites after corpus/C15/proposed_fixes.diff (F20/F21: declaration maps walked in name order) --- *)
  mkClass "compiler/typing.rs" "sorted_by_name"
          "let mut entries: Vec<_> = map.iter().collect();"
          "92a4c390a1" Canonicalised
          "collected into a Vec that is sorted by the key's name string before it is returned; map keys are pairwise different symbols, hence pairwise different strings (Sort.sorted_canonical)";
  mkClass "compiler/typing.rs" "InferContext::register_type_declarations"
          "for (type_name, decl_info) in sorted_by_name(type_declarations) {"
          "1ee0610a92" Canonicalised
          "iterates the Vec returned by sorted_by_name: the map's entries sorted by the NAME string of their key (pairwise different keys), a canonical and history-independent order (Sort.sorted_canonical)";
  mkClass "compiler/typing.rs" "InferContext::register_type_declarations"
          "for (type_name, decl_info) in sorted_by_name(type_declarations) {  #2"
          "1ee0610a92" Canonicalised
          "iterates the Vec returned by sorted_by_name: the map's entries sorted by the NAME string of their key (pairwise different keys), a canonical and history-independent order (Sort.sorted_canonical); a constructor name shared by two recursive sum types now denotes the type whose name sorts last, in every compilation";
  mkClass "compiler/typing.rs" "InferContext::register_type_declarations"
          "for (type_name, decl_info) in sorted_by_name(type_declarations) {  #3"
          "1ee0610a92" Canonicalised
          "iterates the Vec returned by sorted_by_name: the map's entries sorted by the NAME string of their key (pairwise different keys), a canonical and history-independent order (Sort.sorted_canonical); a constructor name shared by two sum types now denotes the type whose name sorts last, in every compilation";
  mkClass "compiler/typing.rs" "InferContext::check_type_declaration_recursion"
          "for (type_name, decl_info) in sorted_by_name(type_declarations) {"
          "14e38596eb" Canonicalised
          "iterates the Vec returned by sorted_by_name: the map's entries sorted by the NAME string of their key (pairwise different keys), a canonical and history-independent order (Sort.sorted_canonical): the diagnostics come out in name order";
  mkClass "compiler/typing.rs" "InferContext::register_type_aliases"
          "for (alias_name, target_type) in sorted_by_name(type_aliases) {"
          "0a078ca379" Canonicalised
          "iterates the Vec returned by sorted_by_name: the map's entries sorted by the NAME string of their key (pairwise different keys), a canonical and history-independent order (Sort.sorted_canonical)"
].

(* classification of Tables/HashIterSites.v symbol_order_sites *)
Definition order_classes : list site_entry := [
  mkClass "compiler/bytecodegen.rs" "ByteCodeGenerator::emit_instruction"
          "constants.binary_search(&cval).unwrap_or_else(|_err| {"
          "64308fc5e3" NotSymbolOrder
          "searches a Vec<RawVal> (u64 machine words: bit patterns of numeric constants), not symbols";
  mkClass "compiler/mirgen.rs" "Context::canonical_record_type_id"
          "normalized_fields.sort_by(|a, b| a.key.as_str().cmp(b.key.as_str()));"
          "d03e9cc043" NotSymbolOrder
          "record fields sorted by the NAME STRING of the key (key.as_str()), not by the Symbol";
  mkClass "compiler/mirgen.rs" "canonicalize_record_layout_type"
          "normalized_fields.sort_by(|a, b| a.key.as_str().cmp(b.key.as_str()));"
          "6206624355" NotSymbolOrder
          "record fields sorted by the NAME STRING of the key (key.as_str()), not by the Symbol";
  mkClass "compiler/mirgen.rs" "Context::build_decision_tree"
          "transformed_rows.sort_by_key(|row| row.arm_index);"
          "1e557e472e" NotSymbolOrder
          "rows of the pattern matrix sorted by the INDEX of their arm in the source (usize; stable sort), so that the first matching arm is taken (fix M1), not by a Symbol";
  mkClass "compiler/typing.rs" "InferContext::bind_pattern"
          "res.sort_by(|a, b| a.key.as_str().cmp(b.key.as_str()));"
          "3684bd6b15" NotSymbolOrder
          "the fields of a record PATTERN's type sorted by the NAME STRING of the key (key.as_str()), like record literals (fix S1), not by the Symbol";
  mkClass "compiler/parser/lower.rs" "Lowerer::lower_record_fields"
          "fields.sort_by(|a, b| a.name.as_ref().cmp(b.name.as_ref()));"
          "ed5e470fcd" NotSymbolOrder
          "record fields sorted by the NAME STRING (name.as_ref(): &str), not by the Symbol";
  mkClass "compiler/rustgen.rs" "RustGenerator::default_argument_functions"
          "defaults.sort_unstable();"
          "078b4b9729" NotSymbolOrder
          "sorts function indices (usize, func.index); rustgen is not on the bytecode/WASM path";
  mkClass "compiler/rustgen.rs" "RustGenerator::emit_function"
          "regs.sort_by_key(|(reg, _size)| *reg);"
          "91bbefb59a" NotSymbolOrder
          "sorts (register number, size) pairs by register number (u64)";
  mkClass "compiler/rustgen.rs" "RustGenerator::collect_fallthrough_edges"
          "starts.sort_unstable();"
          "3a3fb65fd0" NotSymbolOrder
          "sorts block start indices (usize)";
  mkClass "compiler/rustgen.rs" "RustGenerator::collect_fallthrough_edges"
          "starts.sort_unstable();  #2"
          "3a3fb65fd0" NotSymbolOrder
          "sorts block start indices (usize)";
  mkClass "compiler/typing.rs" "sorted_by_name"
          "entries.sort_by(|a, b| a.0.as_str().cmp(b.0.as_str()));"
          "92a4c390a1" NotSymbolOrder
          "entries sorted by the NAME STRING of the key (as_str()), which is what makes the walk over the declaration maps history independent";
  mkClass "compiler/typing.rs" "InferContext::lookup_explicit_type_param"
          "self.explicit_type_param_scopes .iter()"
          "62fc0688da" NotSymbolOrder
          "explicit_type_param_scopes: Vec<BTreeMap<Symbol,_>> is walked as a Vec (innermost scope first); each BTreeMap is only asked `get(&name)`";
  mkClass "compiler/typing/unification.rs" "unify_types"
          "match a1.len().cmp(&a2.len()) {"
          "fbd871fd9c" NotSymbolOrder
          "compares two lengths (usize) / sorts record fields by the NAME STRING of the key (as_str())";
  mkClass "compiler/typing/unification.rs" "unify_types"
          "let keys_a = a1.iter().sorted_by(move |a, b| {"
          "7f8e9480ed" NotSymbolOrder
          "compares two lengths (usize) / sorts record fields by the NAME STRING of the key (as_str())";
  mkClass "compiler/typing/unification.rs" "unify_types"
          "let keys_b = a2.iter().sorted_by(move |a, b| {"
          "c863aa24f8" NotSymbolOrder
          "compares two lengths (usize) / sorts record fields by the NAME STRING of the key (as_str())";
  mkClass "compiler/wasmgen.rs" "WasmGenerator::build_name_section"
          "pairs.sort_by_key(|(idx, _)| *idx);"
          "7c9a181267" NotSymbolOrder
          "sorts (function index, name) pairs by the function index (u32)";
  mkClass "runtime/vm.rs" "<module>"
          "Self::get_as::<f64>($self.get_stack($src as i64)).partial_cmp(&0.0),"
          "dcc0596d92" NotSymbolOrder
          "compares an f64 with 0.0";
  mkClass "runtime/vm.rs" "set_vec"
          "match i.cmp(&vec.len()) {"
          "55082c50fe" NotSymbolOrder
          "compares an index with a length (usize)";
  mkClass "runtime/vm.rs" "set_vec_range"
          "match start.cmp(&vec.len()) {"
          "1b09e4e269" NotSymbolOrder
          "compares an index with a length (usize)";
  mkClass "runtime/vm/program.rs" "FuncProto::add_new_constant"
          "self.constants.binary_search(&cval).unwrap_or_else(|_err| {"
          "96237006fc" NotSymbolOrder
          "searches a Vec<RawVal> (u64 machine words), not symbols"
].
