(* Interner/Conc.v — K threads on one storage: every interleaving of the atomic steps is invisible to each
   thread (C19), the raw-id / order observations are not history independent (C15), and the atomicity of
   get_or_intern is necessary. *)
From Coq Require Import List String Bool Arith Lia.
From Mimium Require Import Interner.Model Interner.Lemmas.
Import ListNotations.
Open Scope list_scope.

Lemma set_nth_length : forall {A} (l : list A) i x, List.length (set_nth l i x) = List.length l.
Proof. induction l as [|y l IH]; intros [|i] x; cbn [set_nth List.length]; auto. Qed.

Lemma set_nth_same : forall {A} (l : list A) i x y, nth_error l i = Some y -> nth_error (set_nth l i x) i = Some x.
Proof. induction l as [|z l IH]; intros [|i] x y H; cbn [set_nth nth_error] in *; try discriminate; eauto. Qed.

Lemma set_nth_other : forall {A} (l : list A) i j x, i <> j -> nth_error (set_nth l i x) j = nth_error l j.
Proof.
  induction l as [|z l IH]; intros [|i] [|j] x H; cbn [set_nth nth_error]; try reflexivity; try congruence.
  apply IH. congruence.
Qed.

Lemma count_app : forall i a b, count i (a ++ b) = count i a + count i b.
Proof. induction a as [|x a IH]; intros b; cbn [count app]; [reflexivity|]. rewrite IH. lia. Qed.

Lemma run_sched_snoc : forall g sts s j, run_sched g sts (s ++ [j]) = sched_step (run_sched g sts s) j.
Proof. intros. unfold run_sched. now rewrite fold_left_app. Qed.

(* the invariant of an interleaved run: the shared storage is well formed, and every thread is related (same code,
   same registers, same outputs, symbols denoting the same strings) to its solo run of as many steps as it was
   scheduled *)
Definition inv (g0 : glob) (ths : list prog) (s : list nat) (cfg : glob * list tstate) : Prop :=
  wf (fst cfg) /\ ext g0 (fst cfg) /\ List.length (snd cfg) = List.length ths /\
  forall i p, nth_error ths i = Some p ->
    exists st, nth_error (snd cfg) i = Some st
      /\ rel (fst cfg) st (fst (run_solo g0 (init p) (count i s))) (snd (run_solo g0 (init p) (count i s)))
      /\ symbolic (code st) = true.

Lemma inv_all : forall g0 ths, wf g0 -> forallb symbolic ths = true ->
  forall s, inv g0 ths s (run_sched g0 (map init ths) s).
Proof.
  intros g0 ths W0 Sy s. induction s as [|j s IH] using rev_ind.
  - unfold run_sched; cbn [fold_left]. unfold inv; cbn [fst snd]. repeat split; [exact W0|apply ext_refl|apply map_length|].
    intros i p Hp. exists (init p). split; [now rewrite nth_error_map, Hp|]. cbn [count run_solo fst snd]. split; [apply rel_init|].
    cbn [init code]. rewrite forallb_forall in Sy. apply Sy. eapply nth_error_In; eassumption.
  - rewrite run_sched_snoc. destruct (run_sched g0 (map init ths) s) as [g sts]. destruct IH as (W & E & L & IH). cbn [fst snd] in *.
    unfold sched_step. destruct (nth_error sts j) as [stj|] eqn:Ej.
    + pose proof (step_wf g stj W) as W'. pose proof (step_ext g stj) as E'.
      assert (Hj : j < List.length ths) by (rewrite <- L; apply nth_error_Some; congruence).
      destruct (nth_error ths j) as [pj|] eqn:Epj; [|apply nth_error_None in Epj; lia].
      destruct (IH j pj Epj) as (stj' & Hst & Rj & Syj). rewrite Ej in Hst; inversion Hst; subst stj'; clear Hst.
      destruct (run_solo_wf_ext (count j s) g0 (init pj) W0) as [Wsolo _].
      pose proof (step_rel _ _ _ _ W Wsolo Rj Syj) as [Rj' Syj'].
      destruct (step g stj) as [g' stj'] eqn:Est. cbn [fst snd] in *.
      unfold inv; cbn [fst snd]. repeat split; [exact W'|eapply ext_trans; eassumption|now rewrite set_nth_length|].
      intros i p Hp. rewrite count_app. cbn [count]. destruct (Nat.eqb j i) eqn:Eji.
      * apply Nat.eqb_eq in Eji; subst i. rewrite Hp in Epj; inversion Epj; subst pj.
        exists stj'. split; [eapply set_nth_same; eassumption|].
        replace (count j s + (1 + 0)) with (S (count j s)) by lia. cbn [run_solo].
        destruct (run_solo g0 (init p) (count j s)) as [gs ss]. cbn [fst snd] in *.
        destruct (step gs ss) as [gs' ss']. cbn [fst snd] in *. split; assumption.
      * apply Nat.eqb_neq in Eji. destruct (IH i p Hp) as (sti & Hsti & Ri & Syi).
        exists sti. split; [now rewrite set_nth_other|]. rewrite Nat.add_0_r. split; [|exact Syi].
        eapply rel_ext; [exact Ri|exact E'|apply ext_refl].
    + unfold inv; cbn [fst snd]. repeat split; try assumption.
      intros i p Hp. rewrite count_app. cbn [count].
      assert (Hne : Nat.eqb j i = false).
      { apply Nat.eqb_neq. intros ->. apply nth_error_None in Ej. assert (i < List.length ths) by (apply nth_error_Some; congruence). lia. }
      rewrite Hne, Nat.add_0_r. apply IH; exact Hp.
Qed.

(* C19: for EVERY schedule, what thread i has observed (outputs), what it still has to do (code) and its local
   strings are exactly those of running it alone for the same number of its own steps *)
Lemma interleaving_invisible : forall (h : list hop) (ths : list prog) (sched : list nat) (i : nat) (p : prog) (st : tstate),
  forallb symbolic ths = true ->
  nth_error ths i = Some p ->
  nth_error (snd (run_sched (replay h) (map init ths) sched)) i = Some st ->
  let solo := snd (run_solo (replay h) (init p) (count i sched)) in
  outs st = outs solo /\ code st = code solo /\ regs st = regs solo.
Proof.
  intros h ths sched i p st Sy Hp Hst solo.
  destruct (inv_all (replay h) ths (replay_wf h) Sy sched) as (_ & _ & _ & H).
  destruct (H i p Hp) as (st' & Hst' & [_ _ Hr Ho Hc] & _). rewrite Hst in Hst'; inversion Hst'; subst st'.
  repeat split; assumption.
Qed.

(* a thread that was scheduled often enough to finish has printed exactly what it prints in a fresh process *)
Lemma interleaving_complete : forall (h : list hop) (ths : list prog) (sched : list nat) (i : nat) (p : prog) (st : tstate),
  forallb symbolic ths = true ->
  nth_error ths i = Some p ->
  nth_error (snd (run_sched (replay h) (map init ths) sched)) i = Some st ->
  size p <= count i sched ->
  code st = Done /\ outs st = observe [] p.
Proof.
  intros h ths sched i p st Sy Hp Hst Hn.
  destruct (interleaving_invisible h ths sched i p st Sy Hp Hst) as (Ho & Hc & _).
  destruct (run_solo_complete (replay h) p (count i sched) Hn) as [Hd Ho'].
  split; [congruence|]. rewrite Ho, Ho'.
  assert (Sp : symbolic p = true) by (rewrite forallb_forall in Sy; apply Sy; eapply nth_error_In; eassumption).
  exact (history_independent h [] p Sp).
Qed.

(* ------------------------------------------------------------------------------------------------ *)
(* what is NOT history independent: the numeric id and the order of ids                             *)
(* ------------------------------------------------------------------------------------------------ *)
Open Scope string_scope.

Definition raw_prog : prog := Intern (Lit "x") (EmitRaw 0 Done).
Definition lt_prog : prog := Intern (Lit "a") (Intern (Lit "b") (EmitLt 0 1 Done)).

Lemma raw_id_history_dependent : observe [] raw_prog <> observe [HIntern "y"] raw_prog.
Proof. vm_compute. discriminate. Qed.

Lemma id_order_history_dependent : observe [] lt_prog <> observe [HIntern "b"] lt_prog.
Proof. vm_compute. discriminate. Qed.

Lemma raw_id_refuted : exists (h1 h2 : list hop) (p : prog), observe h1 p <> observe h2 p.
Proof. exists [], [HIntern "y"], raw_prog. exact raw_id_history_dependent. Qed.

Lemma id_order_refuted : exists (h1 h2 : list hop) (p : prog),
    (forall v k, p <> EmitRaw v k) /\ observe h1 p <> observe h2 p.
Proof.
  exists [], [HIntern "b"], lt_prog. split; [intros v k H; discriminate H|exact id_order_history_dependent].
Qed.

(* ------------------------------------------------------------------------------------------------ *)
(* atomicity of get_or_intern is necessary                                                         *)
(* ------------------------------------------------------------------------------------------------ *)

(* two threads intern "x" with the lookup and the insertion in separate critical sections:
     A: lookup "x" -> None      B: lookup "x" -> None      A: insert -> id 0      B: insert -> id 1
   afterwards B interns "x" once more (atomically) and compares its two symbols *)
Definition split_race_B_sees : bool :=
  let g0 := empty_glob in
  let fa := lookup (tbl g0) "x" in
  let fb := lookup (tbl g0) "x" in
  let (g1, _) := intern_split_insert g0 "x" fa in
  let (g2, b1) := intern_split_insert g1 "x" fb in
  let (_, b2) := intern g2 "x" in
  Nat.eqb b1 b2.

Definition solo_B_sees : bool :=
  let (g1, b1) := intern empty_glob "x" in
  let (_, b2) := intern g1 "x" in
  Nat.eqb b1 b2.

Lemma split_intern_contaminates : split_race_B_sees = false /\ solo_B_sees = true.
Proof. vm_compute. split; reflexivity. Qed.
