(* Interner/Model.v — executable model of crates/lib/mimium-lang/src/interner.rs (properties C15, C19).
   Definitions only; lemmas live in Interner/{Lemmas,Conc,Sort,EnvVar}.v.

   SessionGlobals (one process-wide value behind ONE Mutex, `with_session_globals`) holds
     symbol_interner : StringInterner<BucketBackend<usize>>   -- strings, deduplicated, ids = insertion index
     expr_storage / type_storage : SlotMap<_, _>              -- arenas, never deduplicated, never freed
   Every operation below is executed by the Rust code inside one `with_session_globals` closure, i.e. atomically
   with respect to all other operations (trusted: std::sync::Mutex). *)
From Coq Require Import List String Bool Arith.
Import ListNotations.
Open Scope string_scope.

(* ---------------------------------------------------------------------------------------------------------- *)
(* 1. the global storage                                                                                      *)
(* ---------------------------------------------------------------------------------------------------------- *)

(* symbol table: the i-th string ever interned (StringBackend: `ends`/`buffer`, symbol = index) ;
   arena: the i-th value ever stored (SlotMap without removals: slot index = insertion index).  The payload of an
   arena slot (an Expr or a Type) is opaque here: a string stands for it. *)
Record glob := mkGlob { tbl : list string; arena : list string }.

Definition empty_glob : glob := mkGlob [] [].

(* StringInterner::get : position of s in the table (the dedup hash map, keyed by string contents) *)
Fixpoint find_from (s : string) (t : list string) (i : nat) : option nat :=
  match t with
  | [] => None
  | x :: r => if String.eqb x s then Some i else find_from s r (S i)
  end.

Definition lookup (t : list string) (s : string) : option nat := find_from s t 0.

(* `impl<T: AsRef<str>> ToSymbol for T { fn to_symbol }` =
   with_session_globals(|g| g.symbol_interner.get_or_intern(s)) : existing id, else push and return the new index *)
Definition intern (g : glob) (s : string) : glob * nat :=
  match lookup (tbl g) s with
  | Some i => (g, i)
  | None => (mkGlob (tbl g ++ [s]) (arena g), List.length (tbl g))
  end.

(* Symbol::as_str / Display for Symbol = with_session_globals(|g| g.symbol_interner.resolve(id)) ; None = the
   `.expect("invalid symbol")` panic.  The model returns the string BY VALUE.  The Rust function returns a reference into
   the interner's storage that outlives the lock; that agrees with a copy only if interned strings never move, which holds
   for string_interner's BucketBackend (used since the fix of finding F24) and did not hold for StringBackend (one growing
   buffer).  checks/C19.py probes it on every run. *)
Definition resolve (g : glob) (i : nat) : option string := nth_error (tbl g) i.

(* SessionGlobals::store_expr / store_type (`into_id`) : SlotMap::insert, always a fresh key *)
Definition store (g : glob) (v : string) : glob * nat :=
  (mkGlob (tbl g) (arena g ++ [v]), List.length (arena g)).

(* SessionGlobals::get_expr / get_type (`to_expr`, `to_type`) : a clone of the stored value *)
Definition load (g : glob) (k : nat) : option string := nth_error (arena g) k.

(* a history: what the process did to the storage before the compilation we look at *)
Inductive hop : Type := HIntern (s : string) | HStore (v : string).

Definition hop_apply (g : glob) (o : hop) : glob :=
  match o with
  | HIntern s => fst (intern g s)
  | HStore v => fst (store g v)
  end.

Definition replay (h : list hop) : glob := fold_left hop_apply h empty_glob.

(* ---------------------------------------------------------------------------------------------------------- *)
(* 2. symbol programs: clients that use symbols ONLY through intern, equality and resolve                       *)
(*    (and arena keys only through store and load)                                                              *)
(* ---------------------------------------------------------------------------------------------------------- *)

(* thread-local string computations: literals, previously resolved/loaded strings (registers), concatenation
   (name mangling such as format!("{}${}", module, name)) *)
Inductive sval : Type :=
| Lit (s : string)
| Reg (n : nat)
| Cat (a b : sval).

(* Every constructor marked ATOMIC is one `with_session_globals` call; the others touch thread-local data only. *)
Inductive prog : Type :=
| Done
| Intern (e : sval) (k : prog)          (* ATOMIC  sym := (eval e).to_symbol()  ; push sym *)
| Resolve (v : nat) (k : prog)          (* ATOMIC  r := syms[v].as_str()        ; push r on the registers *)
| Store (e : sval) (k : prog)           (* ATOMIC  key := store(eval e)         ; push key *)
| Load (v : nat) (k : prog)             (* ATOMIC  r := keys[v].to_type()       ; push r on the registers *)
| Emit (e : sval) (k : prog)            (* local   output the string (what Display prints) *)
| EmitEq (a b : nat) (k : prog)         (* local   output syms[a] == syms[b] *)
| IfEq (a b : nat) (k1 k2 : prog)       (* local   branch on syms[a] == syms[b] *)
| EmitRaw (v : nat) (k : prog)          (* local   output the NUMERIC id syms[v]  -- NOT allowed in a symbol program
                                           (mir/print.rs `write!(f, "arg {}: ..", label.0, ..)` does it) *)
| EmitLt (a b : nat) (k : prog).        (* local   output syms[a] < syms[b] (derive(Ord) on Symbol: BTreeMap<Symbol,_>
                                           iteration order) -- NOT allowed in a symbol program *)

(* the fragment the theorems are about: no raw id, no order comparison *)
Fixpoint symbolic (p : prog) : bool :=
  match p with
  | Done => true
  | Intern _ k | Resolve _ k | Store _ k | Load _ k | Emit _ k | EmitEq _ _ k => symbolic k
  | IfEq _ _ k1 k2 => symbolic k1 && symbolic k2
  | EmitRaw _ _ | EmitLt _ _ _ => false
  end.

Inductive obs : Type :=
| OStr (s : string)
| OBool (b : bool)
| ONat (n : nat)
| OPanic.                               (* unbound variable / invalid symbol: the Rust code panics *)

(* thread-local state: bound symbols, bound arena keys, string registers (all newest last), outputs (oldest first),
   remaining code *)
Record tstate := mkT { syms : list nat; keys : list nat; regs : list string; outs : list obs; code : prog }.

Definition init (p : prog) : tstate := mkT [] [] [] [] p.

Fixpoint eval (rs : list string) (e : sval) : string :=
  match e with
  | Lit s => s
  | Reg n => nth n rs ""
  | Cat a b => eval rs a ++ eval rs b
  end.

Definition halt (st : tstate) : tstate := mkT (syms st) (keys st) (regs st) (outs st ++ [OPanic]) Done.

Definition emit (st : tstate) (o : obs) (k : prog) : tstate :=
  mkT (syms st) (keys st) (regs st) (outs st ++ [o]) k.

(* one step of one thread; at most one access to the global storage *)
Definition step (g : glob) (st : tstate) : glob * tstate :=
  match code st with
  | Done => (g, st)
  | Intern e k =>
      let (g', i) := intern g (eval (regs st) e) in
      (g', mkT (syms st ++ [i]) (keys st) (regs st) (outs st) k)
  | Resolve v k =>
      match nth_error (syms st) v with
      | Some i => match resolve g i with
                  | Some s => (g, mkT (syms st) (keys st) (regs st ++ [s]) (outs st) k)
                  | None => (g, halt st)
                  end
      | None => (g, halt st)
      end
  | Store e k =>
      let (g', i) := store g (eval (regs st) e) in
      (g', mkT (syms st) (keys st ++ [i]) (regs st) (outs st) k)
  | Load v k =>
      match nth_error (keys st) v with
      | Some i => match load g i with
                  | Some s => (g, mkT (syms st) (keys st) (regs st ++ [s]) (outs st) k)
                  | None => (g, halt st)
                  end
      | None => (g, halt st)
      end
  | Emit e k => (g, emit st (OStr (eval (regs st) e)) k)
  | EmitEq a b k =>
      match nth_error (syms st) a, nth_error (syms st) b with
      | Some i, Some j => (g, emit st (OBool (Nat.eqb i j)) k)
      | _, _ => (g, halt st)
      end
  | IfEq a b k1 k2 =>
      match nth_error (syms st) a, nth_error (syms st) b with
      | Some i, Some j => (g, mkT (syms st) (keys st) (regs st) (outs st) (if Nat.eqb i j then k1 else k2))
      | _, _ => (g, halt st)
      end
  | EmitRaw v k =>
      match nth_error (syms st) v with
      | Some i => (g, emit st (ONat i) k)
      | None => (g, halt st)
      end
  | EmitLt a b k =>
      match nth_error (syms st) a, nth_error (syms st) b with
      | Some i, Some j => (g, emit st (OBool (Nat.ltb i j)) k)
      | _, _ => (g, halt st)
      end
  end.

(* n steps of a thread running alone *)
Fixpoint run_solo (g : glob) (st : tstate) (n : nat) : glob * tstate :=
  match n with
  | O => (g, st)
  | S m => let (g', st') := run_solo g st m in step g' st'
  end.

(* number of steps after which a program is certainly Done *)
Fixpoint size (p : prog) : nat :=
  match p with
  | Done => 0
  | Intern _ k | Resolve _ k | Store _ k | Load _ k | Emit _ k | EmitEq _ _ k | EmitRaw _ k | EmitLt _ _ k => S (size k)
  | IfEq _ _ k1 k2 => S (Nat.max (size k1) (size k2))
  end.

(* what a compilation with symbol program p prints when the process has history h *)
Definition observe (h : list hop) (p : prog) : list obs :=
  outs (snd (run_solo (replay h) (init p) (size p))).

(* ---------------------------------------------------------------------------------------------------------- *)
(* 3. K threads, one storage, an arbitrary schedule                                                            *)
(* ---------------------------------------------------------------------------------------------------------- *)

Fixpoint set_nth {A} (l : list A) (i : nat) (x : A) : list A :=
  match l, i with
  | [], _ => []
  | _ :: r, O => x :: r
  | y :: r, S j => y :: set_nth r j x
  end.

(* thread j takes one (atomic) step; an index that names no thread is a no-op *)
Definition sched_step (cfg : glob * list tstate) (j : nat) : glob * list tstate :=
  let (g, sts) := cfg in
  match nth_error sts j with
  | Some st => let (g', st') := step g st in (g', set_nth sts j st')
  | None => (g, sts)
  end.

(* a schedule is the list of thread indices in the order in which they win the mutex *)
Definition run_sched (g : glob) (sts : list tstate) (sched : list nat) : glob * list tstate :=
  fold_left sched_step sched (g, sts).

Fixpoint count (i : nat) (l : list nat) : nat :=
  match l with
  | [] => 0
  | x :: r => (if Nat.eqb x i then 1 else 0) + count i r
  end.

(* ---------------------------------------------------------------------------------------------------------- *)
(* 4. a NON-atomic intern (what the code would be if the lock were released between lookup and insert):       *)
(*    used only to show that the atomicity assumption is necessary                                             *)
(* ---------------------------------------------------------------------------------------------------------- *)

(* phase 1: look the string up; phase 2 (later, after other threads ran): push if phase 1 found nothing *)
Definition intern_split_insert (g : glob) (s : string) (found : option nat) : glob * nat :=
  match found with
  | Some i => (g, i)
  | None => (mkGlob (tbl g ++ [s]) (arena g), List.length (tbl g))
  end.

(* ---------------------------------------------------------------------------------------------------------- *)
(* 5. sort_by_key as used by wasmgen.rs build_name_section: pairs (function index, name) collected from a      *)
(*    HashMap in iteration order, then `pairs.sort_by_key(|(idx, _)| *idx)` (a STABLE sort)                    *)
(* ---------------------------------------------------------------------------------------------------------- *)

Fixpoint insert_by_key {A} (x : nat * A) (l : list (nat * A)) : list (nat * A) :=
  match l with
  | [] => [x]
  | y :: r => if Nat.leb (fst x) (fst y) then x :: l else y :: insert_by_key x r
  end.

(* stable: an element is inserted BEFORE the elements with an equal key that were to its right *)
Definition sort_by_key {A} (l : list (nat * A)) : list (nat * A) := fold_right insert_by_key [] l.

(* wasmgen.rs compute_max_register_indices: a running maximum over the entries of a HashMap *)
Definition max_fold (l : list nat) : nat := fold_left Nat.max l 0.

(* ---------------------------------------------------------------------------------------------------------- *)
(* 6. the process environment variable MIMIUM_CURRENT_MACRO_FILE (mirgen.rs MacroFileEnvGuard, read by          *)
(*    mimium-symphonia resolve_sample_path while a Sampler macro runs)                                          *)
(* ---------------------------------------------------------------------------------------------------------- *)

(* the register: None = variable unset *)
Definition envreg := option string.

(* the four accesses a compilation with file path `path` makes, each atomic (std::env's internal lock):
     MacroFileEnvGuard::new:  previous = env::var_os(KEY)          (EReadPrev)
                              env::set_var(KEY, path)               (ESetOwn)
     machine.execute_main():  the macro reads env::var_os(KEY)     (EMacroRead)   <- what the Sampler macro sees
     Drop:                    set_var(KEY, previous) / remove_var   (ERestore) *)
Inductive eop : Type := EReadPrev | ESetOwn | EMacroRead | ERestore.

Definition macro_expansion : list eop := [EReadPrev; ESetOwn; EMacroRead; ERestore].

Record ethread := mkE { e_path : string; e_prev : envreg; e_seen : list envreg; e_code : list eop }.

Definition einit (path : string) : ethread := mkE path None [] macro_expansion.

Definition estep (r : envreg) (t : ethread) : envreg * ethread :=
  match e_code t with
  | [] => (r, t)
  | EReadPrev :: k => (r, mkE (e_path t) r (e_seen t) k)
  | ESetOwn :: k => (Some (e_path t), mkE (e_path t) (e_prev t) (e_seen t) k)
  | EMacroRead :: k => (r, mkE (e_path t) (e_prev t) (e_seen t ++ [r]) k)
  | ERestore :: k => (e_prev t, mkE (e_path t) (e_prev t) (e_seen t) k)
  end.

Definition esched_step (cfg : envreg * list ethread) (j : nat) : envreg * list ethread :=
  let (r, ts) := cfg in
  match nth_error ts j with
  | Some t => let (r', t') := estep r t in (r', set_nth ts j t')
  | None => (r, ts)
  end.

Definition erun (r : envreg) (ts : list ethread) (sched : list nat) : envreg * list ethread :=
  fold_left esched_step sched (r, ts).
