(* Interner/Sites.v — every HashMap/HashSet iteration site found in the current source is classified. *)
From Coq Require Import String List Bool.
From Mimium Require Import Tables.HashIterSites Interner.SiteClasses.
Import ListNotations.
Open Scope string_scope.

Lemma sites_classified : forallb (classified site_classes) hash_iter_sites = true.
Proof. vm_compute. reflexivity. Qed.

(* the only sites whose order reaches an artefact are the constructor registrations of finding F20 *)
Definition observable_only_in (fn : string) (s : string * string * string * string) : bool :=
  match class_of site_classes s with
  | Some Observable => String.eqb (snd (fst (fst s))) fn
  | Some _ => true
  | None => false
  end.

Lemma observable_sites_known :
  forallb (observable_only_in "InferContext::register_type_declarations") hash_iter_sites = true.
Proof. vm_compute. reflexivity. Qed.

(* every sort / binary search / comparison / BTreeMap<Symbol,_> walk of the current source is classified *)
Lemma symbol_order_sites_classified : forallb (classified order_classes) symbol_order_sites = true.
Proof. vm_compute. reflexivity. Qed.

(* ... and none of them is ordered by Symbol *)
Definition not_symbol_order (s : string * string * string * string) : bool :=
  match class_of order_classes s with Some NotSymbolOrder => true | _ => false end.

Lemma no_symbol_order_site : forallb not_symbol_order symbol_order_sites = true.
Proof. vm_compute. reflexivity. Qed.
