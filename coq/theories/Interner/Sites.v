(* Interner/Sites.v — every HashMap/HashSet iteration site found in the current source is classified. *)
From Coq Require Import String List Bool.
From Mimium Require Import Tables.HashIterSites Interner.SiteClasses.
Import ListNotations.
Open Scope string_scope.

Lemma sites_classified : forallb (classified site_classes) hash_iter_sites = true.
Proof. vm_compute. reflexivity. Qed.

(* the only sites whose order reaches an artefact are the constructor registrations of finding F20 *)
Definition observable_only_in (fn : string) (s : string * string * string * string) : bool :=
  match class_of site_classes s with
  | Some Observable => String.eqb (snd (fst (fst s))) fn
  | Some _ => true
  | None => false
  end.

Lemma observable_sites_known :
  forallb (observable_only_in "InferContext::register_type_declarations") hash_iter_sites = true.
Proof. vm_compute. reflexivity. Qed.
