(* Interner/Lemmas.v — facts about the interner model: resolve/intern laws, append-only storage, and the
   logical relation that makes the numeric ids unobservable for symbol programs (used by C15 and C19). *)
From Coq Require Import List String Bool Arith Lia.
From Mimium Require Import Interner.Model.
Import ListNotations.
Open Scope list_scope.

(* ------------------------------------------------------------------------------------------------ *)
(* lookup                                                                                           *)
(* ------------------------------------------------------------------------------------------------ *)

Lemma find_from_some : forall s t i j, find_from s t i = Some j -> i <= j /\ nth_error t (j - i) = Some s.
Proof.
  intros s t; induction t as [|x r IH]; intros i j H; cbn [find_from] in H; [discriminate|].
  destruct (String.eqb x s) eqn:E.
  - inversion H; subst j. apply String.eqb_eq in E; subst x. split; [lia|]. rewrite Nat.sub_diag. reflexivity.
  - apply IH in H. destruct H as [Hle Hn]. split; [lia|].
    replace (j - i) with (S (j - S i)) by lia. exact Hn.
Qed.

Lemma find_from_none : forall s t i, find_from s t i = None -> ~ In s t.
Proof.
  intros s t; induction t as [|x r IH]; intros i H; cbn [find_from] in H; [intros []|].
  destruct (String.eqb x s) eqn:E; [discriminate|].
  intros [Hx|Hr]; [subst x; rewrite String.eqb_refl in E; discriminate|]. exact (IH _ H Hr).
Qed.

Lemma lookup_some : forall t s j, lookup t s = Some j -> nth_error t j = Some s.
Proof. unfold lookup; intros t s j H. apply find_from_some in H. destruct H as [_ H]. now rewrite Nat.sub_0_r in H. Qed.

Lemma lookup_none : forall t s, lookup t s = None -> ~ In s t.
Proof. unfold lookup; intros t s H. exact (find_from_none _ _ _ H). Qed.

(* ------------------------------------------------------------------------------------------------ *)
(* well-formed storage, extension                                                                   *)
(* ------------------------------------------------------------------------------------------------ *)

Definition wf (g : glob) : Prop := NoDup (tbl g).

Definition ext (g g' : glob) : Prop := exists a b, tbl g' = tbl g ++ a /\ arena g' = arena g ++ b.

Lemma ext_refl : forall g, ext g g.
Proof. intros g; exists [], []. now rewrite !app_nil_r. Qed.

Lemma ext_trans : forall g1 g2 g3, ext g1 g2 -> ext g2 g3 -> ext g1 g3.
Proof.
  intros g1 g2 g3 (a & b & Ha & Hb) (c & d & Hc & Hd). exists (a ++ c), (b ++ d).
  rewrite Hc, Ha, Hd, Hb, !app_assoc. auto.
Qed.

Lemma nth_error_app_keep : forall {A} (l a : list A) i x, nth_error l i = Some x -> nth_error (l ++ a) i = Some x.
Proof.
  intros A l a i x H. rewrite nth_error_app1; [exact H|]. apply nth_error_Some. congruence.
Qed.

Lemma nth_error_last : forall {A} (l : list A) x, nth_error (l ++ [x]) (List.length l) = Some x.
Proof. intros A l x. rewrite nth_error_app2 by lia. now rewrite Nat.sub_diag. Qed.

Lemma NoDup_snoc : forall {A} (l : list A) x, NoDup l -> ~ In x l -> NoDup (l ++ [x]).
Proof.
  intros A l x H; induction H as [|y l Hy H IH]; intros Hx; cbn [app].
  - constructor; [intros []|constructor].
  - constructor.
    + intros Hin. apply in_app_or in Hin. destruct Hin as [Hin|[Hin|[]]]; [now apply Hy|]. subst y. apply Hx; now left.
    + apply IH. intros Hin. apply Hx; now right.
Qed.

Lemma wf_empty : wf empty_glob.
Proof. constructor. Qed.

Lemma intern_wf : forall g s, wf g -> wf (fst (intern g s)).
Proof.
  unfold wf, intern; intros g s H. destruct (lookup (tbl g) s) eqn:E; cbn [fst tbl]; [exact H|].
  apply lookup_none in E. apply NoDup_snoc; assumption.
Qed.

Lemma intern_ext : forall g s, ext g (fst (intern g s)).
Proof.
  unfold intern; intros g s. destruct (lookup (tbl g) s); cbn [fst]; [apply ext_refl|].
  exists [s], []. cbn [tbl arena]. now rewrite app_nil_r.
Qed.

Lemma store_wf : forall g v, wf g -> wf (fst (store g v)).
Proof. unfold wf, store; intros; exact H. Qed.

Lemma store_ext : forall g v, ext g (fst (store g v)).
Proof. unfold store; intros g v. exists [], [v]. cbn [fst tbl arena]. now rewrite app_nil_r. Qed.

(* resolve (intern h x) = x *)
Lemma intern_resolve : forall g s, resolve (fst (intern g s)) (snd (intern g s)) = Some s.
Proof.
  unfold intern, resolve; intros g s. destruct (lookup (tbl g) s) eqn:E; cbn [fst snd tbl].
  - exact (lookup_some _ _ _ E).
  - apply nth_error_last.
Qed.

Lemma store_load : forall g v, load (fst (store g v)) (snd (store g v)) = Some v.
Proof. unfold store, load; intros g v. cbn [fst snd arena]. apply nth_error_last. Qed.

(* append-only: what an id resolved to, it resolves to for ever *)
Lemma resolve_ext : forall g g' i s, ext g g' -> resolve g i = Some s -> resolve g' i = Some s.
Proof. unfold resolve; intros g g' i s (a & b & Ha & _) H. rewrite Ha. now apply nth_error_app_keep. Qed.

Lemma load_ext : forall g g' k v, ext g g' -> load g k = Some v -> load g' k = Some v.
Proof. unfold load; intros g g' k v (a & b & _ & Hb) H. rewrite Hb. now apply nth_error_app_keep. Qed.

Lemma hop_apply_wf : forall g o, wf g -> wf (hop_apply g o).
Proof. intros g [s|v] H; cbn [hop_apply]; [now apply intern_wf | now apply store_wf]. Qed.

Lemma hop_apply_ext : forall g o, ext g (hop_apply g o).
Proof. intros g [s|v]; cbn [hop_apply]; [apply intern_ext | apply store_ext]. Qed.

Lemma fold_hops_wf : forall h g, wf g -> wf (fold_left hop_apply h g).
Proof. induction h as [|o h IH]; intros g H; cbn [fold_left]; [exact H|]. apply IH. now apply hop_apply_wf. Qed.

Lemma replay_wf : forall h, wf (replay h).
Proof. intros h; unfold replay. apply fold_hops_wf, wf_empty. Qed.

Lemma wf_resolve_inj : forall g i j s, wf g -> resolve g i = Some s -> resolve g j = Some s -> i = j.
Proof.
  unfold wf, resolve; intros g i j s Hnd Hi Hj.
  pose proof (proj1 (NoDup_nth_error (tbl g)) Hnd) as Hinj.
  apply Hinj; [apply nth_error_Some; congruence | congruence].
Qed.

(* intern h x = intern h y <-> x = y, for two consecutive interns on any well-formed storage *)
Lemma intern_injective : forall g x y, wf g ->
  let g1 := fst (intern g x) in
  (snd (intern g x) = snd (intern g1 y) <-> x = y).
Proof.
  intros g x y Hwf g1. split.
  - intros Heq.
    pose proof (intern_resolve g x) as Hx. fold g1 in Hx.
    pose proof (intern_resolve g1 y) as Hy.
    pose proof (resolve_ext _ _ _ _ (intern_ext g1 y) Hx) as Hx'.
    rewrite Heq in Hx'. congruence.
  - intros <-.
    pose proof (intern_resolve g x) as Hx. fold g1 in Hx.
    pose proof (intern_resolve g1 x) as Hy.
    pose proof (resolve_ext _ _ _ _ (intern_ext g1 x) Hx) as Hx'.
    eapply wf_resolve_inj; [|exact Hx'|exact Hy].
    apply intern_wf. unfold g1. now apply intern_wf.
Qed.

(* the id handed out does not change when the same string is interned again later, whatever happened in between *)
Lemma intern_stable : forall g g' x, wf g' -> ext (fst (intern g x)) g' -> snd (intern g' x) = snd (intern g x).
Proof.
  intros g g' x Hwf Hext.
  pose proof (resolve_ext _ _ _ _ Hext (intern_resolve g x)) as H1.
  pose proof (intern_resolve g' x) as H2.
  pose proof (resolve_ext _ _ _ _ (intern_ext g' x) H1) as H1'.
  symmetry. eapply wf_resolve_inj; [|exact H1'|exact H2]. now apply intern_wf.
Qed.

Lemma fold_hops_ext : forall later g, ext g (fold_left hop_apply later g).
Proof.
  induction later as [|o later IH]; intros g; cbn [fold_left]; [apply ext_refl|].
  eapply ext_trans; [apply hop_apply_ext|apply IH].
Qed.

Lemma resolve_stable_hops : forall (h later : list hop) (x : string),
    resolve (fold_left hop_apply later (fst (intern (replay h) x))) (snd (intern (replay h) x)) = Some x.
Proof. intros h later x. eapply resolve_ext; [apply fold_hops_ext|apply intern_resolve]. Qed.

Lemma intern_stable_hops : forall (h later : list hop) (x : string),
    snd (intern (fold_left hop_apply later (fst (intern (replay h) x))) x) = snd (intern (replay h) x).
Proof.
  intros h later x. apply intern_stable; [|apply fold_hops_ext].
  apply fold_hops_wf. apply intern_wf. apply replay_wf.
Qed.

Lemma intern_resolve_hist : forall (h : list hop) (x : string),
    resolve (fst (intern (replay h) x)) (snd (intern (replay h) x)) = Some x.
Proof. intros h x. exact (intern_resolve (replay h) x). Qed.

Lemma intern_injective_hist : forall (h : list hop) (x y : string),
    snd (intern (replay h) x) = snd (intern (fst (intern (replay h) x)) y) <-> x = y.
Proof. intros h x y. exact (intern_injective (replay h) x y (replay_wf h)). Qed.

(* ------------------------------------------------------------------------------------------------ *)
(* the logical relation: two runs of the same code on two storages                                  *)
(* ------------------------------------------------------------------------------------------------ *)

Definition same_at (t1 t2 : list string) (i1 i2 : nat) : Prop :=
  exists s, nth_error t1 i1 = Some s /\ nth_error t2 i2 = Some s.

Record rel (g1 : glob) (s1 : tstate) (g2 : glob) (s2 : tstate) : Prop := mkRel {
  r_syms : Forall2 (same_at (tbl g1) (tbl g2)) (syms s1) (syms s2);
  r_keys : Forall2 (same_at (arena g1) (arena g2)) (keys s1) (keys s2);
  r_regs : regs s1 = regs s2;
  r_outs : outs s1 = outs s2;
  r_code : code s1 = code s2 }.

Lemma same_at_app : forall t1 t2 a b i1 i2, same_at t1 t2 i1 i2 -> same_at (t1 ++ a) (t2 ++ b) i1 i2.
Proof. intros t1 t2 a b i1 i2 (s & H1 & H2). exists s. split; now apply nth_error_app_keep. Qed.

Lemma Forall2_same_at_app : forall t1 t2 a b l1 l2,
  Forall2 (same_at t1 t2) l1 l2 -> Forall2 (same_at (t1 ++ a) (t2 ++ b)) l1 l2.
Proof.
  intros t1 t2 a b l1 l2 H. induction H as [|x y l1 l2 Hxy H IH]; constructor; [now apply same_at_app|exact IH].
Qed.

Lemma rel_ext : forall g1 s1 g2 s2 g1' g2', rel g1 s1 g2 s2 -> ext g1 g1' -> ext g2 g2' -> rel g1' s1 g2' s2.
Proof.
  intros g1 s1 g2 s2 g1' g2' [Hs Hk Hr Ho Hc] (a1 & b1 & Ha1 & Hb1) (a2 & b2 & Ha2 & Hb2).
  constructor; try assumption.
  - rewrite Ha1, Ha2. now apply Forall2_same_at_app.
  - rewrite Hb1, Hb2. now apply Forall2_same_at_app.
Qed.

Lemma Forall2_nth_error : forall {A B} (R : A -> B -> Prop) l1 l2 v, Forall2 R l1 l2 ->
  match nth_error l1 v, nth_error l2 v with
  | Some a, Some b => R a b
  | None, None => True
  | _, _ => False
  end.
Proof.
  intros A B R l1 l2 v H; revert v. induction H as [|a b l1 l2 Hab H IH]; intros [|v]; cbn [nth_error]; auto.
  apply IH.
Qed.

Lemma Forall2_snoc : forall {A B} (R : A -> B -> Prop) l1 l2 a b, Forall2 R l1 l2 -> R a b -> Forall2 R (l1 ++ [a]) (l2 ++ [b]).
Proof. intros. apply Forall2_app; [assumption|]. constructor; [assumption|constructor]. Qed.

Lemma same_at_eqb : forall t1 t2 i1 i2 j1 j2, NoDup t1 -> NoDup t2 ->
  same_at t1 t2 i1 i2 -> same_at t1 t2 j1 j2 -> Nat.eqb i1 j1 = Nat.eqb i2 j2.
Proof.
  intros t1 t2 i1 i2 j1 j2 N1 N2 (s & Hs1 & Hs2) (u & Hu1 & Hu2).
  pose proof (proj1 (NoDup_nth_error t1) N1) as I1. pose proof (proj1 (NoDup_nth_error t2) N2) as I2.
  destruct (Nat.eqb i1 j1) eqn:E1; destruct (Nat.eqb i2 j2) eqn:E2; try reflexivity; exfalso.
  - apply Nat.eqb_eq in E1; subst j1. apply Nat.eqb_neq in E2. apply E2.
    apply I2; [apply nth_error_Some; congruence | congruence].
  - apply Nat.eqb_eq in E2; subst j2. apply Nat.eqb_neq in E1. apply E1.
    apply I1; [apply nth_error_Some; congruence | congruence].
Qed.

(* interning the same string on both sides yields ids that denote the same string *)
Lemma intern_same_at : forall g1 g2 s,
  same_at (tbl (fst (intern g1 s))) (tbl (fst (intern g2 s))) (snd (intern g1 s)) (snd (intern g2 s)).
Proof. intros g1 g2 s. exists s. split; apply intern_resolve. Qed.

Lemma store_same_at : forall g1 g2 v,
  same_at (arena (fst (store g1 v))) (arena (fst (store g2 v))) (snd (store g1 v)) (snd (store g2 v)).
Proof. intros g1 g2 v. exists v. split; apply store_load. Qed.

Lemma step_ext : forall g st, ext g (fst (step g st)).
Proof.
  intros g st. unfold step.
  destruct (code st) as [|e k|v k|e k|v k|e k|a b k|a b k1 k2|v k|a b k]; cbn [fst]; try apply ext_refl.
  - pose proof (intern_ext g (eval (regs st) e)) as H. destruct (intern g (eval (regs st) e)); exact H.
  - destruct (nth_error (syms st) v); [destruct (resolve g n)|]; apply ext_refl.
  - pose proof (store_ext g (eval (regs st) e)) as H. destruct (store g (eval (regs st) e)); exact H.
  - destruct (nth_error (keys st) v); [destruct (load g n)|]; apply ext_refl.
  - destruct (nth_error (syms st) a), (nth_error (syms st) b); apply ext_refl.
  - destruct (nth_error (syms st) a), (nth_error (syms st) b); apply ext_refl.
  - destruct (nth_error (syms st) v); apply ext_refl.
  - destruct (nth_error (syms st) a), (nth_error (syms st) b); apply ext_refl.
Qed.

Lemma step_wf : forall g st, wf g -> wf (fst (step g st)).
Proof.
  intros g st H. unfold step.
  destruct (code st) as [|e k|v k|e k|v k|e k|a b k|a b k1 k2|v k|a b k]; cbn [fst]; try exact H.
  - pose proof (intern_wf g (eval (regs st) e) H) as H'. destruct (intern g (eval (regs st) e)); exact H'.
  - destruct (nth_error (syms st) v); [destruct (resolve g n)|]; exact H.
  - destruct (nth_error (keys st) v); [destruct (load g n)|]; exact H.
  - destruct (nth_error (syms st) a), (nth_error (syms st) b); exact H.
  - destruct (nth_error (syms st) a), (nth_error (syms st) b); exact H.
  - destruct (nth_error (syms st) v); exact H.
  - destruct (nth_error (syms st) a), (nth_error (syms st) b); exact H.
Qed.

Lemma rel_halt : forall g1 s1 g2 s2, rel g1 s1 g2 s2 -> rel g1 (halt s1) g2 (halt s2).
Proof. intros g1 s1 g2 s2 [Hs Hk Hr Ho Hc]. constructor; cbn [halt syms keys regs outs code]; congruence || assumption. Qed.

(* THE step lemma: related states of a symbol program step to related states *)
Lemma step_rel : forall g1 s1 g2 s2, wf g1 -> wf g2 -> rel g1 s1 g2 s2 -> symbolic (code s1) = true ->
  rel (fst (step g1 s1)) (snd (step g1 s1)) (fst (step g2 s2)) (snd (step g2 s2))
  /\ symbolic (code (snd (step g1 s1))) = true.
Proof.
  intros g1 s1 g2 s2 W1 W2 R Sy. pose proof R as [Hs Hk Hr Ho Hc].
  unfold step. rewrite <- Hc.
  destruct (code s1) as [|e k|v k|e k|v k|e k|a b k|a b k1 k2|v k|a b k] eqn:Ec; cbn [symbolic] in Sy; try discriminate.
  - (* Done *) cbn [fst snd]. split; [exact R|]. rewrite Ec. reflexivity.
  - (* Intern *)
    rewrite <- Hr.
    pose proof (intern_same_at g1 g2 (eval (regs s1) e)) as Hsa.
    pose proof (intern_ext g1 (eval (regs s1) e)) as E1. pose proof (intern_ext g2 (eval (regs s1) e)) as E2.
    destruct (intern g1 (eval (regs s1) e)) as [g1' i1]. destruct (intern g2 (eval (regs s1) e)) as [g2' i2].
    cbn [fst snd] in *. split; [|exact Sy].
    pose proof (rel_ext _ _ _ _ _ _ R E1 E2) as [Hs' Hk' _ _ _].
    constructor; cbn [syms keys regs outs code]; try assumption; try reflexivity. now apply Forall2_snoc.
  - (* Resolve *)
    pose proof (Forall2_nth_error _ _ _ v Hs) as Hv.
    destruct (nth_error (syms s1) v) as [i1|], (nth_error (syms s2) v) as [i2|]; try contradiction.
    + destruct Hv as (s & H1 & H2). unfold resolve. rewrite H1, H2. cbn [fst snd]. split; [|exact Sy].
      constructor; cbn [syms keys regs outs code]; try assumption; try reflexivity. now rewrite Hr.
    + cbn [fst snd]. split; [now apply rel_halt | reflexivity].
  - (* Store *)
    rewrite <- Hr.
    pose proof (store_same_at g1 g2 (eval (regs s1) e)) as Hsa.
    pose proof (store_ext g1 (eval (regs s1) e)) as E1. pose proof (store_ext g2 (eval (regs s1) e)) as E2.
    destruct (store g1 (eval (regs s1) e)) as [g1' i1]. destruct (store g2 (eval (regs s1) e)) as [g2' i2].
    cbn [fst snd] in *. split; [|exact Sy].
    pose proof (rel_ext _ _ _ _ _ _ R E1 E2) as [Hs' Hk' _ _ _].
    constructor; cbn [syms keys regs outs code]; try assumption; try reflexivity. now apply Forall2_snoc.
  - (* Load *)
    pose proof (Forall2_nth_error _ _ _ v Hk) as Hv.
    destruct (nth_error (keys s1) v) as [i1|], (nth_error (keys s2) v) as [i2|]; try contradiction.
    + destruct Hv as (s & H1 & H2). unfold load. rewrite H1, H2. cbn [fst snd]. split; [|exact Sy].
      constructor; cbn [syms keys regs outs code]; try assumption; try reflexivity. now rewrite Hr.
    + cbn [fst snd]. split; [now apply rel_halt | reflexivity].
  - (* Emit *)
    cbn [fst snd]. split; [|exact Sy]. unfold emit.
    constructor; cbn [syms keys regs outs code]; try assumption; try reflexivity. now rewrite Hr, Ho.
  - (* EmitEq *)
    pose proof (Forall2_nth_error _ _ _ a Hs) as Ha. pose proof (Forall2_nth_error _ _ _ b Hs) as Hb.
    destruct (nth_error (syms s1) a) as [i1|], (nth_error (syms s2) a) as [i2|]; try contradiction;
    destruct (nth_error (syms s1) b) as [j1|], (nth_error (syms s2) b) as [j2|]; try contradiction;
    cbn [fst snd]; try (split; [now apply rel_halt | reflexivity]).
    split; [|exact Sy]. rewrite (same_at_eqb _ _ _ _ _ _ W1 W2 Ha Hb). unfold emit.
    constructor; cbn [syms keys regs outs code]; try assumption; try reflexivity. now rewrite Ho.
  - (* IfEq *)
    apply andb_true_iff in Sy. destruct Sy as [Sy1 Sy2].
    pose proof (Forall2_nth_error _ _ _ a Hs) as Ha. pose proof (Forall2_nth_error _ _ _ b Hs) as Hb.
    destruct (nth_error (syms s1) a) as [i1|], (nth_error (syms s2) a) as [i2|]; try contradiction;
    destruct (nth_error (syms s1) b) as [j1|], (nth_error (syms s2) b) as [j2|]; try contradiction;
    cbn [fst snd]; try (split; [now apply rel_halt | reflexivity]).
    rewrite (same_at_eqb _ _ _ _ _ _ W1 W2 Ha Hb).
    split; [constructor; cbn [syms keys regs outs code]; try assumption; reflexivity|].
    cbn [code]. destruct (Nat.eqb i2 j2); assumption.
Qed.

(* ------------------------------------------------------------------------------------------------ *)
(* solo runs                                                                                        *)
(* ------------------------------------------------------------------------------------------------ *)

Lemma run_solo_wf_ext : forall n g st, wf g -> wf (fst (run_solo g st n)) /\ ext g (fst (run_solo g st n)).
Proof.
  induction n as [|n IH]; intros g st H; cbn [run_solo]; [split; [exact H|apply ext_refl]|].
  destruct (IH g st H) as [W E]. destruct (run_solo g st n) as [g' st']. cbn [fst] in *.
  pose proof (step_wf g' st' W) as W'. pose proof (step_ext g' st') as E'.
  destruct (step g' st') as [g'' st'']. cbn [fst] in *. split; [exact W'|eapply ext_trans; eassumption].
Qed.

Lemma rel_init : forall g1 g2 p, rel g1 (init p) g2 (init p).
Proof. intros; constructor; cbn [init syms keys regs outs code]; constructor || reflexivity. Qed.

Lemma run_solo_rel : forall n g1 s1 g2 s2, wf g1 -> wf g2 -> rel g1 s1 g2 s2 -> symbolic (code s1) = true ->
  rel (fst (run_solo g1 s1 n)) (snd (run_solo g1 s1 n)) (fst (run_solo g2 s2 n)) (snd (run_solo g2 s2 n))
  /\ symbolic (code (snd (run_solo g1 s1 n))) = true.
Proof.
  induction n as [|n IH]; intros g1 s1 g2 s2 W1 W2 R Sy; cbn [run_solo]; [split; assumption|].
  destruct (IH _ _ _ _ W1 W2 R Sy) as [R' Sy'].
  destruct (run_solo_wf_ext n g1 s1 W1) as [W1' _]. destruct (run_solo_wf_ext n g2 s2 W2) as [W2' _].
  destruct (run_solo g1 s1 n) as [g1' s1']. destruct (run_solo g2 s2 n) as [g2' s2']. cbn [fst snd] in *.
  pose proof (step_rel _ _ _ _ W1' W2' R' Sy') as H.
  destruct (step g1' s1') as [g1'' s1'']. destruct (step g2' s2') as [g2'' s2'']. exact H.
Qed.

(* any two histories: the same observations after any number of steps *)
Lemma history_independent_steps : forall h1 h2 p n, symbolic p = true ->
  outs (snd (run_solo (replay h1) (init p) n)) = outs (snd (run_solo (replay h2) (init p) n))
  /\ code (snd (run_solo (replay h1) (init p) n)) = code (snd (run_solo (replay h2) (init p) n)).
Proof.
  intros h1 h2 p n Sy.
  destruct (run_solo_rel n _ _ _ _ (replay_wf h1) (replay_wf h2) (rel_init _ _ p) Sy) as [[_ _ _ Ho Hc] _].
  split; assumption.
Qed.

Lemma history_independent : forall h1 h2 p, symbolic p = true -> observe h1 p = observe h2 p.
Proof. intros h1 h2 p Sy. unfold observe. exact (proj1 (history_independent_steps h1 h2 p (size p) Sy)). Qed.

(* completion: after size p steps the program is Done, and stays so *)
Lemma step_size : forall g st, size (code (snd (step g st))) <= pred (size (code st)).
Proof.
  intros g st. unfold step.
  destruct (code st) as [|e k|v k|e k|v k|e k|a b k|a b k1 k2|v k|a b k] eqn:Ec; cbn [size pred].
  - cbn [snd]. rewrite Ec. cbn [size]. lia.
  - destruct (intern g (eval (regs st) e)). cbn [snd code]. lia.
  - destruct (nth_error (syms st) v); [destruct (resolve g n)|]; cbn [snd code halt size]; lia.
  - destruct (store g (eval (regs st) e)). cbn [snd code]. lia.
  - destruct (nth_error (keys st) v); [destruct (load g n)|]; cbn [snd code halt size]; lia.
  - cbn [snd emit code]. lia.
  - destruct (nth_error (syms st) a), (nth_error (syms st) b); cbn [snd emit code halt size]; lia.
  - destruct (nth_error (syms st) a), (nth_error (syms st) b); cbn [snd code halt size]; try lia.
    destruct (Nat.eqb n n0); lia.
  - destruct (nth_error (syms st) v); cbn [snd emit code halt size]; lia.
  - destruct (nth_error (syms st) a), (nth_error (syms st) b); cbn [snd emit code halt size]; lia.
Qed.

Lemma run_solo_size : forall n g st, size (code (snd (run_solo g st n))) <= size (code st) - n.
Proof.
  induction n as [|n IH]; intros g st; cbn [run_solo]; [cbn [snd]; lia|].
  specialize (IH g st). destruct (run_solo g st n) as [g' st']. cbn [snd] in IH.
  pose proof (step_size g' st') as H. destruct (step g' st') as [g'' st'']. cbn [snd] in *. lia.
Qed.

Lemma size_0_done : forall p, size p = 0 -> p = Done.
Proof. intros [] H; cbn [size] in H; try discriminate; reflexivity. Qed.

Lemma step_done : forall g st, code st = Done -> step g st = (g, st).
Proof. intros g st H. unfold step. now rewrite H. Qed.

Lemma run_solo_done_stable : forall m g st, code st = Done -> run_solo g st m = (g, st).
Proof. induction m as [|m IH]; intros g st H; cbn [run_solo]; [reflexivity|]. rewrite (IH g st H). now apply step_done. Qed.

Lemma run_solo_add : forall m n g st, run_solo g st (n + m) = run_solo (fst (run_solo g st n)) (snd (run_solo g st n)) m.
Proof.
  induction m as [|m IH]; intros n g st.
  - rewrite Nat.add_0_r. cbn [run_solo]. now destruct (run_solo g st n).
  - rewrite Nat.add_succ_r. cbn [run_solo]. now rewrite IH.
Qed.

Lemma run_solo_complete : forall g p n, size p <= n ->
  code (snd (run_solo g (init p) n)) = Done /\ outs (snd (run_solo g (init p) n)) = outs (snd (run_solo g (init p) (size p))).
Proof.
  intros g p n Hn. replace n with (size p + (n - size p)) by lia. rewrite run_solo_add.
  assert (Hd : code (snd (run_solo g (init p) (size p))) = Done).
  { apply size_0_done. pose proof (run_solo_size (size p) g (init p)) as H. cbn [init code] in H. lia. }
  rewrite (run_solo_done_stable _ _ _ Hd). cbn [snd]. split; [exact Hd|reflexivity].
Qed.
