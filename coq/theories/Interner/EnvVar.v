(* Interner/EnvVar.v — the process-wide environment variable MIMIUM_CURRENT_MACRO_FILE is NOT interleaving-safe. *)
From Coq Require Import List String Bool Arith.
From Mimium Require Import Interner.Model.
Import ListNotations.
Open Scope string_scope.

Definition thread_A := einit "a/a.mmm".
Definition thread_B := einit "b/b.mmm".

(* A: previous := unset; A: set a     B: previous := a; B: set b     A's macro reads (sees b)   A: restore (unset)
   B's macro reads (sees nothing)   B: restore (a) *)
Definition bad_schedule : list nat := [0; 0; 1; 1; 0; 0; 1; 1].

Definition seen_of (cfg : envreg * list ethread) (i : nat) : list envreg :=
  match nth_error (snd cfg) i with Some t => e_seen t | None => [] end.

(* alone, a compilation's macro sees the compilation's own file, and the variable is unset afterwards *)
Lemma env_solo_ok : forall path,
  erun None [einit path] [0; 0; 0; 0] = (None, [mkE path None [Some path] []]).
Proof. intros path. reflexivity. Qed.

(* two threads: one schedule in which A's macro reads B's file, B's macro reads no file at all, and the variable is
   left set to A's file after both compilations have finished *)
Lemma env_race :
  let final := erun None [thread_A; thread_B] bad_schedule in
  seen_of final 0 = [Some "b/b.mmm"] /\ seen_of final 1 = [None] /\ fst final = Some "a/a.mmm"
  /\ (forall i t, nth_error (snd final) i = Some t -> e_code t = []).
Proof.
  vm_compute. repeat split.
  intros [|[|[|i]]] t H; cbn in H; inversion H; reflexivity.
Qed.

Lemma env_race_exists :
  exists sched : list nat,
    let final := erun None [einit "a/a.mmm"; einit "b/b.mmm"] sched in
    seen_of final 0 = [Some "b/b.mmm"] /\ seen_of final 1 = [None] /\ fst final = Some "a/a.mmm"
    /\ (forall i t, nth_error (snd final) i = Some t -> e_code t = []).
Proof. exists bad_schedule. exact env_race. Qed.
