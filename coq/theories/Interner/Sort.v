(* Interner/Sort.v — order-insensitive consumers of a hash map's iteration order:
   sort_by_key on unique keys (wasmgen.rs build_name_section) and a running maximum
   (wasmgen.rs compute_max_register_indices). *)
From Coq Require Import List String Bool Arith Lia Permutation Sorted.
From Mimium Require Import Interner.Model.
Import ListNotations.
Open Scope list_scope.

Section SortByKey.
  Context {A : Type}.
  Notation elt := (nat * A)%type.
  Definition kle (a b : elt) : Prop := fst a <= fst b.

  Lemma insert_perm : forall (x : elt) l, Permutation (x :: l) (insert_by_key x l).
  Proof.
    intros x l; induction l as [|y r IH]; cbn [insert_by_key]; [reflexivity|].
    destruct (Nat.leb (fst x) (fst y)); [reflexivity|].
    eapply perm_trans; [apply perm_swap|]. now apply perm_skip.
  Qed.

  Lemma sort_perm : forall l : list elt, Permutation l (sort_by_key l).
  Proof.
    induction l as [|x l IH]; cbn [sort_by_key fold_right]; [reflexivity|].
    eapply perm_trans; [apply perm_skip; exact IH|]. apply insert_perm.
  Qed.

  Lemma insert_sorted : forall (x : elt) l, StronglySorted kle l -> StronglySorted kle (insert_by_key x l).
  Proof.
    intros x l H; induction H as [|y r Hr IH Hy]; cbn [insert_by_key].
    - constructor; constructor.
    - destruct (Nat.leb (fst x) (fst y)) eqn:E.
      + apply Nat.leb_le in E. constructor; [constructor; assumption|].
        constructor; [exact E|]. eapply Forall_impl; [|exact Hy]. unfold kle; intros; lia.
      + apply Nat.leb_gt in E. constructor; [exact IH|].
        eapply Permutation_Forall; [apply insert_perm|]. constructor; [unfold kle; lia|exact Hy].
  Qed.

  Lemma sort_sorted : forall l : list elt, StronglySorted kle (sort_by_key l).
  Proof. induction l as [|x l IH]; cbn [sort_by_key fold_right]; [constructor|]. now apply insert_sorted. Qed.

  Lemma nodup_keys_inj : forall (l : list elt) a b, NoDup (map fst l) -> In a l -> In b l -> fst a = fst b -> a = b.
  Proof.
    induction l as [|x l IH]; intros a b H Ha Hb E; [destruct Ha|].
    cbn [map] in H. inversion H as [|? ? Hx Hl]; subst.
    destruct Ha as [<-|Ha], Hb as [<-|Hb]; [reflexivity| | |now apply IH].
    - exfalso; apply Hx. rewrite E. now apply in_map.
    - exfalso; apply Hx. rewrite <- E. now apply in_map.
  Qed.

  Lemma sorted_perm_unique : forall l1 l2 : list elt, StronglySorted kle l1 -> StronglySorted kle l2 ->
    NoDup (map fst l2) -> Permutation l1 l2 -> l1 = l2.
  Proof.
    induction l1 as [|a r1 IH]; intros l2 S1 S2 N P.
    - apply Permutation_nil in P. now subst.
    - destruct l2 as [|b r2]; [apply Permutation_sym, Permutation_nil in P; discriminate|].
      inversion S1 as [|? ? S1' Ha]; subst. inversion S2 as [|? ? S2' Hb]; subst.
      assert (Hab : a = b).
      { assert (Ia : In a (b :: r2)) by (eapply Permutation_in; [exact P|now left]).
        assert (Ib : In b (a :: r1)) by (eapply Permutation_in; [apply Permutation_sym; exact P|now left]).
        apply (nodup_keys_inj (b :: r2)); [exact N|exact Ia|now left|].
        assert (fst b <= fst a).
        { destruct Ia as [->|Ia]; [lia|]. rewrite Forall_forall in Hb. exact (Hb _ Ia). }
        assert (fst a <= fst b).
        { destruct Ib as [->|Ib]; [lia|]. rewrite Forall_forall in Ha. exact (Ha _ Ib). }
        lia. }
      subst b. f_equal. apply IH; [assumption|assumption| |eapply Permutation_cons_inv; exact P].
      cbn [map] in N. now inversion N.
  Qed.

  (* the output of sort_by_key depends only on the multiset of the pairs, when the keys are pairwise different *)
  Lemma sorted_canonical : forall l l' : list elt, NoDup (map fst l) -> Permutation l l' -> sort_by_key l = sort_by_key l'.
  Proof.
    intros l l' N P. apply sorted_perm_unique; try apply sort_sorted.
    - eapply Permutation_NoDup; [|exact N]. apply Permutation_map.
      eapply perm_trans; [exact P|apply sort_perm].
    - eapply perm_trans; [apply Permutation_sym, sort_perm|]. eapply perm_trans; [exact P|apply sort_perm].
  Qed.
End SortByKey.

Lemma sorted_canonical_any : forall (A : Type) (l l' : list (nat * A)),
    NoDup (map fst l) -> Permutation l l' -> sort_by_key l = sort_by_key l'.
Proof. intros A l l'. exact (sorted_canonical l l'). Qed.

Open Scope string_scope.
(* with two equal keys the (stable) sort keeps the incoming order: the hypothesis above is necessary *)
Lemma sort_dup_keys_order_dependent :
  exists l l' : list (nat * string), Permutation l l' /\ sort_by_key l <> sort_by_key l'.
Proof.
  exists [(0, "a"); (0, "b")], [(0, "b"); (0, "a")]. split; [apply perm_swap|]. vm_compute. discriminate.
Qed.
Close Scope string_scope.

Lemma fold_max_perm : forall l l', Permutation l l' -> forall a, fold_left Nat.max l a = fold_left Nat.max l' a.
Proof.
  intros l l' P; induction P as [|x l l' P IH|x y l|l l' l'' P1 IH1 P2 IH2]; intros a; cbn [fold_left].
  - reflexivity.
  - apply IH.
  - f_equal. lia.
  - now rewrite IH1.
Qed.

Lemma max_fold_perm : forall l l', Permutation l l' -> max_fold l = max_fold l'.
Proof. intros l l' P. unfold max_fold. now apply fold_max_perm. Qed.
