(* Staging/Model.v — executable Gallina transcription of the macro-stage machinery of mimium-rs:

     crates/lib/mimium-lang/src/compiler/translate_staging.rs   (translate, translate_stage0, translate_code,
                                                                 translate_code_match, encode_match_pattern,
                                                                 translate_let_pattern, translate_let_tuple_pattern,
                                                                 fresh_desugar_name, strip_code_type, ...)
     crates/lib/mimium-lang/src/plugin/codegen_combinators.rs   (the registered combinators: `prim`)
     crates/lib/mimium-lang/src/compiler/mirgen/convert_pronoun.rs  convert_macroexpand  (`f!(a)` sugar)
     crates/lib/mimium-lang/src/interpreter.rs                  (reference reading of Bracket/Escape: `rebuild`)

   No proofs in this file (the model must keep running when a proof breaks).

   Transcription notes
   * ExprNodeId / TypeNodeId / Symbol are structural values (expr / ty / string); spans are dropped.
   * `Literal::Float(sym)` carries the f64 the symbol denotes (`spec_float`, IEEE-754 binary64 with the
     arithmetic of Coq's SpecFloat library: exactly what the stage-0 VM computes).  The f64 -> string ->
     parse path of `code_lit_f` / `lift` is the identity here; the check tests the real round trip.
   * `type_id_to_int_literal(ty)` is `ELit (LTy ty)`: the integer is the slotmap key of `ty`, an opaque id.
     Types are structural for the constructors `strip_code_type` inspects and opaque (`TOpq`) otherwise.
   * DESUGAR_COUNTER (thread local, never reset) is threaded explicitly: every translation function takes
     the counter and returns the new one.
   * The stage-0 VM is modelled by `ev`: closures, let/letrec, if, the arithmetic intrinsics on f64 and the
     registered combinators (`prim`); name resolution of combinators goes through Tables/Combinators.v
     (regenerated from the source), so an unregistered combinator is unbound exactly like on the real VM.
     Fuel is consumed by closure application only (everything else is structural).  Forms the model does
     not support evaluate to the explicit error `Stuck`.
   * `ev` on `EBracket e` is the reference reading of a quotation (interpreter.rs `rebuild`): the quoted
     expression itself, with every `EEscape s` replaced by the code value `s` evaluates to. *)
From Coq Require Import List String ZArith Bool Ascii DecimalString.
From Coq Require Import Floats.SpecFloat.
From Mimium Require Import Tables.Combinators.
Import ListNotations.
Local Open Scope string_scope.

(* ------------------------------------------------------------------------------------------ *)
(* Syntax                                                                                      *)
(* ------------------------------------------------------------------------------------------ *)

Definition num := spec_float.
Definition f64_prec : Z := 53.
Definition f64_emax : Z := 1024.

(* types.rs Type *)
Inductive ty : Type :=
| TOpq (s : string)                       (* everything strip_code_type does not look into *)
| TCode (t : ty)
| TFun (a r : ty)
| TTuple (l : list ty)
| TRecord (l : list (string * ty * bool))
| TArray (t : ty)
| TRef (t : ty).

Definition ty_unknown : ty := TOpq "unknown".   (* Type::Unknown *)
Definition ty_numeric : ty := TOpq "number".    (* numeric!() *)

(* ast.rs Literal; LTy t = Literal::Int(<slotmap key of t>) produced by type_id_to_int_literal *)
Inductive lit : Type :=
| LFloat (q : num) | LInt (z : Z) | LString (s : string)
| LSelf | LNow | LSampleRate | LPlaceHolder
| LTy (t : ty).

(* pattern.rs Pattern *)
Inductive pat : Type :=
| PSingle (s : string) | PPlaceholder | PTuple (l : list pat) | PRecord (l : list (string * pat)) | PError.

(* ast.rs MatchPattern *)
Inductive mpat : Type :=
| MLit (l : lit) | MWild | MVar (s : string) | MCtor (s : string) (inner : option mpat) | MTuple (l : list mpat).

(* ast.rs Expr. Lambda parameters are TypedId = (id, ty, default_value); Let carries TypedPattern (pat, ty) *)
Inductive expr : Type :=
| ELit (l : lit)
| EVar (x : string)
| EQualifiedVar (segs : list string)
| EBlock (b : option expr)
| ETuple (es : list expr)
| EProj (e : expr) (i : Z)
| EArrayAccess (a i : expr)
| EArrayLiteral (es : list expr)
| ERecordLiteral (fs : list (string * expr))
| EImcompleteRecord (fs : list (string * expr))
| ERecordUpdate (r : expr) (fs : list (string * expr))
| EFieldAccess (r : expr) (f : string)
| EApply (f : expr) (args : list expr)
| EMacroExpand (f : expr) (args : list expr)
| EBinOp (l : expr) (op : string) (r : expr)
| EUniOp (op : string) (e : expr)
| EParen (e : expr)
| ELambda (ps : list (string * ty * option expr)) (rt : option ty) (body : expr)
| EAssign (l r : expr)
| EThen (a : expr) (b : option expr)
| EFeed (x : string) (body : expr)
| ELet (p : pat) (t : ty) (v : expr) (body : option expr)
| ELetRec (x : string) (t : ty) (v : expr) (body : option expr)
| EIf (c t : expr) (e : option expr)
| EMatch (s : expr) (arms : list (mpat * expr))
| EBracket (e : expr)
| EEscape (e : expr)
| EError.

(* ------------------------------------------------------------------------------------------ *)
(* translate_staging.rs                                                                        *)
(* ------------------------------------------------------------------------------------------ *)

Definition OP_INTRINSIC_MARKER_NS : string := "__mimium_op_intrinsic".

(* segments.join("$") *)
Fixpoint join_dollar (l : list string) : string :=
  match l with
  | [] => ""
  | [x] => x
  | x :: r => x ++ "$" ++ join_dollar r
  end.

(* mangle_qualified_segments *)
Definition mangle_qualified_segments (segs : list string) : string :=
  match segs with
  | [] => ""
  | [ns; name] => if String.eqb ns OP_INTRINSIC_MARKER_NS then name else join_dollar segs
  | [single] => single
  | _ => join_dollar segs
  end.

(* strip_code_type *)
Fixpoint strip_code_type (t : ty) : ty :=
  match t with
  | TCode _ => ty_numeric
  | TFun a r => TFun (strip_code_type a) (strip_code_type r)
  | TTuple l => TTuple (map strip_code_type l)
  | TRecord l => TRecord (map (fun f => match f with (k, t, d) => (k, strip_code_type t, d) end) l)
  | TArray t => TArray (strip_code_type t)
  | TRef t => TRef (strip_code_type t)
  | TOpq s => TOpq s
  end.

(* AST-construction helpers *)
Definition make_apply (name : string) (args : list expr) : expr := EApply (EVar name) args.
Definition make_apply1 (name : string) (a : expr) : expr := make_apply name [a].
Definition make_apply0 (name : string) : expr := make_apply name [].
Definition sym_to_string_literal (s : string) : expr := ELit (LString s).
Definition make_apply_str (name : string) (s : string) : expr := make_apply1 name (sym_to_string_literal s).
Definition code_unit_expr : expr := make_apply1 "code_tuple" (EArrayLiteral []).
Definition type_id_to_int_literal (t : ty) : expr := ELit (LTy t).
Definition type_ids_to_int_array_literal (ts : list ty) : expr := EArrayLiteral (map type_id_to_int_literal ts).

(* format!("__dt{n}") *)
Definition desugar_name (n : nat) : string := "__dt" ++ NilEmpty.string_of_uint (Nat.to_uint n).

(* pattern_to_symbol *)
Fixpoint pattern_to_symbol (p : pat) : string :=
  match p with
  | PSingle n => n
  | PPlaceholder => "_"
  | PTuple ps => match ps with [] => "_" | q :: _ => pattern_to_symbol q end
  | PRecord fs => match fs with [] => "_" | (n, _) :: _ => n end
  | PError => "_"
  end.

(* first loop of translate_let_tuple_pattern: the top-level names; a nested tuple gets a fresh temp *)
Fixpoint top_names (ps : list pat) (k : nat) : list string * nat :=
  match ps with
  | [] => ([], k)
  | p :: r =>
      match p with
      | PSingle n => let '(ns, k') := top_names r k in (n :: ns, k')
      | PPlaceholder => let '(ns, k') := top_names r k in ("_" :: ns, k')
      | PTuple _ => let '(ns, k') := top_names r (S k) in (desugar_name k :: ns, k')   (* fresh_desugar_name() *)
      | PRecord _ | PError => let '(ns, k') := top_names r k in (pattern_to_symbol p :: ns, k')
      end
  end.

(* translate_let_tuple_pattern(pats, val, body) for p = PTuple pats; for any other p the body is returned
   unchanged (this is how the `nested` work list, processed in reverse, is expressed structurally):
   the temps of all top-level positions are drawn first, then the nested positions are wrapped from
   the last to the first, each drawing its own temps. *)
Fixpoint wrap_tuple_pat (p : pat) (v body : expr) (k : nat) {struct p} : expr * nat :=
  match p with
  | PTuple sub =>
      let '(names, k1) := top_names sub k in
      let '(b, k2) :=
        (fix wrap (qs : list pat) (ns : list string) (k : nat) {struct qs} : expr * nat :=
           match qs, ns with
           | q :: qs', n :: ns' =>
               let '(b1, k1) := wrap qs' ns' k in
               wrap_tuple_pat q (make_apply_str "code_var" n) b1 k1
           | _, _ => (body, k)
           end) sub names k1 in
      (make_apply "code_let_tuple" [EArrayLiteral (map sym_to_string_literal names); v; b], k2)
  | _ => (body, k)
  end.

(* translate_let_pattern *)
Definition translate_let_pattern (p : pat) (v body : expr) (k : nat) : expr * nat :=
  match p with
  | PSingle n => (make_apply "code_let" [sym_to_string_literal n; v; body], k)
  | PPlaceholder => (make_apply "code_let" [sym_to_string_literal "_"; v; body], k)
  | PTuple _ => wrap_tuple_pat p v body k
  | PRecord _ | PError => (make_apply "code_let" [sym_to_string_literal (pattern_to_symbol p); v; body], k)
  end.

(* encode_match_pattern *)
Fixpoint encode_match_pattern (p : mpat) : expr :=
  match p with
  | MWild => ELit (LInt 0)
  | MVar n => ELit (LString n)
  | MLit l => ELit l
  | MCtor n inner =>
      ETuple (ELit (LInt 1) :: ELit (LString n) ::
              match inner with Some i => [encode_match_pattern i] | None => [] end)
  | MTuple ps => ETuple (ELit (LInt 2) :: map encode_match_pattern ps)
  end.

(* state-passing map (Vec::into_iter().map(f).collect() with the counter threaded left to right) *)
Definition mapS {A B : Type} (f : A -> nat -> B * nat) : list A -> nat -> list B * nat :=
  fix go (l : list A) (k : nat) : list B * nat :=
    match l with
    | [] => ([], k)
    | a :: r => let '(b, k1) := f a k in let '(bs, k2) := go r k1 in (b :: bs, k2)
    end.

Definition optS {A B : Type} (f : A -> nat -> B * nat) (o : option A) (k : nat) : option B * nat :=
  match o with
  | Some a => let '(b, k1) := f a k in (Some b, k1)
  | None => (None, k)
  end.

Definition has_default (p : string * ty * option expr) : bool :=
  match p with (_, _, Some _) => true | _ => false end.

Definition float_one : num := S754_finite false 4503599627370496 (-52).   (* "1.0" *)
Definition float_zero : num := S754_zero false.                           (* "0.0" *)

(* translate_stage0 / translate_code *)
Fixpoint translate_stage0 (e : expr) (k : nat) {struct e} : expr * nat :=
  match e with
  | EBracket inner => translate_code inner k
  | EEscape _ => (e, k)                                   (* "unexpected Escape at stage 0": left as is *)
  | ELet p t v body =>
      let '(v', k1) := translate_stage0 v k in
      let '(b', k2) := optS translate_stage0 body k1 in
      (ELet p (strip_code_type t) v' b', k2)
  | ELetRec x t v body =>
      let '(v', k1) := translate_stage0 v k in
      let '(b', k2) := optS translate_stage0 body k1 in
      (ELetRec x (strip_code_type t) v' b', k2)
  | ELambda ps rt body =>
      let ps' := map (fun p => match p with (x, t, d) => (x, strip_code_type t, d) end) ps in
      let '(b', k1) := translate_stage0 body k in
      (ELambda ps' (option_map strip_code_type rt) b', k1)
  | EApply f args =>
      let '(f', k1) := translate_stage0 f k in
      let '(args', k2) := mapS translate_stage0 args k1 in
      (EApply f' args', k2)
  | EIf c t el =>
      let '(c', k1) := translate_stage0 c k in
      let '(t', k2) := translate_stage0 t k1 in
      let '(el', k3) := optS translate_stage0 el k2 in
      (EIf c' t' el', k3)
  | EThen a b =>
      let '(a', k1) := translate_stage0 a k in
      let '(b', k2) := optS translate_stage0 b k1 in
      (EThen a' b', k2)
  | EBlock b => let '(b', k1) := optS translate_stage0 b k in (EBlock b', k1)
  | ETuple es => let '(es', k1) := mapS translate_stage0 es k in (ETuple es', k1)
  | EArrayLiteral es => let '(es', k1) := mapS translate_stage0 es k in (EArrayLiteral es', k1)
  | ERecordLiteral fs =>
      let '(fs', k1) := mapS (fun f k => match f with (n, x) => let '(x', k') := translate_stage0 x k in ((n, x'), k') end) fs k in
      (ERecordLiteral fs', k1)
  | EProj x i => let '(x', k1) := translate_stage0 x k in (EProj x' i, k1)
  | EArrayAccess a i =>
      let '(a', k1) := translate_stage0 a k in
      let '(i', k2) := translate_stage0 i k1 in
      (EArrayAccess a' i', k2)
  | EFieldAccess r f => let '(r', k1) := translate_stage0 r k in (EFieldAccess r' f, k1)
  | EAssign l r =>
      let '(l', k1) := translate_stage0 l k in
      let '(r', k2) := translate_stage0 r k1 in
      (EAssign l' r', k2)
  | EFeed x body => let '(b', k1) := translate_stage0 body k in (EFeed x b', k1)
  | EMatch s arms =>
      let '(s', k1) := translate_stage0 s k in
      let '(arms', k2) := mapS (fun a k => match a with (p, x) => let '(x', k') := translate_stage0 x k in ((p, x'), k') end) arms k1 in
      (EMatch s' arms', k2)
  | EParen x => let '(x', k1) := translate_stage0 x k in (EParen x', k1)
  | ELit _ | EVar _ | EError => (e, k)
  | EQualifiedVar segs => (EVar (mangle_qualified_segments segs), k)
  | EBinOp _ _ _ | EUniOp _ _ | EMacroExpand _ _ => (e, k)   (* "unexpected desugared-only node": left as is *)
  | EImcompleteRecord fs =>
      let '(fs', k1) := mapS (fun f k => match f with (n, x) => let '(x', k') := translate_stage0 x k in ((n, x'), k') end) fs k in
      (EImcompleteRecord fs', k1)
  | ERecordUpdate r fs =>
      let '(r', k1) := translate_stage0 r k in
      let '(fs', k2) := mapS (fun f k => match f with (n, x) => let '(x', k') := translate_stage0 x k in ((n, x'), k') end) fs k1 in
      (ERecordUpdate r' fs', k2)
  end

with translate_code (e : expr) (k : nat) {struct e} : expr * nat :=
  match e with
  | EEscape inner => translate_stage0 inner k
  | EBracket inner =>                                        (* nested Bracket: wrapped in code_block *)
      let '(i', k1) := translate_code inner k in (make_apply1 "code_block" i', k1)
  | ELit l =>
      match l with
      | LFloat _ => (make_apply1 "code_lit_f" (ELit l), k)
      | LInt _ | LTy _ => (make_apply1 "code_lit_i" (ELit l), k)
      | LString _ => (make_apply1 "code_lit_s" (ELit l), k)
      | LSelf => (make_apply0 "code_self", k)
      | LNow => (make_apply0 "code_now", k)
      | LSampleRate => (make_apply0 "code_samplerate", k)
      | LPlaceHolder => (e, k)                               (* left as is *)
      end
  | EVar name => (make_apply_str "code_var" name, k)
  | EApply f args =>
      let '(f', k1) := translate_code f k in
      match args with
      | [] => (make_apply "code_app" [f'; EArrayLiteral []], k1)
      | [a] => let '(a', k2) := translate_code a k1 in (make_apply "code_app1" [f'; a'], k2)
      | [a1; a2] =>
          let '(a1', k2) := translate_code a1 k1 in
          let '(a2', k3) := translate_code a2 k2 in
          (make_apply "code_app2" [f'; a1'; a2'], k3)
      | _ =>
          let '(args', k2) := mapS translate_code args k1 in
          (make_apply "code_app" [f'; EArrayLiteral args'], k2)
      end
  | ELambda ps rt body =>
      let '(body', k1) := translate_code body k in
      let param_types := type_ids_to_int_array_literal (map (fun p => match p with (_, t, _) => t end) ps) in
      let return_type := type_id_to_int_literal (match rt with Some t => t | None => ty_unknown end) in
      if existsb has_default ps then
        let name_lits := map (fun p => match p with (x, _, _) => sym_to_string_literal x end) ps in
        let default_masks := map (fun p => ELit (LFloat (if has_default p then float_one else float_zero))) ps in
        let '(default_codes, k2) :=
          mapS (fun p k => match p with
                           | (_, _, Some d) => translate_code d k
                           | (_, _, None) => (make_apply1 "code_lit_f" (ELit (LFloat float_zero)), k)
                           end) ps k1 in
        (make_apply "code_lam_finish_defaults_typed"
           [EArrayLiteral name_lits; param_types; EArrayLiteral default_masks; EArrayLiteral default_codes;
            return_type; body'], k2)
      else
        match ps with
        | [(x, t, _)] =>
            (make_apply "code_lam1_finish_typed"
               [sym_to_string_literal x; type_id_to_int_literal t; return_type; body'], k1)
        | _ =>
            (make_apply "code_lam_finish_typed"
               [EArrayLiteral (map (fun p => match p with (x, _, _) => sym_to_string_literal x end) ps);
                param_types; return_type; body'], k1)
        end
  | ELet p _ v body =>
      let '(v', k1) := translate_code v k in
      let '(b', k2) := match body with Some b => translate_code b k1 | None => (code_unit_expr, k1) end in
      translate_let_pattern p v' b' k2
  | ELetRec x t v body =>
      let '(v', k1) := translate_code v k in
      let '(b', k2) := match body with Some b => translate_code b k1 | None => (code_unit_expr, k1) end in
      (make_apply "code_letrec_typed" [sym_to_string_literal x; type_id_to_int_literal t; v'; b'], k2)
  | EIf c t el =>
      let '(c', k1) := translate_code c k in
      let '(t', k2) := translate_code t k1 in
      let '(el', k3) := match el with Some x => translate_code x k2 | None => (code_unit_expr, k2) end in
      (make_apply "code_if" [c'; t'; el'], k3)
  | EThen a b =>
      let '(a', k1) := translate_code a k in
      match b with
      | Some x => let '(x', k2) := translate_code x k1 in (make_apply "code_then" [a'; x'], k2)
      | None => (a', k1)
      end
  | EAssign l r =>
      let '(l', k1) := translate_code l k in
      let '(r', k2) := translate_code r k1 in
      (make_apply "code_assign" [l'; r'], k2)
  | ETuple es => let '(es', k1) := mapS translate_code es k in (make_apply1 "code_tuple" (EArrayLiteral es'), k1)
  | EProj x i => let '(x', k1) := translate_code x k in (make_apply "code_proj" [x'; ELit (LInt i)], k1)
  | EArrayLiteral es => let '(es', k1) := mapS translate_code es k in (make_apply1 "code_array" (EArrayLiteral es'), k1)
  | EArrayAccess a i =>
      let '(a', k1) := translate_code a k in
      let '(i', k2) := translate_code i k1 in
      (make_apply "code_array_access" [a'; i'], k2)
  | ERecordLiteral fs =>
      let names := map (fun f => sym_to_string_literal (fst f)) fs in
      let '(vals, k1) := mapS (fun f k => match f with (_, x) => translate_code x k end) fs k in
      (make_apply "code_record" [EArrayLiteral names; EArrayLiteral vals], k1)
  | EFieldAccess r f =>
      let '(r', k1) := translate_code r k in
      (make_apply "code_field_access" [r'; sym_to_string_literal f], k1)
  | EFeed x body =>
      let '(b', k1) := translate_code body k in
      (make_apply "code_feed" [sym_to_string_literal x; b'], k1)
  | EBlock b =>
      match b with
      | Some x => let '(x', k1) := translate_code x k in (make_apply1 "code_block" x', k1)
      | None => (code_unit_expr, k)
      end
  | EMatch s arms =>                                          (* translate_code_match *)
      let '(s', k1) := translate_code s k in
      let '(bodies, k2) := mapS (fun a k => match a with (_, x) => translate_code x k end) arms k1 in
      let pattern_tags := map (fun a => encode_match_pattern (fst a)) arms in
      (make_apply "code_match" [s'; EArrayLiteral pattern_tags; EArrayLiteral bodies], k2)
  | EParen x => translate_code x k
  | EQualifiedVar segs => (make_apply_str "code_var" (mangle_qualified_segments segs), k)
  | EBinOp _ _ _ | EUniOp _ _ | EMacroExpand _ _ => (e, k)   (* "desugared-only node": left as is *)
  | EImcompleteRecord fs =>
      let names := map (fun f => sym_to_string_literal (fst f)) fs in
      let '(vals, k1) := mapS (fun f k => match f with (_, x) => translate_code x k end) fs k in
      (make_apply "code_imcomplete_record" [EArrayLiteral names; EArrayLiteral vals], k1)
  | ERecordUpdate r fs =>
      let '(r', k1) := translate_code r k in
      let names := map (fun f => sym_to_string_literal (fst f)) fs in
      let '(vals, k2) := mapS (fun f k => match f with (_, x) => translate_code x k end) fs k1 in
      (make_apply "code_record_update" [r'; EArrayLiteral names; EArrayLiteral vals], k2)
  | EError => (e, k)
  end.

(* translate *)
Definition translate (e : expr) (k : nat) : expr * nat := translate_stage0 e k.

(* convert_pronoun.rs convert_macroexpand:  f!(args)  =>  Escape(Apply(f, args)), everywhere *)
Fixpoint convert_macroexpand (e : expr) : expr :=
  let cf := map (fun f => match f with (n, x) => (n, convert_macroexpand x) end) in
  match e with
  | EMacroExpand f args => EEscape (EApply (convert_macroexpand f) (map convert_macroexpand args))
  | ELit _ | EVar _ | EQualifiedVar _ | EError => e
  | EBlock b => EBlock (option_map convert_macroexpand b)
  | ETuple es => ETuple (map convert_macroexpand es)
  | EProj x i => EProj (convert_macroexpand x) i
  | EArrayAccess a i => EArrayAccess (convert_macroexpand a) (convert_macroexpand i)
  | EArrayLiteral es => EArrayLiteral (map convert_macroexpand es)
  | ERecordLiteral fs => ERecordLiteral (cf fs)
  | EImcompleteRecord fs => EImcompleteRecord (cf fs)
  | ERecordUpdate r fs => ERecordUpdate (convert_macroexpand r) (cf fs)
  | EFieldAccess r f => EFieldAccess (convert_macroexpand r) f
  | EApply f args => EApply (convert_macroexpand f) (map convert_macroexpand args)
  | EBinOp l op r => EBinOp (convert_macroexpand l) op (convert_macroexpand r)
  | EUniOp op x => EUniOp op (convert_macroexpand x)
  | EParen x => EParen (convert_macroexpand x)
  | ELambda ps rt body =>
      ELambda (map (fun p => match p with (x, t, d) => (x, t, option_map convert_macroexpand d) end) ps) rt
              (convert_macroexpand body)
  | EAssign l r => EAssign (convert_macroexpand l) (convert_macroexpand r)
  | EThen a b => EThen (convert_macroexpand a) (option_map convert_macroexpand b)
  | EFeed x body => EFeed x (convert_macroexpand body)
  | ELet p t v body => ELet p t (convert_macroexpand v) (option_map convert_macroexpand body)
  | ELetRec x t v body => ELetRec x t (convert_macroexpand v) (option_map convert_macroexpand body)
  | EIf c t el => EIf (convert_macroexpand c) (convert_macroexpand t) (option_map convert_macroexpand el)
  | EMatch s arms => EMatch (convert_macroexpand s) (map (fun a => match a with (p, x) => (p, convert_macroexpand x) end) arms)
  | EBracket x => EBracket (convert_macroexpand x)
  | EEscape x => EEscape (convert_macroexpand x)
  end.

(* ------------------------------------------------------------------------------------------ *)
(* Stage-0 evaluation: values, the registered combinators, the evaluator                       *)
(* ------------------------------------------------------------------------------------------ *)

Inductive err : Type := OutOfFuel | Unbound (x : string) | Stuck.
Inductive res (A : Type) : Type := Ok (a : A) | Err (e : err).
Arguments Ok {A} a.
Arguments Err {A} e.

Definition bind {A B : Type} (r : res A) (f : A -> res B) : res B :=
  match r with Ok a => f a | Err e => Err e end.
Notation "'do' x <- r ; k" := (bind r (fun x => k)) (at level 200, x pattern, r at level 100, k at level 200).

Definition mapM {A B : Type} (f : A -> res B) : list A -> res (list B) :=
  fix go (l : list A) : res (list B) :=
    match l with
    | [] => Ok []
    | a :: r => do b <- f a; do bs <- go r; Ok (b :: bs)
    end.

Inductive value : Type :=
| VNum (q : num)                      (* float word *)
| VInt (z : Z)                        (* integer word *)
| VStr (s : string)                   (* string-table index *)
| VTy (t : ty)                        (* integer word holding a type id *)
| VUnit
| VCode (c : expr)                    (* index into Machine.code_values *)
| VArr (l : list value)
| VTup (l : list value)
| VClos (ps : list string) (body : expr) (env : list (string * value))
| VRec (f : string) (ps : list string) (body : expr) (env : list (string * value))
| VPrim (name : string).              (* external function (combinator or intrinsic) *)

Definition env := list (string * value).

Fixpoint lookup (r : env) (x : string) : option value :=
  match r with
  | [] => None
  | (y, v) :: r' => if String.eqb x y then Some v else lookup r' x
  end.

(* bytecodegen.rs `mir::Instruction::Float(n)`: a float constant is loaded as a half-precision immediate
   (MoveImmF) only when `HFloat::try_from(n)` succeeds, i.e. when f16 represents n EXACTLY
   (utils/half_float.rs, since the repair of finding F19), otherwise from the constant table: in both
   cases the register holds n itself, so loading a literal is the identity in the model. *)

(* a value without closures (what a combinator may receive) *)
Fixpoint is_data (v : value) : bool :=
  match v with
  | VNum _ | VInt _ | VStr _ | VTy _ | VUnit | VCode _ => true
  | VArr l | VTup l => forallb is_data l
  | VClos _ _ _ | VRec _ _ _ _ | VPrim _ => false
  end.

Definition as_code (v : value) : res expr := match v with VCode c => Ok c | _ => Err Stuck end.
Definition as_str (v : value) : res string := match v with VStr s => Ok s | _ => Err Stuck end.
Definition as_ty (v : value) : res ty := match v with VTy t => Ok t | _ => Err Stuck end.
Definition as_num (v : value) : res num := match v with VNum q => Ok q | _ => Err Stuck end.
Definition as_arr (v : value) : res (list value) := match v with VArr l => Ok l | _ => Err Stuck end.
Definition codes (v : value) : res (list expr) := do l <- as_arr v; mapM as_code l.
Definition strs (v : value) : res (list string) := do l <- as_arr v; mapM as_str l.
Definition tys (v : value) : res (list ty) := do l <- as_arr v; mapM as_ty l.
Definition nums (v : value) : res (list num) := do l <- as_arr v; mapM as_num l.

Definition is_nonzero (q : num) : bool := negb (SFeqb q (S754_zero false)).   (* `!= 0.0` *)

(* (0..names_len).map(|i| vals[i]) : panics when vals is shorter *)
Fixpoint zip_fields (ns : list string) (vs : list expr) : res (list (string * expr)) :=
  match ns, vs with
  | [], _ => Ok []
  | n :: ns', v :: vs' => do r <- zip_fields ns' vs'; Ok ((n, v) :: r)
  | _ :: _, [] => Err Stuck
  end.

(* params of code_lam_finish_typed: param_tys.get(i).unwrap_or(Unknown) *)
Fixpoint typed_params (ns : list string) (ts : list ty) : list (string * ty * option expr) :=
  match ns with
  | [] => []
  | n :: ns' => (n, hd ty_unknown ts, None) :: typed_params ns' (tl ts)
  end.

(* params of code_lam_finish_defaults(_typed): mask.get(i) != 0.0 && defaults.get(i) present *)
Fixpoint default_params (ns : list string) (ts : list ty) (mask : list num) (ds : list expr)
  : list (string * ty * option expr) :=
  match ns with
  | [] => []
  | n :: ns' =>
      let d := match mask, ds with
               | m :: _, d :: _ => if is_nonzero m then Some d else None
               | _, _ => None
               end in
      (n, hd ty_unknown ts, d) :: default_params ns' (tl ts) (tl mask) (tl ds)
  end.

Definition let_tuple_pat (n : string) : pat := if String.eqb n "_" then PPlaceholder else PSingle n.

(* raw_words_to_code_expr / code_lift on the values of the model *)
Fixpoint lift_value (v : value) : res expr :=
  match v with
  | VNum q => Ok (ELit (LFloat q))
  | VInt z => Ok (ELit (LInt z))
  | VStr s => Ok (ELit (LString s))
  | VCode c => Ok c
  | VArr l => do es <- mapM lift_value l; Ok (EArrayLiteral es)
  | VTup l => do es <- mapM lift_value l; Ok (ETuple es)
  | _ => Err Stuck
  end.

(* the implementing functions of codegen_combinators.rs, by Rust function name *)
Definition combinator_table : list (string * (list value -> res expr)) := [
  ("code_lit_f", fun args =>
     match args with
       | [VNum q] => Ok (ELit (LFloat q))
       | _ => Err Stuck
     end);
  ("code_lit_i", fun args =>
     match args with
       | [VInt z] => Ok (ELit (LInt z))
       | [VTy t] => Ok (ELit (LTy t))
       | _ => Err Stuck
     end);
  ("code_lit_s", fun args =>
     match args with
       | [VStr s] => Ok (ELit (LString s))
       | _ => Err Stuck
     end);
  ("code_var", fun args =>
     match args with
       | [VStr s] => Ok (EVar s)
       | _ => Err Stuck
     end);
  ("code_app", fun args =>
     match args with
       | [VCode f; a] => do es <- codes a; Ok (EApply f es)
       | _ => Err Stuck
     end);
  ("code_app1", fun args =>
     match args with
       | [VCode f; VCode a] => Ok (EApply f [a])
       | _ => Err Stuck
     end);
  ("code_app2", fun args =>
     match args with
       | [VCode f; VCode a1; VCode a2] => Ok (EApply f [a1; a2])
       | _ => Err Stuck
     end);
  ("code_lam1_finish", fun args =>
     match args with
       | [VStr n; VCode b] => Ok (ELambda [(n, ty_unknown, None)] None b)
       | _ => Err Stuck
     end);
  ("code_lam1_finish_typed", fun args =>
     match args with
       | [VStr n; VTy pt; VTy rt; VCode b] => Ok (ELambda [(n, pt, None)] (Some rt) b)
       | _ => Err Stuck
     end);
  ("code_lam_finish", fun args =>
     match args with
       | [ns; VCode b] =>
        do ns <- strs ns; Ok (ELambda (typed_params ns []) None b)
       | _ => Err Stuck
     end);
  ("code_lam_finish_typed", fun args =>
     match args with
       | [ns; ts; VTy rt; VCode b] =>
        do ns <- strs ns; do ts <- tys ts; Ok (ELambda (typed_params ns ts) (Some rt) b)
       | _ => Err Stuck
     end);
  ("code_lam_finish_defaults", fun args =>
     match args with
       | [ns; mask; ds; VCode b] =>
        do ns <- strs ns; do mask <- nums mask; do ds <- codes ds;
        Ok (ELambda (default_params ns [] mask ds) None b)
       | _ => Err Stuck
     end);
  ("code_lam_finish_defaults_typed", fun args =>
     match args with
       | [ns; ts; mask; ds; VTy rt; VCode b] =>
        do ns <- strs ns; do ts <- tys ts; do mask <- nums mask; do ds <- codes ds;
        Ok (ELambda (default_params ns ts mask ds) (Some rt) b)
       | _ => Err Stuck
     end);
  ("code_let", fun args =>
     match args with
       | [VStr n; VCode v; VCode b] => Ok (ELet (PSingle n) ty_unknown v (Some b))
       | _ => Err Stuck
     end);
  ("code_let_tuple", fun args =>
     match args with
       | [ns; VCode v; VCode b] =>
        do ns <- strs ns; Ok (ELet (PTuple (map let_tuple_pat ns)) ty_unknown v (Some b))
       | _ => Err Stuck
     end);
  ("code_letrec", fun args =>
     match args with
       | [VStr n; VCode v; VCode b] => Ok (ELetRec n ty_unknown v (Some b))
       | _ => Err Stuck
     end);
  ("code_letrec_typed", fun args =>
     match args with
       | [VStr n; VTy t; VCode v; VCode b] => Ok (ELetRec n t v (Some b))
       | _ => Err Stuck
     end);
  ("code_if", fun args =>
     match args with
       | [VCode c; VCode t; VCode e] => Ok (EIf c t (Some e))
       | _ => Err Stuck
     end);
  ("code_tuple", fun args =>
     match args with
       | [a] => do es <- codes a; Ok (ETuple es)
       | _ => Err Stuck
     end);
  ("code_proj", fun args =>
     match args with
       | [VCode v; VInt i] => Ok (EProj v i)
       | _ => Err Stuck
     end);
  ("code_array", fun args =>
     match args with
       | [a] => do es <- codes a; Ok (EArrayLiteral es)
       | _ => Err Stuck
     end);
  ("code_array_access", fun args =>
     match args with
       | [VCode a; VCode i] => Ok (EArrayAccess a i)
       | _ => Err Stuck
     end);
  ("code_then", fun args =>
     match args with
       | [VCode a; VCode b] => Ok (EThen a (Some b))
       | _ => Err Stuck
     end);
  ("code_assign", fun args =>
     match args with
       | [VCode l; VCode r] => Ok (EAssign l r)
       | _ => Err Stuck
     end);
  ("code_record", fun args =>
     match args with
       | [ns; vs] =>
        do ns <- strs ns; do vs <- codes vs; do fs <- zip_fields ns vs; Ok (ERecordLiteral fs)
       | _ => Err Stuck
     end);
  ("code_imcomplete_record", fun args =>
     match args with
       | [ns; vs] =>
        do ns <- strs ns; do vs <- codes vs; do fs <- zip_fields ns vs; Ok (EImcompleteRecord fs)
       | _ => Err Stuck
     end);
  ("code_record_update", fun args =>
     match args with
       | [VCode r; ns; vs] =>
        do ns <- strs ns; do vs <- codes vs; do fs <- zip_fields ns vs; Ok (ERecordUpdate r fs)
       | _ => Err Stuck
     end);
  ("code_field_access", fun args =>
     match args with
       | [VCode v; VStr f] => Ok (EFieldAccess v f)
       | _ => Err Stuck
     end);
  ("code_feed", fun args =>
     match args with
       | [VStr n; VCode b] => Ok (EFeed n b)
       | _ => Err Stuck
     end);
  ("code_block", fun args =>
     match args with
       | [VCode i] => Ok (EBlock (Some i))
       | _ => Err Stuck
     end);
  ("code_paren", fun args =>
     match args with
       | [VCode i] => Ok (EParen i)
       | _ => Err Stuck
     end);
  ("code_self", fun args =>
     match args with
       | [] => Ok (ELit LSelf)
       | _ => Err Stuck
     end);
  ("code_now", fun args =>
     match args with
       | [] => Ok (ELit LNow)
       | _ => Err Stuck
     end);
  ("code_samplerate", fun args =>
     match args with
       | [] => Ok (ELit LSampleRate)
       | _ => Err Stuck
     end);
  ("code_lift_f", fun args =>
     match args with
       | [VNum q] => Ok (ELit (LFloat q))           (* = code_lit_f *)
       | _ => Err Stuck
     end);
  ("code_lift_arrayf", fun args =>
     match args with
       | [a] => do qs <- nums a; Ok (EArrayLiteral (map (fun q => ELit (LFloat q)) qs))
       | _ => Err Stuck
     end);
  ("code_lift", fun args =>
     match args with
       | [v] => lift_value v
       | _ => Err Stuck
     end)
].

Fixpoint assoc {A : Type} (tbl : list (string * A)) (name : string) : option A :=
  match tbl with
  | [] => None
  | (n, a) :: r => if String.eqb n name then Some a else assoc r name
  end.

Definition combinator (fn : string) (args : list value) : res expr :=
  match assoc combinator_table fn with Some f => f args | None => Err Stuck end.

(* the name under which the VM finds an external function: the registration table *)
Fixpoint registered_fn (tbl : list (string * string * list akind)) (name : string) : option string :=
  match tbl with
  | [] => None
  | (n, fn, _) :: r => if String.eqb n name then Some fn else registered_fn r name
  end.

(* arithmetic / comparison intrinsics on f64 (compiler/intrinsics.rs; the VM's AddF, SubF, ... Gt, ...) *)
Definition of_bool (b : bool) : num := if b then float_one else float_zero.
Definition num2 (f : num -> num -> num) (args : list value) : res num :=
  match args with [VNum a; VNum b] => Ok (f a b) | _ => Err Stuck end.
Definition intrinsic_table : list (string * (list value -> res num)) := [
  ("add", num2 (SFadd f64_prec f64_emax));
  ("sub", num2 (SFsub f64_prec f64_emax));
  ("mult", num2 (SFmul f64_prec f64_emax));
  ("div", num2 (SFdiv f64_prec f64_emax));
  ("neg", fun args => match args with [VNum a] => Ok (SFopp a) | _ => Err Stuck end);
  ("gt", num2 (fun a b => of_bool (SFltb b a)));
  ("ge", num2 (fun a b => of_bool (SFleb b a)));
  ("lt", num2 (fun a b => of_bool (SFltb a b)));
  ("le", num2 (fun a b => of_bool (SFleb a b)));
  ("eq", num2 (fun a b => of_bool (SFeqb a b)));
  ("ne", num2 (fun a b => of_bool (negb (SFeqb a b))))
].

(* an external function applied to its arguments: a combinator yields a code value, an intrinsic a number *)
Definition prim (name : string) (args : list value) : res value :=
  if forallb is_data args then
    match registered_fn registered name with
    | Some fn => do c <- combinator fn args; Ok (VCode c)
    | None =>
        match assoc intrinsic_table name with
        | Some f => do q <- f args; Ok (VNum q)
        | None => Err Stuck
        end
    end
  else Err Stuck.

Definition is_extern (name : string) : bool :=
  match registered_fn registered name with
  | Some _ => true
  | None => match assoc intrinsic_table name with Some _ => true | None => false end
  end.

Fixpoint bind_params (ps : list string) (vs : list value) (r : env) : res env :=
  match ps, vs with
  | [], [] => Ok r
  | p :: ps', v :: vs' => do r' <- bind_params ps' vs' r; Ok ((p, v) :: r')
  | _, _ => Err Stuck
  end.

Definition param_names (ps : list (string * ty * option expr)) : res (list string) :=
  mapM (fun p => match p with (x, _, None) => Ok x | (_, _, Some _) => Err Stuck end) ps.

Definition optM {A B : Type} (f : A -> res B) (o : option A) : res (option B) :=
  match o with Some a => do b <- f a; Ok (Some b) | None => Ok None end.

(* rebuild (interpreter.rs `rebuild`, the reference reading of a quotation): the quoted expression itself
   with every `EEscape s` replaced by the code value that `evs s` (stage-0 evaluation of s) yields.
   Forms translate_code leaves untranslated are errors. *)
Definition rebuild_with (evs : expr -> res value) : expr -> res expr :=
  fix rb (q : expr) {struct q} : res expr :=
    let rbf := mapM (fun f => match f with (nm, x) => do x' <- rb x; Ok (nm, x') end) in
    match q with
    | EEscape s => do v <- evs s; as_code v
    | EBracket x => do x' <- rb x; Ok (EBracket x')
    | ELit l =>
        match l with
        | LPlaceHolder => Err Stuck
        | _ => Ok q
        end
    | EVar _ | EQualifiedVar _ => Ok q
    | EBlock b => do b' <- optM rb b; Ok (EBlock b')
    | ETuple es => do es' <- mapM rb es; Ok (ETuple es')
    | EProj x i => do x' <- rb x; Ok (EProj x' i)
    | EArrayAccess a i => do a' <- rb a; do i' <- rb i; Ok (EArrayAccess a' i')
    | EArrayLiteral es => do es' <- mapM rb es; Ok (EArrayLiteral es')
    | ERecordLiteral fs => do fs' <- rbf fs; Ok (ERecordLiteral fs')
    | EImcompleteRecord fs => do fs' <- rbf fs; Ok (EImcompleteRecord fs')
    | ERecordUpdate x fs => do x' <- rb x; do fs' <- rbf fs; Ok (ERecordUpdate x' fs')
    | EFieldAccess x f => do x' <- rb x; Ok (EFieldAccess x' f)
    | EApply f args => do f' <- rb f; do args' <- mapM rb args; Ok (EApply f' args')
    | EMacroExpand _ _ | EBinOp _ _ _ | EUniOp _ _ | EError => Err Stuck
    | EParen x => do x' <- rb x; Ok (EParen x')
    | ELambda ps rt body =>
        do body' <- rb body;
        do ps' <- mapM (fun p => match p with (x, t, d) => do d' <- optM rb d; Ok (x, t, d') end) ps;
        Ok (ELambda ps' rt body')
    | EAssign a b => do a' <- rb a; do b' <- rb b; Ok (EAssign a' b')
    | EThen a b => do a' <- rb a; do b' <- optM rb b; Ok (EThen a' b')
    | EFeed x body => do body' <- rb body; Ok (EFeed x body')
    | ELet p t v body => do v' <- rb v; do body' <- optM rb body; Ok (ELet p t v' body')
    | ELetRec x t v body => do v' <- rb v; do body' <- optM rb body; Ok (ELetRec x t v' body')
    | EIf c t el => do c' <- rb c; do t' <- rb t; do el' <- optM rb el; Ok (EIf c' t' el')
    | EMatch s arms =>
        do s' <- rb s;
        do arms' <- mapM (fun a => match a with (p, x) => do x' <- rb x; Ok (p, x') end) arms;
        Ok (EMatch s' arms')
    end.


(* The evaluator.  `ev n r e` evaluates stage-0 code; `EBracket q` evaluates to the code value `rb q`
   where `rb` rebuilds the quoted expression, running the stage-0 code under every escape.
   Fuel `n` bounds the nesting of closure applications only. *)
Fixpoint ev (n : nat) : env -> expr -> res value :=
  fix ev0 (r : env) (e : expr) {struct e} : res value :=
    match e with
    | EBracket q => do c <- rebuild_with (ev0 r) q; Ok (VCode c)
    | EEscape _ => Err Stuck
    | ELit l =>
        match l with
        | LFloat q => Ok (VNum q)                   (* MoveImmF (exact) / MoveConst *)
        | LInt z => Ok (VInt z)
        | LString s => Ok (VStr s)
        | LTy t => Ok (VTy t)
        | LSelf | LNow | LSampleRate | LPlaceHolder => Err Stuck
        end
    | EVar x =>
        match lookup r x with
        | Some v => Ok v
        | None => if is_extern x then Ok (VPrim x) else Err (Unbound x)
        end
    | ELambda ps _ body => do names <- param_names ps; Ok (VClos names body r)
    | ELet p _ v body =>
        do a <- ev0 r v;
        match p, body with
        | PSingle x, Some b => ev0 ((x, a) :: r) b
        | PPlaceholder, Some b => ev0 r b
        | _, _ => Err Stuck
        end
    | ELetRec f _ v body =>
        match v, body with
        | ELambda ps _ fb, Some b => do names <- param_names ps; ev0 ((f, VRec f names fb r) :: r) b
        | _, _ => Err Stuck
        end
    | EApply f args =>
        do fv <- ev0 r f;
        do avs <- mapM (ev0 r) args;
        match fv with
        | VClos ps body cr =>
            match n with
            | O => Err OutOfFuel
            | S n' => do r' <- bind_params ps avs cr; ev n' r' body
            end
        | VRec fname ps body cr =>
            match n with
            | O => Err OutOfFuel
            | S n' => do r' <- bind_params ps avs ((fname, fv) :: cr); ev n' r' body
            end
        | VPrim name => prim name avs
        | _ => Err Stuck
        end
    | EIf c t el =>
        do cv <- ev0 r c;
        match cv, el with
        | VNum q, Some e2 => if SFleb q (S754_zero false) then ev0 r e2 else ev0 r t   (* JmpIfNeg: cond <= 0.0 *)
        | _, _ => Err Stuck
        end
    | EThen a b =>
        do av <- ev0 r a;
        match b with Some b' => ev0 r b' | None => Ok av end
    | EBlock b => match b with Some x => ev0 r x | None => Ok VUnit end
    | EParen x => ev0 r x
    | ETuple es => do vs <- mapM (ev0 r) es; Ok (VTup vs)
    | EArrayLiteral es => do vs <- mapM (ev0 r) es; Ok (VArr vs)
    | _ => Err Stuck
    end.

Definition rebuild (n : nat) (r : env) : expr -> res expr := rebuild_with (ev n r).

(* What compiling the stage-0 program checks before anything runs: every variable is bound or names an
   external function ("Variable ... not found in this scope"), and no node that translate_staging left
   untranslated remains.  Returns the first complaint. *)
Fixpoint pat_binders (p : pat) : list string :=
  match p with
  | PSingle s => [s]
  | PPlaceholder | PError => []
  | PTuple l => flat_map pat_binders l
  | PRecord l => flat_map (fun f => pat_binders (snd f)) l
  end.

Fixpoint mpat_binders (p : mpat) : list string :=
  match p with
  | MVar s => [s]
  | MLit _ | MWild => []
  | MCtor _ inner => match inner with Some i => mpat_binders i | None => [] end
  | MTuple l => flat_map mpat_binders l
  end.

Definition first_err (l : list (option err)) : option err :=
  fold_right (fun a b => match a with Some e => Some e | None => b end) None l.

Fixpoint scope0 (bound : list string) (e : expr) {struct e} : option err :=
  let opt b o := match o with Some x => scope0 b x | None => None end in
  let fields b fs := first_err (map (fun f : string * expr => scope0 b (snd f)) fs) in
  match e with
  | EVar x => if existsb (String.eqb x) bound || is_extern x then None else Some (Unbound x)
  | ELit LPlaceHolder => Some Stuck
  | ELit _ => None
  | EQualifiedVar _ | EBracket _ | EEscape _ | EBinOp _ _ _ | EUniOp _ _ | EMacroExpand _ _ | EError => Some Stuck
  | EBlock b => opt bound b
  | ETuple es | EArrayLiteral es => first_err (map (scope0 bound) es)
  | EProj x _ | EFieldAccess x _ | EParen x => scope0 bound x
  | EArrayAccess a b | EAssign a b => first_err [scope0 bound a; scope0 bound b]
  | ERecordLiteral fs | EImcompleteRecord fs => fields bound fs
  | ERecordUpdate r fs => first_err [scope0 bound r; fields bound fs]
  | EApply f args => first_err (scope0 bound f :: map (scope0 bound) args)
  | ELambda ps _ body =>
      first_err (map (fun p => match p with (_, _, d) => opt bound d end) ps
                 ++ [scope0 (map (fun p => match p with (x, _, _) => x end) ps ++ bound) body])%list
  | EThen a b => first_err [scope0 bound a; opt bound b]
  | EFeed x body => scope0 (x :: bound) body
  | ELet p _ v body => first_err [scope0 bound v; opt (pat_binders p ++ bound)%list body]
  | ELetRec x _ v body => first_err [scope0 (x :: bound) v; opt (x :: bound) body]
  | EIf c t el => first_err [scope0 bound c; scope0 bound t; opt bound el]
  | EMatch s arms =>
      first_err (scope0 bound s :: map (fun a : mpat * expr => scope0 (mpat_binders (fst a) ++ bound)%list (snd a)) arms)
  end.

(* the whole expansion pipeline of compile_with_module_info on a staged program:
   translate, compile (scope check), run on the stage-0 VM, take the code value *)
Definition expand (n : nat) (k : nat) (p : expr) : res expr :=
  let st0 := fst (translate p k) in
  match scope0 [] st0 with
  | Some e => Err e
  | None => do v <- ev n [] st0; as_code v
  end.

(* ------------------------------------------------------------------------------------------ *)
(* The normal form the translation imposes on quoted code (what decode . encode does to one     *)
(* quoted expression: the clauses are listed in the check's explanation)                        *)
(* ------------------------------------------------------------------------------------------ *)

(* code_let_tuple rebuilds "_" as a placeholder *)
Fixpoint norm_tuple_pat (p : pat) (v : expr) (body : expr) (k : nat) {struct p} : expr * nat :=
  match p with
  | PTuple sub =>
      let '(names, k1) := top_names sub k in
      let '(b, k2) :=
        (fix wrap (qs : list pat) (ns : list string) (k : nat) {struct qs} : expr * nat :=
           match qs, ns with
           | q :: qs', n :: ns' =>
               let '(b1, k1) := wrap qs' ns' k in
               norm_tuple_pat q (EVar n) b1 k1
           | _, _ => (body, k)
           end) sub names k1 in
      (ELet (PTuple (map let_tuple_pat names)) ty_unknown v (Some b), k2)
  | _ => (body, k)
  end.

Definition norm_let (p : pat) (v body : expr) (k : nat) : expr * nat :=
  match p with
  | PSingle n => (ELet (PSingle n) ty_unknown v (Some body), k)
  | PPlaceholder => (ELet (PSingle "_") ty_unknown v (Some body), k)
  | PTuple _ => norm_tuple_pat p v body k
  | PRecord _ | PError => (ELet (PSingle (pattern_to_symbol p)) ty_unknown v (Some body), k)
  end.

Definition unit_expr : expr := ETuple [].

(* norm0: stage-0 walk (normalises every quotation in place); norm1: a quoted expression *)
Fixpoint norm0 (e : expr) (k : nat) {struct e} : expr * nat :=
  match e with
  | EBracket inner => let '(i', k1) := norm1 inner k in (EBracket i', k1)
  | EEscape _ => (e, k)
  | ELet p t v body =>
      let '(v', k1) := norm0 v k in
      let '(b', k2) := optS norm0 body k1 in
      (ELet p t v' b', k2)
  | ELetRec x t v body =>
      let '(v', k1) := norm0 v k in
      let '(b', k2) := optS norm0 body k1 in
      (ELetRec x t v' b', k2)
  | ELambda ps rt body => let '(b', k1) := norm0 body k in (ELambda ps rt b', k1)
  | EApply f args =>
      let '(f', k1) := norm0 f k in
      let '(args', k2) := mapS norm0 args k1 in
      (EApply f' args', k2)
  | EIf c t el =>
      let '(c', k1) := norm0 c k in
      let '(t', k2) := norm0 t k1 in
      let '(el', k3) := optS norm0 el k2 in
      (EIf c' t' el', k3)
  | EThen a b =>
      let '(a', k1) := norm0 a k in
      let '(b', k2) := optS norm0 b k1 in
      (EThen a' b', k2)
  | EBlock b => let '(b', k1) := optS norm0 b k in (EBlock b', k1)
  | ETuple es => let '(es', k1) := mapS norm0 es k in (ETuple es', k1)
  | EArrayLiteral es => let '(es', k1) := mapS norm0 es k in (EArrayLiteral es', k1)
  | ERecordLiteral fs =>
      let '(fs', k1) := mapS (fun f k => match f with (n, x) => let '(x', k') := norm0 x k in ((n, x'), k') end) fs k in
      (ERecordLiteral fs', k1)
  | EProj x i => let '(x', k1) := norm0 x k in (EProj x' i, k1)
  | EArrayAccess a i =>
      let '(a', k1) := norm0 a k in
      let '(i', k2) := norm0 i k1 in
      (EArrayAccess a' i', k2)
  | EFieldAccess r f => let '(r', k1) := norm0 r k in (EFieldAccess r' f, k1)
  | EAssign l r =>
      let '(l', k1) := norm0 l k in
      let '(r', k2) := norm0 r k1 in
      (EAssign l' r', k2)
  | EFeed x body => let '(b', k1) := norm0 body k in (EFeed x b', k1)
  | EMatch s arms =>
      let '(s', k1) := norm0 s k in
      let '(arms', k2) := mapS (fun a k => match a with (p, x) => let '(x', k') := norm0 x k in ((p, x'), k') end) arms k1 in
      (EMatch s' arms', k2)
  | EParen x => let '(x', k1) := norm0 x k in (EParen x', k1)
  | ELit _ | EVar _ | EError => (e, k)
  | EQualifiedVar segs => (e, k)
  | EBinOp _ _ _ | EUniOp _ _ | EMacroExpand _ _ => (e, k)
  | EImcompleteRecord fs =>
      let '(fs', k1) := mapS (fun f k => match f with (n, x) => let '(x', k') := norm0 x k in ((n, x'), k') end) fs k in
      (EImcompleteRecord fs', k1)
  | ERecordUpdate r fs =>
      let '(r', k1) := norm0 r k in
      let '(fs', k2) := mapS (fun f k => match f with (n, x) => let '(x', k') := norm0 x k in ((n, x'), k') end) fs k1 in
      (ERecordUpdate r' fs', k2)
  end

with norm1 (e : expr) (k : nat) {struct e} : expr * nat :=
  match e with
  | EEscape inner => let '(i', k1) := norm0 inner k in (EEscape i', k1)
  | EBracket inner => let '(i', k1) := norm1 inner k in (EBlock (Some i'), k1)      (* nested quote -> block *)
  | ELit _ => (e, k)
  | EVar _ => (e, k)
  | EApply f args =>
      let '(f', k1) := norm1 f k in
      let '(args', k2) := mapS norm1 args k1 in
      (EApply f' args', k2)
  | ELambda ps rt body =>
      let '(body', k1) := norm1 body k in
      let '(ps', k2) :=
        mapS (fun p k => match p with
                         | (x, t, Some d) => let '(d', k') := norm1 d k in ((x, t, Some d'), k')
                         | (x, t, None) => ((x, t, None), k)
                         end) ps k1 in
      (ELambda ps' (Some (match rt with Some t => t | None => ty_unknown end)) body', k2)   (* return type filled *)
  | ELet p _ v body =>                                        (* annotation dropped, body filled, pattern flattened *)
      let '(v', k1) := norm1 v k in
      let '(b', k2) := match body with Some b => norm1 b k1 | None => (unit_expr, k1) end in
      norm_let p v' b' k2
  | ELetRec x t v body =>
      let '(v', k1) := norm1 v k in
      let '(b', k2) := match body with Some b => norm1 b k1 | None => (unit_expr, k1) end in
      (ELetRec x t v' (Some b'), k2)
  | EIf c t el =>
      let '(c', k1) := norm1 c k in
      let '(t', k2) := norm1 t k1 in
      let '(el', k3) := match el with Some x => norm1 x k2 | None => (unit_expr, k2) end in
      (EIf c' t' (Some el'), k3)
  | EThen a b =>
      let '(a', k1) := norm1 a k in
      match b with
      | Some x => let '(x', k2) := norm1 x k1 in (EThen a' (Some x'), k2)
      | None => (a', k1)
      end
  | EAssign l r =>
      let '(l', k1) := norm1 l k in
      let '(r', k2) := norm1 r k1 in
      (EAssign l' r', k2)
  | ETuple es => let '(es', k1) := mapS norm1 es k in (ETuple es', k1)
  | EProj x i => let '(x', k1) := norm1 x k in (EProj x' i, k1)
  | EArrayLiteral es => let '(es', k1) := mapS norm1 es k in (EArrayLiteral es', k1)
  | EArrayAccess a i =>
      let '(a', k1) := norm1 a k in
      let '(i', k2) := norm1 i k1 in
      (EArrayAccess a' i', k2)
  | ERecordLiteral fs =>
      let '(fs', k1) := mapS (fun f k => match f with (n, x) => let '(x', k') := norm1 x k in ((n, x'), k') end) fs k in
      (ERecordLiteral fs', k1)
  | EFieldAccess r f => let '(r', k1) := norm1 r k in (EFieldAccess r' f, k1)
  | EFeed x body => let '(b', k1) := norm1 body k in (EFeed x b', k1)
  | EBlock b =>
      match b with
      | Some x => let '(x', k1) := norm1 x k in (EBlock (Some x'), k1)
      | None => (unit_expr, k)
      end
  | EMatch s arms =>
      let '(s', k1) := norm1 s k in
      let '(arms', k2) := mapS (fun a k => match a with (p, x) => let '(x', k') := norm1 x k in ((p, x'), k') end) arms k1 in
      (EMatch s' arms', k2)
  | EParen x => norm1 x k                                     (* parentheses dropped *)
  | EQualifiedVar segs => (EVar (mangle_qualified_segments segs), k)
  | EBinOp _ _ _ | EUniOp _ _ | EMacroExpand _ _ => (e, k)
  | EImcompleteRecord fs =>
      let '(fs', k1) := mapS (fun f k => match f with (n, x) => let '(x', k') := norm1 x k in ((n, x'), k') end) fs k in
      (EImcompleteRecord fs', k1)
  | ERecordUpdate r fs =>
      let '(r', k1) := norm1 r k in
      let '(fs', k2) := mapS (fun f k => match f with (n, x) => let '(x', k') := norm1 x k in ((n, x'), k') end) fs k1 in
      (ERecordUpdate r' fs', k2)
  | EError => (e, k)
  end.

(* ------------------------------------------------------------------------------------------ *)
(* Names (C10)                                                                                 *)
(* ------------------------------------------------------------------------------------------ *)

(* renaming of the stage-1 names of quoted code: variables and every binder *)
Section Rename.
  Variable rn : string -> string.

  Fixpoint rn_pat (p : pat) : pat :=
    match p with
    | PSingle s => PSingle (rn s)
    | PPlaceholder => PPlaceholder
    | PTuple l => PTuple (map rn_pat l)
    | PRecord l => PRecord (map (fun f => match f with (n, q) => (rn n, rn_pat q) end) l)
    | PError => PError
    end.

  Fixpoint rn_mpat (p : mpat) : mpat :=
    match p with
    | MLit l => MLit l
    | MWild => MWild
    | MVar s => MVar (rn s)
    | MCtor s inner => MCtor s (option_map rn_mpat inner)
    | MTuple l => MTuple (map rn_mpat l)
    end.

  (* rn0: stage-0 walk (renames inside quotations only); rn1: quoted code *)
  Fixpoint rn0 (e : expr) : expr :=
    let f0 := map (fun f => match f with (n, x) => (n, rn0 x) end) in
    match e with
    | EBracket q => EBracket (rn1 q)
    | EEscape x => EEscape (rn0 x)
    | ELit _ | EVar _ | EQualifiedVar _ | EError => e
    | EBlock b => EBlock (option_map rn0 b)
    | ETuple es => ETuple (map rn0 es)
    | EProj x i => EProj (rn0 x) i
    | EArrayAccess a i => EArrayAccess (rn0 a) (rn0 i)
    | EArrayLiteral es => EArrayLiteral (map rn0 es)
    | ERecordLiteral fs => ERecordLiteral (f0 fs)
    | EImcompleteRecord fs => EImcompleteRecord (f0 fs)
    | ERecordUpdate r fs => ERecordUpdate (rn0 r) (f0 fs)
    | EFieldAccess r f => EFieldAccess (rn0 r) f
    | EApply f args => EApply (rn0 f) (map rn0 args)
    | EMacroExpand f args => EMacroExpand (rn0 f) (map rn0 args)
    | EBinOp l op r => EBinOp (rn0 l) op (rn0 r)
    | EUniOp op x => EUniOp op (rn0 x)
    | EParen x => EParen (rn0 x)
    | ELambda ps rt body => ELambda (map (fun p => match p with (x, t, d) => (x, t, option_map rn0 d) end) ps) rt (rn0 body)
    | EAssign l r => EAssign (rn0 l) (rn0 r)
    | EThen a b => EThen (rn0 a) (option_map rn0 b)
    | EFeed x body => EFeed x (rn0 body)
    | ELet p t v body => ELet p t (rn0 v) (option_map rn0 body)
    | ELetRec x t v body => ELetRec x t (rn0 v) (option_map rn0 body)
    | EIf c t el => EIf (rn0 c) (rn0 t) (option_map rn0 el)
    | EMatch s arms => EMatch (rn0 s) (map (fun a => match a with (p, x) => (p, rn0 x) end) arms)
    end
  with rn1 (e : expr) : expr :=
    let f1 := map (fun f => match f with (n, x) => (n, rn1 x) end) in
    match e with
    | EEscape x => EEscape (rn0 x)
    | EBracket q => EBracket (rn1 q)
    | EVar x => EVar (rn x)
    | ELit _ | EQualifiedVar _ | EError => e
    | EBlock b => EBlock (option_map rn1 b)
    | ETuple es => ETuple (map rn1 es)
    | EProj x i => EProj (rn1 x) i
    | EArrayAccess a i => EArrayAccess (rn1 a) (rn1 i)
    | EArrayLiteral es => EArrayLiteral (map rn1 es)
    | ERecordLiteral fs => ERecordLiteral (f1 fs)
    | EImcompleteRecord fs => EImcompleteRecord (f1 fs)
    | ERecordUpdate r fs => ERecordUpdate (rn1 r) (f1 fs)
    | EFieldAccess r f => EFieldAccess (rn1 r) f
    | EApply f args => EApply (rn1 f) (map rn1 args)
    | EMacroExpand f args => EMacroExpand (rn1 f) (map rn1 args)
    | EBinOp l op r => EBinOp (rn1 l) op (rn1 r)
    | EUniOp op x => EUniOp op (rn1 x)
    | EParen x => EParen (rn1 x)
    | ELambda ps rt body => ELambda (map (fun p => match p with (x, t, d) => (rn x, t, option_map rn1 d) end) ps) rt (rn1 body)
    | EAssign l r => EAssign (rn1 l) (rn1 r)
    | EThen a b => EThen (rn1 a) (option_map rn1 b)
    | EFeed x body => EFeed (rn x) (rn1 body)
    | ELet p t v body => ELet (rn_pat p) t (rn1 v) (option_map rn1 body)
    | ELetRec x t v body => ELetRec (rn x) t (rn1 v) (option_map rn1 body)
    | EIf c t el => EIf (rn1 c) (rn1 t) (option_map rn1 el)
    | EMatch s arms => EMatch (rn1 s) (map (fun a => match a with (p, x) => (rn_mpat p, rn1 x) end) arms)
    end.

  Fixpoint rn_val (v : value) : value :=
    match v with
    | VCode c => VCode (rn1 c)
    | VArr l => VArr (map rn_val l)
    | VTup l => VTup (map rn_val l)
    | VClos ps body r => VClos ps (rn0 body) (map (fun b => match b with (x, w) => (x, rn_val w) end) r)
    | VRec f ps body r => VRec f ps (rn0 body) (map (fun b => match b with (x, w) => (x, rn_val w) end) r)
    | _ => v
    end.

  Definition rn_env (r : env) : env := map (fun b => match b with (x, w) => (x, rn_val w) end) r.
End Rename.

Definition swap_name (a b : string) (x : string) : string :=
  if String.eqb x a then b else if String.eqb x b then a else x.

Local Open Scope list_scope.
(* the stage-1 names occurring in the quotations of a stage-0 expression / in quoted code *)
Fixpoint pat_names (p : pat) : list string :=
  match p with
  | PSingle s => [s]
  | PPlaceholder | PError => []
  | PTuple l => flat_map pat_names l
  | PRecord l => flat_map (fun f => fst f :: pat_names (snd f)) l
  end.

Fixpoint mpat_names (p : mpat) : list string :=
  match p with
  | MVar s => [s]
  | MLit _ | MWild => []
  | MCtor _ inner => match inner with Some i => mpat_names i | None => [] end
  | MTuple l => flat_map mpat_names l
  end.

Definition opt_names {A} (f : A -> list string) (o : option A) : list string :=
  match o with Some a => f a | None => [] end.

Fixpoint names0 (e : expr) : list string :=
  let f0 := flat_map (fun f : string * expr => names0 (snd f)) in
  match e with
  | EBracket q => names1 q
  | EEscape x => names0 x
  | ELit _ | EVar _ | EQualifiedVar _ | EError => []
  | EBlock b => opt_names names0 b
  | ETuple es | EArrayLiteral es => flat_map names0 es
  | EProj x _ | EFieldAccess x _ | EUniOp _ x | EParen x | EFeed _ x => names0 x
  | EArrayAccess a b | EBinOp a _ b | EAssign a b => names0 a ++ names0 b
  | ERecordLiteral fs | EImcompleteRecord fs => f0 fs
  | ERecordUpdate r fs => names0 r ++ f0 fs
  | EApply f args | EMacroExpand f args => names0 f ++ flat_map names0 args
  | ELambda ps _ body => flat_map (fun p => match p with (_, _, d) => opt_names names0 d end) ps ++ names0 body
  | EThen a b => names0 a ++ opt_names names0 b
  | ELet _ _ v body | ELetRec _ _ v body => names0 v ++ opt_names names0 body
  | EIf c t el => names0 c ++ names0 t ++ opt_names names0 el
  | EMatch s arms => names0 s ++ flat_map (fun a : mpat * expr => names0 (snd a)) arms
  end
with names1 (e : expr) : list string :=
  let f1 := flat_map (fun f : string * expr => names1 (snd f)) in
  match e with
  | EEscape x => names0 x
  | EBracket q => names1 q
  | EVar x => [x]
  | ELit _ | EQualifiedVar _ | EError => []
  | EBlock b => opt_names names1 b
  | ETuple es | EArrayLiteral es => flat_map names1 es
  | EProj x _ | EFieldAccess x _ | EUniOp _ x | EParen x => names1 x
  | EFeed n x => n :: names1 x
  | EArrayAccess a b | EBinOp a _ b | EAssign a b => names1 a ++ names1 b
  | ERecordLiteral fs | EImcompleteRecord fs => f1 fs
  | ERecordUpdate r fs => names1 r ++ f1 fs
  | EApply f args | EMacroExpand f args => names1 f ++ flat_map names1 args
  | ELambda ps _ body => flat_map (fun p => match p with (x, _, d) => x :: opt_names names1 d end) ps ++ names1 body
  | EThen a b => names1 a ++ opt_names names1 b
  | ELet p _ v body => pat_names p ++ names1 v ++ opt_names names1 body
  | ELetRec x _ v body => x :: names1 v ++ opt_names names1 body
  | EIf c t el => names1 c ++ names1 t ++ opt_names names1 el
  | EMatch s arms => names1 s ++ flat_map (fun a : mpat * expr => mpat_names (fst a) ++ names1 (snd a)) arms
  end.

Fixpoint val_names (v : value) : list string :=
  match v with
  | VCode c => names1 c
  | VArr l | VTup l => flat_map val_names l
  | VClos _ body r | VRec _ _ body r => names0 body ++ flat_map (fun b => val_names (snd b)) r
  | _ => []
  end.

Definition env_names (r : env) : list string := flat_map (fun b => val_names (snd b)) r.

(* ------------------------------------------------------------------------------------------ *)
(* Table checks (C09_arity_agree)                                                              *)
(* ------------------------------------------------------------------------------------------ *)

Fixpoint registered_sig (tbl : list (string * string * list akind)) (name : string) : option (list akind) :=
  match tbl with
  | [] => None
  | (n, _, ks) :: r => if String.eqb n name then Some ks else registered_sig r name
  end.

(* a call site agrees with the registration when the combinator is registered with that many arguments *)
Definition site_ok (c : string * nat) : bool :=
  match registered_sig registered (fst c) with
  | Some ks => Nat.eqb (List.length ks) (snd c)
  | None => false
  end.

Definition unregistered_sites : list (string * nat) :=
  filter (fun c => match registered_sig registered (fst c) with None => true | Some _ => false end) emitted.
