(* Staging/HygieneMain.v — C10 assembled: the capture witness, and commutation of expansion with renaming *)
From Coq Require Import List String ZArith Bool.
From Coq Require Import Floats.SpecFloat.
From Mimium Require Import Tables.Combinators Staging.Model Staging.Ind Staging.NF Staging.Eval
  Staging.Factor Staging.NormNF Staging.RoundTrip Staging.Main Staging.Hygiene.
Import ListNotations.
Local Open Scope string_scope.

Section Absent.
  Variable rn : string -> string.

  Lemma rn_pat_absent p : fixes rn (pat_names p) -> rn_pat rn p = p.
  Proof.
    induction p as [s| |l IH|l|] using pat_ind'; cbn [pat_names rn_pat]; intros F; try reflexivity.
    - rewrite (F s (or_introl eq_refl)). reflexivity.
    - f_equal. induction l as [|q r IHr]; [reflexivity|]. destruct IH as [Hq Hr]. cbn [flat_map] in F.
      apply fixes_app in F. destruct F as [F1 F2]. cbn [map]. rewrite (Hq F1), (IHr Hr F2). reflexivity.
    - f_equal. induction l as [|[n q] r IHr]; [reflexivity|]. cbn [flat_map fst snd] in F.
      apply fixes_app in F. destruct F as [F1 F2]. apply fixes_cons in F1. destruct F1 as [Fn Fq].
      cbn [map]. rewrite Fn, (IHr F2). f_equal. f_equal.
      (* nested record patterns: pat_ind' gives no hypothesis for PRecord, prove by size *)
      clear -Fq. revert Fq. generalize q. fix REC 1. intros q0. destruct q0 as [s| |l|l|]; cbn [pat_names rn_pat]; intros F; try reflexivity.
      + rewrite (F s (or_introl eq_refl)). reflexivity.
      + f_equal. induction l as [|a t IHt]; [reflexivity|]. cbn [flat_map] in F. apply fixes_app in F. destruct F as [F1 F2].
        cbn [map]. rewrite (REC a F1), (IHt F2). reflexivity.
      + f_equal. induction l as [|[n2 a] t IHt]; [reflexivity|]. cbn [flat_map fst snd] in F. apply fixes_app in F.
        destruct F as [F1 F2]. apply fixes_cons in F1. destruct F1 as [Fn2 Fa].
        cbn [map]. rewrite Fn2, (REC a Fa), (IHt F2). reflexivity.
  Qed.

  Lemma rn_mpat_absent : forall p, fixes rn (mpat_names p) -> rn_mpat rn p = p.
  Proof.
    fix REC 1. intros p. destruct p as [l| |s|s inner|l]; cbn [mpat_names rn_mpat]; intros F; try reflexivity.
    - rewrite (F s (or_introl eq_refl)). reflexivity.
    - destruct inner as [i|]; cbn [option_map]; [rewrite (REC i F)|]; reflexivity.
    - f_equal. induction l as [|a t IHt]; [reflexivity|]. cbn [flat_map] in F. apply fixes_app in F. destruct F as [F1 F2].
      cbn [map]. rewrite (REC a F1), (IHt F2). reflexivity.
  Qed.

  Definition A0 (e : expr) : Prop := fixes rn (names0 e) -> rn0 rn e = e.
  Definition A1 (e : expr) : Prop := fixes rn (names1 e) -> rn1 rn e = e.

  Lemma list_absent0 es : AllP (fun x => A0 x /\ A1 x) es -> fixes rn (flat_map names0 es) -> map (rn0 rn) es = es.
  Proof.
    induction es as [|a t IH]; intros H F; [reflexivity|]. destruct H as [[Ha _] Ht]. cbn [flat_map] in F.
    apply fixes_app in F. destruct F as [F1 F2]. cbn [map]. rewrite (Ha F1), (IH Ht F2). reflexivity.
  Qed.
  Lemma list_absent1 es : AllP (fun x => A0 x /\ A1 x) es -> fixes rn (flat_map names1 es) -> map (rn1 rn) es = es.
  Proof.
    induction es as [|a t IH]; intros H F; [reflexivity|]. destruct H as [[_ Ha] Ht]. cbn [flat_map] in F.
    apply fixes_app in F. destruct F as [F1 F2]. cbn [map]. rewrite (Ha F1), (IH Ht F2). reflexivity.
  Qed.
  Lemma fields_absent0 (fs : list (string * expr)) :
    AllP (fun f => A0 (snd f) /\ A1 (snd f)) fs -> fixes rn (flat_map (fun f : string * expr => names0 (snd f)) fs) ->
    map (fun f : string * expr => match f with (n, x) => (n, rn0 rn x) end) fs = fs.
  Proof.
    induction fs as [|[n a] t IH]; intros H F; [reflexivity|]. destruct H as [[Ha _] Ht]. cbn [flat_map snd] in *.
    apply fixes_app in F. destruct F as [F1 F2]. cbn [map]. rewrite (Ha F1), (IH Ht F2). reflexivity.
  Qed.
  Lemma fields_absent1 (fs : list (string * expr)) :
    AllP (fun f => A0 (snd f) /\ A1 (snd f)) fs -> fixes rn (flat_map (fun f : string * expr => names1 (snd f)) fs) ->
    map (fun f : string * expr => match f with (n, x) => (n, rn1 rn x) end) fs = fs.
  Proof.
    induction fs as [|[n a] t IH]; intros H F; [reflexivity|]. destruct H as [[_ Ha] Ht]. cbn [flat_map snd] in *.
    apply fixes_app in F. destruct F as [F1 F2]. cbn [map]. rewrite (Ha F1), (IH Ht F2). reflexivity.
  Qed.
  Lemma opt_absent0 o : OptP (fun x => A0 x /\ A1 x) o -> fixes rn (opt_names names0 o) -> option_map (rn0 rn) o = o.
  Proof. destruct o as [x|]; intros H F; cbn [option_map opt_names OptP] in *; [rewrite (proj1 H F)|]; reflexivity. Qed.
  Lemma opt_absent1 o : OptP (fun x => A0 x /\ A1 x) o -> fixes rn (opt_names names1 o) -> option_map (rn1 rn) o = o.
  Proof. destruct o as [x|]; intros H F; cbn [option_map opt_names OptP] in *; [rewrite (proj2 H F)|]; reflexivity. Qed.

  Ltac fx :=
    repeat match goal with
           | H : fixes rn (_ ++ _) |- _ => apply fixes_app in H; destruct H
           | H : fixes rn (_ :: _) |- _ => apply fixes_cons in H; destruct H
           end.

  Lemma rn_absent : forall e, A0 e /\ A1 e.
  Proof.
    induction e as
      [ l | x | segs | b IHb | es IHes | e1 i IH1 | e1 e2 IH1 IH2 | es IHes | fs IHfs | fs IHfs
      | e1 fs IH1 IHfs | e1 f IH1 | e1 args IH1 IHargs | e1 args IH1 IHargs | e1 op e2 IH1 IH2 | op e1 IH1
      | e1 IH1 | ps rt e1 IHps IH1 | e1 e2 IH1 IH2 | e1 b IH1 IHb | x e1 IH1 | p t e1 body IH1 IHb
      | x t e1 body IH1 IHb | e1 e2 e3 IH1 IH2 IH3 | e1 arms IH1 IHarms | e1 IH1 | e1 IH1 | ] using expr_ind';
      split; intros F; cbn [names0 names1] in F; fx;
      repeat match goal with H : _ /\ _ |- _ => destruct H end;
      try reflexivity.
    all: try (change (rn0 rn (EBracket e1)) with (EBracket (rn1 rn e1)));
         try (change (rn1 rn (EEscape e1)) with (EEscape (rn0 rn e1)));
         try (change (rn0 rn (EEscape e1)) with (EEscape (rn0 rn e1)));
         try (change (rn1 rn (EBracket e1)) with (EBracket (rn1 rn e1))).
    all: cbn [rn0 rn1];
      repeat match goal with
             | [ H : A0 ?x, F : fixes rn (names0 ?x) |- _ ] => rewrite (H F); clear H
             | [ H : A1 ?x, F : fixes rn (names1 ?x) |- _ ] => rewrite (H F); clear H
             | [ F : rn ?x = ?x |- _ ] => rewrite F; clear F
             end;
      try reflexivity.
    - rewrite (opt_absent0 b IHb F). reflexivity.
    - rewrite (opt_absent1 b IHb F). reflexivity.
    - rewrite (list_absent0 es IHes F). reflexivity.
    - rewrite (list_absent1 es IHes F). reflexivity.
    - rewrite (list_absent0 es IHes F). reflexivity.
    - rewrite (list_absent1 es IHes F). reflexivity.
    - rewrite (fields_absent0 fs IHfs F). reflexivity.
    - rewrite (fields_absent1 fs IHfs F). reflexivity.
    - rewrite (fields_absent0 fs IHfs F). reflexivity.
    - rewrite (fields_absent1 fs IHfs F). reflexivity.
    - match goal with F2 : fixes rn (flat_map _ fs) |- _ => rewrite (fields_absent0 fs IHfs F2) end. reflexivity.
    - match goal with F2 : fixes rn (flat_map _ fs) |- _ => rewrite (fields_absent1 fs IHfs F2) end. reflexivity.
    - match goal with F2 : fixes rn (flat_map _ args) |- _ => rewrite (list_absent0 args IHargs F2) end. reflexivity.
    - match goal with F2 : fixes rn (flat_map _ args) |- _ => rewrite (list_absent1 args IHargs F2) end. reflexivity.
    - match goal with F2 : fixes rn (flat_map _ args) |- _ => rewrite (list_absent0 args IHargs F2) end. reflexivity.
    - match goal with F2 : fixes rn (flat_map _ args) |- _ => rewrite (list_absent1 args IHargs F2) end. reflexivity.
    - (* ELambda 0 *)
      f_equal. match goal with F2 : fixes rn (flat_map _ ps) |- _ => rename F2 into Fp end.
      clear -IHps Fp. induction ps as [|[[x t] d] r IH]; [reflexivity|]. destruct IHps as [Hd Hr]. cbn [flat_map snd] in *.
      apply fixes_app in Fp. destruct Fp as [F1 F2]. cbn [map]. rewrite (IH Hr F2). f_equal. f_equal.
      exact (opt_absent0 d Hd F1).
    - (* ELambda 1 *)
      f_equal. match goal with F2 : fixes rn (flat_map _ ps) |- _ => rename F2 into Fp end.
      clear -IHps Fp. induction ps as [|[[x t] d] r IH]; [reflexivity|]. destruct IHps as [Hd Hr]. cbn [flat_map snd] in *.
      apply fixes_app in Fp. destruct Fp as [F1 F2]. apply fixes_cons in F1. destruct F1 as [Fx Fd].
      cbn [map]. rewrite (IH Hr F2), Fx. f_equal. f_equal. exact (opt_absent1 d Hd Fd).
    - match goal with F2 : fixes rn (opt_names _ b) |- _ => rewrite (opt_absent0 b IHb F2) end. reflexivity.
    - match goal with F2 : fixes rn (opt_names _ b) |- _ => rewrite (opt_absent1 b IHb F2) end. reflexivity.
    - match goal with F2 : fixes rn (opt_names _ body) |- _ => rewrite (opt_absent0 body IHb F2) end. reflexivity.
    - match goal with F2 : fixes rn (opt_names _ body) |- _ => rewrite (opt_absent1 body IHb F2) end.
      match goal with F2 : fixes rn (pat_names p) |- _ => rewrite (rn_pat_absent p F2) end. reflexivity.
    - match goal with F2 : fixes rn (opt_names _ body) |- _ => rewrite (opt_absent0 body IHb F2) end. reflexivity.
    - match goal with F2 : fixes rn (opt_names _ body) |- _ => rewrite (opt_absent1 body IHb F2) end. reflexivity.
    - match goal with F2 : fixes rn (opt_names _ e3) |- _ => rewrite (opt_absent0 e3 IH3 F2) end. reflexivity.
    - match goal with F2 : fixes rn (opt_names _ e3) |- _ => rewrite (opt_absent1 e3 IH3 F2) end. reflexivity.
    - (* EMatch 0 *)
      f_equal. match goal with F2 : fixes rn (flat_map _ arms) |- _ => rename F2 into Fa end.
      clear -IHarms Fa. induction arms as [|[p a] r IH]; [reflexivity|]. destruct IHarms as [[Ha _] Hr]. cbn [flat_map snd] in *.
      apply fixes_app in Fa. destruct Fa as [F1 F2]. cbn [map]. rewrite (Ha F1), (IH Hr F2). reflexivity.
    - (* EMatch 1 *)
      f_equal. match goal with F2 : fixes rn (flat_map _ arms) |- _ => rename F2 into Fa end.
      clear -IHarms Fa. induction arms as [|[p a] r IH]; [reflexivity|]. destruct IHarms as [[_ Ha] Hr]. cbn [flat_map fst snd] in *.
      apply fixes_app in Fa. destruct Fa as [F1 F2]. apply fixes_app in F1. destruct F1 as [Fp Fx].
      cbn [map]. rewrite (Ha Fx), (IH Hr F2), (rn_mpat_absent p Fp). reflexivity.
  Qed.

  Lemma rn_val_absent v : fixes rn (val_names v) -> rn_val rn v = v.
  Proof.
    induction v using value_ind'; cbn [val_names rn_val]; intros F; try reflexivity.
    - rewrite (proj2 (rn_absent c) F). reflexivity.
    - f_equal. induction l as [|a t IH]; [reflexivity|]. destruct H as [Ha Ht]. cbn [flat_map] in F.
      apply fixes_app in F. destruct F as [F1 F2]. cbn [map]. rewrite (Ha F1), (IH Ht F2). reflexivity.
    - f_equal. induction l as [|a t IH]; [reflexivity|]. destruct H as [Ha Ht]. cbn [flat_map] in F.
      apply fixes_app in F. destruct F as [F1 F2]. cbn [map]. rewrite (Ha F1), (IH Ht F2). reflexivity.
    - apply fixes_app in F. destruct F as [Fb Fr]. rewrite (proj1 (rn_absent body) Fb). f_equal.
      induction r as [|[x w] t IH]; [reflexivity|]. destruct H as [Hw Ht]. cbn [flat_map snd] in *.
      apply fixes_app in Fr. destruct Fr as [F1 F2]. cbn [map]. rewrite (Hw F1), (IH Ht F2). reflexivity.
    - apply fixes_app in F. destruct F as [Fb Fr]. rewrite (proj1 (rn_absent body) Fb). f_equal.
      induction r as [|[x w] t IH]; [reflexivity|]. destruct H as [Hw Ht]. cbn [flat_map snd] in *.
      apply fixes_app in Fr. destruct Fr as [F1 F2]. cbn [map]. rewrite (Hw F1), (IH Ht F2). reflexivity.
  Qed.

  Lemma rn_env_absent r : fixes rn (env_names r) -> rn_env rn r = r.
  Proof.
    induction r as [|[x w] t IH]; intros F; [reflexivity|]. unfold env_names in F. cbn [flat_map snd] in F.
    apply fixes_app in F. destruct F as [F1 F2]. cbn [rn_env map]. rewrite (rn_val_absent w F1). f_equal. exact (IH F2).
  Qed.
End Absent.

(* ---------- the implementation on normal-form programs ---------- *)

Theorem expand_agrees_nf n k p r v :
  nf0 p -> good_env r -> ev n r p = Ok v -> ev n (tr_env r) (fst (translate p k)) = Ok (tr_val v).
Proof.
  intros N G H. unfold translate. rewrite (proj1 (translate_factor p) k), (proj1 (norm_id p) N k). cbn [fst].
  exact (proj1 (proj1 (roundtrip n p) N r v G H)).
Qed.

Lemma data_src_env r : data_env r -> src_env r.
Proof.
  induction r as [|[x v] r IH]; intros H; [exact I|]. destruct H as [[_ Hv] Hr]. split; [exact (data_src v Hv) | exact (IH Hr)].
Qed.

(* expansion commutes with renaming of quoted names *)
Theorem hygiene_commutes (rn : string -> string) n k p r c :
  nf0 p -> nf0 (rn0 rn p) -> src0 p -> data_env r ->
  fixes rn (env_names r) ->                         (* spliced code values do not mention a renamed name *)
  ev n r p = Ok (VCode c) ->
  ev n r (fst (translate p k)) = Ok (VCode c) /\
  ev n r (fst (translate (rn0 rn p) k)) = Ok (VCode (rn1 rn c)).
Proof.
  intros N N' S D F H. destruct (data_env_good r D) as [G E].
  split.
  - rewrite <- E at 1. exact (expand_agrees_nf n k p r (VCode c) N G H).
  - destruct (proj1 (rn_equivariant rn n p) S r (VCode c) (data_src_env r D) H) as [H' _].
    rewrite (rn_env_absent rn r F) in H'.
    rewrite <- E at 1. exact (expand_agrees_nf n k (rn0 rn p) r (VCode (rn1 rn c)) N' G H').
Qed.

(* the shape of the property: a macro definition M bound to m, used in U; only M is renamed *)
Theorem hygiene_fresh (rn : string -> string) n k m t M U r c :
  let P := ELet (PSingle m) t M (Some U) in
  fixes rn (names0 U) ->                            (* the use site and the context do not mention a renamed name *)
  fixes rn (env_names r) ->                         (* nor do the code values spliced from the environment *)
  nf0 P -> nf0 (rn0 rn P) -> src0 P -> data_env r ->
  ev n r P = Ok (VCode c) ->
  ev n r (fst (translate P k)) = Ok (VCode c) /\
  ev n r (fst (translate (ELet (PSingle m) t (rn0 rn M) (Some U)) k)) = Ok (VCode (rn1 rn c)).
Proof.
  intros P FU Fr N N' S D H.
  assert (EP : rn0 rn P = ELet (PSingle m) t (rn0 rn M) (Some U)).
  { unfold P. cbn [rn0 option_map]. rewrite (proj1 (rn_absent rn U) FU). reflexivity. }
  rewrite <- EP. exact (hygiene_commutes rn n k P r c N N' S D Fr H).
Qed.

(* ---------- the capture witness (finding F7) ---------- *)

Definition f_1 : num := float_one.
Definition f_100 : num := S754_finite false 7036874417766400 (-46).
Definition f_2 : num := S754_finite false 4503599627370496 (-51).
Definition f_101 : num := S754_finite false 7107243161944064 (-46).

(* fn addy(x){ `{ let <b> = 1.0; $x + <b> } } *)
Definition addy_macro (b : string) : expr :=
  ELambda [("x", ty_unknown, None)] None
    (EBracket (ELet (PSingle b) ty_unknown (ELit (LFloat f_1))
                 (Some (EApply (EVar "add") [EEscape (EVar "x"); EVar b])))).

(* `{ let y = 100.0; addy!(`y) } *)
Definition addy_use : expr :=
  EBracket (ELet (PSingle "y") ty_unknown (ELit (LFloat f_100))
              (Some (EEscape (EApply (EVar "addy") [EBracket (EVar "y")])))).

Definition addy_program (b : string) : expr := ELet (PSingle "addy") ty_unknown (addy_macro b) (Some addy_use).

Theorem hygiene_refuted :
  exists (e_y e_z : expr),
    addy_macro "z" = rn0 (swap_name "y" "z") (addy_macro "y") /\      (* the binder of the macro body renamed y -> z *)
    ~ In "z" (names0 (addy_program "y")) /\                            (* z is fresh *)
    expand 4 0 (addy_program "y") = Ok e_y /\
    expand 4 0 (addy_program "z") = Ok e_z /\
    ev 4 [] e_y = Ok (VNum f_2) /\                                     (* let y = 100; let y = 1; y + y *)
    ev 4 [] e_z = Ok (VNum f_101).                                     (* let y = 100; let z = 1; y + z *)
Proof.
  eexists. eexists. split; [reflexivity|]. split; [cbn; intuition discriminate|].
  split; [vm_compute; reflexivity|]. split; [vm_compute; reflexivity|].
  split; vm_compute; reflexivity.
Qed.
