(* Staging/Arity.v — finite facts about Tables/Combinators.v (regenerated from the Rust source on every run) *)
From Coq Require Import List String Bool.
From Mimium Require Import Tables.Combinators Staging.Model.
Import ListNotations.
Local Open Scope string_scope.

(* a call site is fine when the combinator is registered with exactly that many arguments; the one tolerated
   exception is `code_match` while it is not registered at all (known finding F27, see C09_match_unexpandable) *)
Definition site_agrees (c : string * nat) : bool :=
  site_ok c ||
  (String.eqb (fst c) "code_match" &&
   match registered_sig registered "code_match" with None => true | Some _ => false end).

Lemma arity_agree : forallb site_agrees emitted = true.
Proof. vm_compute. reflexivity. Qed.

(* every registered combinator has an implementation in the model (so `prim` dispatches it) *)
Definition implemented (r : string * string * list akind) : bool :=
  match r with (_, fn, _) => match assoc combinator_table fn with Some _ => true | None => false end end.

Lemma registered_implemented : forallb implemented registered = true.
Proof. vm_compute. reflexivity. Qed.

(* no name is registered twice *)
Lemma registered_nodup : NoDup (map (fun r => fst (fst r)) registered).
Proof.
  repeat (constructor; [ cbn; intuition discriminate | ]). constructor.
Qed.
