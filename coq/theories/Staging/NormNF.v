(* Staging/NormNF.v — the normalisation of translatable code is a normal form *)
From Coq Require Import List String ZArith Bool.
From Mimium Require Import Tables.Combinators Staging.Model Staging.Ind Staging.NF Staging.Factor.
Import ListNotations.
Local Open Scope string_scope.

Lemma mapS_all {A C : Type} (N : A -> nat -> C * nat) (Q : C -> Prop) (l : list A) :
  AllP (fun a => forall k, Q (fst (N a k))) l -> forall k, AllP Q (fst (mapS N l k)).
Proof.
  induction l as [|a r IH]; intros H k; cbn [mapS].
  - exact I.
  - destruct H as [Ha Hr]. specialize (Ha k). destruct (N a k) as [c k1]. cbn [fst] in Ha.
    specialize (IH Hr k1). destruct (mapS N r k1) as [cs k2]. cbn [fst] in *. split; assumption.
Qed.

Lemma optS_all {A C : Type} (N : A -> nat -> C * nat) (Q : C -> Prop) (o : option A) :
  OptP (fun a => forall k, Q (fst (N a k))) o -> forall k, OptP Q (fst (optS N o k)).
Proof.
  destruct o as [a|]; intros H k; cbn [optS]; [|exact I].
  specialize (H k). destruct (N a k). exact H.
Qed.

Lemma flat_let_tuple names : AllP flat_elem (map let_tuple_pat names).
Proof.
  induction names as [|n r IH]; [exact I|]. cbn [map]. split; [|exact IH].
  unfold let_tuple_pat. destruct (String.eqb n "_") eqn:E; cbn [flat_elem]; [exact I|].
  intros ->. discriminate E.
Qed.

Lemma norm_tuple_nf p :
  forall v body k, nf1 v -> nf1 body -> nf1 (fst (norm_tuple_pat p v body k)).
Proof.
  induction p as [s| |sub IH|l|] using pat_ind'; intros v body k Nv Nb; cbn [norm_tuple_pat fst]; try exact Nb.
  destruct (top_names sub k) as [names k1].
  assert (Hloop : forall (qs : list pat) (ns : list string) (k : nat),
            AllP (fun p => forall v body k, nf1 v -> nf1 body -> nf1 (fst (norm_tuple_pat p v body k))) qs ->
            nf1 (fst ((fix wrap (qs : list pat) (ns : list string) (k : nat) {struct qs} : expr * nat :=
               match qs, ns with
               | q :: qs', n :: ns' =>
                   let '(b1, k1) := wrap qs' ns' k in
                   norm_tuple_pat q (EVar n) b1 k1
               | _, _ => (body, k)
               end) qs ns k))).
  { induction qs as [|q qs' IHq]; intros ns k0 Hall; [exact Nb|].
    destruct ns as [|n ns']; [exact Nb|]. destruct Hall as [Hq Hqs].
    specialize (IHq ns' k0 Hqs).
    match goal with |- context [let '(_, _) := ?X in _] => destruct X as [b1 kk2] end.
    cbn [fst] in IHq. apply Hq; [exact I | exact IHq]. }
  specialize (Hloop sub names k1 IH).
  match goal with |- context [let '(_, _) := ?X in _] => destruct X as [b kk3] end.
  cbn [fst nf1 nf_pat is_some OptP] in *. repeat split; try assumption. apply flat_let_tuple.
Qed.

Lemma norm_let_nf p v body k : nf1 v -> nf1 body -> nf1 (fst (norm_let p v body k)).
Proof.
  intros Nv Nb. destruct p; cbn [norm_let fst nf1 nf_pat is_some OptP]; try (repeat split; assumption).
  apply norm_tuple_nf; assumption.
Qed.

Definition N0 (e : expr) : Prop := tr0 e -> forall k, nf0 (fst (norm0 e k)).
Definition N1 (e : expr) : Prop := tr1 e -> forall k, nf1 (fst (norm1 e k)).

Ltac nstep :=
  match goal with
  | [ H : N1 ?x, T : tr1 ?x |- context [norm1 ?x ?k] ] =>
      let H' := fresh "Hn" in pose proof (H T k) as H'; destruct (norm1 x k) as [? ?]; cbn [fst snd] in H' |- *
  | [ H : N0 ?x, T : tr0 ?x |- context [norm0 ?x ?k] ] =>
      let H' := fresh "Hn" in pose proof (H T k) as H'; destruct (norm0 x k) as [? ?]; cbn [fst snd] in H' |- *
  end.

Lemma fields_all0 (fs : list (string * expr)) :
  AllP (fun f : string * expr => N0 (snd f) /\ N1 (snd f)) fs -> AllP (fun f : string * expr => tr0 (snd f)) fs ->
  forall k, AllP (fun f : string * expr => nf0 (snd f))
                 (fst (mapS (fun f k => match f with (n, x) => let '(x', k') := norm0 x k in ((n, x'), k') end) fs k)).
Proof.
  intros H T. apply mapS_all.
  induction fs as [|[n x] r IH]; [exact I|]. destruct H as [[H0 _] Hr]. destruct T as [Tx Tr].
  split; [|exact (IH Hr Tr)]. intros k. cbn [snd] in *. specialize (H0 Tx k). destruct (norm0 x k). exact H0.
Qed.

Lemma fields_all1 (fs : list (string * expr)) :
  AllP (fun f : string * expr => N0 (snd f) /\ N1 (snd f)) fs -> AllP (fun f : string * expr => tr1 (snd f)) fs ->
  forall k, AllP (fun f : string * expr => nf1 (snd f))
                 (fst (mapS (fun f k => match f with (n, x) => let '(x', k') := norm1 x k in ((n, x'), k') end) fs k)).
Proof.
  intros H T. apply mapS_all.
  induction fs as [|[n x] r IH]; [exact I|]. destruct H as [[_ H1] Hr]. destruct T as [Tx Tr].
  split; [|exact (IH Hr Tr)]. intros k. cbn [snd] in *. specialize (H1 Tx k). destruct (norm1 x k). exact H1.
Qed.

Lemma arms_all0 (arms : list (mpat * expr)) :
  AllP (fun a : mpat * expr => N0 (snd a) /\ N1 (snd a)) arms -> AllP (fun a : mpat * expr => tr0 (snd a)) arms ->
  forall k, AllP (fun a : mpat * expr => nf0 (snd a))
                 (fst (mapS (fun a k => match a with (p, x) => let '(x', k') := norm0 x k in ((p, x'), k') end) arms k)).
Proof.
  intros H T. apply mapS_all.
  induction arms as [|[p x] r IH]; [exact I|]. destruct H as [[H0 _] Hr]. destruct T as [Tx Tr].
  split; [|exact (IH Hr Tr)]. intros k. cbn [snd] in *. specialize (H0 Tx k). destruct (norm0 x k). exact H0.
Qed.

Lemma list_all0 (es : list expr) :
  AllP (fun x => N0 x /\ N1 x) es -> AllP tr0 es -> forall k, AllP nf0 (fst (mapS norm0 es k)).
Proof.
  intros H T. apply mapS_all.
  induction es as [|x r IH]; [exact I|]. destruct H as [[H0 _] Hr]. destruct T as [Tx Tr].
  split; [exact (H0 Tx) | exact (IH Hr Tr)].
Qed.

Lemma list_all1 (es : list expr) :
  AllP (fun x => N0 x /\ N1 x) es -> AllP tr1 es -> forall k, AllP nf1 (fst (mapS norm1 es k)).
Proof.
  intros H T. apply mapS_all.
  induction es as [|x r IH]; [exact I|]. destruct H as [[_ H1] Hr]. destruct T as [Tx Tr].
  split; [exact (H1 Tx) | exact (IH Hr Tr)].
Qed.

Lemma opt_all0 (o : option expr) :
  OptP (fun x => N0 x /\ N1 x) o -> OptP tr0 o -> forall k, OptP nf0 (fst (optS norm0 o k)).
Proof.
  intros H T. apply optS_all. destruct o as [x|]; [|exact I]. cbn [OptP] in *. exact (proj1 H T).
Qed.

Lemma params_all1 (ps : list (string * ty * option expr)) :
  AllP (fun p : string * ty * option expr => OptP (fun d => N0 d /\ N1 d) (snd p)) ps ->
  AllP (fun p : string * ty * option expr => OptP tr1 (snd p)) ps ->
  forall k, AllP (fun p : string * ty * option expr => OptP nf1 (snd p))
                 (fst (mapS (fun p k => match p with
                                       | (x, t, Some d) => let '(d', k') := norm1 d k in ((x, t, Some d'), k')
                                       | (x, t, None) => ((x, t, None), k)
                                       end) ps k)).
Proof.
  intros H T. apply mapS_all.
  induction ps as [|[[x t] d] r IH]; [exact I|]. destruct H as [Hd Hr]. destruct T as [Td Tr].
  split; [|exact (IH Hr Tr)]. intros k. cbn [snd] in *. destruct d as [d|]; [|exact I].
  cbn [OptP] in *. destruct Hd as [_ H1]. specialize (H1 Td k). destruct (norm1 d k). exact H1.
Qed.

Lemma norm_nf : forall e, N0 e /\ N1 e.
Proof.
  induction e as
    [ l | x | segs | b IHb | es IHes | e1 i IH1 | e1 e2 IH1 IH2 | es IHes | fs IHfs | fs IHfs
    | e1 fs IH1 IHfs | e1 f IH1 | e1 args IH1 IHargs | e1 args IH1 IHargs | e1 op e2 IH1 IH2 | op e1 IH1
    | e1 IH1 | ps rt e1 IHps IH1 | e1 e2 IH1 IH2 | e1 b IH1 IHb | x e1 IH1 | p t e1 body IH1 IHb
    | x t e1 body IH1 IHb | e1 e2 e3 IH1 IH2 IH3 | e1 arms IH1 IHarms | e1 IH1 | e1 IH1 | ] using expr_ind';
    split; intros T k; cbn [tr0 tr1] in T; try contradiction;
    repeat match goal with H : _ /\ _ |- _ => destruct H end;
    cbn [norm0 norm1]; repeat nstep; cbn [fst nf0 nf1 is_some OptP]; try exact I; try tauto.
  - (* EBlock 0 *) pose proof (opt_all0 b IHb T k) as Hb. destruct (optS norm0 b k). exact Hb.
  - (* EBlock 1 *) destruct b as [y|]; [|exact I]. cbn [OptP] in *. destruct IHb as [_ H1]. specialize (H1 T k).
    destruct (norm1 y k). cbn [fst nf1 is_some OptP] in *. tauto.
  - (* ETuple 0 *) pose proof (list_all0 es IHes T k) as H. destruct (mapS norm0 es k). exact H.
  - (* ETuple 1 *) pose proof (list_all1 es IHes T k) as H. destruct (mapS norm1 es k). exact H.
  - (* EArrayLiteral 0 *) pose proof (list_all0 es IHes T k) as H. destruct (mapS norm0 es k). exact H.
  - (* EArrayLiteral 1 *) pose proof (list_all1 es IHes T k) as H. destruct (mapS norm1 es k). exact H.
  - (* ERecordLiteral 0 *) pose proof (fields_all0 fs IHfs T k) as H. destruct (mapS _ fs k). exact H.
  - (* ERecordLiteral 1 *) pose proof (fields_all1 fs IHfs T k) as H. destruct (mapS _ fs k). exact H.
  - (* EImcompleteRecord 0 *) pose proof (fields_all0 fs IHfs T k) as H. destruct (mapS _ fs k). exact H.
  - (* EImcompleteRecord 1 *) pose proof (fields_all1 fs IHfs T k) as H. destruct (mapS _ fs k). exact H.
  - (* ERecordUpdate 0 *)
    match goal with T2 : AllP _ fs |- context [mapS _ fs ?k0] => pose proof (fields_all0 fs IHfs T2 k0) as Hf; destruct (mapS _ fs k0) end.
    cbn [fst nf0]. tauto.
  - (* ERecordUpdate 1 *)
    match goal with T2 : AllP _ fs |- context [mapS _ fs ?k0] => pose proof (fields_all1 fs IHfs T2 k0) as Hf; destruct (mapS _ fs k0) end.
    cbn [fst nf1]. tauto.
  - (* EApply 0 *)
    match goal with T2 : AllP _ args |- context [mapS _ args ?k0] => pose proof (list_all0 args IHargs T2 k0) as Hf; destruct (mapS _ args k0) end.
    cbn [fst nf0]. tauto.
  - (* EApply 1 *)
    match goal with T2 : AllP _ args |- context [mapS _ args ?k0] => pose proof (list_all1 args IHargs T2 k0) as Hf; destruct (mapS _ args k0) end.
    cbn [fst nf1]. tauto.
  - (* ELambda 1 *)
    match goal with T2 : AllP _ ps |- context [mapS _ ps ?k0] => pose proof (params_all1 ps IHps T2 k0) as Hf; destruct (mapS _ ps k0) end.
    cbn [fst nf1 is_some]. tauto.
  - (* EThen 0 *)
    match goal with T2 : OptP _ b |- context [optS _ b ?k0] => pose proof (opt_all0 b IHb T2 k0) as Hb; destruct (optS norm0 b k0) end.
    cbn [fst nf0]. tauto.
  - (* EThen 1 *)
    destruct b as [y|]; [|cbn [fst]; assumption]. cbn [OptP] in *. destruct IHb as [_ Hy].
    match goal with T2 : tr1 y |- context [norm1 y ?k0] => specialize (Hy T2 k0); destruct (norm1 y k0) end.
    cbn [fst nf1 is_some OptP] in *. tauto.
  - (* ELet 0 *)
    match goal with T2 : OptP _ body |- context [optS _ body ?k0] => pose proof (opt_all0 body IHb T2 k0) as Hb; destruct (optS norm0 body k0) end.
    cbn [fst nf0]. tauto.
  - (* ELet 1 *)
    destruct body as [y|].
    + cbn [OptP] in *. destruct IHb as [_ Hy].
      match goal with T2 : tr1 y |- context [norm1 y ?k0] => specialize (Hy T2 k0); destruct (norm1 y k0) end.
      cbn [fst] in Hy. apply norm_let_nf; assumption.
    + apply norm_let_nf; [assumption | exact I].
  - (* ELetRec 0 *)
    match goal with T2 : OptP _ body |- context [optS _ body ?k0] => pose proof (opt_all0 body IHb T2 k0) as Hb; destruct (optS norm0 body k0) end.
    cbn [fst nf0]. tauto.
  - (* ELetRec 1 *)
    destruct body as [y|].
    + cbn [OptP] in *. destruct IHb as [_ Hy].
      match goal with T2 : tr1 y |- context [norm1 y ?k0] => specialize (Hy T2 k0); destruct (norm1 y k0) end.
      cbn [fst nf1 is_some OptP] in *. tauto.
    + cbn [fst nf1 is_some OptP]. repeat split; try assumption.
  - (* EIf 0 *)
    match goal with T2 : OptP _ e3 |- context [optS _ e3 ?k0] => pose proof (opt_all0 e3 IH3 T2 k0) as Hb; destruct (optS norm0 e3 k0) end.
    cbn [fst nf0]. tauto.
  - (* EIf 1 *)
    destruct e3 as [y|].
    + cbn [OptP] in *. destruct IH3 as [_ Hy].
      match goal with T2 : tr1 y |- context [norm1 y ?k0] => specialize (Hy T2 k0); destruct (norm1 y k0) end.
      cbn [fst nf1 is_some OptP] in *. tauto.
    + cbn [fst nf1 is_some OptP]. repeat split; try assumption.
  - (* EMatch 0 *)
    match goal with T2 : AllP _ arms |- context [mapS _ arms ?k0] => pose proof (arms_all0 arms IHarms T2 k0) as Hf; destruct (mapS _ arms k0) end.
    cbn [fst nf0]. tauto.
Qed.
