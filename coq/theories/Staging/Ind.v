(* Staging/Ind.v — induction principles for the nested inductive types of Staging/Model.v *)
From Coq Require Import List String ZArith.
From Mimium Require Import Staging.Model.
Import ListNotations.

(* P on the content of an option *)
Definition OptP {A : Type} (P : A -> Prop) (o : option A) : Prop :=
  match o with Some a => P a | None => True end.

(* P on every element (a local fixpoint over the list only, so that it can be used in nested recursive definitions) *)
Definition AllP {A : Type} (P : A -> Prop) : list A -> Prop :=
  fix go (l : list A) : Prop := match l with [] => True | a :: r => P a /\ go r end.

Lemma AllP_nil {A} (P : A -> Prop) : AllP P [] = True.
Proof. reflexivity. Qed.
Lemma AllP_cons {A} (P : A -> Prop) a r : AllP P (a :: r) = (P a /\ AllP P r).
Proof. reflexivity. Qed.

Lemma AllP_Forall {A} (P : A -> Prop) l : AllP P l <-> Forall P l.
Proof.
  induction l as [|a r IH]; cbn; split; intro H; auto.
  - destruct H as [Ha Hr]. constructor; [exact Ha | apply IH; exact Hr].
  - inversion H; subst. split; [assumption | apply IH; assumption].
Qed.

Lemma AllP_In {A} (P : A -> Prop) l : AllP P l -> forall a, In a l -> P a.
Proof. intros H a Hin. apply AllP_Forall in H. rewrite Forall_forall in H. auto. Qed.

Lemma AllP_impl {A} (P Q : A -> Prop) l : (forall a, P a -> Q a) -> AllP P l -> AllP Q l.
Proof. intros HPQ. induction l as [|a r IH]; cbn; intuition. Qed.

Lemma AllP_app {A} (P : A -> Prop) l1 l2 : AllP P (l1 ++ l2) <-> AllP P l1 /\ AllP P l2.
Proof. induction l1 as [|a r IH]; cbn; intuition. Qed.

Section ExprInd.
  Variable P : expr -> Prop.
  Hypothesis HLit : forall l, P (ELit l).
  Hypothesis HVar : forall x, P (EVar x).
  Hypothesis HQVar : forall segs, P (EQualifiedVar segs).
  Hypothesis HBlock : forall b, OptP P b -> P (EBlock b).
  Hypothesis HTuple : forall es, AllP P es -> P (ETuple es).
  Hypothesis HProj : forall e i, P e -> P (EProj e i).
  Hypothesis HArrayAccess : forall a i, P a -> P i -> P (EArrayAccess a i).
  Hypothesis HArrayLiteral : forall es, AllP P es -> P (EArrayLiteral es).
  Hypothesis HRecordLiteral : forall fs, AllP (fun f => P (snd f)) fs -> P (ERecordLiteral fs).
  Hypothesis HImcompleteRecord : forall fs, AllP (fun f => P (snd f)) fs -> P (EImcompleteRecord fs).
  Hypothesis HRecordUpdate : forall r fs, P r -> AllP (fun f => P (snd f)) fs -> P (ERecordUpdate r fs).
  Hypothesis HFieldAccess : forall r f, P r -> P (EFieldAccess r f).
  Hypothesis HApply : forall f args, P f -> AllP P args -> P (EApply f args).
  Hypothesis HMacroExpand : forall f args, P f -> AllP P args -> P (EMacroExpand f args).
  Hypothesis HBinOp : forall l op r, P l -> P r -> P (EBinOp l op r).
  Hypothesis HUniOp : forall op e, P e -> P (EUniOp op e).
  Hypothesis HParen : forall e, P e -> P (EParen e).
  Hypothesis HLambda : forall ps rt body,
      AllP (fun p : string * ty * option expr => OptP P (snd p)) ps -> P body -> P (ELambda ps rt body).
  Hypothesis HAssign : forall l r, P l -> P r -> P (EAssign l r).
  Hypothesis HThen : forall a b, P a -> OptP P b -> P (EThen a b).
  Hypothesis HFeed : forall x body, P body -> P (EFeed x body).
  Hypothesis HLet : forall p t v body, P v -> OptP P body -> P (ELet p t v body).
  Hypothesis HLetRec : forall x t v body, P v -> OptP P body -> P (ELetRec x t v body).
  Hypothesis HIf : forall c t e, P c -> P t -> OptP P e -> P (EIf c t e).
  Hypothesis HMatch : forall s arms, P s -> AllP (fun a : mpat * expr => P (snd a)) arms -> P (EMatch s arms).
  Hypothesis HBracket : forall e, P e -> P (EBracket e).
  Hypothesis HEscape : forall e, P e -> P (EEscape e).
  Hypothesis HError : P EError.

  Fixpoint expr_ind' (e : expr) : P e :=
    let opt (o : option expr) : OptP P o :=
      match o return OptP P o with Some x => expr_ind' x | None => I end in
    let lst :=
      fix go (l : list expr) : AllP P l :=
        match l return AllP P l with [] => I | a :: r => conj (expr_ind' a) (go r) end in
    let fields :=
      fix go (l : list (string * expr)) : AllP (fun f => P (snd f)) l :=
        match l return AllP (fun f => P (snd f)) l with
        | [] => I
        | (n, x) :: r => conj (expr_ind' x) (go r)
        end in
    match e return P e with
    | ELit l => HLit l
    | EVar x => HVar x
    | EQualifiedVar s => HQVar s
    | EBlock b => HBlock b (opt b)
    | ETuple es => HTuple es (lst es)
    | EProj x i => HProj x i (expr_ind' x)
    | EArrayAccess a i => HArrayAccess a i (expr_ind' a) (expr_ind' i)
    | EArrayLiteral es => HArrayLiteral es (lst es)
    | ERecordLiteral fs => HRecordLiteral fs (fields fs)
    | EImcompleteRecord fs => HImcompleteRecord fs (fields fs)
    | ERecordUpdate r fs => HRecordUpdate r fs (expr_ind' r) (fields fs)
    | EFieldAccess r f => HFieldAccess r f (expr_ind' r)
    | EApply f args => HApply f args (expr_ind' f) (lst args)
    | EMacroExpand f args => HMacroExpand f args (expr_ind' f) (lst args)
    | EBinOp l op r => HBinOp l op r (expr_ind' l) (expr_ind' r)
    | EUniOp op x => HUniOp op x (expr_ind' x)
    | EParen x => HParen x (expr_ind' x)
    | ELambda ps rt body =>
        HLambda ps rt body
          ((fix go (l : list (string * ty * option expr)) : AllP (fun p => OptP P (snd p)) l :=
              match l return AllP (fun p => OptP P (snd p)) l with
              | [] => I
              | (_, d) :: r => conj (opt d) (go r)
              end) ps)
          (expr_ind' body)
    | EAssign l r => HAssign l r (expr_ind' l) (expr_ind' r)
    | EThen a b => HThen a b (expr_ind' a) (opt b)
    | EFeed x body => HFeed x body (expr_ind' body)
    | ELet p t v body => HLet p t v body (expr_ind' v) (opt body)
    | ELetRec x t v body => HLetRec x t v body (expr_ind' v) (opt body)
    | EIf c t el => HIf c t el (expr_ind' c) (expr_ind' t) (opt el)
    | EMatch s arms =>
        HMatch s arms (expr_ind' s)
          ((fix go (l : list (mpat * expr)) : AllP (fun a => P (snd a)) l :=
              match l return AllP (fun a => P (snd a)) l with
              | [] => I
              | (_, x) :: r => conj (expr_ind' x) (go r)
              end) arms)
    | EBracket x => HBracket x (expr_ind' x)
    | EEscape x => HEscape x (expr_ind' x)
    | EError => HError
    end.
End ExprInd.

(* values *)
Section ValueInd.
  Variable P : value -> Prop.
  Hypothesis HNum : forall q, P (VNum q).
  Hypothesis HInt : forall z, P (VInt z).
  Hypothesis HStr : forall s, P (VStr s).
  Hypothesis HTy : forall t, P (VTy t).
  Hypothesis HUnit : P VUnit.
  Hypothesis HCode : forall c, P (VCode c).
  Hypothesis HArr : forall l, AllP P l -> P (VArr l).
  Hypothesis HTup : forall l, AllP P l -> P (VTup l).
  Hypothesis HClos : forall ps body r, AllP (fun b => P (snd b)) r -> P (VClos ps body r).
  Hypothesis HRec : forall f ps body r, AllP (fun b => P (snd b)) r -> P (VRec f ps body r).
  Hypothesis HPrim : forall n, P (VPrim n).

  Fixpoint value_ind' (v : value) : P v :=
    let lst :=
      fix go (l : list value) : AllP P l :=
        match l return AllP P l with [] => I | a :: r => conj (value_ind' a) (go r) end in
    let envl :=
      fix go (l : list (string * value)) : AllP (fun b => P (snd b)) l :=
        match l return AllP (fun b => P (snd b)) l with
        | [] => I
        | (_, w) :: r => conj (value_ind' w) (go r)
        end in
    match v return P v with
    | VNum q => HNum q
    | VInt z => HInt z
    | VStr s => HStr s
    | VTy t => HTy t
    | VUnit => HUnit
    | VCode c => HCode c
    | VArr l => HArr l (lst l)
    | VTup l => HTup l (lst l)
    | VClos ps body r => HClos ps body r (envl r)
    | VRec f ps body r => HRec f ps body r (envl r)
    | VPrim n => HPrim n
    end.
End ValueInd.
