(* Staging/Hygiene.v — C10: expansion commutes with renaming of the names of quoted code. *)
From Coq Require Import List String ZArith Bool Arith Lia.
From Coq Require Import Floats.SpecFloat.
From Mimium Require Import Tables.Combinators Staging.Model Staging.Ind Staging.NF Staging.Eval Staging.RoundTrip.
Import ListNotations.
Local Open Scope string_scope.

(* the registered external functions a macro author calls directly; the code_* combinators take names as
   strings and are only called by the translation *)
Definition lift_names : list string := ["lift_f"; "lift"; "lift_arrayf"; "lift_array_code"; "code_lift_f"].
Definition user_ok (x : string) : bool := negb (is_comb x) || existsb (String.eqb x) lift_names.

(* source programs: stage-0 variables never name a code_* combinator *)
Fixpoint src0 (e : expr) : Prop :=
  match e with
  | EBracket q => src1 q
  | EVar x => user_ok x = true
  | EEscape _ | ELit _ | EQualifiedVar _ | EError => True
  | EBlock b => OptP src0 b
  | ETuple es | EArrayLiteral es => AllP src0 es
  | EProj x _ | EFieldAccess x _ | EParen x | EFeed _ x | EUniOp _ x => src0 x
  | EArrayAccess a b | EAssign a b | EBinOp a _ b => src0 a /\ src0 b
  | ERecordLiteral fs | EImcompleteRecord fs => AllP (fun f => src0 (snd f)) fs
  | ERecordUpdate r fs => src0 r /\ AllP (fun f => src0 (snd f)) fs
  | EApply f args | EMacroExpand f args => src0 f /\ AllP src0 args
  | ELambda _ _ body => src0 body
  | EThen a b => src0 a /\ OptP src0 b
  | ELet _ _ v body | ELetRec _ _ v body => src0 v /\ OptP src0 body
  | EIf c t el => src0 c /\ src0 t /\ OptP src0 el
  | EMatch s arms => src0 s /\ AllP (fun a : mpat * expr => src0 (snd a)) arms
  end
with src1 (e : expr) : Prop :=
  match e with
  | EEscape s => src0 s
  | EBracket q => src1 q
  | ELit _ | EVar _ | EQualifiedVar _ | EError => True
  | EBlock b => OptP src1 b
  | ETuple es | EArrayLiteral es => AllP src1 es
  | EProj x _ | EFieldAccess x _ | EParen x | EFeed _ x | EUniOp _ x => src1 x
  | EArrayAccess a b | EAssign a b | EBinOp a _ b => src1 a /\ src1 b
  | ERecordLiteral fs | EImcompleteRecord fs => AllP (fun f => src1 (snd f)) fs
  | ERecordUpdate r fs => src1 r /\ AllP (fun f => src1 (snd f)) fs
  | EApply f args | EMacroExpand f args => src1 f /\ AllP src1 args
  | ELambda ps _ body => AllP (fun p : string * ty * option expr => OptP src1 (snd p)) ps /\ src1 body
  | EThen a b => src1 a /\ OptP src1 b
  | ELet _ _ v body | ELetRec _ _ v body => src1 v /\ OptP src1 body
  | EIf c t el => src1 c /\ src1 t /\ OptP src1 el
  | EMatch s arms => src1 s /\ AllP (fun a : mpat * expr => src1 (snd a)) arms
  end.

Fixpoint src_val (v : value) : Prop :=
  match v with
  | VArr l | VTup l => AllP src_val l
  | VClos _ b r | VRec _ _ b r => src0 b /\ AllP (fun p : string * value => src_val (snd p)) r
  | VPrim name => user_ok name = true
  | _ => True
  end.
Definition src_env (r : env) : Prop := AllP (fun p : string * value => src_val (snd p)) r.

Section Rn.
  Variable rn : string -> string.

  Notation rv := (rn_val rn).
  Notation re := (rn_env rn).

  Lemma lookup_rn r x : lookup (re r) x = option_map rv (lookup r x).
  Proof.
    induction r as [|[y v] r IH]; [reflexivity|]. cbn [rn_env map lookup].
    destruct (String.eqb x y); [reflexivity | exact IH].
  Qed.

  Lemma lookup_src r x v : src_env r -> lookup r x = Some v -> src_val v.
  Proof.
    induction r as [|[y w] r IH]; cbn [lookup]; intros G H; [discriminate|].
    destruct G as [Gw Gr]. destruct (String.eqb x y); [injection H as <-; exact Gw | exact (IH Gr H)].
  Qed.

  Lemma is_data_rn v : is_data (rv v) = is_data v.
  Proof.
    induction v using value_ind'; cbn [is_data rn_val]; try reflexivity.
    - induction l as [|a r IH]; [reflexivity|]. destruct H as [Ha Hr]. cbn [map forallb]. rewrite Ha, (IH Hr). reflexivity.
    - induction l as [|a r IH]; [reflexivity|]. destruct H as [Ha Hr]. cbn [map forallb]. rewrite Ha, (IH Hr). reflexivity.
  Qed.

  Lemma all_data_rn l : forallb is_data (map rv l) = forallb is_data l.
  Proof. induction l as [|a r IH]; [reflexivity|]. cbn [map forallb]. rewrite is_data_rn, IH. reflexivity. Qed.

  Lemma data_src v : is_data v = true -> src_val v.
  Proof.
    induction v using value_ind'; cbn [is_data src_val]; intros D; try discriminate; try exact I.
    - induction l as [|a r IH]; [exact I|]. cbn [forallb] in D. apply andb_true_iff in D. destruct D, H. split; auto.
    - induction l as [|a r IH]; [exact I|]. cbn [forallb] in D. apply andb_true_iff in D. destruct D, H. split; auto.
  Qed.

  Lemma bind_params_rn ps avs cr r' :
    bind_params ps avs cr = Ok r' -> bind_params ps (map rv avs) (re cr) = Ok (re r').
  Proof.
    revert avs r'. induction ps as [|p ps IH]; intros [|a avs] r' H; cbn [bind_params map] in *; try discriminate.
    - injection H as <-. reflexivity.
    - inv_bind_as H r2 E. injection H as <-. rewrite (IH _ _ E). reflexivity.
  Qed.

  Lemma bind_params_src ps avs cr r' :
    AllP src_val avs -> src_env cr -> bind_params ps avs cr = Ok r' -> src_env r'.
  Proof.
    revert avs r'. induction ps as [|p ps IH]; intros [|a avs] r' Ha Hc H; cbn [bind_params] in *; try discriminate.
    - injection H as <-. exact Hc.
    - inv_bind_as H r2 E. injection H as <-. destruct Ha as [Ha1 Ha2]. split; [exact Ha1 | exact (IH _ _ Ha2 Hc E)].
  Qed.

  Lemma param_names_rn0 ps :
    param_names (map (fun p : string * ty * option expr => match p with (x, t, d) => (x, t, option_map (rn0 rn) d) end) ps)
    = param_names ps.
  Proof.
    unfold param_names. induction ps as [|[[x t] d] r IH]; [reflexivity|]. cbn [map mapM]. rewrite IH.
    destruct d; reflexivity.
  Qed.

  (* ---------- external functions ---------- *)

  Lemma mapM_as_code_rn l es : mapM as_code l = Ok es -> mapM as_code (map rv l) = Ok (map (rn1 rn) es).
  Proof.
    revert es. induction l as [|a r IH]; intros es H; cbn [mapM map] in *.
    - injection H as <-. reflexivity.
    - inv_bind_as H c Ec. inv_bind_as H cs Ecs. injection H as <-. destruct a; try discriminate.
      cbn [as_code] in Ec. injection Ec as <-. cbn [rn_val as_code bind]. rewrite (IH _ Ecs). reflexivity.
  Qed.

  Lemma mapM_as_num_rn l qs : mapM as_num l = Ok qs -> map rv l = l.
  Proof.
    revert qs. induction l as [|a r IH]; intros qs H; cbn [mapM map] in *; [reflexivity|].
    inv_bind_as H c Ec. inv_bind_as H cs Ecs. destruct a; try discriminate. cbn [rn_val]. rewrite (IH _ Ecs). reflexivity.
  Qed.

  Lemma lift_value_rn v c : lift_value v = Ok c -> lift_value (rv v) = Ok (rn1 rn c).
  Proof.
    revert c. induction v using value_ind'; intros c0 Hc; cbn [lift_value rn_val] in *; try discriminate;
      try (injection Hc as <-; reflexivity).
    - inv_bind_as Hc es Ees. injection Hc as <-.
      assert (E : mapM lift_value (map rv l) = Ok (map (rn1 rn) es)).
      { clear -H Ees. revert es Ees. induction l as [|a r IH]; intros es Ees; cbn [mapM map] in *.
        - injection Ees as <-. reflexivity.
        - destruct H as [Ha Hr]. inv_bind_as Ees c Ec. inv_bind_as Ees cs Ecs. injection Ees as <-.
          rewrite (Ha _ Ec). cbn [bind]. rewrite (IH Hr _ Ecs). reflexivity. }
      rewrite E. reflexivity.
    - inv_bind_as Hc es Ees. injection Hc as <-.
      assert (E : mapM lift_value (map rv l) = Ok (map (rn1 rn) es)).
      { clear -H Ees. revert es Ees. induction l as [|a r IH]; intros es Ees; cbn [mapM map] in *.
        - injection Ees as <-. reflexivity.
        - destruct H as [Ha Hr]. inv_bind_as Ees c Ec. inv_bind_as Ees cs Ecs. injection Ees as <-.
          rewrite (Ha _ Ec). cbn [bind]. rewrite (IH Hr _ Ecs). reflexivity. }
      rewrite E. reflexivity.
  Qed.

  Lemma intrinsic_rn name f args q :
    assoc intrinsic_table name = Some f -> f args = Ok q -> map rv args = args.
  Proof.
    unfold intrinsic_table. cbn [assoc].
    repeat (destruct (String.eqb _ name);
            [ intros Hf; injection Hf as <-; unfold num2; intros Hq;
              repeat (destruct args as [|[] args]; try discriminate Hq); reflexivity | ]).
    discriminate.
  Qed.

  Lemma prim_rn name avs v :
    user_ok name = true -> prim name avs = Ok v -> prim name (map rv avs) = Ok (rv v) /\ src_val v.
  Proof.
    intros U. unfold prim. rewrite all_data_rn. destruct (forallb is_data avs) eqn:D; [|discriminate].
    destruct (registered_fn registered name) as [fn|] eqn:R.
    - (* a registered combinator the user may call: the lift family *)
      unfold user_ok, is_comb in U. rewrite R in U. cbn [negb orb] in U.
      unfold lift_names in U. cbn [existsb] in U.
      intros H. inv_bind_as H c Ec. injection H as <-. split; [|exact I].
      repeat (apply orb_true_iff in U; destruct U as [U|U]); try discriminate U;
        apply String.eqb_eq in U; subst name; vm_compute in R; injection R as <-;
        unfold combinator in Ec |- *; cbn [assoc combinator_table String.eqb Ascii.eqb Bool.eqb] in Ec |- *.
      + (* lift_f -> code_lift_f *)
        repeat (destruct avs as [|[] avs]; try discriminate Ec). injection Ec as <-. reflexivity.
      + (* lift -> code_lift *)
        destruct avs as [|a [|]]; try discriminate Ec. cbn [map]. rewrite (lift_value_rn _ _ Ec). reflexivity.
      + (* lift_arrayf -> code_lift_arrayf *)
        destruct avs as [|a [|]]; try discriminate Ec. inv_bind_as Ec qs Eq. injection Ec as <-.
        unfold nums in Eq. inv_bind_as Eq l El. destruct a; try discriminate El. cbn [as_arr] in El. injection El as <-.
        cbn [map rn_val]. rewrite (mapM_as_num_rn _ _ Eq). unfold nums. cbn [as_arr bind]. rewrite Eq. cbn [bind].
        f_equal. f_equal. cbn [rn1]. f_equal. rewrite map_map. apply map_ext. reflexivity.
      + (* lift_array_code -> code_array *)
        destruct avs as [|a [|]]; try discriminate Ec. inv_bind_as Ec es Ee. injection Ec as <-.
        unfold codes in Ee. inv_bind_as Ee l El. destruct a; try discriminate El. cbn [as_arr] in El. injection El as <-.
        cbn [map rn_val]. unfold codes. cbn [as_arr bind]. rewrite (mapM_as_code_rn _ _ Ee). reflexivity.
      + (* code_lift_f *)
        repeat (destruct avs as [|[] avs]; try discriminate Ec). injection Ec as <-. reflexivity.
    - destruct (assoc intrinsic_table name) as [f|] eqn:A; [|discriminate].
      intros H. inv_bind_as H q Eq. injection H as <-. rewrite (intrinsic_rn _ _ _ _ A Eq), Eq. split; [reflexivity | exact I].
  Qed.

  (* ---------- equivariance of evaluation and of the reference reading ---------- *)

  Definition R0 (n : nat) (e : expr) : Prop :=
    src0 e -> forall r v, src_env r -> ev n r e = Ok v ->
    ev n (re r) (rn0 rn e) = Ok (rv v) /\ src_val v.
  Definition R1 (n : nat) (e : expr) : Prop :=
    src1 e -> forall r c, src_env r -> rebuild n r e = Ok c ->
    rebuild n (re r) (rn1 rn e) = Ok (rn1 rn c).
  Definition R01 n e := R0 n e /\ R1 n e.

  Lemma R1_list n es :
    AllP (R01 n) es -> AllP src1 es -> forall r cs, src_env r ->
    mapM (rebuild n r) es = Ok cs -> mapM (rebuild n (re r)) (map (rn1 rn) es) = Ok (map (rn1 rn) cs).
  Proof.
    induction es as [|a t IH]; intros HS HN r cs G H; cbn [mapM map] in *.
    - injection H as <-. reflexivity.
    - destruct HS as [[_ Ha] Ht]. destruct HN as [Na Nt].
      inv_bind_as H a' Ea. inv_bind_as H t' Et. injection H as <-.
      rewrite (Ha Na r a' G Ea). cbn [bind]. rewrite (IH Ht Nt r t' G Et). reflexivity.
  Qed.

  Lemma R0_list n es :
    AllP (R01 n) es -> AllP src0 es -> forall r vs, src_env r ->
    mapM (ev n r) es = Ok vs -> mapM (ev n (re r)) (map (rn0 rn) es) = Ok (map rv vs) /\ AllP src_val vs.
  Proof.
    induction es as [|a t IH]; intros HS HN r vs G H; cbn [mapM map] in *.
    - injection H as <-. split; [reflexivity | exact I].
    - destruct HS as [[Ha _] Ht]. destruct HN as [Na Nt].
      inv_bind_as H a' Ea. inv_bind_as H t' Et. injection H as <-.
      destruct (Ha Na r a' G Ea) as [E1 G1]. destruct (IH Ht Nt r t' G Et) as [E2 G2].
      rewrite E1. cbn [bind]. rewrite E2. split; [reflexivity | split; assumption].
  Qed.

  Lemma R1_opt n o :
    OptP (R01 n) o -> OptP src1 o -> forall r o', src_env r ->
    optM (rebuild n r) o = Ok o' -> optM (rebuild n (re r)) (option_map (rn1 rn) o) = Ok (option_map (rn1 rn) o').
  Proof.
    destruct o as [x|]; intros HS HN r o' G H; cbn [optM option_map] in *.
    - inv_bind_as H x' Ex. injection H as <-. rewrite (proj2 HS HN r x' G Ex). reflexivity.
    - injection H as <-. reflexivity.
  Qed.

  Lemma R1_fields n (fs : list (string * expr)) :
    AllP (fun f => R01 n (snd f)) fs -> AllP (fun f => src1 (snd f)) fs -> forall r fs', src_env r ->
    mapM (fun f : string * expr => match f with (nm, x) => do x' <- rebuild n r x; Ok (nm, x') end) fs = Ok fs' ->
    mapM (fun f : string * expr => match f with (nm, x) => do x' <- rebuild n (re r) x; Ok (nm, x') end)
         (map (fun f : string * expr => match f with (nm, x) => (nm, rn1 rn x) end) fs)
    = Ok (map (fun f : string * expr => match f with (nm, x) => (nm, rn1 rn x) end) fs').
  Proof.
    induction fs as [|[nm a] t IH]; intros HS HN r fs' G H; cbn [mapM map] in *.
    - injection H as <-. reflexivity.
    - destruct HS as [[_ Ha] Ht]. destruct HN as [Na Nt]. cbn [snd] in Ha, Na.
      inv_bind_as H p Ep. inv_bind_as Ep a' Ea. injection Ep as <-. inv_bind_as H t' Et. injection H as <-.
      rewrite (Ha Na r a' G Ea). cbn [bind]. rewrite (IH Ht Nt r t' G Et). reflexivity.
  Qed.

  Lemma R1_arms n (arms : list (mpat * expr)) :
    AllP (fun a => R01 n (snd a)) arms -> AllP (fun a => src1 (snd a)) arms -> forall r arms', src_env r ->
    mapM (fun a : mpat * expr => match a with (p, x) => do x' <- rebuild n r x; Ok (p, x') end) arms = Ok arms' ->
    mapM (fun a : mpat * expr => match a with (p, x) => do x' <- rebuild n (re r) x; Ok (p, x') end)
         (map (fun a : mpat * expr => match a with (p, x) => (rn_mpat rn p, rn1 rn x) end) arms)
    = Ok (map (fun a : mpat * expr => match a with (p, x) => (rn_mpat rn p, rn1 rn x) end) arms').
  Proof.
    induction arms as [|[p a] t IH]; intros HS HN r arms' G H; cbn [mapM map] in *.
    - injection H as <-. reflexivity.
    - destruct HS as [[_ Ha] Ht]. destruct HN as [Na Nt]. cbn [snd] in Ha, Na.
      inv_bind_as H q Eq. inv_bind_as Eq a' Ea. injection Eq as <-. inv_bind_as H t' Et. injection H as <-.
      rewrite (Ha Na r a' G Ea). cbn [bind]. rewrite (IH Ht Nt r t' G Et). reflexivity.
  Qed.

  Lemma R1_params n (ps : list (string * ty * option expr)) :
    AllP (fun p => OptP (R01 n) (snd p)) ps -> AllP (fun p => OptP src1 (snd p)) ps -> forall r ps', src_env r ->
    mapM (fun p : string * ty * option expr =>
            match p with (x, t, d) => do d' <- optM (rebuild n r) d; Ok (x, t, d') end) ps = Ok ps' ->
    mapM (fun p : string * ty * option expr =>
            match p with (x, t, d) => do d' <- optM (rebuild n (re r)) d; Ok (x, t, d') end)
         (map (fun p : string * ty * option expr => match p with (x, t, d) => (rn x, t, option_map (rn1 rn) d) end) ps)
    = Ok (map (fun p : string * ty * option expr => match p with (x, t, d) => (rn x, t, option_map (rn1 rn) d) end) ps').
  Proof.
    induction ps as [|[[x t] d] rest IH]; intros HS HN r ps' G H; cbn [mapM map] in *.
    - injection H as <-. reflexivity.
    - destruct HS as [Hd Ht]. destruct HN as [Nd Nt]. cbn [snd] in Hd, Nd.
      inv_bind_as H p Ep. inv_bind_as Ep d' Ed. injection Ep as <-. inv_bind_as H rest' Er. injection H as <-.
      rewrite (R1_opt n d Hd Nd r d' G Ed). cbn [bind]. rewrite (IH Ht Nt r rest' G Er). reflexivity.
  Qed.

  Ltac r1 :=
    match goal with
    | [ IH : R01 ?n ?x, S : src1 ?x, G : src_env ?r, E : rebuild ?n ?r ?x = Ok ?c
        |- context [rebuild ?n (rn_env rn ?r) (rn1 rn ?x)] ] => rewrite (proj2 IH S r c G E); cbn [bind]
    end.

  Lemma rn_equivariant : forall n e, R01 n e.
  Proof.
    induction n as [n IHn] using lt_wf_ind.
    induction e as
      [ l | x | segs | b IHb | es IHes | e1 i IH1 | e1 e2 IH1 IH2 | es IHes | fs IHfs | fs IHfs
      | e1 fs IH1 IHfs | e1 f IH1 | e1 args IH1 IHargs | e1 args IH1 IHargs | e1 op e2 IH1 IH2 | op e1 IH1
      | e1 IH1 | ps rt e1 IHps IH1 | e1 e2 IH1 IH2 | e1 b IH1 IHb | x e1 IH1 | p t e1 body IH1 IHb
      | x t e1 body IH1 IHb | e1 e2 e3 IH1 IH2 IH3 | e1 arms IH1 IHarms | e1 IH1 | e1 IH1 | ] using expr_ind';
      split.
    all: try (intros N r v G HE; rewrite ev_unfold in HE; discriminate HE).
    all: try (intros N r c G HE; rewrite rebuild_unfold in HE; discriminate HE).
    - (* ELit 0 *)
      intros N r v G HE. cbn [rn0]. rewrite ev_unfold in HE |- *.
      destruct l; try discriminate; injection HE as <-; split; try reflexivity; exact I.
    - (* ELit 1 *)
      intros N r c G HE. cbn [rn1]. rewrite rebuild_unfold in HE |- *. cbn zeta in *.
      destruct l; try discriminate; injection HE as <-; reflexivity.
    - (* EVar 0 *)
      intros N r v G HE. cbn [rn0]. rewrite ev_unfold in HE |- *. rewrite lookup_rn.
      destruct (lookup r x) as [w|] eqn:L; cbn [option_map].
      + injection HE as <-. split; [reflexivity | exact (lookup_src r x w G L)].
      + destruct (is_extern x); [|discriminate]. injection HE as <-. split; [reflexivity | exact N].
    - (* EVar 1 *)
      intros N r c G HE. cbn [rn1]. rewrite rebuild_unfold in HE |- *. cbn zeta in *. injection HE as <-. reflexivity.
    - (* EQualifiedVar 1 *)
      intros N r c G HE. cbn [rn1]. rewrite rebuild_unfold in HE |- *. cbn zeta in *. injection HE as <-. reflexivity.
    - (* EBlock 0 *)
      intros N r v G HE. cbn [rn0]. rewrite ev_unfold in HE |- *. destruct b as [y|]; cbn [option_map].
      + cbn [OptP src0] in *. exact (proj1 IHb N r v G HE).
      + injection HE as <-. split; [reflexivity | exact I].
    - (* EBlock 1 *)
      intros N r c G HE. cbn [rn1 src1] in *. rewrite rebuild_unfold in HE |- *. cbn zeta in *.
      inv_bind_as HE b' Eb. injection HE as <-. rewrite (R1_opt n b IHb N r b' G Eb). reflexivity.
    - (* ETuple 0 *)
      intros N r v G HE. cbn [rn0 src0] in *. rewrite ev_unfold in HE |- *. inv_bind_as HE vs Evs. injection HE as <-.
      destruct (R0_list n es IHes N r vs G Evs) as [E1 G1]. rewrite E1. split; [reflexivity | exact G1].
    - (* ETuple 1 *)
      intros N r c G HE. cbn [rn1 src1] in *. rewrite rebuild_unfold in HE |- *. cbn zeta in *.
      inv_bind_as HE cs Ecs. injection HE as <-. rewrite (R1_list n es IHes N r cs G Ecs). reflexivity.
    - (* EProj 1 *)
      intros N r c G HE. cbn [rn1 src1] in *. rewrite rebuild_unfold in HE |- *. cbn zeta in *.
      inv_bind_as HE c1 Ec1. injection HE as <-. r1. reflexivity.
    - (* EArrayAccess 1 *)
      intros N r c G HE. cbn [rn1 src1] in *. destruct N as [N1 N2]. rewrite rebuild_unfold in HE |- *. cbn zeta in *.
      inv_bind_as HE c1 Ec1. inv_bind_as HE c2 Ec2. injection HE as <-. r1. r1. reflexivity.
    - (* EArrayLiteral 0 *)
      intros N r v G HE. cbn [rn0 src0] in *. rewrite ev_unfold in HE |- *. inv_bind_as HE vs Evs. injection HE as <-.
      destruct (R0_list n es IHes N r vs G Evs) as [E1 G1]. rewrite E1. split; [reflexivity | exact G1].
    - (* EArrayLiteral 1 *)
      intros N r c G HE. cbn [rn1 src1] in *. rewrite rebuild_unfold in HE |- *. cbn zeta in *.
      inv_bind_as HE cs Ecs. injection HE as <-. rewrite (R1_list n es IHes N r cs G Ecs). reflexivity.
    - (* ERecordLiteral 1 *)
      intros N r c G HE. cbn [rn1 src1] in *. rewrite rebuild_unfold in HE |- *. cbn zeta in *.
      inv_bind_as HE fs' Efs. injection HE as <-. rewrite (R1_fields n fs IHfs N r fs' G Efs). reflexivity.
    - (* EImcompleteRecord 1 *)
      intros N r c G HE. cbn [rn1 src1] in *. rewrite rebuild_unfold in HE |- *. cbn zeta in *.
      inv_bind_as HE fs' Efs. injection HE as <-. rewrite (R1_fields n fs IHfs N r fs' G Efs). reflexivity.
    - (* ERecordUpdate 1 *)
      intros N r c G HE. cbn [rn1 src1] in *. destruct N as [N1 N2]. rewrite rebuild_unfold in HE |- *. cbn zeta in *.
      inv_bind_as HE c1 Ec1. inv_bind_as HE fs' Efs. injection HE as <-. r1.
      rewrite (R1_fields n fs IHfs N2 r fs' G Efs). reflexivity.
    - (* EFieldAccess 1 *)
      intros N r c G HE. cbn [rn1 src1] in *. rewrite rebuild_unfold in HE |- *. cbn zeta in *.
      inv_bind_as HE c1 Ec1. injection HE as <-. r1. reflexivity.
    - (* EApply 0 *)
      intros N r v G HE. cbn [rn0 src0] in *. destruct N as [Nf Na]. rewrite ev_unfold in HE |- *.
      inv_bind_as HE fv Ef. inv_bind_as HE avs Ea.
      destruct (proj1 IH1 Nf r fv G Ef) as [Ef' Gf]. destruct (R0_list n args IHargs Na r avs G Ea) as [Ea' Ga].
      rewrite Ef'. cbn [bind]. rewrite Ea'. cbn [bind].
      destruct fv; try discriminate; cbn [rn_val].
      + destruct n as [|n']; [discriminate|]. inv_bind_as HE r2 Er2.
        cbn [src_val] in Gf. destruct Gf as (Gb & Gr).
        change (map (fun b : string * value => let (x, w) := b in (x, rn_val rn w)) env) with (re env).
        rewrite (bind_params_rn _ _ _ _ Er2). cbn [bind].
        assert (G' : src_env r2) by exact (bind_params_src _ _ _ _ Ga Gr Er2).
        exact (proj1 (IHn n' (Nat.lt_succ_diag_r n') body) Gb r2 v G' HE).
      + destruct n as [|n']; [discriminate|]. inv_bind_as HE r2 Er2.
        cbn [src_val] in Gf. destruct Gf as (Gb & Gr).
        assert (E2 := bind_params_rn _ _ _ _ Er2). cbn [rn_env map rn_val] in E2.
        rewrite E2. cbn [bind].
        assert (G' : src_env r2).
        { apply (bind_params_src _ _ _ _ Ga) with (2 := Er2). split; [cbn [snd src_val]; split; assumption | exact Gr]. }
        exact (proj1 (IHn n' (Nat.lt_succ_diag_r n') body) Gb r2 v G' HE).
      + cbn [src_val] in Gf. destruct (prim_rn _ _ _ Gf HE) as (E1 & G2). rewrite E1. split; [reflexivity | exact G2].
    - (* EApply 1 *)
      intros N r c G HE. cbn [rn1 src1] in *. destruct N as [N1 N2]. rewrite rebuild_unfold in HE |- *. cbn zeta in *.
      inv_bind_as HE c1 Ec1. inv_bind_as HE cs Ecs. injection HE as <-. r1.
      rewrite (R1_list n args IHargs N2 r cs G Ecs). reflexivity.
    - (* EParen 0 *)
      intros N r v G HE. cbn [rn0 src0] in *. rewrite ev_unfold in HE |- *. exact (proj1 IH1 N r v G HE).
    - (* EParen 1 *)
      intros N r c G HE. cbn [rn1 src1] in *. rewrite rebuild_unfold in HE |- *. cbn zeta in *.
      inv_bind_as HE c1 Ec1. injection HE as <-. r1. reflexivity.
    - (* ELambda 0 *)
      intros N r v G HE. cbn [rn0 src0] in *. rewrite ev_unfold in HE |- *.
      rewrite param_names_rn0. inv_bind_as HE names En. injection HE as <-. rewrite En. cbn [bind rn_val].
      split; [reflexivity|]. cbn [src_val]. split; assumption.
    - (* ELambda 1 *)
      intros N r c G HE. cbn [rn1 src1] in *. destruct N as [N1 N2]. rewrite rebuild_unfold in HE |- *. cbn zeta in *.
      inv_bind_as HE body' Eb. inv_bind_as HE ps' Eps. injection HE as <-. r1.
      rewrite (R1_params n ps IHps N1 r ps' G Eps). reflexivity.
    - (* EAssign 1 *)
      intros N r c G HE. cbn [rn1 src1] in *. destruct N as [N1 N2]. rewrite rebuild_unfold in HE |- *. cbn zeta in *.
      inv_bind_as HE c1 Ec1. inv_bind_as HE c2 Ec2. injection HE as <-. r1. r1. reflexivity.
    - (* EThen 0 *)
      intros N r v G HE. cbn [rn0 src0] in *. destruct N as [N1 N2]. rewrite ev_unfold in HE |- *.
      inv_bind_as HE av Ea. destruct (proj1 IH1 N1 r av G Ea) as [Ea' Ga]. rewrite Ea'. cbn [bind].
      destruct b as [y|]; cbn [option_map OptP] in *.
      + exact (proj1 IHb N2 r v G HE).
      + injection HE as <-. split; [reflexivity | exact Ga].
    - (* EThen 1 *)
      intros N r c G HE. cbn [rn1 src1] in *. destruct N as [N1 N2]. rewrite rebuild_unfold in HE |- *. cbn zeta in *.
      inv_bind_as HE c1 Ec1. inv_bind_as HE b' Eb. injection HE as <-. r1.
      rewrite (R1_opt n b IHb N2 r b' G Eb). reflexivity.
    - (* EFeed 1 *)
      intros N r c G HE. cbn [rn1 src1] in *. rewrite rebuild_unfold in HE |- *. cbn zeta in *.
      inv_bind_as HE c1 Ec1. injection HE as <-. r1. reflexivity.
    - (* ELet 0 *)
      intros N r v G HE. cbn [rn0 src0] in *. destruct N as [N1 N2]. rewrite ev_unfold in HE |- *.
      inv_bind_as HE a Ea. destruct (proj1 IH1 N1 r a G Ea) as [Ea' Ga]. rewrite Ea'. cbn [bind].
      destruct p; try discriminate; destruct body as [y|]; try discriminate; cbn [option_map OptP] in *.
      + assert (G' : src_env ((s, a) :: r)) by (split; assumption).
        exact (proj1 IHb N2 _ v G' HE).
      + exact (proj1 IHb N2 r v G HE).
    - (* ELet 1 *)
      intros N r c G HE. cbn [rn1 src1] in *. destruct N as [N1 N2]. rewrite rebuild_unfold in HE |- *. cbn zeta in *.
      inv_bind_as HE c1 Ec1. inv_bind_as HE b' Eb. injection HE as <-. r1.
      rewrite (R1_opt n body IHb N2 r b' G Eb). reflexivity.
    - (* ELetRec 0 *)
      intros N r v G HE. cbn [rn0 src0] in *. destruct N as [N1 N2]. rewrite ev_unfold in HE |- *.
      destruct e1; try discriminate. destruct body as [y|]; try discriminate. cbn [rn0 option_map OptP src0] in *.
      rewrite param_names_rn0. inv_bind_as HE names En. rewrite En. cbn [bind].
      assert (G' : src_env ((x, VRec x names e1 r) :: r)) by (split; [cbn [snd src_val]; split; assumption | exact G]).
      exact (proj1 IHb N2 _ v G' HE).
    - (* ELetRec 1 *)
      intros N r c G HE. cbn [rn1 src1] in *. destruct N as [N1 N2]. rewrite rebuild_unfold in HE |- *. cbn zeta in *.
      inv_bind_as HE c1 Ec1. inv_bind_as HE b' Eb. injection HE as <-. r1.
      rewrite (R1_opt n body IHb N2 r b' G Eb). reflexivity.
    - (* EIf 0 *)
      intros N r v G HE. cbn [rn0 src0] in *. destruct N as (N1 & N2 & N3). rewrite ev_unfold in HE |- *.
      inv_bind_as HE cv Ec. destruct (proj1 IH1 N1 r cv G Ec) as [Ec' Gc]. rewrite Ec'. cbn [bind].
      destruct cv; try discriminate; cbn [rn_val]. destruct e3 as [y|]; try discriminate. cbn [option_map OptP] in *.
      destruct (SFleb q (S754_zero false)).
      + exact (proj1 IH3 N3 r v G HE).
      + exact (proj1 IH2 N2 r v G HE).
    - (* EIf 1 *)
      intros N r c G HE. cbn [rn1 src1] in *. destruct N as (N1 & N2 & N3). rewrite rebuild_unfold in HE |- *. cbn zeta in *.
      inv_bind_as HE c1 Ec1. inv_bind_as HE c2 Ec2. inv_bind_as HE b' Eb. injection HE as <-. r1. r1.
      rewrite (R1_opt n e3 IH3 N3 r b' G Eb). reflexivity.
    - (* EMatch 1 *)
      intros N r c G HE. cbn [rn1 src1] in *. destruct N as [N1 N2]. rewrite rebuild_unfold in HE |- *. cbn zeta in *.
      inv_bind_as HE c1 Ec1. inv_bind_as HE arms' Ea. injection HE as <-. r1.
      rewrite (R1_arms n arms IHarms N2 r arms' G Ea). reflexivity.
    - (* EBracket 0 *)
      intros N r v G HE. change (rn0 rn (EBracket e1)) with (EBracket (rn1 rn e1)). cbn [src0] in N.
      rewrite ev_unfold in HE |- *. inv_bind_as HE c Ec. injection HE as <-.
      rewrite (proj2 IH1 N r c G Ec). split; [reflexivity | exact I].
    - (* EBracket 1 *)
      intros N r c G HE. cbn [rn1 src1] in *. rewrite rebuild_unfold in HE |- *. cbn zeta in *.
      inv_bind_as HE c1 Ec1. injection HE as <-. r1. reflexivity.
    - (* EEscape 1 *)
      intros N r c G HE. change (rn1 rn (EEscape e1)) with (EEscape (rn0 rn e1)). cbn [src1] in N.
      rewrite rebuild_unfold in HE |- *. cbn zeta in *.
      inv_bind_as HE v Ev. destruct v; try discriminate. cbn [as_code] in HE. injection HE as ->.
      rewrite (proj1 (proj1 IH1 N r (VCode c) G Ev)). reflexivity.
  Qed.

  (* ---------- renaming does nothing where the renamed names do not occur ---------- *)

  Definition fixes (l : list string) : Prop := forall x, In x l -> rn x = x.

  Lemma fixes_app l1 l2 : fixes (l1 ++ l2) <-> fixes l1 /\ fixes l2.
  Proof.
    unfold fixes. split.
    - intros H. split; intros x Hx; apply H; apply in_or_app; [left | right]; exact Hx.
    - intros [H1 H2] x Hx. apply in_app_or in Hx. destruct Hx; [apply H1 | apply H2]; assumption.
  Qed.

  Lemma fixes_cons x l : fixes (x :: l) <-> rn x = x /\ fixes l.
  Proof.
    unfold fixes. split.
    - intros H. split; [apply H; left; reflexivity | intros y Hy; apply H; right; exact Hy].
    - intros [H1 H2] y [<-|Hy]; [exact H1 | exact (H2 y Hy)].
  Qed.
End Rn.
