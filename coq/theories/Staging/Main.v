(* Staging/Main.v — the theorems of C09 assembled from Factor (translate = tc . norm), NormNF (norm yields normal
   forms) and RoundTrip (on normal forms the stage-0 machine rebuilds exactly the reference reading). *)
From Coq Require Import List String ZArith Bool.
From Coq Require Import Floats.SpecFloat.
From Mimium Require Import Tables.Combinators Staging.Model Staging.Ind Staging.NF Staging.Eval
  Staging.Factor Staging.NormNF Staging.RoundTrip.
Import ListNotations.
Local Open Scope string_scope.

(* ---------- normalisation is the identity on normal forms ---------- *)

Lemma mapS_id {A : Type} (N : A -> nat -> A * nat) (l : list A) :
  AllP (fun a => forall k, N a k = (a, k)) l -> forall k, mapS N l k = (l, k).
Proof.
  induction l as [|a r IH]; intros H k; [reflexivity|]. destruct H as [Ha Hr]. cbn [mapS].
  rewrite (Ha k), (IH Hr k). reflexivity.
Qed.

Lemma optS_id {A : Type} (N : A -> nat -> A * nat) (o : option A) :
  OptP (fun a => forall k, N a k = (a, k)) o -> forall k, optS N o k = (o, k).
Proof. destruct o as [a|]; intros H k; cbn [optS]; [rewrite (H k)|]; reflexivity. Qed.

Lemma top_names_flat qs k : AllP flat_elem qs -> top_names qs k = (map flat_name qs, k).
Proof.
  induction qs as [|q r IH]; intros H; [reflexivity|]. destruct H as [Hq Hr]. cbn [top_names map].
  destruct q; cbn [flat_elem] in Hq; try contradiction; rewrite (IH Hr); reflexivity.
Qed.

Lemma let_tuple_flat qs : AllP flat_elem qs -> map let_tuple_pat (map flat_name qs) = qs.
Proof.
  induction qs as [|q l IH]; intros Np; [reflexivity|]. destruct Np as [Nq Nl]. cbn [map]. rewrite (IH Nl). f_equal.
  destruct q; cbn [flat_elem] in Nq; try contradiction; cbn [flat_name]; unfold let_tuple_pat.
  - destruct (String.eqb s "_") eqn:E; [apply String.eqb_eq in E; contradiction | reflexivity].
  - reflexivity.
Qed.

Lemma norm_let_id p v body k :
  nf_pat p -> norm_let p v body k = (ELet p ty_unknown v (Some body), k).
Proof.
  destruct p; cbn [nf_pat]; intros H; try contradiction; [reflexivity|].
  cbn [norm_let norm_tuple_pat]. rewrite (top_names_flat l k H).
  assert (Hloop : forall (qs : list pat) (ns : list string) (k0 : nat), AllP flat_elem qs ->
            (fix wrap (qs : list pat) (ns : list string) (k : nat) {struct qs} : expr * nat :=
               match qs, ns with
               | q :: qs', n :: ns' =>
                   let '(b1, k1) := wrap qs' ns' k in
                   norm_tuple_pat q (EVar n) b1 k1
               | _, _ => (body, k)
               end) qs ns k0 = (body, k0)).
  { induction qs as [|q qs' IHq]; intros ns k0 Hq; [reflexivity|]. destruct ns as [|n ns']; [reflexivity|].
    destruct Hq as [Hq1 Hq2]. rewrite (IHq ns' k0 Hq2).
    destruct q; cbn [flat_elem] in Hq1; try contradiction; reflexivity. }
  rewrite (Hloop l (map flat_name l) k H). rewrite (let_tuple_flat l H). reflexivity.
Qed.

Definition I0 (e : expr) : Prop := nf0 e -> forall k, norm0 e k = (e, k).
Definition I1 (e : expr) : Prop := nf1 e -> forall k, norm1 e k = (e, k).

Ltac istep :=
  match goal with
  | [ H : I1 ?x, T : nf1 ?x |- context [norm1 ?x ?k] ] => rewrite (H T k)
  | [ H : I0 ?x, T : nf0 ?x |- context [norm0 ?x ?k] ] => rewrite (H T k)
  end.

Lemma fields_id0 (fs : list (string * expr)) :
  AllP (fun f : string * expr => I0 (snd f) /\ I1 (snd f)) fs -> AllP (fun f : string * expr => nf0 (snd f)) fs ->
  forall k, mapS (fun f k => match f with (n, x) => let '(x', k') := norm0 x k in ((n, x'), k') end) fs k = (fs, k).
Proof.
  intros H T. apply mapS_id.
  induction fs as [|[n x] r IH]; [exact I|]. destruct H as [[H0 _] Hr]. destruct T as [Tx Tr].
  split; [|exact (IH Hr Tr)]. intros k. cbn [snd] in *. rewrite (H0 Tx k). reflexivity.
Qed.

Lemma fields_id1 (fs : list (string * expr)) :
  AllP (fun f : string * expr => I0 (snd f) /\ I1 (snd f)) fs -> AllP (fun f : string * expr => nf1 (snd f)) fs ->
  forall k, mapS (fun f k => match f with (n, x) => let '(x', k') := norm1 x k in ((n, x'), k') end) fs k = (fs, k).
Proof.
  intros H T. apply mapS_id.
  induction fs as [|[n x] r IH]; [exact I|]. destruct H as [[_ H1] Hr]. destruct T as [Tx Tr].
  split; [|exact (IH Hr Tr)]. intros k. cbn [snd] in *. rewrite (H1 Tx k). reflexivity.
Qed.

Lemma arms_id0 (arms : list (mpat * expr)) :
  AllP (fun a : mpat * expr => I0 (snd a) /\ I1 (snd a)) arms -> AllP (fun a : mpat * expr => nf0 (snd a)) arms ->
  forall k, mapS (fun a k => match a with (p, x) => let '(x', k') := norm0 x k in ((p, x'), k') end) arms k = (arms, k).
Proof.
  intros H T. apply mapS_id.
  induction arms as [|[p x] r IH]; [exact I|]. destruct H as [[H0 _] Hr]. destruct T as [Tx Tr].
  split; [|exact (IH Hr Tr)]. intros k. cbn [snd] in *. rewrite (H0 Tx k). reflexivity.
Qed.

Lemma list_id0 (es : list expr) :
  AllP (fun x => I0 x /\ I1 x) es -> AllP nf0 es -> forall k, mapS norm0 es k = (es, k).
Proof.
  intros H T. apply mapS_id.
  induction es as [|x r IH]; [exact I|]. destruct H as [[H0 _] Hr]. destruct T as [Tx Tr].
  split; [exact (H0 Tx) | exact (IH Hr Tr)].
Qed.

Lemma list_id1 (es : list expr) :
  AllP (fun x => I0 x /\ I1 x) es -> AllP nf1 es -> forall k, mapS norm1 es k = (es, k).
Proof.
  intros H T. apply mapS_id.
  induction es as [|x r IH]; [exact I|]. destruct H as [[_ H1] Hr]. destruct T as [Tx Tr].
  split; [exact (H1 Tx) | exact (IH Hr Tr)].
Qed.

Lemma opt_id0 (o : option expr) :
  OptP (fun x => I0 x /\ I1 x) o -> OptP nf0 o -> forall k, optS norm0 o k = (o, k).
Proof.
  intros H T. apply optS_id. destruct o as [x|]; [|exact I]. cbn [OptP] in *. exact (proj1 H T).
Qed.

Lemma params_id1 (ps : list (string * ty * option expr)) :
  AllP (fun p : string * ty * option expr => OptP (fun d => I0 d /\ I1 d) (snd p)) ps ->
  AllP (fun p : string * ty * option expr => OptP nf1 (snd p)) ps ->
  forall k, mapS (fun p k => match p with
                            | (x, t, Some d) => let '(d', k') := norm1 d k in ((x, t, Some d'), k')
                            | (x, t, None) => ((x, t, None), k)
                            end) ps k = (ps, k).
Proof.
  intros H T. apply mapS_id.
  induction ps as [|[[x t] d] r IH]; [exact I|]. destruct H as [Hd Hr]. destruct T as [Td Tr].
  split; [|exact (IH Hr Tr)]. intros k. cbn [snd] in *. destruct d as [d|]; [|reflexivity].
  cbn [OptP] in *. destruct Hd as [_ H1]. rewrite (H1 Td k). reflexivity.
Qed.

Lemma norm_id : forall e, I0 e /\ I1 e.
Proof.
  induction e as
    [ l | x | segs | b IHb | es IHes | e1 i IH1 | e1 e2 IH1 IH2 | es IHes | fs IHfs | fs IHfs
    | e1 fs IH1 IHfs | e1 f IH1 | e1 args IH1 IHargs | e1 args IH1 IHargs | e1 op e2 IH1 IH2 | op e1 IH1
    | e1 IH1 | ps rt e1 IHps IH1 | e1 e2 IH1 IH2 | e1 b IH1 IHb | x e1 IH1 | p t e1 body IH1 IHb
    | x t e1 body IH1 IHb | e1 e2 e3 IH1 IH2 IH3 | e1 arms IH1 IHarms | e1 IH1 | e1 IH1 | ] using expr_ind';
    split; intros T k; cbn [nf0 nf1] in T; try contradiction;
    repeat match goal with H : _ /\ _ |- _ => destruct H end;
    cbn [norm0 norm1]; repeat istep; try reflexivity.
  - (* EBlock 0 *) rewrite (opt_id0 b IHb T k). reflexivity.
  - (* EBlock 1 *) destruct b as [y|]; [|contradiction]. cbn [OptP] in *. rewrite (proj2 IHb H0 k). reflexivity.
  - rewrite (list_id0 es IHes T k). reflexivity.
  - rewrite (list_id1 es IHes T k). reflexivity.
  - rewrite (list_id0 es IHes T k). reflexivity.
  - rewrite (list_id1 es IHes T k). reflexivity.
  - rewrite (fields_id0 fs IHfs T k). reflexivity.
  - rewrite (fields_id1 fs IHfs T k). reflexivity.
  - rewrite (fields_id0 fs IHfs T k). reflexivity.
  - rewrite (fields_id1 fs IHfs T k). reflexivity.
  - match goal with T2 : AllP _ fs |- _ => rewrite (fields_id0 fs IHfs T2 k) end. reflexivity.
  - match goal with T2 : AllP _ fs |- _ => rewrite (fields_id1 fs IHfs T2 k) end. reflexivity.
  - match goal with T2 : AllP _ args |- _ => rewrite (list_id0 args IHargs T2 k) end. reflexivity.
  - match goal with T2 : AllP _ args |- _ => rewrite (list_id1 args IHargs T2 k) end. reflexivity.
  - (* ELambda 1 *)
    match goal with T2 : AllP _ ps |- _ => rewrite (params_id1 ps IHps T2 k) end.
    destruct rt; [reflexivity | contradiction].
  - (* EThen 0 *) match goal with T2 : OptP _ b |- _ => rewrite (opt_id0 b IHb T2 k) end. reflexivity.
  - (* EThen 1 *)
    destruct b as [y|]; [|contradiction]. cbn [OptP] in *.
    match goal with T2 : nf1 y |- _ => rewrite (proj2 IHb T2 k) end. reflexivity.
  - (* ELet 0 *) match goal with T2 : OptP _ body |- _ => rewrite (opt_id0 body IHb T2 k) end. reflexivity.
  - (* ELet 1 *)
    destruct body as [y|]; [|contradiction]. cbn [OptP] in *.
    match goal with T2 : nf1 y |- _ => rewrite (proj2 IHb T2 k) end.
    match goal with T2 : t = ty_unknown |- _ => rewrite T2 end.
    apply norm_let_id. assumption.
  - (* ELetRec 0 *) match goal with T2 : OptP _ body |- _ => rewrite (opt_id0 body IHb T2 k) end. reflexivity.
  - (* ELetRec 1 *)
    destruct body as [y|]; [|contradiction]. cbn [OptP] in *.
    match goal with T2 : nf1 y |- _ => rewrite (proj2 IHb T2 k) end. reflexivity.
  - (* EIf 0 *) match goal with T2 : OptP _ e3 |- _ => rewrite (opt_id0 e3 IH3 T2 k) end. reflexivity.
  - (* EIf 1 *)
    destruct e3 as [y|]; [|contradiction]. cbn [OptP] in *.
    match goal with T2 : nf1 y |- _ => rewrite (proj2 IH3 T2 k) end. reflexivity.
  - (* EMatch 0 *) match goal with T2 : AllP _ arms |- _ => rewrite (arms_id0 arms IHarms T2 k) end. reflexivity.
Qed.

(* ---------- the main theorems ---------- *)

(* whole programs: the translated program computes the (translated) value of the normalised program *)
Theorem expand_agrees n k p r v :
  tr0 p -> good_env r ->
  ev n r (fst (norm0 p k)) = Ok v ->
  ev n (tr_env r) (fst (translate p k)) = Ok (tr_val v).
Proof.
  intros T G H. unfold translate. rewrite (proj1 (translate_factor p) k). cbn [fst].
  exact (proj1 (proj1 (roundtrip n (fst (norm0 p k))) (proj1 (norm_nf p) T k) r v G H)).
Qed.

(* one quotation: evaluating the translation of e yields the reference reading of the normal form of e *)
Theorem quote_splice n k e r c :
  tr1 e -> good_env r ->
  rebuild n r (fst (norm1 e k)) = Ok c ->
  ev n (tr_env r) (fst (translate_code e k)) = Ok (VCode c).
Proof.
  intros T G H. rewrite (proj2 (translate_factor e) k). cbn [fst].
  exact (proj2 (roundtrip n (fst (norm1 e k))) (proj2 (norm_nf e) T k) r c G H).
Qed.

(* on a normal form: the reference reading of e itself, and the desugar counter is not touched *)
Theorem quote_splice_nf n k e r c :
  nf1 e -> good_env r ->
  rebuild n r e = Ok c ->
  translate_code e k = (fst (translate_code e k), k) /\
  ev n (tr_env r) (fst (translate_code e k)) = Ok (VCode c).
Proof.
  intros N G H. rewrite (proj2 (translate_factor e) k). rewrite (proj2 (norm_id e) N k). cbn [fst snd].
  split; [reflexivity|]. exact (proj2 (roundtrip n e) N r c G H).
Qed.

(* environments that only hold data (code values, numbers, ...) are their own translation *)
Definition data_env (r : env) : Prop :=
  AllP (fun p : string * value => is_comb (fst p) = false /\ is_data (snd p) = true) r.

Lemma data_env_good r : data_env r -> good_env r /\ tr_env r = r.
Proof.
  induction r as [|[x v] r IH]; intros H; [split; [exact I | reflexivity]|].
  destruct H as [[Hx Hv] Hr]. cbn [fst snd] in *. destruct (IH Hr) as [G E]. destruct (is_data_tr v Hv) as [Ev Gv].
  split; [split; [split; assumption | exact G]|]. cbn [tr_env map fst snd]. rewrite Ev. f_equal. exact E.
Qed.

(* ---------- when is the reference reading the expression itself? ---------- *)

(* no escapes (and none of the nodes the translation cannot handle) *)
Fixpoint escape_free (e : expr) : Prop :=
  match e with
  | EEscape _ | EBracket _ | EMatch _ _ | EMacroExpand _ _ | EBinOp _ _ _ | EUniOp _ _ | EError => False
  | ELit LPlaceHolder => False
  | ELit _ | EVar _ | EQualifiedVar _ => True
  | EBlock b => OptP escape_free b
  | ETuple es | EArrayLiteral es => AllP escape_free es
  | EProj x _ | EFieldAccess x _ | EFeed _ x | EParen x => escape_free x
  | EArrayAccess a b | EAssign a b => escape_free a /\ escape_free b
  | ERecordLiteral fs | EImcompleteRecord fs => AllP (fun f : string * expr => escape_free (snd f)) fs
  | ERecordUpdate r fs => escape_free r /\ AllP (fun f : string * expr => escape_free (snd f)) fs
  | EApply f args => escape_free f /\ AllP escape_free args
  | ELambda ps _ body => AllP (fun p : string * ty * option expr => OptP escape_free (snd p)) ps /\ escape_free body
  | EThen a b => escape_free a /\ OptP escape_free b
  | ELet _ _ v body | ELetRec _ _ v body => escape_free v /\ OptP escape_free body
  | EIf c t el => escape_free c /\ escape_free t /\ OptP escape_free el
  end.

Lemma mapM_id {A} (f : A -> res A) l : AllP (fun a => f a = Ok a) l -> mapM f l = Ok l.
Proof.
  induction l as [|a r IH]; intros H; [reflexivity|]. destruct H as [Ha Hr]. cbn [mapM]. rewrite Ha. cbn [bind].
  rewrite (IH Hr). reflexivity.
Qed.

Lemma optM_id {A} (f : A -> res A) o : OptP (fun a => f a = Ok a) o -> optM f o = Ok o.
Proof. destruct o as [a|]; intros H; cbn [optM]; [rewrite H|]; reflexivity. Qed.

Lemma rebuild_escape_free n r : forall e, escape_free e -> rebuild n r e = Ok e.
Proof.
  induction e as
    [ l | x | segs | b IHb | es IHes | e1 i IH1 | e1 e2 IH1 IH2 | es IHes | fs IHfs | fs IHfs
    | e1 fs IH1 IHfs | e1 f IH1 | e1 args IH1 IHargs | e1 args IH1 IHargs | e1 op e2 IH1 IH2 | op e1 IH1
    | e1 IH1 | ps rt e1 IHps IH1 | e1 e2 IH1 IH2 | e1 b IH1 IHb | x e1 IH1 | p t e1 body IH1 IHb
    | x t e1 body IH1 IHb | e1 e2 e3 IH1 IH2 IH3 | e1 arms IH1 IHarms | e1 IH1 | e1 IH1 | ] using expr_ind';
    intros S; cbn [escape_free] in S; try contradiction; rewrite rebuild_unfold; cbn zeta;
    repeat match goal with H : _ /\ _ |- _ => destruct H end;
    repeat match goal with
           | [ H : escape_free ?x -> rebuild n r ?x = Ok ?x, S : escape_free ?x |- _ ] => rewrite (H S); cbn [bind]
           end;
    try reflexivity.
  - destruct l; try reflexivity; contradiction.
  - rewrite (optM_id (rebuild n r) b); [reflexivity|]. destruct b; [|exact I]. cbn [OptP] in *. auto.
  - rewrite (mapM_id (rebuild n r) es); [reflexivity|]. clear -IHes S. induction es as [|a t IH]; [exact I|].
    destruct IHes, S. split; auto.
  - rewrite (mapM_id (rebuild n r) es); [reflexivity|]. clear -IHes S. induction es as [|a t IH]; [exact I|].
    destruct IHes, S. split; auto.
  - rewrite (mapM_id _ fs); [reflexivity|]. clear -IHfs S. induction fs as [|[nm a] t IH]; [exact I|].
    destruct IHfs as [Ha Ht], S as [Sa St]. cbn [snd] in *. split; [rewrite (Ha Sa); reflexivity | auto].
  - rewrite (mapM_id _ fs); [reflexivity|]. clear -IHfs S. induction fs as [|[nm a] t IH]; [exact I|].
    destruct IHfs as [Ha Ht], S as [Sa St]. cbn [snd] in *. split; [rewrite (Ha Sa); reflexivity | auto].
  - match goal with S2 : AllP _ fs |- _ => rename S2 into Sf end.
    rewrite (mapM_id _ fs); [reflexivity|]. clear -IHfs Sf. induction fs as [|[nm a] t IH]; [exact I|].
    destruct IHfs as [Ha Ht], Sf as [Sa St]. cbn [snd] in *. split; [rewrite (Ha Sa); reflexivity | auto].
  - match goal with S2 : AllP _ args |- _ => rename S2 into Sf end.
    rewrite (mapM_id (rebuild n r) args); [reflexivity|]. clear -IHargs Sf. induction args as [|a t IH]; [exact I|].
    destruct IHargs, Sf. split; auto.
  - match goal with S2 : AllP _ ps |- _ => rename S2 into Sf end.
    rewrite (mapM_id _ ps); [reflexivity|]. clear -IHps Sf. induction ps as [|[[x t] d] tl IH]; [exact I|].
    destruct IHps as [Ha Ht], Sf as [Sa St]. cbn [snd] in *. split; [|auto].
    rewrite (optM_id (rebuild n r) d); [reflexivity|]. destruct d; [|exact I]. cbn [OptP] in *. auto.
  - match goal with S2 : OptP _ b |- _ => rename S2 into Sf end.
    rewrite (optM_id (rebuild n r) b); [reflexivity|]. destruct b; [|exact I]. cbn [OptP] in *. auto.
  - match goal with S2 : OptP _ body |- _ => rename S2 into Sf end.
    rewrite (optM_id (rebuild n r) body); [reflexivity|]. destruct body; [|exact I]. cbn [OptP] in *. auto.
  - match goal with S2 : OptP _ body |- _ => rename S2 into Sf end.
    rewrite (optM_id (rebuild n r) body); [reflexivity|]. destruct body; [|exact I]. cbn [OptP] in *. auto.
  - match goal with S2 : OptP _ e3 |- _ => rename S2 into Sf end.
    rewrite (optM_id (rebuild n r) e3); [reflexivity|]. destruct e3; [|exact I]. cbn [OptP] in *. auto.
Qed.

(* quote-then-splice is the identity *)
Theorem quote_identity n k e r :
  nf1 e -> escape_free e -> good_env r ->
  ev n (tr_env r) (fst (translate_code e k)) = Ok (VCode e).
Proof.
  intros N S G. exact (proj2 (quote_splice_nf n k e r e N G (rebuild_escape_free n r e S))).
Qed.

(* ---------- lift ---------- *)

Lemma lift_exact_prim q :
  prim "lift_f" [VNum q] = Ok (VCode (ELit (LFloat q))) /\
  prim "lift" [VNum q] = Ok (VCode (ELit (LFloat q))) /\
  prim "code_lift_f" [VNum q] = Ok (VCode (ELit (LFloat q))) /\
  prim "code_lit_f" [VNum q] = Ok (VCode (ELit (LFloat q))).
Proof. repeat split; reflexivity. Qed.

Theorem lift_exact n r s q name :
  In name ["lift_f"; "lift"; "code_lift_f"; "code_lit_f"] ->
  lookup r name = None ->
  ev n r s = Ok (VNum q) ->
  ev n r (EApply (EVar name) [s]) = Ok (VCode (ELit (LFloat q))).
Proof.
  intros Hin HL HS.
  change (EApply (EVar name) [s]) with (make_apply name [s]).
  rewrite (ev_call n r name [s] [VNum q] HL).
  - destruct (lift_exact_prim q) as (H1 & H2 & H3 & H4).
    cbn [In] in Hin. destruct Hin as [<-|[<-|[<-|[<-|[]]]]]; assumption.
  - cbn [In] in Hin. destruct Hin as [<-|[<-|[<-|[<-|[]]]]]; reflexivity.
  - cbn [mapM]. rewrite HS. reflexivity.
Qed.

(* ---------- refutation (finding F27) ---------- *)

(* as long as code_match is not registered, the translation of a quoted match cannot run (and does not even
   pass the scope check of the stage-0 compiler) *)
Theorem match_unexpandable :
  registered_fn registered "code_match" = None ->
  forall n r s arms k, lookup r "code_match" = None ->
    ev n r (fst (translate_code (EMatch s arms) k)) = Err (Unbound "code_match") /\
    scope0 [] (fst (translate_code (EMatch s arms) k)) = Some (Unbound "code_match").
Proof.
  intros HR n r s arms k HL.
  assert (HX : is_extern "code_match" = false) by (unfold is_extern; rewrite HR; reflexivity).
  cbn [translate_code].
  destruct (translate_code s k) as [s' k1].
  match goal with |- context [mapS ?F arms k1] => destruct (mapS F arms k1) as [bodies k2] end.
  cbn [fst]. split.
  - unfold make_apply. rewrite ev_unfold. rewrite (ev_unfold n r (EVar "code_match")), HL, HX. reflexivity.
  - unfold make_apply. cbn [scope0 first_err map fold_right existsb orb]. rewrite HX. reflexivity.
Qed.

(* ---------- `!` sugar ---------- *)

Theorem macroexpand_is_splice f args :
  convert_macroexpand (EMacroExpand f args)
  = EEscape (EApply (convert_macroexpand f) (map convert_macroexpand args)).
Proof. reflexivity. Qed.

Theorem macroexpand_translate f args k :
  translate_code (convert_macroexpand (EMacroExpand f args)) k
  = translate_stage0 (EApply (convert_macroexpand f) (map convert_macroexpand args)) k.
Proof. reflexivity. Qed.

(* ---------- refutation (finding F28): a record pattern of a quoted let is not preserved ---------- *)

(* let {a = x, b = y} = r; x   inside a quotation is generated as   let a = r; x   (x, y no longer bound) *)
Theorem record_pattern_lost :
  let p := PRecord [("a", PSingle "x"); ("b", PSingle "y")] in
  let e := ELet p ty_unknown (EVar "r") (Some (EVar "x")) in
  pat_binders p = ["x"; "y"] /\
  expand 1 0 (EBracket e) = Ok (ELet (PSingle "a") ty_unknown (EVar "r") (Some (EVar "x"))).
Proof. split; [reflexivity | vm_compute; reflexivity]. Qed.
