(* Staging/Factor.v — translate = (ts | tc) . (norm0 | norm1), with the desugar counter threaded identically *)
From Coq Require Import List String ZArith Bool.
From Mimium Require Import Tables.Combinators Staging.Model Staging.Ind Staging.NF.
Import ListNotations.
Local Open Scope string_scope.

Lemma mapS_factor {A B C : Type} (F : A -> nat -> B * nat) (N : A -> nat -> C * nat) (g : C -> B) (l : list A) :
  AllP (fun a => forall k, F a k = (g (fst (N a k)), snd (N a k))) l ->
  forall k, mapS F l k = (map g (fst (mapS N l k)), snd (mapS N l k)).
Proof.
  induction l as [|a r IH]; intros H k.
  - reflexivity.
  - destruct H as [Ha Hr]. cbn [mapS]. rewrite (Ha k).
    destruct (N a k) as [c k1]. cbn [fst snd].
    rewrite (IH Hr k1). destruct (mapS N r k1) as [cs k2]. reflexivity.
Qed.

Lemma optS_factor {A B C : Type} (F : A -> nat -> B * nat) (N : A -> nat -> C * nat) (g : C -> B) (o : option A) :
  OptP (fun a => forall k, F a k = (g (fst (N a k)), snd (N a k))) o ->
  forall k, optS F o k = (option_map g (fst (optS N o k)), snd (optS N o k)).
Proof.
  destruct o as [a|]; intros H k; cbn [optS].
  - rewrite (H k). destruct (N a k) as [c k1]. reflexivity.
  - reflexivity.
Qed.

(* the statement, for one expression *)
Definition F0 (e : expr) : Prop :=
  forall k, translate_stage0 e k = (ts (fst (norm0 e k)), snd (norm0 e k)).
Definition F1 (e : expr) : Prop :=
  forall k, translate_code e k = (tc (fst (norm1 e k)), snd (norm1 e k)).

Ltac fstep :=
  match goal with
  | [ H : F1 ?x |- context [translate_code ?x ?k] ] =>
      rewrite (H k); destruct (norm1 x k) as [? ?]; cbn [fst snd]
  | [ H : F0 ?x |- context [translate_stage0 ?x ?k] ] =>
      rewrite (H k); destruct (norm0 x k) as [? ?]; cbn [fst snd]
  end.

Ltac dn :=
  match goal with
  | |- context [fst (mapS ?F ?l ?k)] => destruct (mapS F l k) as [? ?]; cbn [fst snd]
  end.

(* fields / lists, stage 0 *)
Lemma fields0_factor fs :
  AllP (fun f : string * expr => F0 (snd f) /\ F1 (snd f)) fs ->
  forall k,
    mapS (fun f k => match f with (n, x) => let '(x', k') := translate_stage0 x k in ((n, x'), k') end) fs k =
    (map (fun f : string * expr => (fst f, ts (snd f)))
         (fst (mapS (fun f k => match f with (n, x) => let '(x', k') := norm0 x k in ((n, x'), k') end) fs k)),
     snd (mapS (fun f k => match f with (n, x) => let '(x', k') := norm0 x k in ((n, x'), k') end) fs k)).
Proof.
  intros H. apply mapS_factor.
  eapply AllP_impl; [|exact H]. intros [n x] [H0 _] k. cbn [snd] in H0.
  rewrite (H0 k). destruct (norm0 x k). reflexivity.
Qed.

Lemma list0_factor es :
  AllP (fun x => F0 x /\ F1 x) es ->
  forall k, mapS translate_stage0 es k = (map ts (fst (mapS norm0 es k)), snd (mapS norm0 es k)).
Proof.
  intros H. apply mapS_factor. eapply AllP_impl; [|exact H]. intros x [H0 _]. exact H0.
Qed.

Lemma list1_factor es :
  AllP (fun x => F0 x /\ F1 x) es ->
  forall k, mapS translate_code es k = (map tc (fst (mapS norm1 es k)), snd (mapS norm1 es k)).
Proof.
  intros H. apply mapS_factor. eapply AllP_impl; [|exact H]. intros x [_ H1]. exact H1.
Qed.

(* fields, quoted: values translated in order, names kept *)
Lemma fields1_factor fs :
  AllP (fun f : string * expr => F0 (snd f) /\ F1 (snd f)) fs ->
  forall k,
    let N := mapS (fun f k => match f with (n, x) => let '(x', k') := norm1 x k in ((n, x'), k') end) fs k in
    mapS (fun f k => match f with (_, x) => translate_code x k end) fs k =
    (map (fun f : string * expr => tc (snd f)) (fst N), snd N)
    /\ map (fun f : string * expr => sym_to_string_literal (fst f)) fs
       = map (fun f : string * expr => sym_to_string_literal (fst f)) (fst N).
Proof.
  induction fs as [|[n x] r IH]; intros H k.
  - split; reflexivity.
  - destruct H as [[_ H1] Hr]. cbn [snd] in H1. cbn [mapS].
    rewrite (H1 k). destruct (norm1 x k) as [x' k1]. cbn [fst snd].
    specialize (IH Hr k1). cbn zeta in IH.
    match type of IH with context [fst (mapS ?F r k1)] => destruct (mapS F r k1) as [r' k2] end.
    cbn [fst snd] in IH. destruct IH as [E1 E2]. rewrite E1. cbn [fst snd map].
    split; [reflexivity | f_equal; exact E2].
Qed.

Lemma arms0_factor arms :
  AllP (fun a : mpat * expr => F0 (snd a) /\ F1 (snd a)) arms ->
  forall k,
    mapS (fun a k => match a with (p, x) => let '(x', k') := translate_stage0 x k in ((p, x'), k') end) arms k =
    (map (fun a : mpat * expr => (fst a, ts (snd a)))
         (fst (mapS (fun a k => match a with (p, x) => let '(x', k') := norm0 x k in ((p, x'), k') end) arms k)),
     snd (mapS (fun a k => match a with (p, x) => let '(x', k') := norm0 x k in ((p, x'), k') end) arms k)).
Proof.
  intros H. apply mapS_factor.
  eapply AllP_impl; [|exact H]. intros [p x] [H0 _] k. cbn [snd] in H0.
  rewrite (H0 k). destruct (norm0 x k). reflexivity.
Qed.

Lemma arms1_factor arms :
  AllP (fun a : mpat * expr => F0 (snd a) /\ F1 (snd a)) arms ->
  forall k,
    let N := mapS (fun a k => match a with (p, x) => let '(x', k') := norm1 x k in ((p, x'), k') end) arms k in
    mapS (fun a k => match a with (_, x) => translate_code x k end) arms k =
    (map (fun a : mpat * expr => tc (snd a)) (fst N), snd N)
    /\ map (fun a : mpat * expr => encode_match_pattern (fst a)) arms
       = map (fun a : mpat * expr => encode_match_pattern (fst a)) (fst N).
Proof.
  induction arms as [|[p x] r IH]; intros H k.
  - split; reflexivity.
  - destruct H as [[_ H1] Hr]. cbn [snd] in H1. cbn [mapS].
    rewrite (H1 k). destruct (norm1 x k) as [x' k1]. cbn [fst snd].
    specialize (IH Hr k1). cbn zeta in IH.
    match type of IH with context [fst (mapS ?F r k1)] => destruct (mapS F r k1) as [r' k2] end.
    cbn [fst snd] in IH. destruct IH as [E1 E2]. rewrite E1. cbn [fst snd map].
    split; [reflexivity | f_equal; exact E2].
Qed.

(* ---------- let patterns ---------- *)

Lemma top_names_flat_names names :
  map (fun q => sym_to_string_literal (flat_name q)) (map let_tuple_pat names)
  = map sym_to_string_literal names.
Proof.
  induction names as [|n r IH]; [reflexivity|]. cbn [map]. rewrite IH. f_equal.
  unfold let_tuple_pat. destruct (String.eqb n "_") eqn:E.
  - apply String.eqb_eq in E. subst. reflexivity.
  - reflexivity.
Qed.

(* wrap_tuple_pat on already translated normal-form pieces is tc of norm_tuple_pat *)
Section PatInd.
  Variable P : pat -> Prop.
  Hypothesis HS : forall s, P (PSingle s).
  Hypothesis HP : P PPlaceholder.
  Hypothesis HT : forall l, AllP P l -> P (PTuple l).
  Hypothesis HR : forall l, P (PRecord l).
  Hypothesis HE : P PError.
  Fixpoint pat_ind' (p : pat) : P p :=
    match p return P p with
    | PSingle s => HS s
    | PPlaceholder => HP
    | PTuple l => HT l ((fix go (l : list pat) : AllP P l :=
                           match l return AllP P l with [] => I | a :: r => conj (pat_ind' a) (go r) end) l)
    | PRecord l => HR l
    | PError => HE
    end.
End PatInd.

Lemma wrap_tuple_factor p :
  forall v body k,
    wrap_tuple_pat p (tc v) (tc body) k =
    (tc (fst (norm_tuple_pat p v body k)), snd (norm_tuple_pat p v body k)).
Proof.
  induction p as [s| |sub IH|l|] using pat_ind'; intros v body k; try reflexivity.
  cbn [wrap_tuple_pat norm_tuple_pat].
  destruct (top_names sub k) as [names k1].
  (* the inner loops agree *)
  assert (Hloop : forall (qs : list pat) (ns : list string) (k : nat), AllP (fun p => forall v body k,
              wrap_tuple_pat p (tc v) (tc body) k =
              (tc (fst (norm_tuple_pat p v body k)), snd (norm_tuple_pat p v body k))) qs ->
            (fix wrap (qs : list pat) (ns : list string) (k : nat) {struct qs} : expr * nat :=
               match qs, ns with
               | q :: qs', n :: ns' =>
                   let '(b1, k1) := wrap qs' ns' k in
                   wrap_tuple_pat q (make_apply_str "code_var" n) b1 k1
               | _, _ => (tc body, k)
               end) qs ns k
            =
            (tc (fst ((fix wrap (qs : list pat) (ns : list string) (k : nat) {struct qs} : expr * nat :=
               match qs, ns with
               | q :: qs', n :: ns' =>
                   let '(b1, k1) := wrap qs' ns' k in
                   norm_tuple_pat q (EVar n) b1 k1
               | _, _ => (body, k)
               end) qs ns k)),
             snd ((fix wrap (qs : list pat) (ns : list string) (k : nat) {struct qs} : expr * nat :=
               match qs, ns with
               | q :: qs', n :: ns' =>
                   let '(b1, k1) := wrap qs' ns' k in
                   norm_tuple_pat q (EVar n) b1 k1
               | _, _ => (body, k)
               end) qs ns k))).
  { induction qs as [|q qs' IHq]; intros ns k0 Hall.
    - reflexivity.
    - destruct ns as [|n ns']; [reflexivity|].
      destruct Hall as [Hq Hqs].
      rewrite (IHq ns' k0 Hqs).
      match goal with |- context [tc (fst ?X)] => destruct X as [b1 k2] end.
      cbn [fst snd].
      change (make_apply_str "code_var" n) with (tc (EVar n)).
      apply Hq. }
  rewrite (Hloop sub names k1 IH).
  match goal with |- context [tc (fst ?X)] => destruct X as [b k2] end.
  cbn [fst snd tc tc_opt]. rewrite top_names_flat_names. reflexivity.
Qed.

Lemma let_pattern_factor p v body k :
  translate_let_pattern p (tc v) (tc body) k =
  (tc (fst (norm_let p v body k)), snd (norm_let p v body k)).
Proof.
  destruct p; cbn [translate_let_pattern norm_let]; try reflexivity.
  apply wrap_tuple_factor.
Qed.

(* ---------- the factorisation ---------- *)

Lemma lambda_defaults_factor ps :
  AllP (fun p : string * ty * option expr => OptP (fun d => F0 d /\ F1 d) (snd p)) ps ->
  forall k,
    let N := mapS (fun p k => match p with
                              | (x, t, Some d) => let '(d', k') := norm1 d k in ((x, t, Some d'), k')
                              | (x, t, None) => ((x, t, None), k)
                              end) ps k in
    mapS (fun p k => match p with
                     | (_, _, Some d) => translate_code d k
                     | (_, _, None) => (make_apply1 "code_lit_f" (ELit (LFloat float_zero)), k)
                     end) ps k
    = (map (fun p : string * ty * option expr =>
              match snd p with
              | Some d => tc d
              | None => make_apply1 "code_lit_f" (ELit (LFloat float_zero))
              end) (fst N), snd N)
    /\ map (fun p : string * ty * option expr => match p with (x, _, _) => sym_to_string_literal x end) ps
       = map (fun p : string * ty * option expr => match p with (x, _, _) => sym_to_string_literal x end) (fst N)
    /\ map (fun p : string * ty * option expr => match p with (_, t, _) => t end) ps
       = map (fun p : string * ty * option expr => match p with (_, t, _) => t end) (fst N)
    /\ map has_default ps = map has_default (fst N).
Proof.
  induction ps as [|[[x t] d] r IH]; intros H k.
  - repeat split; reflexivity.
  - destruct H as [Hd Hr]. cbn [snd] in Hd. cbn [mapS].
    destruct d as [d|].
    + destruct Hd as [_ H1]. rewrite (H1 k). destruct (norm1 d k) as [d' k1]. cbn [fst snd].
      specialize (IH Hr k1). cbn zeta in IH.
      match type of IH with context [fst (mapS ?F r k1)] => destruct (mapS F r k1) as [r' k2] end.
      cbn [fst snd] in IH. destruct IH as (E1 & E2 & E3 & E4). rewrite E1. cbn [fst snd map].
      repeat split; try reflexivity; f_equal; assumption.
    + specialize (IH Hr k). cbn zeta in IH.
      match type of IH with context [fst (mapS ?F r k)] => destruct (mapS F r k) as [r' k2] end.
      cbn [fst snd] in IH. destruct IH as (E1 & E2 & E3 & E4). rewrite E1. cbn [fst snd map].
      repeat split; try reflexivity; f_equal; assumption.
Qed.

Lemma existsb_map_eq {A} (f : A -> bool) l1 l2 : map f l1 = map f l2 -> existsb f l1 = existsb f l2.
Proof.
  revert l2. induction l1 as [|a r IH]; intros [|b s] E; try discriminate; [reflexivity|].
  cbn in E. injection E as E1 E2. cbn. rewrite E1. f_equal. auto.
Qed.

Ltac split_all :=
  repeat match goal with
         | H : _ /\ _ |- _ => destruct H
         | H : OptP _ (Some _) |- _ => cbn [OptP] in H
         end.

Ltac use_opt0 :=
  match goal with
  | [ H : OptP _ ?b |- context [optS translate_stage0 ?b ?k] ] =>
      rewrite (optS_factor translate_stage0 norm0 ts b) by (destruct b; cbn in *; tauto);
      destruct (optS norm0 b k) as [? ?]; cbn [fst snd]
  end.
Ltac use_list0 :=
  match goal with
  | [ H : AllP _ ?l |- context [mapS translate_stage0 ?l ?k] ] => rewrite (list0_factor l H k); dn
  end.
Ltac use_list1 :=
  match goal with
  | [ H : AllP _ ?l |- context [mapS translate_code ?l ?k] ] => rewrite (list1_factor l H k); dn
  end.
Ltac use_fields0 :=
  match goal with
  | [ H : AllP _ ?l |- context [mapS _ ?l ?k] ] => rewrite (fields0_factor l H k); dn
  end.
Ltac use_fields1 :=
  match goal with
  | [ H : AllP _ ?l |- context [mapS _ ?l ?k] ] =>
      let E1 := fresh "E" in let E2 := fresh "E" in
      destruct (fields1_factor l H k) as [E1 E2]; cbn zeta in E1, E2; rewrite E1, E2; dn
  end.

Lemma translate_factor : forall e, F0 e /\ F1 e.
Proof.
  induction e using expr_ind'; split; intros k;
    split_all;
    cbn [translate_stage0 translate_code norm0 norm1];
    try reflexivity;
    repeat fstep;
    try reflexivity.
  - (* ELit, quoted *) destruct l; reflexivity.
  - (* EBlock stage 0 *) use_opt0. reflexivity.
  - (* EBlock quoted *) destruct b as [y|]; [|reflexivity]. split_all. fstep. reflexivity.
  - (* ETuple 0 *) use_list0. reflexivity.
  - (* ETuple 1 *) use_list1. reflexivity.
  - (* EArrayLiteral 0 *) use_list0. reflexivity.
  - (* EArrayLiteral 1 *) use_list1. reflexivity.
  - (* ERecordLiteral 0 *) use_fields0. reflexivity.
  - (* ERecordLiteral 1 *) use_fields1. reflexivity.
  - (* EImcompleteRecord 0 *) use_fields0. reflexivity.
  - (* EImcompleteRecord 1 *) use_fields1. reflexivity.
  - (* ERecordUpdate 0 *) use_fields0. reflexivity.
  - (* ERecordUpdate 1 *) use_fields1. reflexivity.
  - (* EApply 0 *) use_list0. reflexivity.
  - (* EApply 1 *)
    match goal with H : AllP _ args |- _ => rename H into HA end.
    match goal with |- context [mapS norm1 args ?k0] => rename k0 into k1 end.
    destruct args as [|a1 [|a2 [|a3 rest]]].
    + reflexivity.
    + cbn [AllP] in HA. split_all. cbn [mapS]. fstep. reflexivity.
    + cbn [AllP] in HA. split_all. cbn [mapS]. fstep. fstep. reflexivity.
    + rewrite (list1_factor _ HA k1).
      destruct (mapS norm1 (a1 :: a2 :: a3 :: rest) k1) as [l k2] eqn:E.
      cbn [fst snd].
      assert (exists b1 b2 b3 br, l = b1 :: b2 :: b3 :: br) as (b1 & b2 & b3 & br & ->).
      { cbn [mapS] in E.
        destruct (norm1 a1 k1) as [? ka]. destruct (norm1 a2 ka) as [? kb]. destruct (norm1 a3 kb) as [? kc].
        destruct (mapS norm1 rest kc) as [? ?]. inversion E; subst. eauto. }
      reflexivity.
  - (* ELambda 1 *)
    match goal with H : AllP _ ps |- _ => rename H into HP end.
    match goal with |- context [mapS _ ps ?k0] => rename k0 into k1 end.
    assert (HP' : AllP (fun p : string * ty * option expr => OptP (fun d => F0 d /\ F1 d) (snd p)) ps) by exact HP.
    destruct (lambda_defaults_factor ps HP' k1) as (E1 & E2 & E3 & E4). cbn zeta in E1, E2, E3, E4.
    rewrite (existsb_map_eq has_default ps _ E4).
    match type of E4 with context [fst (mapS ?F ps k1)] => destruct (mapS F ps k1) as [ps' k2] eqn:EN end.
    cbn [fst snd] in *.
    cbn [tc].
    destruct (existsb has_default ps') eqn:Ex.
    + rewrite E1. unfold type_ids_to_int_array_literal. rewrite E2, E3.
      assert (Em : map (fun p : string * ty * option expr => ELit (LFloat (if has_default p then float_one else float_zero))) ps
                   = map (fun p : string * ty * option expr => ELit (LFloat (if has_default p then float_one else float_zero))) ps').
      { rewrite <- (map_map has_default (fun b : bool => ELit (LFloat (if b then float_one else float_zero)))).
        rewrite E4. rewrite map_map. reflexivity. }
      rewrite Em. reflexivity.
    + (* no defaults: ps' has the same shape as ps and the counter did not move *)
      assert (Hk : k2 = k1 /\ ps' = ps).
      { clear E1 E2 E3 HP HP'. revert ps' k2 EN E4 Ex. generalize k1 as k0.
        induction ps as [|[[x t] d] r IHr]; intros k0 ps' k2 EN E4 Ex.
        - cbn in EN. injection EN as <- <-. split; reflexivity.
        - cbn [mapS] in EN. destruct d as [d|].
          + destruct (norm1 d k0) as [d' k3].
            match type of EN with context [mapS ?F r k3] => destruct (mapS F r k3) as [r' k4] end.
            injection EN as <- <-. cbn in Ex. discriminate.
          + match type of EN with context [mapS ?F r k0] => destruct (mapS F r k0) as [r' k4] eqn:Er end.
            injection EN as <- <-.
            cbn [map] in E4. injection E4 as E4. cbn [existsb has_default orb] in Ex.
            destruct (IHr k0 r' k4 Er E4 Ex) as [-> ->]. split; reflexivity. }
      destruct Hk as [-> ->].
      destruct ps as [|[[x t] d] [|p2 r]]; reflexivity.
  - (* EThen 0 *) use_opt0. reflexivity.
  - (* EThen 1 *) destruct b as [y|]; [|reflexivity]. split_all. fstep. reflexivity.
  - (* ELet 0 *) use_opt0. reflexivity.
  - (* ELet 1 *)
    destruct body as [y|].
    + split_all. fstep. apply let_pattern_factor.
    + change code_unit_expr with (tc unit_expr). apply let_pattern_factor.
  - (* ELetRec 0 *) use_opt0. reflexivity.
  - (* ELetRec 1 *) destruct body as [y|]; [|reflexivity]. split_all. fstep. reflexivity.
  - (* EIf 0 *) use_opt0. reflexivity.
  - (* EIf 1 *)
    match goal with |- context [match ?o with Some _ => _ | None => _ end] => destruct o as [y|] end; [|reflexivity].
    split_all. fstep. reflexivity.
  - (* EMatch 0 *)
    match goal with
    | [ H : AllP _ ?l |- context [mapS _ ?l ?k0] ] => rewrite (arms0_factor l H k0); dn
    end. reflexivity.
  - (* EMatch 1 *)
    match goal with
    | [ H : AllP _ ?l |- context [mapS _ ?l ?k0] ] =>
        destruct (arms1_factor l H k0) as [E1 E2]; cbn zeta in E1, E2; rewrite E1, E2; dn
    end. reflexivity.
Qed.
