(* Staging/Eval.v — basic facts about the stage-0 evaluator: unfolding, the translation of values and
   environments (closure bodies are translated), calls of registered combinators. *)
From Coq Require Import List String ZArith Bool.
From Coq Require Import Floats.SpecFloat.
From Mimium Require Import Tables.Combinators Staging.Model Staging.Ind Staging.NF.
Import ListNotations.
Local Open Scope string_scope.

Lemma bind_ok {A B} (m : res A) (f : A -> res B) y :
  bind m f = Ok y -> exists x, m = Ok x /\ f x = Ok y.
Proof. destruct m; cbn; intros H; [eauto | discriminate]. Qed.

Ltac inv_bind H :=
  let x := fresh "x" in let E := fresh "E" in
  apply bind_ok in H; destruct H as (x & E & H).

Tactic Notation "inv_bind_as" hyp(H) ident(x) ident(E) :=
  apply bind_ok in H; destruct H as (x & E & H).

(* one unfolding step of the evaluator *)
Lemma ev_unfold n r e :
  ev n r e =
    match e with
    | EBracket q => do c <- rebuild n r q; Ok (VCode c)
    | EEscape _ => Err Stuck
    | ELit l =>
        match l with
        | LFloat q => Ok (VNum q)
        | LInt z => Ok (VInt z)
        | LString s => Ok (VStr s)
        | LTy t => Ok (VTy t)
        | LSelf | LNow | LSampleRate | LPlaceHolder => Err Stuck
        end
    | EVar x =>
        match lookup r x with
        | Some v => Ok v
        | None => if is_extern x then Ok (VPrim x) else Err (Unbound x)
        end
    | ELambda ps _ body => do names <- param_names ps; Ok (VClos names body r)
    | ELet p _ v body =>
        do a <- ev n r v;
        match p, body with
        | PSingle x, Some b => ev n ((x, a) :: r) b
        | PPlaceholder, Some b => ev n r b
        | _, _ => Err Stuck
        end
    | ELetRec f _ v body =>
        match v, body with
        | ELambda ps _ fb, Some b => do names <- param_names ps; ev n ((f, VRec f names fb r) :: r) b
        | _, _ => Err Stuck
        end
    | EApply f args =>
        do fv <- ev n r f;
        do avs <- mapM (ev n r) args;
        match fv with
        | VClos ps body cr =>
            match n with
            | O => Err OutOfFuel
            | S n' => do r' <- bind_params ps avs cr; ev n' r' body
            end
        | VRec fname ps body cr =>
            match n with
            | O => Err OutOfFuel
            | S n' => do r' <- bind_params ps avs ((fname, fv) :: cr); ev n' r' body
            end
        | VPrim name => prim name avs
        | _ => Err Stuck
        end
    | EIf c t el =>
        do cv <- ev n r c;
        match cv, el with
        | VNum q, Some e2 => if SFleb q (S754_zero false) then ev n r e2 else ev n r t
        | _, _ => Err Stuck
        end
    | EThen a b =>
        do av <- ev n r a;
        match b with Some b' => ev n r b' | None => Ok av end
    | EBlock b => match b with Some x => ev n r x | None => Ok VUnit end
    | EParen x => ev n r x
    | ETuple es => do vs <- mapM (ev n r) es; Ok (VTup vs)
    | EArrayLiteral es => do vs <- mapM (ev n r) es; Ok (VArr vs)
    | _ => Err Stuck
    end.
Proof. destruct n; destruct e; reflexivity. Qed.

(* ---------- translation of values ---------- *)

Fixpoint tr_val (v : value) : value :=
  match v with
  | VArr l => VArr (map tr_val l)
  | VTup l => VTup (map tr_val l)
  | VClos ps b r => VClos ps (ts b) (map (fun p : string * value => (fst p, tr_val (snd p))) r)
  | VRec f ps b r => VRec f ps (ts b) (map (fun p : string * value => (fst p, tr_val (snd p))) r)
  | _ => v
  end.

Definition tr_env (r : env) : env := map (fun p : string * value => (fst p, tr_val (snd p))) r.

Fixpoint good_val (v : value) : Prop :=
  match v with
  | VArr l | VTup l => AllP good_val l
  | VClos ps b r =>
      AllP (fun x => is_comb x = false) ps /\ nf0 b /\
      AllP (fun p : string * value => is_comb (fst p) = false /\ good_val (snd p)) r
  | VRec f ps b r =>
      is_comb f = false /\ AllP (fun x => is_comb x = false) ps /\ nf0 b /\
      AllP (fun p : string * value => is_comb (fst p) = false /\ good_val (snd p)) r
  | _ => True
  end.

Definition good_env (r : env) : Prop :=
  AllP (fun p : string * value => is_comb (fst p) = false /\ good_val (snd p)) r.

Lemma lookup_tr r x : lookup (tr_env r) x = option_map tr_val (lookup r x).
Proof.
  induction r as [|[y v] r IH]; [reflexivity|]. cbn [tr_env map lookup fst snd].
  destruct (String.eqb x y); [reflexivity | exact IH].
Qed.

Lemma lookup_good r x v : good_env r -> lookup r x = Some v -> good_val v.
Proof.
  induction r as [|[y w] r IH]; cbn [lookup]; intros G H; [discriminate|].
  destruct G as [[_ Gw] Gr]. destruct (String.eqb x y).
  - injection H as <-. exact Gw.
  - exact (IH Gr H).
Qed.

Lemma lookup_comb_none r x : good_env r -> is_comb x = true -> lookup r x = None.
Proof.
  induction r as [|[y w] r IH]; cbn [lookup]; intros G H; [reflexivity|].
  destruct G as [[Gy _] Gr]. cbn [fst] in Gy.
  destruct (String.eqb x y) eqn:E.
  - apply String.eqb_eq in E. subst. congruence.
  - exact (IH Gr H).
Qed.

Lemma lookup_comb_none_tr r x : good_env r -> is_comb x = true -> lookup (tr_env r) x = None.
Proof. intros G H. rewrite lookup_tr, (lookup_comb_none r x G H). reflexivity. Qed.

Lemma is_comb_extern x : is_comb x = true -> is_extern x = true.
Proof. unfold is_comb, is_extern. destruct (registered_fn registered x); [reflexivity | discriminate]. Qed.

(* data values are unaffected *)
Lemma is_data_tr v : is_data v = true -> tr_val v = v /\ good_val v.
Proof.
  induction v using value_ind'; cbn [is_data tr_val good_val]; intros D; try discriminate; try (split; [reflexivity | exact I]).
  - assert (Hl : map tr_val l = l /\ AllP good_val l).
    { induction l as [|a r IH]; [split; [reflexivity | exact I]|].
      cbn [forallb] in D. apply andb_true_iff in D. destruct D as [Da Dr]. destruct H as [Ha Hr].
      destruct (Ha Da) as [E1 G1]. destruct (IH Hr Dr) as [E2 G2].
      cbn [map]. rewrite E1, E2. split; [reflexivity | split; assumption]. }
    destruct Hl as [E G]. rewrite E. split; [reflexivity | exact G].
  - assert (Hl : map tr_val l = l /\ AllP good_val l).
    { induction l as [|a r IH]; [split; [reflexivity | exact I]|].
      cbn [forallb] in D. apply andb_true_iff in D. destruct D as [Da Dr]. destruct H as [Ha Hr].
      destruct (Ha Da) as [E1 G1]. destruct (IH Hr Dr) as [E2 G2].
      cbn [map]. rewrite E1, E2. split; [reflexivity | split; assumption]. }
    destruct Hl as [E G]. rewrite E. split; [reflexivity | exact G].
Qed.

Lemma is_data_tr_pres v : is_data (tr_val v) = is_data v.
Proof.
  induction v using value_ind'; cbn [is_data tr_val]; try reflexivity.
  - induction l as [|a r IH]; [reflexivity|]. destruct H as [Ha Hr]. cbn [map forallb]. rewrite Ha, (IH Hr). reflexivity.
  - induction l as [|a r IH]; [reflexivity|]. destruct H as [Ha Hr]. cbn [map forallb]. rewrite Ha, (IH Hr). reflexivity.
Qed.

Lemma all_data_tr l : forallb is_data l = true -> map tr_val l = l.
Proof.
  induction l as [|a r IH]; [reflexivity|]. cbn [forallb map]. intros D. apply andb_true_iff in D.
  destruct D as [Da Dr]. rewrite (proj1 (is_data_tr a Da)), (IH Dr). reflexivity.
Qed.

Lemma all_data_tr_pres l : forallb is_data (map tr_val l) = forallb is_data l.
Proof. induction l as [|a r IH]; [reflexivity|]. cbn [map forallb]. rewrite is_data_tr_pres, IH. reflexivity. Qed.

(* external functions see the same arguments and return plain data *)
Lemma prim_tr name avs v :
  prim name avs = Ok v -> prim name (map tr_val avs) = Ok v /\ tr_val v = v /\ good_val v.
Proof.
  unfold prim. rewrite all_data_tr_pres. destruct (forallb is_data avs) eqn:D; [|discriminate].
  rewrite (all_data_tr avs D). intros H. split; [exact H|].
  destruct (registered_fn registered name).
  - inv_bind H. injection H as <-. split; [reflexivity | exact I].
  - destruct (assoc intrinsic_table name); [|discriminate].
    inv_bind H. injection H as <-. split; [reflexivity | exact I].
Qed.

Lemma bind_params_tr ps avs cr r' :
  bind_params ps avs cr = Ok r' -> bind_params ps (map tr_val avs) (tr_env cr) = Ok (tr_env r').
Proof.
  revert avs r'. induction ps as [|p ps IH]; intros [|a avs] r' H; cbn [bind_params map] in *; try discriminate.
  - injection H as <-. reflexivity.
  - inv_bind H. injection H as <-. rewrite (IH _ _ E). reflexivity.
Qed.

Lemma bind_params_good ps avs cr r' :
  AllP (fun x => is_comb x = false) ps -> AllP good_val avs -> good_env cr ->
  bind_params ps avs cr = Ok r' -> good_env r'.
Proof.
  revert avs r'. induction ps as [|p ps IH]; intros [|a avs] r' Hp Ha Hc H; cbn [bind_params] in *; try discriminate.
  - injection H as <-. exact Hc.
  - inv_bind H. injection H as <-. destruct Hp as [Hp1 Hp2]. destruct Ha as [Ha1 Ha2].
    split; [split; assumption | exact (IH _ _ Hp2 Ha2 Hc E)].
Qed.

Lemma param_names_strip ps :
  param_names (map (fun p : string * ty * option expr => match p with (x, t, d) => (x, strip_code_type t, d) end) ps)
  = param_names ps.
Proof.
  unfold param_names. induction ps as [|[[x t] d] r IH]; [reflexivity|].
  cbn [map mapM]. rewrite IH. reflexivity.
Qed.

Lemma param_names_ok ps names :
  param_names ps = Ok names -> names = map (fun p : string * ty * option expr => fst (fst p)) ps.
Proof.
  unfold param_names. revert names. induction ps as [|[[x t] d] r IH]; intros names H; cbn [mapM map] in *.
  - injection H as <-. reflexivity.
  - destruct d; [discriminate|]. cbn [bind] in H. inv_bind H. injection H as <-. rewrite (IH _ E). reflexivity.
Qed.

Lemma AllP_map {A B} (P : B -> Prop) (f : A -> B) l : AllP P (map f l) <-> AllP (fun a => P (f a)) l.
Proof. induction l as [|a r IH]; cbn; [tauto|]. rewrite IH. tauto. Qed.

(* ---------- calling a registered combinator ---------- *)

Lemma ev_call n r name args avs :
  lookup r name = None -> is_extern name = true ->
  mapM (ev n r) args = Ok avs ->
  ev n r (make_apply name args) = prim name avs.
Proof.
  intros HL HE HA. unfold make_apply. rewrite ev_unfold.
  rewrite (ev_unfold n r (EVar name)), HL, HE. cbn [bind]. rewrite HA. reflexivity.
Qed.

Lemma mapM_map_ok {A B} (f : A -> res B) (g : A -> B) l :
  (forall a, In a l -> f a = Ok (g a)) -> mapM f l = Ok (map g l).
Proof.
  induction l as [|a r IH]; intros H; [reflexivity|]. cbn [mapM map].
  rewrite (H a (or_introl eq_refl)). cbn [bind]. rewrite IH; [reflexivity|]. intros b Hb. apply H. right. exact Hb.
Qed.

Lemma mapM_as_code l : mapM as_code (map VCode l) = Ok l.
Proof. induction l as [|a r IH]; [reflexivity|]. cbn [map mapM as_code bind]. rewrite IH. reflexivity. Qed.
Lemma mapM_as_str l : mapM as_str (map VStr l) = Ok l.
Proof. induction l as [|a r IH]; [reflexivity|]. cbn [map mapM as_str bind]. rewrite IH. reflexivity. Qed.
Lemma mapM_as_ty l : mapM as_ty (map VTy l) = Ok l.
Proof. induction l as [|a r IH]; [reflexivity|]. cbn [map mapM as_ty bind]. rewrite IH. reflexivity. Qed.
Lemma mapM_as_num l : mapM as_num (map VNum l) = Ok l.
Proof. induction l as [|a r IH]; [reflexivity|]. cbn [map mapM as_num bind]. rewrite IH. reflexivity. Qed.

Lemma data_codes l : forallb is_data (map VCode l) = true.
Proof. induction l; [reflexivity | exact IHl]. Qed.
Lemma data_strs l : forallb is_data (map VStr l) = true.
Proof. induction l; [reflexivity | exact IHl]. Qed.
Lemma data_tys l : forallb is_data (map VTy l) = true.
Proof. induction l; [reflexivity | exact IHl]. Qed.
Lemma data_nums l : forallb is_data (map VNum l) = true.
Proof. induction l; [reflexivity | exact IHl]. Qed.

Lemma codes_map l : codes (VArr (map VCode l)) = Ok l.
Proof. unfold codes. cbn [as_arr bind]. apply mapM_as_code. Qed.
Lemma strs_map l : strs (VArr (map VStr l)) = Ok l.
Proof. unfold strs. cbn [as_arr bind]. apply mapM_as_str. Qed.
Lemma tys_map l : tys (VArr (map VTy l)) = Ok l.
Proof. unfold tys. cbn [as_arr bind]. apply mapM_as_ty. Qed.
Lemma nums_map l : nums (VArr (map VNum l)) = Ok l.
Proof. unfold nums. cbn [as_arr bind]. apply mapM_as_num. Qed.

(* evaluation of literal arrays the translation emits *)
Lemma mapM_ev_map {A} n r (f : A -> expr) (g : A -> value) (l : list A) :
  (forall a, ev n r (f a) = Ok (g a)) -> mapM (ev n r) (map f l) = Ok (map g l).
Proof.
  intros H. induction l as [|a t IH]; [reflexivity|]. cbn [map mapM]. rewrite H. cbn [bind]. rewrite IH. reflexivity.
Qed.

Lemma ev_str_lits n r (l : list string) :
  ev n r (EArrayLiteral (map sym_to_string_literal l)) = Ok (VArr (map VStr l)).
Proof.
  rewrite ev_unfold. rewrite (mapM_ev_map n r sym_to_string_literal VStr); [reflexivity|].
  intros a. rewrite ev_unfold. reflexivity.
Qed.

Lemma ev_ty_lits n r (l : list ty) :
  ev n r (type_ids_to_int_array_literal l) = Ok (VArr (map VTy l)).
Proof.
  unfold type_ids_to_int_array_literal. rewrite ev_unfold.
  rewrite (mapM_ev_map n r type_id_to_int_literal VTy); [reflexivity|].
  intros a. rewrite ev_unfold. reflexivity.
Qed.

Lemma nonzero_one : is_nonzero float_one = true.
Proof. vm_compute. reflexivity. Qed.
Lemma nonzero_zero : is_nonzero float_zero = false.
Proof. vm_compute. reflexivity. Qed.
