(* Staging/RoundTrip.v — on normal forms, running the translated program on the stage-0 machine yields exactly
   what the reference reading of the quotations yields (closures: with translated bodies). *)
From Coq Require Import List String ZArith Bool Arith Lia.
From Coq Require Import Floats.SpecFloat.
From Mimium Require Import Tables.Combinators Staging.Model Staging.Ind Staging.NF Staging.Eval.
Import ListNotations.
Local Open Scope string_scope.

Lemma rebuild_unfold n r q :
  rebuild n r q =
    let rb := rebuild n r in
    let rbf := mapM (fun f : string * expr => match f with (nm, x) => do x' <- rb x; Ok (nm, x') end) in
    match q with
    | EEscape s => do v <- ev n r s; as_code v
    | EBracket x => do x' <- rb x; Ok (EBracket x')
    | ELit l =>
        match l with
        | LPlaceHolder => Err Stuck
        | _ => Ok q
        end
    | EVar _ | EQualifiedVar _ => Ok q
    | EBlock b => do b' <- optM rb b; Ok (EBlock b')
    | ETuple es => do es' <- mapM rb es; Ok (ETuple es')
    | EProj x i => do x' <- rb x; Ok (EProj x' i)
    | EArrayAccess a i => do a' <- rb a; do i' <- rb i; Ok (EArrayAccess a' i')
    | EArrayLiteral es => do es' <- mapM rb es; Ok (EArrayLiteral es')
    | ERecordLiteral fs => do fs' <- rbf fs; Ok (ERecordLiteral fs')
    | EImcompleteRecord fs => do fs' <- rbf fs; Ok (EImcompleteRecord fs')
    | ERecordUpdate x fs => do x' <- rb x; do fs' <- rbf fs; Ok (ERecordUpdate x' fs')
    | EFieldAccess x f => do x' <- rb x; Ok (EFieldAccess x' f)
    | EApply f args => do f' <- rb f; do args' <- mapM rb args; Ok (EApply f' args')
    | EMacroExpand _ _ | EBinOp _ _ _ | EUniOp _ _ | EError => Err Stuck
    | EParen x => do x' <- rb x; Ok (EParen x')
    | ELambda ps rt body =>
        do body' <- rb body;
        do ps' <- mapM (fun p : string * ty * option expr =>
                          match p with (x, t, d) => do d' <- optM rb d; Ok (x, t, d') end) ps;
        Ok (ELambda ps' rt body')
    | EAssign a b => do a' <- rb a; do b' <- rb b; Ok (EAssign a' b')
    | EThen a b => do a' <- rb a; do b' <- optM rb b; Ok (EThen a' b')
    | EFeed x body => do body' <- rb body; Ok (EFeed x body')
    | ELet p t v body => do v' <- rb v; do body' <- optM rb body; Ok (ELet p t v' body')
    | ELetRec x t v body => do v' <- rb v; do body' <- optM rb body; Ok (ELetRec x t v' body')
    | EIf c t el => do c' <- rb c; do t' <- rb t; do el' <- optM rb el; Ok (EIf c' t' el')
    | EMatch s arms =>
        do s' <- rb s;
        do arms' <- mapM (fun a : mpat * expr => match a with (p, x) => do x' <- rb x; Ok (p, x') end) arms;
        Ok (EMatch s' arms')
    end.
Proof. destruct q; reflexivity. Qed.

Definition S0 (n : nat) (e : expr) : Prop :=
  nf0 e -> forall r v, good_env r -> ev n r e = Ok v ->
  ev n (tr_env r) (ts e) = Ok (tr_val v) /\ good_val v.

Definition S1 (n : nat) (e : expr) : Prop :=
  nf1 e -> forall r c, good_env r -> rebuild n r e = Ok c ->
  ev n (tr_env r) (tc e) = Ok (VCode c).

Definition S01 n e := S0 n e /\ S1 n e.

(* ---------- lists under the induction hypotheses ---------- *)

Lemma S1_list n es :
  AllP (S01 n) es -> AllP nf1 es -> forall r cs, good_env r ->
  mapM (rebuild n r) es = Ok cs ->
  mapM (ev n (tr_env r)) (map tc es) = Ok (map VCode cs).
Proof.
  induction es as [|a t IH]; intros HS HN r cs G H; cbn [mapM map] in *.
  - injection H as <-. reflexivity.
  - destruct HS as [[_ Ha] Ht]. destruct HN as [Na Nt].
    inv_bind_as H a' Ea. inv_bind_as H t' Et. injection H as <-.
    rewrite (Ha Na r a' G Ea). cbn [bind]. rewrite (IH Ht Nt r t' G Et). reflexivity.
Qed.

Lemma S0_list n es :
  AllP (S01 n) es -> AllP nf0 es -> forall r vs, good_env r ->
  mapM (ev n r) es = Ok vs ->
  mapM (ev n (tr_env r)) (map ts es) = Ok (map tr_val vs) /\ AllP good_val vs.
Proof.
  induction es as [|a t IH]; intros HS HN r vs G H; cbn [mapM map] in *.
  - injection H as <-. split; [reflexivity | exact I].
  - destruct HS as [[Ha _] Ht]. destruct HN as [Na Nt].
    inv_bind_as H a' Ea. inv_bind_as H t' Et. injection H as <-.
    destruct (Ha Na r a' G Ea) as [E1 G1]. destruct (IH Ht Nt r t' G Et) as [E2 G2].
    rewrite E1. cbn [bind]. rewrite E2. split; [reflexivity | split; assumption].
Qed.

Lemma S1_fields n fs :
  AllP (fun f : string * expr => S01 n (snd f)) fs -> AllP (fun f : string * expr => nf1 (snd f)) fs ->
  forall r fs', good_env r ->
  mapM (fun f : string * expr => match f with (nm, x) => do x' <- rebuild n r x; Ok (nm, x') end) fs = Ok fs' ->
  mapM (ev n (tr_env r)) (map (fun f : string * expr => tc (snd f)) fs) = Ok (map VCode (map snd fs'))
  /\ map fst fs' = map fst fs.
Proof.
  induction fs as [|[nm a] t IH]; intros HS HN r fs' G H; cbn [mapM map] in *.
  - injection H as <-. split; reflexivity.
  - destruct HS as [[_ Ha] Ht]. destruct HN as [Na Nt]. cbn [snd] in Ha, Na.
    inv_bind_as H p Ep. inv_bind_as Ep a' Ea. injection Ep as <-. inv_bind_as H t' Et. injection H as <-.
    destruct (IH Ht Nt r t' G Et) as [E2 E3].
    cbn [snd]. rewrite (Ha Na r a' G Ea). cbn [bind]. rewrite E2. cbn [map fst snd]. rewrite E3.
    split; reflexivity.
Qed.

Lemma zip_fields_ok (fs : list (string * expr)) : zip_fields (map fst fs) (map snd fs) = Ok fs.
Proof.
  induction fs as [|[nm x] t IH]; [reflexivity|]. cbn [map zip_fields fst snd]. rewrite IH. reflexivity.
Qed.

Lemma names_of_fields (fs : list (string * expr)) :
  map (fun f : string * expr => sym_to_string_literal (fst f)) fs = map sym_to_string_literal (map fst fs).
Proof. rewrite map_map. reflexivity. Qed.

(* ---------- lambda parameters ---------- *)

Definition pname (p : string * ty * option expr) : string := fst (fst p).
Definition ptype (p : string * ty * option expr) : ty := snd (fst p).

Lemma ev_lit_zero n r :
  good_env r ->
  ev n (tr_env r) (make_apply1 "code_lit_f" (ELit (LFloat float_zero))) = Ok (VCode (ELit (LFloat float_zero))).
Proof.
  intros G. unfold make_apply1.
  rewrite (ev_call n (tr_env r) "code_lit_f" [ELit (LFloat float_zero)] [VNum float_zero]).
  - reflexivity.
  - apply lookup_comb_none_tr; [exact G | reflexivity].
  - reflexivity.
  - cbn [mapM]. rewrite ev_unfold. reflexivity.
Qed.

Lemma params_rebuild n ps :
  AllP (fun p : string * ty * option expr => OptP (S01 n) (snd p)) ps ->
  AllP (fun p : string * ty * option expr => OptP nf1 (snd p)) ps ->
  forall r ps', good_env r ->
  mapM (fun p : string * ty * option expr =>
          match p with (x, t, d) => do d' <- optM (rebuild n r) d; Ok (x, t, d') end) ps = Ok ps' ->
  map pname ps' = map pname ps /\ map ptype ps' = map ptype ps /\ map has_default ps' = map has_default ps /\
  mapM (ev n (tr_env r))
       (map (fun p : string * ty * option expr =>
               match snd p with
               | Some d => tc d
               | None => make_apply1 "code_lit_f" (ELit (LFloat float_zero))
               end) ps)
  = Ok (map VCode (map (fun p : string * ty * option expr =>
                          match snd p with Some d => d | None => ELit (LFloat float_zero) end) ps')).
Proof.
  induction ps as [|[[x t] d] rest IH]; intros HS HN r ps' G H; cbn [mapM map] in *.
  - injection H as <-. repeat split; reflexivity.
  - destruct HS as [Hd Ht]. destruct HN as [Nd Nt]. cbn [snd] in Hd, Nd.
    inv_bind_as H p Ep. inv_bind_as Ep d' Ed. injection Ep as <-. inv_bind_as H rest' Etl. injection H as <-.
    destruct (IH Ht Nt r rest' G Etl) as (E1 & E2 & E3 & E4).
    cbn [map pname ptype has_default fst snd]. rewrite E1, E2, E3.
    destruct d as [d|]; cbn [optM] in Ed.
    + inv_bind_as Ed d2 Ed2. injection Ed as <-. cbn [OptP] in Hd, Nd. destruct Hd as [_ Hd].
      rewrite (Hd Nd r d2 G Ed2). cbn [bind]. rewrite E4. repeat split; reflexivity.
    + injection Ed as <-.
      rewrite (ev_lit_zero n r G). cbn [bind]. rewrite E4. repeat split; reflexivity.
Qed.

Lemma ev_mask n r (ps : list (string * ty * option expr)) :
  ev n r (EArrayLiteral (map (fun p => ELit (LFloat (if has_default p then float_one else float_zero))) ps))
  = Ok (VArr (map VNum (map (fun p => if has_default p then float_one else float_zero) ps))).
Proof.
  rewrite ev_unfold.
  rewrite (mapM_ev_map n r (fun p => ELit (LFloat (if has_default p then float_one else float_zero)))
                       (fun p => VNum (if has_default p then float_one else float_zero))).
  - rewrite map_map. reflexivity.
  - intros p. rewrite ev_unfold. destruct (has_default p); reflexivity.
Qed.

Lemma default_params_ok (ps' : list (string * ty * option expr)) :
  default_params (map pname ps') (map ptype ps')
    (map (fun p => if has_default p then float_one else float_zero) ps')
    (map (fun p : string * ty * option expr =>
            match snd p with Some d => d | None => ELit (LFloat float_zero) end) ps')
  = ps'.
Proof.
  induction ps' as [|[[x t] d] rest IH]; [reflexivity|].
  cbn [map default_params pname ptype fst snd hd tl has_default]. rewrite IH.
  destruct d; [rewrite nonzero_one | rewrite nonzero_zero]; reflexivity.
Qed.

Lemma typed_params_ok (ps : list (string * ty * option expr)) :
  existsb has_default ps = false -> typed_params (map pname ps) (map ptype ps) = ps.
Proof.
  induction ps as [|[[x t] d] rest IH]; intros H; [reflexivity|].
  cbn [existsb has_default] in H. destruct d; [discriminate|]. cbn [orb] in H.
  cbn [map typed_params pname ptype fst snd hd tl]. rewrite (IH H). reflexivity.
Qed.

Lemma params_no_default n r ps ps' :
  existsb has_default ps = false ->
  mapM (fun p : string * ty * option expr =>
          match p with (x, t, d) => do d' <- optM (rebuild n r) d; Ok (x, t, d') end) ps = Ok ps' ->
  ps' = ps.
Proof.
  revert ps'. induction ps as [|[[x t] d] rest IH]; intros ps' Hd H; cbn [mapM] in H.
  - injection H as <-. reflexivity.
  - cbn [existsb has_default] in Hd. destruct d; [discriminate|]. cbn [orb] in Hd.
    cbn [optM bind] in H. inv_bind_as H rest' Etl. injection H as <-. rewrite (IH _ Hd Etl). reflexivity.
Qed.

Lemma existsb_map_eq' {A} (f : A -> bool) l1 l2 : map f l1 = map f l2 -> existsb f l1 = existsb f l2.
Proof.
  revert l2. induction l1 as [|a r IH]; intros [|b s] E; try discriminate; [reflexivity|].
  cbn in E. injection E as E1 E2. cbn. rewrite E1. f_equal. auto.
Qed.

Lemma map_names_lits (ps : list (string * ty * option expr)) :
  map (fun p : string * ty * option expr => match p with (x, _, _) => sym_to_string_literal x end) ps
  = map sym_to_string_literal (map pname ps).
Proof. rewrite map_map. apply map_ext. intros [[x t] d]. reflexivity. Qed.

Lemma map_types (ps : list (string * ty * option expr)) :
  map (fun p : string * ty * option expr => match p with (_, t, _) => t end) ps = map ptype ps.
Proof. apply map_ext. intros [[x t] d]. reflexivity. Qed.

(* ---------- tactics ---------- *)

Ltac comb avs :=
  rewrite (ev_call _ _ _ _ avs);
  [ | apply lookup_comb_none_tr; [assumption | reflexivity] | reflexivity | ].

Ltac use1 :=
  match goal with
  | [ H : S01 ?n ?x, N : nf1 ?x, G : good_env ?r, E : rebuild ?n ?r ?x = Ok ?c |- context [ev ?n (tr_env ?r) (tc ?x)] ] =>
      rewrite (proj2 H N r c G E)
  end.

(* ---------- the main induction ---------- *)

Ltac use0 :=
  match goal with
  | [ H : S01 ?n ?x, N : nf0 ?x, G : good_env ?r, E : ev ?n ?r ?x = Ok ?v |- _ ] =>
      let E1 := fresh "E0_" in let G1 := fresh "G0_" in
      destruct (proj1 H N r v G E) as [E1 G1]; clear E
  end.

Local Opaque codes strs tys nums zip_fields typed_params default_params pname ptype.

Lemma roundtrip : forall n e, S01 n e.
Proof.
  induction n as [n IHn] using lt_wf_ind.
  induction e as
    [ l | x | segs | b IHb | es IHes | e1 i IH1 | e1 e2 IH1 IH2 | es IHes | fs IHfs | fs IHfs
    | e1 fs IH1 IHfs | e1 f IH1 | e1 args IH1 IHargs | e1 args IH1 IHargs | e1 op e2 IH1 IH2 | op e1 IH1
    | e1 IH1 | ps rt e1 IHps IH1 | e1 e2 IH1 IH2 | e1 b IH1 IHb | x e1 IH1 | p t e1 body IH1 IHb
    | x t e1 body IH1 IHb | e1 e2 e3 IH1 IH2 IH3 | e1 arms IH1 IHarms | e1 IH1 | e1 IH1 | ] using expr_ind';
    split.
  all: try (intros N r v G HE; rewrite ev_unfold in HE; discriminate HE).   (* stage-0 forms the machine does not run *)
  all: try (intros N; exact (False_ind _ N)).                              (* not a normal form *)
  - (* ELit 0 *)
    intros N r v G HE. cbn [ts]. rewrite ev_unfold in HE |- *.
    destruct l; try discriminate; injection HE as <-; split; try reflexivity; exact I.
  - (* ELit 1 *)
    intros N r c G HE. rewrite rebuild_unfold in HE. cbn zeta in HE. cbn [tc].
    destruct l; cbn [nf1] in N; try contradiction; injection HE as <-.
    + unfold make_apply1. comb [VNum q]; [reflexivity|]. cbn [mapM]. rewrite ev_unfold. reflexivity.
    + unfold make_apply1. comb [VInt z]; [reflexivity|]. cbn [mapM]. rewrite ev_unfold. reflexivity.
    + unfold make_apply1. comb [VStr s]; [reflexivity|]. cbn [mapM]. rewrite ev_unfold. reflexivity.
    + unfold make_apply0. comb (@nil value); reflexivity.
    + unfold make_apply0. comb (@nil value); reflexivity.
    + unfold make_apply0. comb (@nil value); reflexivity.
    + unfold make_apply1. comb [VTy t]; [reflexivity|]. cbn [mapM]. rewrite ev_unfold. reflexivity.
  - (* EVar 0 *)
    intros N r v G HE. cbn [ts]. rewrite ev_unfold in HE |- *. rewrite lookup_tr.
    destruct (lookup r x) as [w|] eqn:L; cbn [option_map].
    + injection HE as <-. split; [reflexivity | exact (lookup_good r x w G L)].
    + destruct (is_extern x); [|discriminate]. injection HE as <-. split; [reflexivity | exact I].
  - (* EVar 1 *)
    intros N r c G HE. rewrite rebuild_unfold in HE. cbn zeta in HE. injection HE as <-. cbn [tc].
    unfold make_apply_str, make_apply1. comb [VStr x]; [reflexivity|]. cbn [mapM]. rewrite ev_unfold. reflexivity.
  - (* EBlock 0 *)
    intros N r v G HE. cbn [ts]. rewrite ev_unfold in HE |- *. destruct b as [y|]; cbn [option_map].
    + cbn [OptP nf0] in *. exact (proj1 IHb N r v G HE).
    + injection HE as <-. split; [reflexivity | exact I].
  - (* EBlock 1 *)
    intros N r c G HE. rewrite rebuild_unfold in HE. cbn zeta in HE. cbn [nf1] in N. destruct N as [Ns N].
    destruct b as [y|]; [|contradiction]. cbn [OptP optM] in *.
    inv_bind_as HE b' Eb. inv_bind_as Eb y' Ey. injection Eb as <-. injection HE as <-.
    cbn [tc]. unfold make_apply1. comb [VCode y']; [reflexivity|]. cbn [mapM]. use1. reflexivity.
  - (* ETuple 0 *)
    intros N r v G HE. cbn [ts]. rewrite ev_unfold in HE |- *. cbn [nf0] in N. inv_bind_as HE vs Evs. injection HE as <-.
    destruct (S0_list n es IHes N r vs G Evs) as [E1 G1]. rewrite E1. split; [reflexivity | exact G1].
  - (* ETuple 1 *)
    intros N r c G HE. rewrite rebuild_unfold in HE. cbn zeta in HE. cbn [nf1] in N. inv_bind_as HE cs Ecs. injection HE as <-.
    cbn [tc]. unfold make_apply1. comb [VArr (map VCode cs)].
    + unfold prim. cbn [forallb is_data]. rewrite data_codes. cbn. rewrite codes_map. reflexivity.
    + cbn [mapM]. rewrite ev_unfold. rewrite (S1_list n es IHes N r cs G Ecs). reflexivity.
  - (* EProj 1 *)
    intros N r c G HE. rewrite rebuild_unfold in HE. cbn zeta in HE. cbn [nf1] in N. inv_bind_as HE c1 Ec1. injection HE as <-.
    cbn [tc]. comb [VCode c1; VInt i]; [reflexivity|]. cbn [mapM]. use1. cbn [bind]. rewrite ev_unfold. reflexivity.
  - (* EArrayAccess 1 *)
    intros N r c G HE. rewrite rebuild_unfold in HE. cbn zeta in HE. cbn [nf1] in N. destruct N as [N1 N2].
    inv_bind_as HE c1 Ec1. inv_bind_as HE c2 Ec2. injection HE as <-.
    cbn [tc]. comb [VCode c1; VCode c2]; [reflexivity|]. cbn [mapM]. use1. cbn [bind]. use1. reflexivity.
  - (* EArrayLiteral 0 *)
    intros N r v G HE. cbn [ts]. rewrite ev_unfold in HE |- *. cbn [nf0] in N. inv_bind_as HE vs Evs. injection HE as <-.
    destruct (S0_list n es IHes N r vs G Evs) as [E1 G1]. rewrite E1. split; [reflexivity | exact G1].
  - (* EArrayLiteral 1 *)
    intros N r c G HE. rewrite rebuild_unfold in HE. cbn zeta in HE. cbn [nf1] in N. inv_bind_as HE cs Ecs. injection HE as <-.
    cbn [tc]. unfold make_apply1. comb [VArr (map VCode cs)].
    + unfold prim. cbn [forallb is_data]. rewrite data_codes. cbn. rewrite codes_map. reflexivity.
    + cbn [mapM]. rewrite ev_unfold. rewrite (S1_list n es IHes N r cs G Ecs). reflexivity.
  - (* ERecordLiteral 1 *)
    intros N r c G HE. rewrite rebuild_unfold in HE. cbn zeta in HE. cbn [nf1] in N. inv_bind_as HE fs' Efs. injection HE as <-.
    destruct (S1_fields n fs IHfs N r fs' G Efs) as [E1 E2].
    cbn [tc]. rewrite names_of_fields, <- E2.
    comb [VArr (map VStr (map fst fs')); VArr (map VCode (map snd fs'))].
    + unfold prim. cbn [forallb is_data]. rewrite data_codes, data_strs. cbn.
      rewrite strs_map. cbn [bind]. rewrite codes_map. cbn [bind]. rewrite zip_fields_ok. reflexivity.
    + cbn [mapM]. rewrite ev_str_lits. cbn [bind]. rewrite ev_unfold, E1. reflexivity.
  - (* EImcompleteRecord 1 *)
    intros N r c G HE. rewrite rebuild_unfold in HE. cbn zeta in HE. cbn [nf1] in N. inv_bind_as HE fs' Efs. injection HE as <-.
    destruct (S1_fields n fs IHfs N r fs' G Efs) as [E1 E2].
    cbn [tc]. rewrite names_of_fields, <- E2.
    comb [VArr (map VStr (map fst fs')); VArr (map VCode (map snd fs'))].
    + unfold prim. cbn [forallb is_data]. rewrite data_codes, data_strs. cbn.
      rewrite strs_map. cbn [bind]. rewrite codes_map. cbn [bind]. rewrite zip_fields_ok. reflexivity.
    + cbn [mapM]. rewrite ev_str_lits. cbn [bind]. rewrite ev_unfold, E1. reflexivity.
  - (* ERecordUpdate 1 *)
    intros N r c G HE. rewrite rebuild_unfold in HE. cbn zeta in HE. cbn [nf1] in N. destruct N as [N1 N2].
    inv_bind_as HE c1 Ec1. inv_bind_as HE fs' Efs. injection HE as <-.
    destruct (S1_fields n fs IHfs N2 r fs' G Efs) as [E1 E2].
    cbn [tc]. rewrite names_of_fields, <- E2.
    comb [VCode c1; VArr (map VStr (map fst fs')); VArr (map VCode (map snd fs'))].
    + unfold prim. cbn [forallb is_data]. rewrite data_codes, data_strs. cbn.
      rewrite strs_map. cbn [bind]. rewrite codes_map. cbn [bind]. rewrite zip_fields_ok. reflexivity.
    + cbn [mapM]. use1. cbn [bind]. rewrite ev_str_lits. cbn [bind]. rewrite ev_unfold, E1. reflexivity.
  - (* EFieldAccess 1 *)
    intros N r c G HE. rewrite rebuild_unfold in HE. cbn zeta in HE. cbn [nf1] in N. inv_bind_as HE c1 Ec1. injection HE as <-.
    cbn [tc]. comb [VCode c1; VStr f]; [reflexivity|]. cbn [mapM]. use1. cbn [bind]. rewrite ev_unfold. reflexivity.
  - (* EApply 0 *)
    intros N r v G HE. cbn [ts]. rewrite ev_unfold in HE |- *. cbn [nf0] in N. destruct N as [Nf Na].
    inv_bind_as HE fv Ef. inv_bind_as HE avs Ea.
    destruct (proj1 IH1 Nf r fv G Ef) as [Ef' Gf]. destruct (S0_list n args IHargs Na r avs G Ea) as [Ea' Ga].
    rewrite Ef'. cbn [bind]. rewrite Ea'. cbn [bind].
    destruct fv; try discriminate; cbn [tr_val].
    + (* closure *)
      destruct n as [|n']; [discriminate|]. inv_bind_as HE r2 Er2.
      cbn [good_val] in Gf. destruct Gf as (Gp & Gb & Gr).
      change (map (fun p : string * value => (fst p, tr_val (snd p))) env) with (tr_env env).
      rewrite (bind_params_tr _ _ _ _ Er2). cbn [bind].
      assert (G' : good_env r2) by exact (bind_params_good _ _ _ _ Gp Ga Gr Er2).
      exact (proj1 (IHn n' (Nat.lt_succ_diag_r n') body) Gb r2 v G' HE).
    + (* recursive closure *)
      destruct n as [|n']; [discriminate|]. inv_bind_as HE r2 Er2.
      cbn [good_val] in Gf. destruct Gf as (Gn & Gp & Gb & Gr).
      assert (E2 := bind_params_tr _ _ _ _ Er2). cbn [tr_env map fst snd tr_val] in E2.
      rewrite E2. cbn [bind].
      assert (G' : good_env r2).
      { apply (bind_params_good _ _ _ _ Gp Ga) with (2 := Er2).
        split; [split; [exact Gn | cbn [snd good_val]; repeat split; assumption] | exact Gr]. }
      exact (proj1 (IHn n' (Nat.lt_succ_diag_r n') body) Gb r2 v G' HE).
    + (* external function *)
      destruct (prim_tr _ _ _ HE) as (E1 & E2 & G2). rewrite E1, E2. split; [reflexivity | exact G2].
  - (* EApply 1 *)
    intros N r c G HE. rewrite rebuild_unfold in HE. cbn zeta in HE. cbn [nf1] in N. destruct N as [Nf Na].
    inv_bind_as HE cf Ecf. inv_bind_as HE cs Ecs. injection HE as <-.
    assert (EA := S1_list n args IHargs Na r cs G Ecs).
    cbn [tc]. destruct args as [|a1 [|a2 [|a3 rest]]].
    + cbn [mapM] in Ecs. injection Ecs as <-.
      comb [VCode cf; VArr []]; [reflexivity|]. cbn [mapM]. use1. cbn [bind]. rewrite ev_unfold. reflexivity.
    + cbn [mapM] in Ecs. inv_bind_as Ecs c1 Ec1. injection Ecs as <-.
      cbn [AllP] in IHargs, Na. destruct IHargs as [IHa1 _]. destruct Na as [Na1 _].
      comb [VCode cf; VCode c1]; [reflexivity|]. cbn [mapM]. use1. cbn [bind]. use1. reflexivity.
    + cbn [mapM] in Ecs. inv_bind_as Ecs c1 Ec1. inv_bind_as Ecs t1 Et1. inv_bind_as Et1 c2 Ec2.
      injection Et1 as <-. injection Ecs as <-.
      cbn [AllP] in IHargs, Na. destruct IHargs as (IHa1 & IHa2 & _). destruct Na as (Na1 & Na2 & _).
      comb [VCode cf; VCode c1; VCode c2]; [reflexivity|]. cbn [mapM]. use1. cbn [bind]. use1. cbn [bind]. use1. reflexivity.
    + comb [VCode cf; VArr (map VCode cs)].
      * unfold prim. cbn [forallb is_data]. rewrite data_codes. cbn. rewrite codes_map. reflexivity.
      * cbn [mapM]. use1. cbn [bind]. rewrite ev_unfold. rewrite EA. reflexivity.
  - (* EParen 0 *)
    intros N r v G HE. cbn [ts]. rewrite ev_unfold in HE |- *. cbn [nf0] in N. exact (proj1 IH1 N r v G HE).
  - (* ELambda 0 *)
    intros N r v G HE. cbn [ts]. rewrite ev_unfold in HE |- *. cbn [nf0] in N. destruct N as [Np Nb].
    rewrite param_names_strip. inv_bind_as HE names En. injection HE as <-. rewrite En. cbn [bind tr_val].
    split; [reflexivity|]. cbn [good_val]. repeat split; try assumption.
    rewrite (param_names_ok _ _ En). apply AllP_map. exact Np.
  - (* ELambda 1 *)
    intros N r c G HE. rewrite rebuild_unfold in HE. cbn zeta in HE. cbn [nf1] in N. destruct N as (Nrt & Np & Nb).
    destruct rt as [rt|]; [|contradiction].
    inv_bind_as HE body' Eb. inv_bind_as HE ps' Eps. injection HE as <-.
    destruct (params_rebuild n ps IHps Np r ps' G Eps) as (E1 & E2 & E3 & E4).
    cbn [tc]. rewrite map_names_lits, map_types.
    destruct (existsb has_default ps) eqn:Ex.
    + comb [VArr (map VStr (map pname ps)); VArr (map VTy (map ptype ps));
            VArr (map VNum (map (fun p => if has_default p then float_one else float_zero) ps));
            VArr (map VCode (map (fun p : string * ty * option expr =>
                                    match snd p with Some d => d | None => ELit (LFloat float_zero) end) ps'));
            VTy rt; VCode body'].
      * unfold prim. cbn [forallb is_data]. rewrite data_codes, data_strs, data_tys, data_nums. cbn.
        rewrite strs_map. cbn [bind]. rewrite tys_map. cbn [bind]. rewrite nums_map. cbn [bind]. rewrite codes_map. cbn [bind].
        rewrite <- E1, <- E2.
        assert (Em : map (fun p : string * ty * option expr => if has_default p then float_one else float_zero) ps
                     = map (fun p : string * ty * option expr => if has_default p then float_one else float_zero) ps').
        { rewrite <- (map_map has_default (fun b : bool => if b then float_one else float_zero)).
          rewrite <- E3. rewrite map_map. reflexivity. }
        rewrite Em, default_params_ok. reflexivity.
      * cbn [mapM]. rewrite ev_str_lits. cbn [bind]. rewrite ev_ty_lits. cbn [bind]. rewrite ev_mask. cbn [bind].
        rewrite ev_unfold, E4. cbn [bind]. rewrite (ev_unfold _ _ (type_id_to_int_literal rt)). cbn [type_id_to_int_literal bind].
        use1. reflexivity.
    + rewrite (params_no_default n r ps ps' Ex Eps) in *.
      destruct ps as [|[[x1 t1] d1] [|p2 rest]].
      * comb [VArr []; VArr []; VTy rt; VCode body']; [reflexivity|].
        cbn [mapM map]. rewrite ev_unfold. cbn [mapM bind]. unfold type_ids_to_int_array_literal. cbn [map].
        rewrite (ev_unfold _ _ (EArrayLiteral [])). cbn [mapM bind].
        rewrite (ev_unfold _ _ (type_id_to_int_literal rt)). cbn [type_id_to_int_literal bind]. use1. reflexivity.
      * cbn [existsb has_default] in Ex. destruct d1; [discriminate|].
        comb [VStr x1; VTy t1; VTy rt; VCode body']; [reflexivity|].
        cbn [mapM]. rewrite ev_unfold. cbn [sym_to_string_literal bind].
        rewrite (ev_unfold _ _ (type_id_to_int_literal t1)). cbn [type_id_to_int_literal bind].
        rewrite (ev_unfold _ _ (ELit (LTy rt))). cbn [bind]. use1. reflexivity.
      * comb [VArr (map VStr (map pname ((x1, t1, d1) :: p2 :: rest))); VArr (map VTy (map ptype ((x1, t1, d1) :: p2 :: rest)));
              VTy rt; VCode body'].
        -- unfold prim. cbn [forallb is_data]. rewrite data_strs, data_tys. cbn - [map pname ptype typed_params].
           rewrite strs_map. cbn [bind]. rewrite tys_map. cbn [bind]. rewrite (typed_params_ok _ Ex). reflexivity.
        -- cbn [mapM]. rewrite ev_str_lits. cbn [bind]. rewrite ev_ty_lits. cbn [bind].
           rewrite (ev_unfold _ _ (type_id_to_int_literal rt)). cbn [type_id_to_int_literal bind]. use1. reflexivity.
  - (* EAssign 1 *)
    intros N r c G HE. rewrite rebuild_unfold in HE. cbn zeta in HE. cbn [nf1] in N. destruct N as [N1 N2].
    inv_bind_as HE c1 Ec1. inv_bind_as HE c2 Ec2. injection HE as <-.
    cbn [tc]. comb [VCode c1; VCode c2]; [reflexivity|]. cbn [mapM]. use1. cbn [bind]. use1. reflexivity.
  - (* EThen 0 *)
    intros N r v G HE. cbn [ts]. rewrite ev_unfold in HE |- *. cbn [nf0] in N. destruct N as [N1 N2].
    inv_bind_as HE av Ea. destruct (proj1 IH1 N1 r av G Ea) as [Ea' Ga]. rewrite Ea'. cbn [bind].
    destruct b as [y|]; cbn [option_map OptP] in *.
    + exact (proj1 IHb N2 r v G HE).
    + injection HE as <-. split; [reflexivity | exact Ga].
  - (* EThen 1 *)
    intros N r c G HE. rewrite rebuild_unfold in HE. cbn zeta in HE. cbn [nf1] in N. destruct N as (Ns & N1 & N2).
    destruct b as [y|]; [|contradiction]. cbn [OptP optM] in *.
    inv_bind_as HE c1 Ec1. inv_bind_as HE b' Eb. inv_bind_as Eb c2 Ec2. injection Eb as <-. injection HE as <-.
    cbn [tc]. comb [VCode c1; VCode c2]; [reflexivity|]. cbn [mapM]. use1. cbn [bind]. use1. reflexivity.
  - (* EFeed 1 *)
    intros N r c G HE. rewrite rebuild_unfold in HE. cbn zeta in HE. cbn [nf1] in N. inv_bind_as HE c1 Ec1. injection HE as <-.
    cbn [tc]. comb [VStr x; VCode c1]; [reflexivity|]. cbn [mapM]. rewrite ev_unfold. cbn [sym_to_string_literal bind]. use1. reflexivity.
  - (* ELet 0 *)
    intros N r v G HE. cbn [ts]. rewrite ev_unfold in HE |- *. cbn [nf0] in N. destruct N as (Np & N1 & N2).
    inv_bind_as HE a Ea. destruct (proj1 IH1 N1 r a G Ea) as [Ea' Ga]. rewrite Ea'. cbn [bind].
    destruct p; try discriminate; destruct body as [y|]; try discriminate; cbn [option_map OptP] in *.
    + cbn [pat_binders AllP] in Np. destruct Np as [Np _].
      assert (G' : good_env ((s, a) :: r)) by (split; [split; assumption | exact G]).
      exact (proj1 IHb N2 _ v G' HE).
    + exact (proj1 IHb N2 r v G HE).
  - (* ELet 1 *)
    intros N r c G HE. rewrite rebuild_unfold in HE. cbn zeta in HE. cbn [nf1] in N. destruct N as (Np & Nt & Ns & N1 & N2).
    destruct body as [y|]; [|contradiction]. cbn [OptP optM] in *. subst t.
    inv_bind_as HE c1 Ec1. inv_bind_as HE b' Eb. inv_bind_as Eb c2 Ec2. injection Eb as <-. injection HE as <-.
    cbn [tc]. destruct p; cbn [nf_pat] in Np; try contradiction; cbn [tc_opt].
    + comb [VStr s; VCode c1; VCode c2]; [reflexivity|].
      cbn [mapM]. rewrite ev_unfold. cbn [sym_to_string_literal bind]. use1. cbn [bind]. use1. reflexivity.
    + rewrite <- (map_map flat_name sym_to_string_literal).
      comb [VArr (map VStr (map flat_name l)); VCode c1; VCode c2].
      * unfold prim. cbn [forallb is_data]. rewrite data_strs. cbn - [map flat_name let_tuple_pat].
        rewrite strs_map. cbn [bind].
        assert (El : map let_tuple_pat (map flat_name l) = l).
        { clear -Np. induction l as [|q l IH]; [reflexivity|]. destruct Np as [Nq Nl]. cbn [map]. rewrite (IH Nl). f_equal.
          destruct q; cbn [flat_elem] in Nq; try contradiction; cbn [flat_name]; unfold let_tuple_pat.
          - destruct (String.eqb s "_") eqn:E; [apply String.eqb_eq in E; contradiction | reflexivity].
          - reflexivity. }
        rewrite El. reflexivity.
      * cbn [mapM]. rewrite ev_str_lits. cbn [bind]. use1. cbn [bind]. use1. reflexivity.
  - (* ELetRec 0 *)
    intros N r v G HE. cbn [ts]. rewrite ev_unfold in HE |- *. cbn [nf0] in N. destruct N as (Nx & N1 & N2).
    destruct e1; try discriminate. destruct body as [y|]; try discriminate. cbn [ts option_map OptP] in *.
    rewrite param_names_strip. inv_bind_as HE names En. rewrite En. cbn [bind].
    cbn [nf0] in N1. destruct N1 as [Np Nb].
    assert (G' : good_env ((x, VRec x names e1 r) :: r)).
    { split; [split; [exact Nx|] | exact G]. cbn [snd good_val]. repeat split; try assumption.
      rewrite (param_names_ok _ _ En). apply AllP_map. exact Np. }
    exact (proj1 IHb N2 _ v G' HE).
  - (* ELetRec 1 *)
    intros N r c G HE. rewrite rebuild_unfold in HE. cbn zeta in HE. cbn [nf1] in N. destruct N as (Ns & N1 & N2).
    destruct body as [y|]; [|contradiction]. cbn [OptP optM] in *.
    inv_bind_as HE c1 Ec1. inv_bind_as HE b' Eb. inv_bind_as Eb c2 Ec2. injection Eb as <-. injection HE as <-.
    cbn [tc tc_opt]. comb [VStr x; VTy t; VCode c1; VCode c2]; [reflexivity|].
    cbn [mapM]. rewrite ev_unfold. cbn [sym_to_string_literal bind].
    rewrite (ev_unfold _ _ (type_id_to_int_literal t)). cbn [type_id_to_int_literal bind]. use1. cbn [bind]. use1. reflexivity.
  - (* EIf 0 *)
    intros N r v G HE. cbn [ts]. rewrite ev_unfold in HE |- *. cbn [nf0] in N. destruct N as (N1 & N2 & N3).
    inv_bind_as HE cv Ec. destruct (proj1 IH1 N1 r cv G Ec) as [Ec' Gc]. rewrite Ec'. cbn [bind].
    destruct cv; try discriminate; cbn [tr_val]. destruct e3 as [y|]; try discriminate. cbn [option_map OptP] in *.
    destruct (SFleb q (S754_zero false)).
    + exact (proj1 IH3 N3 r v G HE).
    + exact (proj1 IH2 N2 r v G HE).
  - (* EIf 1 *)
    intros N r c G HE. rewrite rebuild_unfold in HE. cbn zeta in HE. cbn [nf1] in N. destruct N as (Ns & N1 & N2 & N3).
    destruct e3 as [y|]; [|contradiction]. cbn [OptP optM] in *.
    inv_bind_as HE c1 Ec1. inv_bind_as HE c2 Ec2. inv_bind_as HE b' Eb. inv_bind_as Eb c3 Ec3. injection Eb as <-. injection HE as <-.
    cbn [tc tc_opt]. comb [VCode c1; VCode c2; VCode c3]; [reflexivity|].
    cbn [mapM]. use1. cbn [bind]. use1. cbn [bind]. use1. reflexivity.
  - (* EBracket 0 *)
    intros N r v G HE. cbn [ts]. rewrite ev_unfold in HE. cbn [nf0] in N. inv_bind_as HE c Ec. injection HE as <-.
    split; [|exact I]. exact (proj2 IH1 N r c G Ec).
  - (* EEscape 1 *)
    intros N r c G HE. rewrite rebuild_unfold in HE. cbn zeta in HE. cbn [nf1] in N. inv_bind_as HE v Ev.
    destruct v; try discriminate. cbn [as_code] in HE. injection HE as ->. cbn [tc].
    exact (proj1 (proj1 IH1 N r (VCode c) G Ev)).
Qed.
