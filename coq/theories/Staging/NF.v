(* Staging/NF.v — the normal form of quoted code, the counter-free reading of the translation on normal
   forms (ts / tc), and the factorisation  translate = tc . norm  (Lemma translate_factor). *)
From Coq Require Import List String ZArith Bool.
From Coq Require Import Floats.SpecFloat.
From Mimium Require Import Tables.Combinators Staging.Model Staging.Ind.
Import ListNotations.
Local Open Scope string_scope.

(* a name under which a combinator is registered (a stage-0 binder of that name would capture the calls the
   translation emits) *)
Definition is_comb (x : string) : bool :=
  match registered_fn registered x with Some _ => true | None => false end.

(* ---------- normal forms ---------- *)

Definition flat_elem (q : pat) : Prop :=
  match q with PSingle n => n <> "_" | PPlaceholder => True | _ => False end.

Definition nf_pat (p : pat) : Prop :=
  match p with
  | PSingle _ => True
  | PTuple qs => AllP flat_elem qs
  | _ => False
  end.

Definition is_some {A} (o : option A) : Prop := match o with Some _ => True | None => False end.

(* nf0: stage-0 code all of whose quotations are in normal form, no stage-0 binder is a combinator name;
   nf1: quoted code in normal form (translate_code followed by the combinators rebuilds exactly it) *)
Fixpoint nf0 (e : expr) : Prop :=
  match e with
  | EBracket q => nf1 q
  | EEscape _ => False
  | ELit _ | EVar _ | EQualifiedVar _ | EError => True
  | EBlock b => OptP nf0 b
  | ETuple es | EArrayLiteral es => AllP nf0 es
  | EProj x _ | EFieldAccess x _ | EParen x | EFeed _ x => nf0 x
  | EArrayAccess a b | EAssign a b => nf0 a /\ nf0 b
  | ERecordLiteral fs | EImcompleteRecord fs => AllP (fun f => nf0 (snd f)) fs
  | ERecordUpdate r fs => nf0 r /\ AllP (fun f => nf0 (snd f)) fs
  | EApply f args => nf0 f /\ AllP nf0 args
  | EMacroExpand _ _ | EBinOp _ _ _ | EUniOp _ _ => True
  | ELambda ps _ body => AllP (fun p : string * ty * option expr => is_comb (fst (fst p)) = false) ps /\ nf0 body
  | EThen a b => nf0 a /\ OptP nf0 b
  | ELet p _ v body => AllP (fun x => is_comb x = false) (pat_binders p) /\ nf0 v /\ OptP nf0 body
  | ELetRec x _ v body => is_comb x = false /\ nf0 v /\ OptP nf0 body
  | EIf c t el => nf0 c /\ nf0 t /\ OptP nf0 el
  | EMatch s arms => nf0 s /\ AllP (fun a : mpat * expr => nf0 (snd a)) arms
  end
with nf1 (e : expr) : Prop :=
  match e with
  | EEscape s => nf0 s
  | EBracket _ => False
  | ELit LPlaceHolder => False
  | ELit _ => True
  | EVar _ => True
  | EQualifiedVar _ => False
  | EBlock b => is_some b /\ OptP nf1 b
  | ETuple es | EArrayLiteral es => AllP nf1 es
  | EProj x _ | EFieldAccess x _ | EFeed _ x => nf1 x
  | EParen _ => False
  | EArrayAccess a b | EAssign a b => nf1 a /\ nf1 b
  | ERecordLiteral fs | EImcompleteRecord fs => AllP (fun f => nf1 (snd f)) fs
  | ERecordUpdate r fs => nf1 r /\ AllP (fun f => nf1 (snd f)) fs
  | EApply f args => nf1 f /\ AllP nf1 args
  | EMacroExpand _ _ | EBinOp _ _ _ | EUniOp _ _ | EError => False
  | ELambda ps rt body =>
      is_some rt /\ AllP (fun p : string * ty * option expr => OptP nf1 (snd p)) ps /\ nf1 body
  | EThen a b => is_some b /\ nf1 a /\ OptP nf1 b
  | ELet p t v body => nf_pat p /\ t = ty_unknown /\ is_some body /\ nf1 v /\ OptP nf1 body
  | ELetRec _ _ v body => is_some body /\ nf1 v /\ OptP nf1 body
  | EIf c t el => is_some el /\ nf1 c /\ nf1 t /\ OptP nf1 el
  | EMatch _ _ => False
  end.

(* what can be translated at all (no node translate_code leaves as is, no Match: its combinator is not registered);
   tr0: stage-0 code, tr1: quoted code *)
Fixpoint tr0 (e : expr) : Prop :=
  match e with
  | EBracket q => tr1 q
  | EEscape _ => False
  | ELit _ | EVar _ | EQualifiedVar _ | EError => True
  | EBlock b => OptP tr0 b
  | ETuple es | EArrayLiteral es => AllP tr0 es
  | EProj x _ | EFieldAccess x _ | EParen x | EFeed _ x => tr0 x
  | EArrayAccess a b | EAssign a b => tr0 a /\ tr0 b
  | ERecordLiteral fs | EImcompleteRecord fs => AllP (fun f => tr0 (snd f)) fs
  | ERecordUpdate r fs => tr0 r /\ AllP (fun f => tr0 (snd f)) fs
  | EApply f args => tr0 f /\ AllP tr0 args
  | EMacroExpand _ _ | EBinOp _ _ _ | EUniOp _ _ => True
  | ELambda ps _ body => AllP (fun p : string * ty * option expr => is_comb (fst (fst p)) = false) ps /\ tr0 body
  | EThen a b => tr0 a /\ OptP tr0 b
  | ELet p _ v body => AllP (fun x => is_comb x = false) (pat_binders p) /\ tr0 v /\ OptP tr0 body
  | ELetRec x _ v body => is_comb x = false /\ tr0 v /\ OptP tr0 body
  | EIf c t el => tr0 c /\ tr0 t /\ OptP tr0 el
  | EMatch s arms => tr0 s /\ AllP (fun a : mpat * expr => tr0 (snd a)) arms
  end
with tr1 (e : expr) : Prop :=
  match e with
  | EEscape s => tr0 s
  | EBracket q => tr1 q
  | ELit LPlaceHolder => False
  | ELit _ | EVar _ | EQualifiedVar _ => True
  | EBlock b => OptP tr1 b
  | ETuple es | EArrayLiteral es => AllP tr1 es
  | EProj x _ | EFieldAccess x _ | EFeed _ x | EParen x => tr1 x
  | EArrayAccess a b | EAssign a b => tr1 a /\ tr1 b
  | ERecordLiteral fs | EImcompleteRecord fs => AllP (fun f => tr1 (snd f)) fs
  | ERecordUpdate r fs => tr1 r /\ AllP (fun f => tr1 (snd f)) fs
  | EApply f args => tr1 f /\ AllP tr1 args
  | EMacroExpand _ _ | EBinOp _ _ _ | EUniOp _ _ | EError => False
  | ELambda ps _ body => AllP (fun p : string * ty * option expr => OptP tr1 (snd p)) ps /\ tr1 body
  | EThen a b => tr1 a /\ OptP tr1 b
  | ELet _ _ v body => tr1 v /\ OptP tr1 body
  | ELetRec _ _ v body => tr1 v /\ OptP tr1 body
  | EIf c t el => tr1 c /\ tr1 t /\ OptP tr1 el
  | EMatch _ _ => False
  end.

(* ---------- the translation read on normal forms (no counter) ---------- *)

Definition flat_name (q : pat) : string := match q with PSingle n => n | _ => "_" end.

Definition tc_opt (f : expr -> expr) (o : option expr) : expr :=
  match o with Some x => f x | None => code_unit_expr end.

Fixpoint ts (e : expr) : expr :=
  let tf := map (fun f : string * expr => (fst f, ts (snd f))) in
  match e with
  | EBracket inner => tc inner
  | EEscape _ => e
  | ELet p t v body => ELet p (strip_code_type t) (ts v) (option_map ts body)
  | ELetRec x t v body => ELetRec x (strip_code_type t) (ts v) (option_map ts body)
  | ELambda ps rt body =>
      ELambda (map (fun p => match p with (x, t, d) => (x, strip_code_type t, d) end) ps)
              (option_map strip_code_type rt) (ts body)
  | EApply f args => EApply (ts f) (map ts args)
  | EIf c t el => EIf (ts c) (ts t) (option_map ts el)
  | EThen a b => EThen (ts a) (option_map ts b)
  | EBlock b => EBlock (option_map ts b)
  | ETuple es => ETuple (map ts es)
  | EArrayLiteral es => EArrayLiteral (map ts es)
  | ERecordLiteral fs => ERecordLiteral (tf fs)
  | EProj x i => EProj (ts x) i
  | EArrayAccess a i => EArrayAccess (ts a) (ts i)
  | EFieldAccess r f => EFieldAccess (ts r) f
  | EAssign l r => EAssign (ts l) (ts r)
  | EFeed x body => EFeed x (ts body)
  | EMatch s arms => EMatch (ts s) (map (fun a : mpat * expr => (fst a, ts (snd a))) arms)
  | EParen x => EParen (ts x)
  | ELit _ | EVar _ | EError => e
  | EQualifiedVar segs => EVar (mangle_qualified_segments segs)
  | EBinOp _ _ _ | EUniOp _ _ | EMacroExpand _ _ => e
  | EImcompleteRecord fs => EImcompleteRecord (tf fs)
  | ERecordUpdate r fs => ERecordUpdate (ts r) (tf fs)
  end
with tc (e : expr) : expr :=
  let names := map (fun f : string * expr => sym_to_string_literal (fst f)) in
  let vals := map (fun f : string * expr => tc (snd f)) in
  match e with
  | EEscape inner => ts inner
  | EBracket inner => make_apply1 "code_block" (tc inner)
  | ELit l =>
      match l with
      | LFloat _ => make_apply1 "code_lit_f" (ELit l)
      | LInt _ | LTy _ => make_apply1 "code_lit_i" (ELit l)
      | LString _ => make_apply1 "code_lit_s" (ELit l)
      | LSelf => make_apply0 "code_self"
      | LNow => make_apply0 "code_now"
      | LSampleRate => make_apply0 "code_samplerate"
      | LPlaceHolder => e
      end
  | EVar name => make_apply_str "code_var" name
  | EApply f args =>
      match args with
      | [] => make_apply "code_app" [tc f; EArrayLiteral []]
      | [a] => make_apply "code_app1" [tc f; tc a]
      | [a1; a2] => make_apply "code_app2" [tc f; tc a1; tc a2]
      | _ => make_apply "code_app" [tc f; EArrayLiteral (map tc args)]
      end
  | ELambda ps rt body =>
      let param_types := type_ids_to_int_array_literal (map (fun p => match p with (_, t, _) => t end) ps) in
      let return_type := type_id_to_int_literal (match rt with Some t => t | None => ty_unknown end) in
      if existsb has_default ps then
        make_apply "code_lam_finish_defaults_typed"
          [EArrayLiteral (map (fun p => match p with (x, _, _) => sym_to_string_literal x end) ps);
           param_types;
           EArrayLiteral (map (fun p => ELit (LFloat (if has_default p then float_one else float_zero))) ps);
           EArrayLiteral (map (fun p : string * ty * option expr =>
                                 match snd p with
                                 | Some d => tc d
                                 | None => make_apply1 "code_lit_f" (ELit (LFloat float_zero))
                                 end) ps);
           return_type; tc body]
      else
        match ps with
        | [(x, t, _)] =>
            make_apply "code_lam1_finish_typed" [sym_to_string_literal x; type_id_to_int_literal t; return_type; tc body]
        | _ =>
            make_apply "code_lam_finish_typed"
              [EArrayLiteral (map (fun p => match p with (x, _, _) => sym_to_string_literal x end) ps);
               param_types; return_type; tc body]
        end
  | ELet p _ v body =>
      match p with
      | PSingle n => make_apply "code_let" [sym_to_string_literal n; tc v; tc_opt tc body]
      | PTuple qs =>
          make_apply "code_let_tuple"
            [EArrayLiteral (map (fun q => sym_to_string_literal (flat_name q)) qs); tc v; tc_opt tc body]
      | _ => EError
      end
  | ELetRec x t v body =>
      make_apply "code_letrec_typed" [sym_to_string_literal x; type_id_to_int_literal t; tc v; tc_opt tc body]
  | EIf c t el => make_apply "code_if" [tc c; tc t; tc_opt tc el]
  | EThen a b => match b with Some x => make_apply "code_then" [tc a; tc x] | None => tc a end
  | EAssign l r => make_apply "code_assign" [tc l; tc r]
  | ETuple es => make_apply1 "code_tuple" (EArrayLiteral (map tc es))
  | EProj x i => make_apply "code_proj" [tc x; ELit (LInt i)]
  | EArrayLiteral es => make_apply1 "code_array" (EArrayLiteral (map tc es))
  | EArrayAccess a i => make_apply "code_array_access" [tc a; tc i]
  | ERecordLiteral fs => make_apply "code_record" [EArrayLiteral (names fs); EArrayLiteral (vals fs)]
  | EFieldAccess r f => make_apply "code_field_access" [tc r; sym_to_string_literal f]
  | EFeed x body => make_apply "code_feed" [sym_to_string_literal x; tc body]
  | EBlock b => match b with Some x => make_apply1 "code_block" (tc x) | None => code_unit_expr end
  | EMatch s arms =>
      make_apply "code_match"
        [tc s; EArrayLiteral (map (fun a : mpat * expr => encode_match_pattern (fst a)) arms);
         EArrayLiteral (map (fun a : mpat * expr => tc (snd a)) arms)]
  | EParen x => tc x
  | EQualifiedVar segs => make_apply_str "code_var" (mangle_qualified_segments segs)
  | EBinOp _ _ _ | EUniOp _ _ | EMacroExpand _ _ => e
  | EImcompleteRecord fs => make_apply "code_imcomplete_record" [EArrayLiteral (names fs); EArrayLiteral (vals fs)]
  | ERecordUpdate r fs => make_apply "code_record_update" [tc r; EArrayLiteral (names fs); EArrayLiteral (vals fs)]
  | EError => e
  end.
