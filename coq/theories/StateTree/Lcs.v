(* StateTree/Lcs.v — the DP table of lcs_by_score satisfies its recurrence *)
From Coq Require Import List NArith Bool Lia Arith.
From Mimium Require Import Tables.StateTreeConsts StateTree.Model.
Import ListNotations.
Local Open Scope N_scope.

(* the cell update of the `for i, for j` loops *)
Definition dpF (diag s up left : N) : N :=
  if 0 <? s then N.max (diag + s) (N.max up left) else N.max up left.

Lemma dp_row_aux_spec : forall (srow prev : list N) (left : N),
  length prev = S (length srow) ->
  length (left :: dp_row_aux prev srow left) = S (length srow) /\
  forall j, (j < length srow)%nat ->
    nth (S j) (left :: dp_row_aux prev srow left) 0 =
    dpF (nth j prev 0) (nth j srow 0) (nth (S j) prev 0)
        (nth j (left :: dp_row_aux prev srow left) 0).
Proof.
  induction srow as [|s srow IH]; intros prev left HL.
  - destruct prev as [|d [|u r]]; try discriminate. cbn. split; [reflexivity|]. intros j H; lia.
  - destruct prev as [|diag [|up rest]]; try discriminate.
    pose (v := if 0 <? s then N.max (diag + s) (N.max up left) else N.max up left).
    change (dp_row_aux (diag :: up :: rest) (s :: srow) left)
      with (v :: dp_row_aux (up :: rest) srow v).
    destruct (IH (up :: rest) v) as [L R]; [cbn in *; lia|].
    split; [cbn [length] in *; lia|].
    intros [|j] Hj.
    + reflexivity.
    + cbn [length] in Hj. specialize (R j ltac:(lia)).
      change (nth (S (S j)) (left :: v :: dp_row_aux (up :: rest) srow v) 0)
        with (nth (S j) (v :: dp_row_aux (up :: rest) srow v) 0).
      rewrite R. reflexivity.
Qed.

Lemma dp_row_spec : forall (srow prev : list N),
  length prev = S (length srow) ->
  length (dp_row prev srow) = S (length srow) /\
  nth 0 (dp_row prev srow) 0 = 0 /\
  forall j, (j < length srow)%nat ->
    nth (S j) (dp_row prev srow) 0 =
    dpF (nth j prev 0) (nth j srow 0) (nth (S j) prev 0) (nth j (dp_row prev srow) 0).
Proof.
  intros srow prev HL. unfold dp_row.
  destruct (dp_row_aux_spec srow prev 0 HL) as [L R]. auto.
Qed.

Lemma dp_rows_spec : forall (m : nat) (scores : list (list N)) (prev : list N),
  length prev = S m -> Forall (fun r => length r = m) scores ->
  (forall i, (i <= length scores)%nat -> length (nth i (prev :: dp_rows prev scores) []) = S m) /\
  (forall i, (i < length scores)%nat ->
     nth (S i) (prev :: dp_rows prev scores) [] =
     dp_row (nth i (prev :: dp_rows prev scores) []) (nth i scores [])).
Proof.
  intros m scores. induction scores as [|srow scores IH]; intros prev HL HF.
  - split; intros i Hi; cbn in Hi; [|lia]. replace i with O by lia. exact HL.
  - inversion HF as [|? ? Hs HF']; subst. cbn [dp_rows].
    destruct (dp_row_spec srow prev ltac:(lia)) as [L _].
    destruct (IH (dp_row prev srow) L HF') as [IH1 IH2].
    split.
    + intros [|i] Hi; [exact HL|]. cbn [length] in Hi. apply (IH1 i). lia.
    + intros [|i] Hi; [reflexivity|]. cbn [length] in Hi. apply (IH2 i). lia.
Qed.

Lemma dp_table_rec : forall (m : nat) (scores : list (list N)),
  Forall (fun r => length r = m) scores ->
  let dp := dp_table m scores in
  (forall j, dp_at dp 0 j = 0) /\
  (forall i, (i <= length scores)%nat -> dp_at dp i 0 = 0) /\
  (forall i j, (i < length scores)%nat -> (j < m)%nat ->
     dp_at dp (S i) (S j) =
     dpF (dp_at dp i j) (score_at scores i j) (dp_at dp i (S j)) (dp_at dp (S i) j)).
Proof.
  intros m scores HF dp.
  assert (HL0 : length (repeat 0 (S m)) = S m) by apply repeat_length.
  destruct (dp_rows_spec m scores (repeat 0 (S m)) HL0 HF) as [RL RR].
  fold (dp_table m scores) in RL, RR. fold dp in RL, RR.
  split; [|split].
  - intros j. unfold dp_at, dp, dp_table. cbn [nth]. apply nth_repeat.
  - intros [|i] Hi.
    + unfold dp_at, dp, dp_table. cbn [nth]. reflexivity.
    + unfold dp_at. rewrite RR by lia.
      assert (Hs : length (nth i scores []) = m).
      { rewrite Forall_forall in HF. apply HF. apply nth_In. lia. }
      destruct (dp_row_spec (nth i scores []) (nth i dp [])) as (_ & Z & _).
      { rewrite Hs. apply RL. lia. }
      exact Z.
  - intros i j Hi Hj. unfold dp_at at 1 4. rewrite RR by lia.
    assert (Hs : length (nth i scores []) = m).
    { rewrite Forall_forall in HF. apply HF. apply nth_In. lia. }
    destruct (dp_row_spec (nth i scores []) (nth i dp [])) as (_ & _ & R).
    { rewrite Hs. apply RL. lia. }
    rewrite R by lia. reflexivity.
Qed.

(* ------------------------------------------------------------------ *)
(* consequences of the recurrence, for any well-formed score matrix   *)

Fixpoint csum (scores : list (list N)) (rs : list diff_result) : N :=
  match rs with
  | [] => 0
  | Common i j :: r => score_at scores i j + csum scores r
  | _ :: r => csum scores r
  end.

Section DP.
  Variables (m : nat) (scores : list (list N)).
  Hypothesis HF : Forall (fun r => length r = m) scores.
  Local Notation dp := (dp_table m scores).
  Local Notation rows := (length scores).

  Lemma dp_mono_i : forall i j, (i < rows)%nat -> (j <= m)%nat ->
    dp_at dp i j <= dp_at dp (S i) j.
  Proof.
    destruct (dp_table_rec m scores HF) as (Z0 & Z1 & R). intros i [|j] Hi Hj.
    - rewrite !Z1 by lia. lia.
    - rewrite R by lia. unfold dpF. destruct (0 <? _); lia.
  Qed.

  Lemma dp_mono_j : forall i j, (i <= rows)%nat -> (j < m)%nat ->
    dp_at dp i j <= dp_at dp i (S j).
  Proof.
    destruct (dp_table_rec m scores HF) as (Z0 & Z1 & R). intros [|i] j Hi Hj.
    - rewrite !Z0. lia.
    - rewrite R by lia. unfold dpF. destruct (0 <? _); lia.
  Qed.

  Lemma dp_diag : forall i j, (i < rows)%nat -> (j < m)%nat ->
    dp_at dp i j + score_at scores i j <= dp_at dp (S i) (S j).
  Proof.
    intros i j Hi Hj.
    pose proof (dp_mono_j i j ltac:(lia) Hj) as Mj.
    destruct (dp_table_rec m scores HF) as (Z0 & Z1 & R).
    rewrite R by lia. unfold dpF.
    destruct (N.ltb_spec 0 (score_at scores i j)); lia.
  Qed.

  (* order-preserving matchings of the suffixes starting at (i,j), with their value *)
  Inductive reachb : nat -> nat -> N -> Prop :=
  | rb_end : reachb rows m 0
  | rb_del : forall i j v, (i < rows)%nat -> (j <= m)%nat -> reachb (S i) j v -> reachb i j v
  | rb_ins : forall i j v, (i <= rows)%nat -> (j < m)%nat -> reachb i (S j) v -> reachb i j v
  | rb_com : forall i j v, (i < rows)%nat -> (j < m)%nat -> reachb (S i) (S j) v ->
             reachb i j (v + score_at scores i j).

  Lemma dp_ge_reachb : forall i j v, reachb i j v -> dp_at dp i j + v <= dp_at dp rows m.
  Proof.
    intros i j v H. induction H as [|i j v Hi Hj H IH|i j v Hi Hj H IH|i j v Hi Hj H IH].
    - lia.
    - pose proof (dp_mono_i i j Hi Hj). lia.
    - pose proof (dp_mono_j i j Hi Hj). lia.
    - pose proof (dp_diag i j Hi Hj). lia.
  Qed.

  (* the backtrack realises the table value *)
  Lemma backtrack_csum : forall fuel i j acc,
    (i <= rows)%nat -> (j <= m)%nat -> (i + j <= fuel)%nat ->
    csum scores (backtrack fuel scores dp i j acc) = dp_at dp i j + csum scores acc.
  Proof.
    destruct (dp_table_rec m scores HF) as (Z0 & Z1 & R).
    induction fuel as [|fuel IH]; intros i j acc Hi Hj Hf.
    - replace i with O by lia. replace j with O by lia. cbn [backtrack]. rewrite Z0. lia.
    - cbn [backtrack]. destruct i as [|i], j as [|j].
      + rewrite Z0. lia.
      + rewrite IH by lia. cbn [csum]. rewrite !Z0. lia.
      + rewrite IH by lia. cbn [csum]. rewrite !Z1 by lia. lia.
      + specialize (R i j ltac:(lia) ltac:(lia)). unfold dpF in R.
        destruct (N.ltb_spec 0 (score_at scores i j)) as [Hs|Hs]; cbn [andb].
        * destruct (N.eqb_spec (dp_at dp (S i) (S j)) (dp_at dp i j + score_at scores i j))
            as [E|E].
          -- rewrite IH by lia. cbn [csum]. lia.
          -- destruct (N.ltb_spec (dp_at dp (S i) j) (dp_at dp i (S j)));
               rewrite IH by lia; cbn [csum]; lia.
        * destruct (N.ltb_spec (dp_at dp (S i) j) (dp_at dp i (S j)));
            rewrite IH by lia; cbn [csum]; lia.
  Qed.

  Lemma lcs_csum : csum scores (lcs_by_score rows m scores) = dp_at dp rows m.
  Proof.
    unfold lcs_by_score. rewrite backtrack_csum by lia. cbn [csum]. lia.
  Qed.
End DP.
