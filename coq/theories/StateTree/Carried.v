(* StateTree/Carried.v — what a plan IS: the whole-subtree copies of an order-preserving partial matching of the two
   layouts, and the number of cells those copies carry (the second component of build_patches_recursive) *)
From Coq Require Import List NArith Bool Lia Arith Sorted.
From Mimium Require Import Tables.StateTreeConsts StateTree.Model StateTree.Lemmas StateTree.Lcs
  StateTree.Apply StateTree.Embeds.
Import ListNotations.
Local Open Scope N_scope.

(* `carried old new so dn ps c`: ps copies, for some order-preserving matching of subtrees of old (laid out from address so)
   with IDENTICAL subtrees of new (laid out from address dn), every matched subtree whole; c = cells in the matched subtrees.
     ca_whole : the two nodes are identical and copied whole
     ca_none  : nothing of this pair is copied
     ca_call  : two call nodes; some children are paired in order (cl_pair), the others are passed over (cl_old, cl_new);
                the property P holds of the two rows of children, the two base addresses and the copies made below this pair
   (P is a parameter: `fun _ _ _ _ _ => True` for the bare matching, Survivors.untouched_whole for the level-wise identity form) *)
Inductive carried (P : list skel -> list skel -> N -> N -> list patch -> Prop)
  : skel -> skel -> N -> N -> list patch -> N -> Prop :=
| ca_whole : forall s so dn, carried P s s so dn [mkPatch so dn (size s)] (count_cells s)
| ca_none : forall o n so dn, carried P o n so dn [] 0
| ca_call : forall os ns so dn ps c,
    carried_list P os ns so dn ps c -> P os ns so dn ps -> carried P (FnCall os) (FnCall ns) so dn ps c
with carried_list (P : list skel -> list skel -> N -> N -> list patch -> Prop)
  : list skel -> list skel -> N -> N -> list patch -> N -> Prop :=
| cl_end : forall os ns so dn, carried_list P os ns so dn [] 0
| cl_old : forall o os ns so dn ps c,
    carried_list P os ns (so + size o) dn ps c -> carried_list P (o :: os) ns so dn ps c
| cl_new : forall n os ns so dn ps c,
    carried_list P os ns so (dn + size n) ps c -> carried_list P os (n :: ns) so dn ps c
| cl_pair : forall o n os ns so dn ps1 c1 ps2 c2,
    carried P o n so dn ps1 c1 -> carried_list P os ns (so + size o) (dn + size n) ps2 c2 ->
    carried_list P (o :: os) (n :: ns) so dn (ps1 ++ ps2) (c1 + c2).

Lemma skipn_cons_nth : forall (A : Type) (l : list A) a d, (a < length l)%nat ->
  skipn a l = nth a l d :: skipn (S a) l.
Proof.
  intros A l. induction l as [|x l IH]; intros a d H; [cbn in H; lia|].
  destruct a as [|a]; [reflexivity|]. cbn [skipn nth]. apply IH. cbn in H. lia.
Qed.

Lemma skipn_beyond : forall (A : Type) (l : list A) a, (length l <= a)%nat -> skipn a l = [].
Proof. intros. now apply skipn_all2. Qed.

Lemma offs_beyond : forall l a, (length l <= a)%nat -> offs l (S a) = offs l a.
Proof. intros l a H. unfold offs. rewrite !firstn_all2 by lia. reflexivity. Qed.

Section Build.
  Variable P : list skel -> list skel -> N -> N -> list patch -> Prop.
  Variables (os ns : list skel) (so dn : N).

  Local Notation CL a b := (carried_list P (skipn a os) (skipn b ns) (so + offs os a) (dn + offs ns b)).

  Lemma cl_skip_old : forall a b ps c, CL (S a) b ps c -> CL a b ps c.
  Proof.
    intros a b ps c H. destruct (Nat.lt_ge_cases a (length os)) as [L|L].
    - rewrite (skipn_cons_nth _ os a (Mem 0) L). apply cl_old.
      rewrite (offs_S_nth os a (Mem 0) L) in H. now rewrite <- N.add_assoc.
    - rewrite (skipn_beyond _ os a L). rewrite (skipn_beyond _ os (S a)) in H by lia.
      now rewrite (offs_beyond os a L) in H.
  Qed.

  Lemma cl_skip_new : forall a b ps c, CL a (S b) ps c -> CL a b ps c.
  Proof.
    intros a b ps c H. destruct (Nat.lt_ge_cases b (length ns)) as [L|L].
    - rewrite (skipn_cons_nth _ ns b (Mem 0) L). apply cl_new.
      rewrite (offs_S_nth ns b (Mem 0) L) in H. now rewrite <- N.add_assoc.
    - rewrite (skipn_beyond _ ns b L). rewrite (skipn_beyond _ ns (S b)) in H by lia.
      now rewrite (offs_beyond ns b L) in H.
  Qed.

  Lemma cl_skip : forall i j a b ps c, (a <= i)%nat -> (b <= j)%nat -> CL i j ps c -> CL a b ps c.
  Proof.
    intros i j a b ps c Ha Hb H.
    assert (H1 : CL a j ps c).
    { induction Ha as [|i Ha IH]; auto. apply IH. now apply cl_skip_old. }
    clear H. induction Hb as [|j Hb IH]; auto. apply IH. now apply cl_skip_new.
  Qed.

  Hypothesis IHos : forall o, In o os -> forall n so' dn',
    exists ps', carried P o n so' dn' ps' (snd (bp o n so' dn')) /\
                (forall p, In p ps' <-> In p (fst (bp o n so' dn'))).

  Local Notation T := (mk_table os ns so dn).

  Lemma cl_build : forall cs, StronglySorted lt2 cs ->
    forall a b, Forall (fun c => (a <= fst c)%nat /\ (b <= snd c)%nat) cs ->
    exists ps', CL a b ps' (wsum (fun c => snd (table_at T (fst c) (snd c))) cs) /\
      (forall p, In p ps' <-> In p (flat_map (fun c => fst (table_at T (fst c) (snd c))) cs)).
  Proof.
    intros cs HS. induction HS as [|[i j] cs HS IH HF]; intros a b HA.
    - exists []. split; [apply cl_end|]. cbn. tauto.
    - inversion HA as [|? ? [Ha Hb] HA']; subst. cbn [fst snd] in Ha, Hb.
      assert (HN : Forall (fun c => (S i <= fst c)%nat /\ (S j <= snd c)%nat) cs).
      { eapply Forall_impl; [|exact HF]. intros [i' j'] [L1 L2]. cbn in *. lia. }
      destruct (IH (S i) (S j) HN) as (ps2 & C2 & I2).
      unfold wsum. cbn [map flat_map fst snd]. rewrite sumN_cons. fold (wsum (fun c => snd (table_at T (fst c) (snd c))) cs).
      destruct (Nat.lt_ge_cases i (length os)) as [Hi|Hi];
        [destruct (Nat.lt_ge_cases j (length ns)) as [Hj|Hj]|].
      + rewrite (table_at_in _ _ _ _ _ _ (Mem 0) Hi Hj).
        destruct (IHos _ (nth_In os (Mem 0) Hi) (nth j ns (Mem 0)) (so + offs os i) (dn + offs ns j))
          as (ps1 & C1 & I1).
        exists (ps1 ++ ps2). split.
        * apply (cl_skip i j a b); auto.
          rewrite (skipn_cons_nth _ os i (Mem 0) Hi), (skipn_cons_nth _ ns j (Mem 0) Hj).
          apply cl_pair; auto.
          rewrite (offs_S_nth os i (Mem 0) Hi), (offs_S_nth ns j (Mem 0) Hj) in C2.
          now rewrite <- !N.add_assoc.
        * intros p. rewrite !in_app_iff, I1, I2. tauto.
      + rewrite table_at_out by lia. exists ps2. split.
        * cbn [snd]. rewrite N.add_0_l. apply (cl_skip (S i) (S j) a b); auto; lia.
        * intros p. cbn [fst app]. apply I2.
      + rewrite table_at_out by lia. exists ps2. split.
        * cbn [snd]. rewrite N.add_0_l. apply (cl_skip (S i) (S j) a b); auto; lia.
        * intros p. cbn [fst app]. apply I2.
  Qed.
End Build.

Theorem bp_carried : forall P : list skel -> list skel -> N -> N -> list patch -> Prop,
  (forall os ns so dn l l', (forall p, In p l <-> In p l') -> P os ns so dn l -> P os ns so dn l') ->
  (forall os ns so dn, nodes_match (FnCall os) (FnCall ns) = false ->
     P os ns so dn (fst (bp (FnCall os) (FnCall ns) so dn))) ->
  forall o n so dn,
  exists ps', carried P o n so dn ps' (snd (bp o n so dn)) /\
              (forall p, In p ps' <-> In p (fst (bp o n so dn))).
Proof.
  intros P Pext PH.
  induction o as [l|x|x|ocs IH] using skel_ind'; intros n so dn; rewrite bp_unfold;
    (destruct (nodes_match _ n) eqn:E;
     [apply nodes_match_eq in E; subst n; cbn [fst snd]; eexists; split; [apply ca_whole|tauto]|]);
    try (cbn [fst snd]; exists []; split; [apply ca_none|tauto]).
  destruct n as [l|x|x|ncs]; try (cbn [fst snd]; exists []; split; [apply ca_none|tauto]).
  pose proof (PH ocs ncs so dn E) as PB. rewrite bp_unfold, E in PB.
  cbv zeta in *. cbn [fst snd] in *.
  set (rs := lcs_by_score _ _ _) in *.
  rewrite Forall_forall in IH.
  destruct (cl_build P ocs ncs so dn IH (commons rs) (lcs_sorted _ _ _) O O) as (ps' & C & I).
  { apply Forall_forall. intros c _. lia. }
  cbn [skipn] in C. rewrite !offs_0, !N.add_0_r in C.
  assert (I' : forall p, In p ps' <-> In p (nodup patch_eq_dec (collect (mk_table ocs ncs so dn) rs))).
  { intros p. rewrite I, nodup_In, collect_commons. tauto. }
  exists ps'. split; [|exact I'].
  apply ca_call; [now rewrite collect_cells_commons|].
  apply (Pext _ _ _ _ (nodup patch_eq_dec (collect (mk_table ocs ncs so dn) rs))); [|exact PB].
  intros p. symmetry. apply I'.
Qed.
