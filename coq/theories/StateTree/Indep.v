(* StateTree/Indep.v — the number of cells carried between two layouts does not depend on where they are laid out;
   `share`: a structural test for "something can be carried" *)
From Coq Require Import List NArith Bool Lia Arith Sorted.
From Mimium Require Import Tables.StateTreeConsts StateTree.Model StateTree.Lemmas StateTree.Lcs
  StateTree.Apply StateTree.Embeds.
Import ListNotations.
Local Open Scope N_scope.

(* ------------------------------------------------------------------ *)
(* address independence of the score table and of the carried cells    *)

Definition cells_indep (o : skel) : Prop :=
  forall n so dn so' dn', snd (bp o n so dn) = snd (bp o n so' dn').

Lemma cols_scores_indep : forall (f : tentry -> N) (g g' : skel -> N -> tentry) ns dn dn',
  (forall nc a b, f (g nc a) = f (g' nc b)) ->
  map f (cols_of g ns dn) = map f (cols_of g' ns dn').
Proof.
  intros f g g' ns. induction ns as [|nc ns IH]; intros dn dn' H; [reflexivity|].
  cbn [cols_of map]. fold (cols_of g). fold (cols_of g'). rewrite (H nc dn dn'). f_equal. now apply IH.
Qed.

Lemma table_scores_indep : forall (f : tentry -> N) os ns so dn so' dn',
  (forall o, In o os -> forall n a b a' b', f (bp_pair o n a b) = f (bp_pair o n a' b')) ->
  map (map f) (mk_table os ns so dn) = map (map f) (mk_table os ns so' dn').
Proof.
  intros f os ns. unfold mk_table. induction os as [|oc os IH]; intros so dn so' dn' H; [reflexivity|].
  cbn [rows_of map]. fold (rows_of bp_pair ns dn). fold (rows_of bp_pair ns dn').
  f_equal.
  - apply cols_scores_indep. intros nc a b. apply H. now left.
  - apply IH. intros o Ho. apply H. now right.
Qed.

Lemma pair_score_dep : forall sc te te',
  snd (fst te) = snd (fst te') -> snd te = snd te' -> pair_score sc te = pair_score sc te'.
Proof. intros sc [[p c] e] [[p' c'] e']. cbn [fst snd]. intros -> ->. reflexivity. Qed.

Theorem bp_cells_indep : forall o, cells_indep o.
Proof.
  unfold cells_indep.
  induction o as [l|x|x|ocs IH] using skel_ind'; intros n so dn so' dn'; rewrite !bp_unfold;
    (destruct (nodes_match _ n) eqn:E; [reflexivity|]); try reflexivity.
  destruct n as [l|x|x|ncs]; try reflexivity.
  cbv zeta. cbn [snd]. rewrite Forall_forall in IH.
  assert (HS : map (map (pair_score (bp_scale ocs ncs))) (mk_table ocs ncs so dn) =
               map (map (pair_score (bp_scale ocs ncs))) (mk_table ocs ncs so' dn')).
  { apply table_scores_indep. intros o Ho n a b a' b'. unfold bp_pair.
    apply pair_score_dep; cbn [fst snd]; [apply IH; exact Ho|reflexivity]. }
  rewrite HS. set (rs := lcs_by_score _ _ _).
  rewrite !collect_cells_commons. unfold wsum. f_equal. apply map_ext. intros [i j]. cbn [fst snd].
  destruct (Nat.lt_ge_cases i (length ocs)) as [Hi|Hi];
    [destruct (Nat.lt_ge_cases j (length ncs)) as [Hj|Hj]|];
    try (rewrite !table_at_out by lia; reflexivity).
  rewrite !(table_at_in _ _ _ _ _ _ (Mem 0) Hi Hj). apply IH. now apply nth_In.
Qed.

(* cells carried between o and n, wherever they are laid out *)
Definition cc (o n : skel) : N := snd (bp o n 0 0).

Lemma bp_cc : forall o n so dn, snd (bp o n so dn) = cc o n.
Proof. intros. apply bp_cells_indep. Qed.

Lemma cc_le : forall o n, cc o n <= count_cells o /\ cc o n <= count_cells n.
Proof. intros o n. unfold cc. destruct (bp_cells o n 0 0) as (U1 & U2 & _). auto. Qed.

Lemma cc_same : forall s, cc s s = count_cells s.
Proof. intros s. unfold cc. now rewrite bp_unfold, nodes_match_refl. Qed.

(* ------------------------------------------------------------------ *)
(* share: the two layouts have an identical sub-layout with cells at equal depth (only then can anything be carried) *)

Fixpoint share (a b : skel) : bool :=
  (nodes_match a b && (0 <? count_cells a)) ||
  match a, b with
  | FnCall xs, FnCall ys =>
      (fix go (l : list skel) : bool :=
         match l with
         | [] => false
         | x :: l' => existsb (share x) ys || go l'
         end) xs
  | _, _ => false
  end.

Lemma share_unfold : forall a b,
  share a b = (nodes_match a b && (0 <? count_cells a)) ||
              match a, b with
              | FnCall xs, FnCall ys => existsb (fun x => existsb (share x) ys) xs
              | _, _ => false
              end.
Proof.
  intros a b. destruct a, b; reflexivity.
Qed.

Lemma share_same : forall s, 0 < count_cells s -> share s s = true.
Proof.
  intros s H. rewrite share_unfold, nodes_match_refl. apply N.ltb_lt in H. now rewrite H.
Qed.

Lemma no_share_no_cells : forall a b, share a b = false -> forall so dn, snd (bp a b so dn) = 0.
Proof.
  induction a as [l|x|x|xs IH] using skel_ind'; intros b H so dn; rewrite share_unfold in H;
    apply orb_false_elim in H as [H1 H2]; rewrite bp_unfold;
    (destruct (nodes_match _ b) eqn:E;
     [cbn [snd]; cbn [andb] in H1; apply N.ltb_ge in H1; lia|]); try reflexivity.
  destruct b as [l|x|x|ys]; try reflexivity.
  cbv zeta. cbn [snd]. rewrite collect_cells_commons.
  set (rs := lcs_by_score _ _ _). unfold wsum.
  assert (Z : forall c, In c (map (fun c => snd (table_at (mk_table xs ys so dn) (fst c) (snd c))) (commons rs)) -> c = 0).
  { intros c Hc. apply in_map_iff in Hc as ([i j] & <- & _). cbn [fst snd].
    destruct (Nat.lt_ge_cases i (length xs)) as [Hi|Hi];
      [destruct (Nat.lt_ge_cases j (length ys)) as [Hj|Hj]|];
      try (rewrite table_at_out by lia; reflexivity).
    rewrite (table_at_in _ _ _ _ _ _ (Mem 0) Hi Hj).
    rewrite Forall_forall in IH. apply IH; [now apply nth_In|].
    destruct (share (nth i xs (Mem 0)) (nth j ys (Mem 0))) eqn:S; [|reflexivity]. exfalso.
    assert (existsb (fun x => existsb (share x) ys) xs = true); [|congruence].
    apply existsb_exists. exists (nth i xs (Mem 0)). split; [now apply nth_In|].
    apply existsb_exists. exists (nth j ys (Mem 0)). split; [now apply nth_In|exact S]. }
  induction (map _ (commons rs)) as [|c l IHl]; [reflexivity|].
  rewrite sumN_cons, (Z c) by now left. rewrite IHl; [reflexivity|]. intros c' Hc'. apply Z. now right.
Qed.

Lemma no_share_cc : forall a b, share a b = false -> cc a b = 0.
Proof. intros a b H. unfold cc. now apply no_share_no_cells. Qed.
