(* StateTree/Unamb.v — identity form of the survivors clause for UNAMBIGUOUS mixed edits of the children of a call node:
   when the added-or-changed new children share no cell with any old child other than their own counterpart, every untouched
   new child is copied whole from an identical old child (and symmetrically). *)
From Coq Require Import List NArith Bool Lia Arith Sorted.
From Mimium Require Import Tables.StateTreeConsts StateTree.Model StateTree.Lemmas StateTree.Lcs
  StateTree.Apply StateTree.Embeds StateTree.Indep StateTree.Script.
Import ListNotations.
Local Open Scope N_scope.

(* every added new child shares nothing with any old child; every changed new child shares nothing with any old child other than
   the one it was changed from (`os` = all old children) *)
Fixpoint new_fresh (os : list skel) (sc : script) : Prop :=
  match sc with
  | [] => True
  | Ins n :: r => (forall a, In a os -> share a n = false) /\ new_fresh os r
  | Edit o n :: r => o <> n /\ (forall a, In a os -> a <> o -> share a n = false) /\ new_fresh os r
  | _ :: r => new_fresh os r
  end.

(* symmetrically for the removed / changed old children (`ns` = all new children) *)
Fixpoint old_fresh (ns : list skel) (sc : script) : Prop :=
  match sc with
  | [] => True
  | Del o :: r => (forall b, In b ns -> share o b = false) /\ old_fresh ns r
  | Edit o n :: r => o <> n /\ (forall b, In b ns -> b <> n -> share o b = false) /\ old_fresh ns r
  | _ :: r => old_fresh ns r
  end.

(* what the script's matching carries into each new child / out of each old child, and which of them are untouched with cells *)
Definition pos (c : skel) : N := if 0 <? count_cells c then 1 else 0.

Fixpoint caps (sc : script) : list N :=
  match sc with
  | [] => []
  | Same s :: r => count_cells s :: caps r
  | Del _ :: r => caps r
  | Ins _ :: r => 0 :: caps r
  | Edit o n :: r => cc o n :: caps r
  end.

Fixpoint ub (sc : script) : list N :=
  match sc with
  | [] => []
  | Same s :: r => pos s :: ub r
  | Del _ :: r => ub r
  | Ins _ :: r => 0 :: ub r
  | Edit _ _ :: r => 0 :: ub r
  end.

Fixpoint capsR (sc : script) : list N :=
  match sc with
  | [] => []
  | Same s :: r => count_cells s :: capsR r
  | Del _ :: r => 0 :: capsR r
  | Ins _ :: r => capsR r
  | Edit o n :: r => cc o n :: capsR r
  end.

Fixpoint ubR (sc : script) : list N :=
  match sc with
  | [] => []
  | Same s :: r => pos s :: ubR r
  | Del _ :: r => 0 :: ubR r
  | Ins _ :: r => ubR r
  | Edit _ _ :: r => 0 :: ubR r
  end.

(* value of the script's matching in the score table *)
Fixpoint kval (scl : N) (sc : script) : N :=
  match sc with
  | [] => 0
  | Same s :: r => scl * count_cells s + pos s + kval scl r
  | Edit o n :: r => scl * cc o n + kval scl r
  | _ :: r => kval scl r
  end.

Lemma kval_cols : forall scl sc, kval scl sc = scl * sumN (caps sc) + sumN (ub sc).
Proof.
  intros scl. induction sc as [|[s|o|n|o n] r IH]; cbn [kval caps ub]; rewrite ?sumN_cons, ?IH; try lia.
  change (sumN []) with 0. lia.
Qed.

Lemma kval_rows : forall scl sc, kval scl sc = scl * sumN (capsR sc) + sumN (ubR sc).
Proof.
  intros scl. induction sc as [|[s|o|n|o n] r IH]; cbn [kval capsR ubR]; rewrite ?sumN_cons, ?IH; try lia.
  change (sumN []) with 0. lia.
Qed.

Lemma pos_le : forall c, pos c <= 1.
Proof. intros c. unfold pos. destruct (0 <? _); lia. Qed.

Lemma ub_sum : forall sc, sumN (ub sc) <= N.of_nat (length (news sc)).
Proof.
  induction sc as [|[s|o|n|o n] r IH]; cbn [ub news length]; rewrite ?sumN_cons; try lia.
  - cbn. lia.
  - pose proof (pos_le s). lia.
Qed.

Lemma ubR_sum : forall sc, sumN (ubR sc) <= N.of_nat (length (olds sc)).
Proof.
  induction sc as [|[s|o|n|o n] r IH]; cbn [ubR olds length]; rewrite ?sumN_cons; try lia.
  - cbn. lia.
  - pose proof (pos_le s). lia.
Qed.

(* the DP sees the script's matching *)
Lemma reach_kval : forall scr, reach_ok scr (fun scl => kval scl scr).
Proof.
  induction scr as [|[s|o|n|o n] r IH].
  - apply reach_nil.
  - assert (Q : reach_ok (Same s :: r) (fun scl => (scl * count_cells s + pos s) + kval scl r)).
    { apply (reach_step_pair (Same s) s s r (fun scl => kval scl r) (fun scl => scl * count_cells s + pos s)); auto.
      intros scl so dn. rewrite pair_score_split. unfold te_bonus, te_cells. cbn [fst snd].
      rewrite nodes_match_refl, bp_unfold, nodes_match_refl. cbn [snd]. unfold pos. lia. }
    exact Q.
  - now apply reach_step_del.
  - now apply reach_step_ins.
  - assert (Q : reach_ok (Edit o n :: r) (fun scl => scl * cc o n + kval scl r)).
    { apply (reach_step_pair (Edit o n) o n r (fun scl => kval scl r) (fun scl => scl * cc o n)); auto.
      intros scl so dn. rewrite pair_score_split. unfold te_cells. cbn [fst snd]. rewrite bp_cc. lia. }
    exact Q.
Qed.

(* ------------------------------------------------------------------ *)
(* columns                                                             *)

Lemma cap_bound : forall os sc, new_fresh os sc ->
  forall j b, nth_error (news sc) j = Some b -> forall a, In a os -> cc a b <= nth j (caps sc) 0.
Proof.
  intros os. induction sc as [|[s|o|n|o n] r IH]; intros HF j b Hj a Ha; cbn [news caps new_fresh] in *.
  - destruct j; discriminate.
  - destruct j as [|j]; cbn [nth_error nth] in *.
    + injection Hj as <-. apply cc_le.
    + now apply (IH HF j b).
  - now apply (IH HF j b).
  - destruct HF as [H1 HF]. destruct j as [|j]; cbn [nth_error nth] in *.
    + injection Hj as <-. rewrite (no_share_cc a n (H1 a Ha)). lia.
    + now apply (IH HF j b).
  - destruct HF as (Hne & H1 & HF). destruct j as [|j]; cbn [nth_error nth] in *.
    + injection Hj as <-.
      destruct (nodes_match a o) eqn:Q.
      * apply nodes_match_eq in Q. subst a. lia.
      * rewrite (no_share_cc a n); [lia|]. apply H1; auto. intros ->. now rewrite nodes_match_refl in Q.
    + now apply (IH HF j b).
Qed.

Lemma ub_one : forall os sc, new_fresh os sc ->
  forall j b, nth_error (news sc) j = Some b -> In b os -> 0 < count_cells b -> nth j (ub sc) 0 = 1.
Proof.
  intros os. induction sc as [|[s|o|n|o n] r IH]; intros HF j b Hj Hb Hc; cbn [news ub new_fresh] in *.
  - destruct j; discriminate.
  - destruct j as [|j]; cbn [nth_error nth] in *.
    + injection Hj as <-. unfold pos. apply N.ltb_lt in Hc. now rewrite Hc.
    + now apply (IH HF j b).
  - now apply (IH HF j b).
  - destruct HF as [H1 HF]. destruct j as [|j]; cbn [nth_error nth] in *.
    + injection Hj as <-. specialize (H1 n Hb). rewrite (share_same n Hc) in H1. discriminate.
    + now apply (IH HF j b).
  - destruct HF as (Hne & H1 & HF). destruct j as [|j]; cbn [nth_error nth] in *.
    + injection Hj as <-. specialize (H1 n Hb (fun E => Hne (eq_sym E))).
      rewrite (share_same n Hc) in H1. discriminate.
    + now apply (IH HF j b).
Qed.

(* rows *)
Lemma capR_bound : forall ns sc, old_fresh ns sc ->
  forall i a, nth_error (olds sc) i = Some a -> forall b, In b ns -> cc a b <= nth i (capsR sc) 0.
Proof.
  intros ns. induction sc as [|[s|o|n|o n] r IH]; intros HF i a Hi b Hb; cbn [olds capsR old_fresh] in *.
  - destruct i; discriminate.
  - destruct i as [|i]; cbn [nth_error nth] in *.
    + injection Hi as <-. apply cc_le.
    + now apply (IH HF i a).
  - destruct HF as [H1 HF]. destruct i as [|i]; cbn [nth_error nth] in *.
    + injection Hi as <-. rewrite (no_share_cc o b (H1 b Hb)). lia.
    + now apply (IH HF i a).
  - now apply (IH HF i a).
  - destruct HF as (Hne & H1 & HF). destruct i as [|i]; cbn [nth_error nth] in *.
    + injection Hi as <-.
      destruct (nodes_match b n) eqn:Q.
      * apply nodes_match_eq in Q. subst b. lia.
      * rewrite (no_share_cc o b); [lia|]. apply H1; auto. intros ->. now rewrite nodes_match_refl in Q.
    + now apply (IH HF i a).
Qed.

Lemma ubR_one : forall ns sc, old_fresh ns sc ->
  forall i a, nth_error (olds sc) i = Some a -> In a ns -> 0 < count_cells a -> nth i (ubR sc) 0 = 1.
Proof.
  intros ns. induction sc as [|[s|o|n|o n] r IH]; intros HF i a Hi Ha Hc; cbn [olds ubR old_fresh] in *.
  - destruct i; discriminate.
  - destruct i as [|i]; cbn [nth_error nth] in *.
    + injection Hi as <-. unfold pos. apply N.ltb_lt in Hc. now rewrite Hc.
    + now apply (IH HF i a).
  - destruct HF as [H1 HF]. destruct i as [|i]; cbn [nth_error nth] in *.
    + injection Hi as <-. specialize (H1 o Ha). rewrite (share_same o Hc) in H1. discriminate.
    + now apply (IH HF i a).
  - now apply (IH HF i a).
  - destruct HF as (Hne & H1 & HF). destruct i as [|i]; cbn [nth_error nth] in *.
    + injection Hi as <-. specialize (H1 o Ha Hne).
      rewrite (share_same o Hc) in H1. discriminate.
    + now apply (IH HF i a).
Qed.

(* ------------------------------------------------------------------ *)

Lemma lex2 : forall sc WW BB CAP UB, BB < sc -> WW <= CAP -> sc * CAP + UB <= sc * WW + BB -> UB <= BB.
Proof.
  intros sc WW BB CAP UB HB HW H.
  destruct (N.lt_ge_cases WW CAP) as [L|L].
  - exfalso. assert (L' : WW + 1 <= CAP) by lia. pose proof (N.mul_le_mono_l _ _ sc L'). lia.
  - assert (WW = CAP) by lia. subst. lia.
Qed.

Section Main.
  Variables (scr : script) (so dn : N).
  Local Notation os := (olds scr).
  Local Notation ns := (news scr).
  Hypothesis E : nodes_match (FnCall os) (FnCall ns) = false.
  Local Notation T := (mk_table os ns so dn).
  Local Notation scl := (bp_scale os ns).
  Local Notation cs := (commons (lcs_by_score (length os) (length ns) (map (map (pair_score scl)) T))).
  Local Notation ent c := (tentry_at T (fst c) (snd c)).

  Lemma Hcs : StronglySorted lt2 cs.
  Proof. apply lcs_sorted. Qed.

  Lemma opt_split : dp_at (dp_table (length ns) (map (map (pair_score scl)) T)) (length os) (length ns) =
    scl * wsum (fun c => te_cells (ent c)) cs + wsum (fun c => te_bonus (ent c)) cs.
  Proof.
    rewrite <- lcs_value.
    induction cs as [|c l IH]; [unfold wsum; cbn; lia|].
    unfold wsum in *. cbn [map]. rewrite !sumN_cons, IH, pair_score_split. lia.
  Qed.

  Lemma opt_ge : kval scl scr <=
    dp_at (dp_table (length ns) (map (map (pair_score scl)) T)) (length os) (length ns).
  Proof.
    destruct (reach_kval scr scl [] [] so dn) as (v & R & B). cbn [app length] in R.
    apply reachb_bound in R. lia.
  Qed.

  Lemma entry_in : forall i j, (i < length os)%nat -> (j < length ns)%nat ->
    te_cells (ent (i, j)) = cc (nth i os (Mem 0)) (nth j ns (Mem 0)) /\
    snd (ent (i, j)) = nodes_match (nth i os (Mem 0)) (nth j ns (Mem 0)).
  Proof.
    intros i j Hi Hj. cbn [fst snd]. rewrite (tentry_at_in _ _ _ _ _ _ (Mem 0) Hi Hj).
    unfold te_cells. cbn [fst snd]. now rewrite bp_cc.
  Qed.

  Lemma exact_hit : forall i j c, In (i, j) cs -> te_bonus (ent (i, j)) = 1 -> nth_error ns j = Some c ->
    nth_error os i = Some c /\
    In (mkPatch (so + offs os i) (dn + offs ns j) (size c)) (fst (bp (FnCall os) (FnCall ns) so dn)).
  Proof.
    intros i j c Hin Hb Hj.
    assert (Lj : (j < length ns)%nat) by (apply nth_error_Some; congruence).
    assert (Li : (i < length os)%nat).
    { destruct (Nat.lt_ge_cases i (length os)); auto. exfalso.
      cbn [fst snd] in Hb. rewrite tentry_at_out in Hb by lia. cbn in Hb. lia. }
    destruct (entry_in i j Li Lj) as [_ Q]. unfold te_bonus in Hb. rewrite Q in Hb.
    destruct (nodes_match (nth i os (Mem 0)) (nth j ns (Mem 0))) eqn:M; [|lia].
    apply nodes_match_eq in M. rewrite (nth_error_nth _ _ (Mem 0) Hj) in M.
    split; [rewrite (nth_error_nth' os (Mem 0) Li); now rewrite M|].
    rewrite bp_unfold, E. cbv zeta. cbn [fst]. apply nodup_In.
    apply (In_collect _ _ (i, j)); [exact Hin|]. cbn [fst snd].
    rewrite (table_at_in _ _ _ _ _ _ (Mem 0) Li Lj), M, (nth_error_nth _ _ (Mem 0) Hj).
    rewrite bp_unfold, nodes_match_refl. now left.
  Qed.

  (* every untouched new child with cells is copied whole from an identical old child *)
  Theorem unamb_new : new_fresh os scr ->
    forall j c, nth_error ns j = Some c -> 0 < count_cells c -> In c os ->
    exists i, nth_error os i = Some c /\
      In (mkPatch (so + offs os i) (dn + offs ns j) (size c)) (fst (bp (FnCall os) (FnCall ns) so dn)).
  Proof.
    intros HF j c Hj Hc Hin.
    pose proof Hcs as HS.
    assert (Ssnd : StronglySorted (fun a b => (snd a < snd b)%nat) cs).
    { eapply SSorted_impl; [|exact HS]. intros a b [_ H]. exact H. }
    (* carried cells per column *)
    destruct (tight snd (fun c => te_cells (ent c)) (caps scr) cs O Ssnd) as [UW _].
    { intros [i' j'] _. split; [lia|].
      destruct (Nat.lt_ge_cases i' (length os)) as [Hi|Hi];
        [destruct (Nat.lt_ge_cases j' (length ns)) as [Hj'|Hj']|];
        try (cbn [fst snd]; rewrite tentry_at_out by lia; cbn; lia).
      destruct (entry_in i' j' Hi Hj') as [-> _]. cbn [snd].
      apply (cap_bound os scr HF j' (nth j' ns (Mem 0))); [now apply nth_error_nth'|now apply nth_In]. }
    rewrite pre_0 in UW.
    (* bonuses per column *)
    destruct (tight snd (fun c => te_bonus (ent c)) (ub scr) cs O Ssnd) as [UB TB].
    { intros [i' j'] _. split; [lia|].
      destruct (Nat.lt_ge_cases i' (length os)) as [Hi|Hi];
        [destruct (Nat.lt_ge_cases j' (length ns)) as [Hj'|Hj']|];
        try (cbn [fst snd]; rewrite tentry_at_out by lia; cbn; lia).
      destruct (entry_in i' j' Hi Hj') as [Q1 Q2]. unfold te_bonus. rewrite Q1, Q2. cbn [snd].
      destruct (nodes_match (nth i' os (Mem 0)) (nth j' ns (Mem 0))) eqn:M; [|lia].
      apply nodes_match_eq in M. destruct (N.ltb_spec 0 (cc (nth i' os (Mem 0)) (nth j' ns (Mem 0)))) as [L|L]; [|lia].
      rewrite M, cc_same in L.
      rewrite (ub_one os scr HF j' (nth j' ns (Mem 0))); [lia|now apply nth_error_nth'| |exact L].
      rewrite <- M. now apply nth_In. }
    rewrite pre_0 in UB, TB.
    pose proof opt_split as OS. pose proof opt_ge as OG. rewrite kval_cols in OG.
    pose proof (ub_sum scr) as US.
    assert (SC : scl = 2 * N.of_nat (length os + length ns + 1)) by reflexivity.
    assert (HB : wsum (fun c => te_bonus (ent c)) cs < scl) by lia.
    assert (GE : sumN (ub scr) <= wsum (fun c => te_bonus (ent c)) cs).
    { eapply (lex2 scl _ _ (sumN (caps scr))); [exact HB| |rewrite <- OS; exact OG]. lia. }
    destruct TB as [T1 T2]; [lia|].
    pose proof (ub_one os scr HF j c Hj Hin Hc) as U1.
    destruct (pr_dec snd cs j) as [([i0 j'] & Hin0 & Ej)|Hn];
      [|specialize (T2 j ltac:(lia) Hn); lia].
    cbn [snd] in Ej. subst j'. specialize (T1 _ Hin0). cbn [snd] in T1. rewrite U1 in T1.
    exists i0. now apply exact_hit.
  Qed.

  (* every untouched old child with cells is copied whole to an identical new child *)
  Theorem unamb_old : old_fresh ns scr ->
    forall i c, nth_error os i = Some c -> 0 < count_cells c -> In c ns ->
    exists j, nth_error ns j = Some c /\
      In (mkPatch (so + offs os i) (dn + offs ns j) (size c)) (fst (bp (FnCall os) (FnCall ns) so dn)).
  Proof.
    intros HF i c Hi Hc Hin.
    pose proof Hcs as HS.
    assert (Sfst : StronglySorted (fun a b => (fst a < fst b)%nat) cs).
    { eapply SSorted_impl; [|exact HS]. intros a b [H _]. exact H. }
    destruct (tight fst (fun c => te_cells (ent c)) (capsR scr) cs O Sfst) as [UW _].
    { intros [i' j'] _. split; [lia|].
      destruct (Nat.lt_ge_cases i' (length os)) as [Hi'|Hi'];
        [destruct (Nat.lt_ge_cases j' (length ns)) as [Hj'|Hj']|];
        try (cbn [fst snd]; rewrite tentry_at_out by lia; cbn; lia).
      destruct (entry_in i' j' Hi' Hj') as [-> _]. cbn [fst].
      apply (capR_bound ns scr HF i' (nth i' os (Mem 0))); [now apply nth_error_nth'|now apply nth_In]. }
    rewrite pre_0 in UW.
    destruct (tight fst (fun c => te_bonus (ent c)) (ubR scr) cs O Sfst) as [UB TB].
    { intros [i' j'] _. split; [lia|].
      destruct (Nat.lt_ge_cases i' (length os)) as [Hi'|Hi'];
        [destruct (Nat.lt_ge_cases j' (length ns)) as [Hj'|Hj']|];
        try (cbn [fst snd]; rewrite tentry_at_out by lia; cbn; lia).
      destruct (entry_in i' j' Hi' Hj') as [Q1 Q2]. unfold te_bonus. rewrite Q1, Q2. cbn [fst].
      destruct (nodes_match (nth i' os (Mem 0)) (nth j' ns (Mem 0))) eqn:M; [|lia].
      apply nodes_match_eq in M. destruct (N.ltb_spec 0 (cc (nth i' os (Mem 0)) (nth j' ns (Mem 0)))) as [L|L]; [|lia].
      rewrite <- M, cc_same in L.
      rewrite (ubR_one ns scr HF i' (nth i' os (Mem 0))); [lia|now apply nth_error_nth'| |exact L].
      rewrite M. now apply nth_In. }
    rewrite pre_0 in UB, TB.
    pose proof opt_split as OS. pose proof opt_ge as OG. rewrite kval_rows in OG.
    pose proof (ubR_sum scr) as US.
    assert (SC : scl = 2 * N.of_nat (length os + length ns + 1)) by reflexivity.
    assert (HB : wsum (fun c => te_bonus (ent c)) cs < scl) by lia.
    assert (GE : sumN (ubR scr) <= wsum (fun c => te_bonus (ent c)) cs).
    { eapply (lex2 scl _ _ (sumN (capsR scr))); [exact HB| |rewrite <- OS; exact OG]. lia. }
    destruct TB as [T1 T2]; [lia|].
    pose proof (ubR_one ns scr HF i c Hi Hin Hc) as U1.
    destruct (pr_dec fst cs i) as [([i' j0] & Hin0 & Ei)|Hn];
      [|specialize (T2 i ltac:(lia) Hn); lia].
    cbn [fst] in Ei. subst i'. specialize (T1 _ Hin0). cbn [fst] in T1. rewrite U1 in T1.
    assert (Lj : (j0 < length ns)%nat).
    { destruct (Nat.lt_ge_cases j0 (length ns)); auto. exfalso.
      cbn [fst snd] in T1. rewrite tentry_at_out in T1 by lia. cbn in T1. lia. }
    assert (Li : (i < length os)%nat) by (apply nth_error_Some; congruence).
    assert (Q : nth_error ns j0 = Some c).
    { destruct (entry_in i j0 Li Lj) as [_ Q]. unfold te_bonus in T1. cbn [fst snd] in T1, Q. rewrite Q in T1.
      destruct (nodes_match (nth i os (Mem 0)) (nth j0 ns (Mem 0))) eqn:M; [|lia].
      apply nodes_match_eq in M. rewrite (nth_error_nth _ _ (Mem 0) Hi) in M.
      rewrite (nth_error_nth' ns (Mem 0) Lj). now rewrite <- M. }
    exists j0. split; [exact Q|]. now apply (exact_hit i j0 c Hin0 T1 Q).
  Qed.
End Main.
